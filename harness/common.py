"""Shared machinery for the pydl/Coq checks.

Everything a per-property module (harness/props/cXX.py) needs:
  * locating the repository under test (PYDL_REPO, default /repo),
  * building Coq targets under a lock and a timeout,
  * evaluating generated case files with coqc (sharded, in parallel),
  * running the implementation in a subprocess with a pinned environment,
  * exact serialisation of numbers for Coq (Z, Q from float.hex),
  * evidence / replay / known-finding bookkeeping.
"""
import fcntl
import fractions
import hashlib
import json
import os
import random
import re
import shutil
import subprocess
import sys
import time
from concurrent.futures import ThreadPoolExecutor

VERIF = os.path.dirname(os.path.dirname(os.path.abspath(__file__)))
REPO = os.environ.get('PYDL_REPO', '/repo')
COQ = os.path.join(VERIF, 'coq')
WORK_ROOT = os.path.join(VERIF, '.work')
PY = '/venv/bin/python'
NPROC = int(os.environ.get('VERIF_JOBS', '16'))

FORBIDDEN = re.compile(
    r'\b(Admitted|admit|Axiom|Axioms|Parameter|Parameters|Conjecture|Conjectures)\b'
    r'|Unset\s+Guard|bypass_check|Admit\s+Obligations|-type-in-type|-impredicative-set'
    r'|Unset\s+Universe\s+Checking|Unset\s+Positivity')
SECTION_ONLY = re.compile(r'^\s*(Variable|Variables|Hypothesis|Hypotheses|Context)\b')


def log(*a):
    print(*a, file=sys.stderr, flush=True)


# --------------------------------------------------------------------------
# Coq text helpers
# --------------------------------------------------------------------------

def strip_comments(text):
    """Remove (* ... *) comments (nested) from Coq source."""
    out = []
    depth = 0
    i = 0
    n = len(text)
    while i < n:
        if text.startswith('(*', i):
            depth += 1
            i += 2
        elif depth and text.startswith('*)', i):
            depth -= 1
            i += 2
        else:
            if not depth:
                out.append(text[i])
            elif text[i] == '\n':
                out.append('\n')
            i += 1
    return ''.join(out)


def static_gate(paths=None):
    """Return a list of 'file:line: text' for forbidden constructs in coq/."""
    bad = []
    if paths is None:
        paths = []
        for root, _d, files in os.walk(COQ):
            for f in files:
                if f.endswith('.v'):
                    paths.append(os.path.join(root, f))
    for p in sorted(paths):
        try:
            src = strip_comments(open(p).read())
        except OSError:
            continue
        depth = 0
        for ln, line in enumerate(src.split('\n'), 1):
            if re.match(r'^\s*Section\b', line):
                depth += 1
            elif re.match(r'^\s*End\b', line) and depth:
                depth -= 1
            if FORBIDDEN.search(line):
                bad.append('%s:%d: %s' % (os.path.relpath(p, VERIF), ln, line.strip()))
            if depth == 0 and SECTION_ONLY.match(line):
                bad.append('%s:%d: (outside section) %s' % (os.path.relpath(p, VERIF), ln, line.strip()))
    return bad


def zlit(z):
    z = int(z)
    return '(%d)' % z if z < 0 else '%d' % z


def qlit(x):
    """Exact rational literal (num # den) for a float/Fraction/int."""
    if isinstance(x, float):
        fr = fractions.Fraction(x)  # exact for finite floats
    else:
        fr = fractions.Fraction(x)
    return '(%s # %d)' % (zlit(fr.numerator), fr.denominator)


def coq_list(items):
    return '[' + '; '.join(items) + ']'


def bytes_lit(b):
    if isinstance(b, str):
        b = b.encode('latin-1')
    return coq_list(['%d' % c for c in b])


def boollit(b):
    return 'true' if b else 'false'


def optlit(x, f):
    return 'None' if x is None else '(Some %s)' % f(x)


# --------------------------------------------------------------------------
# Coq build / evaluation
# --------------------------------------------------------------------------

class Lock:
    def __init__(self, path):
        self.path = path

    def __enter__(self):
        os.makedirs(os.path.dirname(self.path), exist_ok=True)
        self.f = open(self.path, 'w')
        fcntl.flock(self.f, fcntl.LOCK_EX)
        return self

    def __exit__(self, *a):
        fcntl.flock(self.f, fcntl.LOCK_UN)
        self.f.close()


def write_if_changed(path, text):
    try:
        if open(path).read() == text:
            return False
    except OSError:
        pass
    os.makedirs(os.path.dirname(path), exist_ok=True)
    tmp = path + '.tmp%d' % os.getpid()
    with open(tmp, 'w') as f:
        f.write(text)
    os.replace(tmp, path)
    return True


def restore_generated(relpath):
    """Source not recognised by a translator: put back the COMMITTED generated file (which corresponds to /repo
    at commit time), so that a file generated from some other tree by an earlier run cannot linger."""
    try:
        p = subprocess.run(['git', '-C', VERIF, 'show', 'HEAD:' + relpath], stdout=subprocess.PIPE, stderr=subprocess.DEVNULL, text=True)
        if p.returncode == 0 and p.stdout.strip():
            return write_if_changed(os.path.join(VERIF, relpath), p.stdout)
    except OSError:
        pass
    return False


def coq_project_refresh():
    """(Re)write _CoqProject and Makefile when the set of .v files changed."""
    vs = []
    for root, _d, files in os.walk(COQ):
        for f in files:
            if f.endswith('.v') and not f.startswith('.'):
                vs.append(os.path.relpath(os.path.join(root, f), COQ))
    vs.sort()
    text = '-R . PV\n-arg -w -arg -notation-overridden,-deprecated-hint-without-locality,-deprecated-instance-without-locality\n' + '\n'.join(vs) + '\n'
    changed = write_if_changed(os.path.join(COQ, '_CoqProject'), text)
    if changed or not os.path.exists(os.path.join(COQ, 'Makefile')):
        subprocess.run(['coq_makefile', '-f', '_CoqProject', '-o', 'Makefile'],
                       cwd=COQ, check=True, stdout=subprocess.DEVNULL, stderr=subprocess.DEVNULL)
    return changed


def _lib_targets():
    out = []
    d = os.path.join(COQ, 'Lib')
    for f in sorted(os.listdir(d)):
        if f.endswith('.v'):
            out.append('Lib/' + f[:-2] + '.vo')
    return out


def coq_make_keep_going(targets, timeout=1500, jobs=None):
    """After a failed build: rebuild everything of the targets' closure that CAN be built (`make -k`), so that the executable
    models (kept free of proofs) are compiled against the current Generated/ files and the correspondence run can still
    evaluate them.  The result of the failing files is ignored here (the failure was recorded by the caller)."""
    jobs = jobs or NPROC
    dirs = sorted(set(t.split('/')[0] for t in targets if '/' in t)) or ['all']
    locks = [Lock(os.path.join(COQ, '.lock-' + d)) for d in dirs]
    for l in locks:
        l.__enter__()
    try:
        subprocess.run(['timeout', str(timeout), 'make', '-k', '-j%d' % jobs] + list(targets), cwd=COQ,
                       stdout=subprocess.PIPE, stderr=subprocess.STDOUT, text=True)
    finally:
        for l in reversed(locks):
            l.__exit__()


def coq_make(targets, timeout=1500, jobs=None):
    """Build targets (paths relative to coq/, e.g. 'C06/Props.vo').
    The shared part (project files, Lib/) is built under a global lock; the
    property's own files under a per-directory lock, so that checks of different
    properties can build concurrently.  Returns (ok, log_text)."""
    jobs = jobs or NPROC
    with Lock(os.path.join(COQ, '.lock')):
        coq_project_refresh()
        p = subprocess.run(['timeout', str(timeout), 'make', '-j%d' % jobs] + _lib_targets(), cwd=COQ,
                           stdout=subprocess.PIPE, stderr=subprocess.STDOUT, text=True)
        if p.returncode != 0:
            return False, p.stdout
    dirs = sorted(set(t.split('/')[0] for t in targets if '/' in t)) or ['all']
    locks = [Lock(os.path.join(COQ, '.lock-' + d)) for d in dirs]
    for l in locks:
        l.__enter__()
    try:
        cmd = ['timeout', str(timeout), 'make', '-j%d' % jobs] + list(targets)
        p = subprocess.run(cmd, cwd=COQ, stdout=subprocess.PIPE, stderr=subprocess.STDOUT, text=True)
        return p.returncode == 0, p.stdout
    finally:
        for l in reversed(locks):
            l.__exit__()


def coqc_file(path, timeout=600, extra=()):
    cmd = ['timeout', str(timeout), 'coqc', '-R', COQ, 'PV', '-w', '-notation-overridden,-deprecated-hint-without-locality'] + list(extra) + [path]
    p = subprocess.run(cmd, stdout=subprocess.PIPE, stderr=subprocess.STDOUT, text=True,
                       cwd=os.path.dirname(path))
    return p.returncode, p.stdout


def parse_nat_list(out):
    """Parse the LAST '= [a; b; ...]' (or '= nil') answer printed by Eval."""
    m = list(re.finditer(r'=\s*(\[[^\]]*\]|nil)', out))
    if not m:
        return None
    s = m[-1].group(1)
    return [int(x) for x in re.findall(r'-?\d+', s)]


def parse_all_lists(out):
    res = []
    for m in re.finditer(r'=\s*(\[[^\]]*\]|nil)', out):
        res.append([int(x) for x in re.findall(r'-?\d+', m.group(1))])
    return res


class CoqCases:
    """Evaluate many cases inside Coq.

    header    : text placed at the top of every shard (Require Imports ...)
    case_terms: list of Coq terms of the property's `case` type
    evaluator : name of a Coq function  list case -> list Z  returning, for
                each case, a small integer verdict code (0 = agree/ok).
    Returns list of verdict codes (one per case) or raises CoqEvalError.
    """

    def __init__(self, workdir, header, evaluator, shard=300, timeout=900):
        self.workdir = workdir
        self.header = header
        self.evaluator = evaluator
        self.shard = shard
        self.timeout = timeout
        self.coq_seconds = 0.0

    def run(self, case_terms, tag='cases'):
        os.makedirs(self.workdir, exist_ok=True)
        shards = [case_terms[i:i + self.shard] for i in range(0, len(case_terms), self.shard)]
        files = []
        for k, sh in enumerate(shards):
            p = os.path.join(self.workdir, '%s_%04d.v' % (tag, k))
            with open(p, 'w') as f:
                f.write(self.header + '\n')
                f.write('Definition cases_%d := [\n  ' % k)
                f.write(';\n  '.join(sh))
                f.write('\n].\n')
                f.write('Eval vm_compute in (%s cases_%d).\n' % (self.evaluator, k))
            files.append(p)
        t0 = time.time()
        with ThreadPoolExecutor(max_workers=NPROC) as ex:
            outs = list(ex.map(lambda p: coqc_file(p, self.timeout), files))
        self.coq_seconds += time.time() - t0
        verdicts = []
        for (rc, out), sh, p in zip(outs, shards, files):
            if rc != 0:
                raise CoqEvalError('coqc failed on %s:\n%s' % (p, out[-3000:]))
            lst = parse_nat_list(out)
            if lst is None or len(lst) != len(sh):
                raise CoqEvalError('unparsable answer from %s (%r)' % (p, out[-500:]))
            verdicts.extend(lst)
        return verdicts

    def show(self, term, tag='show'):
        """Evaluate one arbitrary term and return Coq's printed answer."""
        os.makedirs(self.workdir, exist_ok=True)
        p = os.path.join(self.workdir, '%s_%d.v' % (tag, int(time.time() * 1000) % 100000000))
        with open(p, 'w') as f:
            f.write(self.header + '\nEval vm_compute in (%s).\n' % term)
        rc, out = coqc_file(p, self.timeout)
        return out.strip()


class CoqEvalError(Exception):
    pass


# --------------------------------------------------------------------------
# Running the implementation
# --------------------------------------------------------------------------

def impl_env():
    env = dict(os.environ)
    env['PYTHONPATH'] = REPO
    env['PYTHONHASHSEED'] = '0'
    env['PYDL_VERIF'] = '1'
    env['PYTHONDONTWRITEBYTECODE'] = '1'
    env['OMP_NUM_THREADS'] = '1'
    env['OPENBLAS_NUM_THREADS'] = '1'
    env['MPLBACKEND'] = 'Agg'
    env.pop('PYTHONSTARTUP', None)
    return env


def run_impl(script, payload, timeout=1800):
    """Run harness/impl/<script> under /venv python against REPO.
    payload (JSON-serialisable) goes to stdin; JSON result comes from stdout."""
    path = os.path.join(VERIF, 'harness', 'impl', script)
    p = subprocess.run([PY, path], input=json.dumps(payload), text=True,
                       stdout=subprocess.PIPE, stderr=subprocess.PIPE,
                       env=impl_env(), timeout=timeout, cwd=WORK_ROOT if os.path.isdir(WORK_ROOT) else VERIF)
    if p.returncode != 0:
        raise RuntimeError('impl runner %s failed (rc=%d):\n%s' % (script, p.returncode, p.stderr[-4000:]))
    try:
        return json.loads(p.stdout)
    except json.JSONDecodeError:
        raise RuntimeError('impl runner %s printed non-JSON:\n%s\n%s' % (script, p.stdout[-2000:], p.stderr[-2000:]))


def run_impl_parallel(script, payloads, timeout=1800):
    with ThreadPoolExecutor(max_workers=NPROC) as ex:
        return list(ex.map(lambda pl: run_impl(script, pl, timeout), payloads))


def impl_source(relpath):
    return open(os.path.join(REPO, relpath)).read()


# --------------------------------------------------------------------------
# Context, evidence, violations
# --------------------------------------------------------------------------

class Violation:
    def __init__(self, signature, summary, replay, failing_input_found=True):
        self.signature = signature          # stable string used by known_findings.json
        self.summary = summary              # one line
        self.replay = replay                # dict written to the replay file
        self.failing_input_found = failing_input_found


class Ctx:
    def __init__(self, pid, tier, seed):
        self.pid = pid
        self.tier = tier
        self.seed = seed
        self.rng = random.Random('%s-%s-%d' % (pid, tier, seed))
        self.t0 = time.time()
        self.work = os.path.join(WORK_ROOT, '%s-%d' % (pid, os.getpid()))
        if os.path.isdir(self.work):
            shutil.rmtree(self.work)
        os.makedirs(self.work)
        self.coverage = {}
        self.assumptions = []
        self.violations = []
        self.notes = []

    @property
    def thorough(self):
        return self.tier == 'thorough'

    def n(self, quick, thorough):
        return thorough if self.thorough else quick

    def violation(self, signature, summary, replay, failing_input_found=True):
        self.violations.append(Violation(signature, summary, replay, failing_input_found))

    def cleanup(self):
        if os.environ.get('VERIF_KEEP_WORK') != '1':
            shutil.rmtree(self.work, ignore_errors=True)


def load_known_findings():
    p = os.path.join(VERIF, 'known_findings.json')
    try:
        return json.load(open(p))
    except OSError:
        return {'findings': []}


def sha(text):
    return hashlib.sha256(text.encode()).hexdigest()[:12]


def float_to_q(x):
    return fractions.Fraction(x)


def dyadic(rng, lo, hi, bits=10):
    """Random short dyadic rational float in [lo, hi]."""
    k = 1 << bits
    a = int(lo * k)
    b = int(hi * k)
    return rng.randint(a, b) / k
