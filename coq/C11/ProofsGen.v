(* The hand-written stage model uses exactly the thresholds and index arithmetic that translate/c11.py extracts
   from the source of combine1fiber on every run (Generated/Combine1fiber.v). *)
From Coq Require Import QArith Qabs List Bool Arith Lia.
Import ListNotations.
From PV Require Import BSpline.Eval Generated.Combine1fiber C11.Model.
Open Scope Q_scope.

Lemma gen_EPS : c1f_EPS = EPS.
Proof. reflexivity. Qed.

Lemma gen_defaults : c1f_nord = 3%nat /\ c1f_maxsep_factor == 2 /\ c1f_bkptbin_factor == 12 # 10 /\
  c1f_pad_lo == 2 /\ c1f_pad_hi == 2 /\ c1f_slice_extra = 1%nat /\ c1f_smooth_width = 3%nat.
Proof. repeat split; reflexivity. Qed.

(* grouping: a cut after position i iff the difference to the next sorted good pixel is > maxsep *)
Lemma gen_gap_after maxsep : forall w,
  gap_after maxsep w =
  (fix go (w : list Q) : list bool :=
     match w with
     | [] => []
     | [a] => [true]
     | a :: ((b :: _) as r) => c1f_gap maxsep (b - a) :: go r
     end) w.
Proof. induction w as [|a [|b w] IH]; try reflexivity. cbn [gap_after]. f_equal. exact IH. Qed.

(* a group is fitted iff it has more than c1f_min_group pixels *)
Lemma gen_usable_size ss f : (length ss <=? c1f_min_group)%nat = true -> usable ss f = None.
Proof. unfold usable, c1f_min_group. intros ->. reflexivity. Qed.

Lemma gen_inside lo hi p : c1f_inside lo hi p = inside_b lo hi p.
Proof. reflexivity. Qed.

(* the mask test of the inverse-variance path *)
Lemma gen_smask inloglam wts comb these newloglam newmask :
  ivar_of_exposure inloglam wts comb these newloglam newmask =
  let xs := map (nthQ inloglam) these in
  let lo := lminQ xs in let hi := lmaxQ xs in
  let pv := map (fun i => (nthQ inloglam i, nthQ wts i * b2q (nthB comb i))) these in
  let pm := map (fun i => (nthQ inloglam i, b2q (nthB comb i))) these in
  map (fun t => let '(p, m) := t in
         if Qle_bool lo p && Qle_bool p hi then
           (if c1f_smask_ok (interp pm p) then interp pv p else 0) * b2q m
         else 0) (combine newloglam newmask).
Proof. reflexivity. Qed.

(* bad-region test and growth offsets *)
Lemma gen_grow v :
  grow v =
  let n := length v in
  let bad := map c1f_bad (smooth3 v) in
  let ibad := filter (fun i => nthB bad i) (seq 0 n) in
  let lower := map c1f_grow_lo ibad in
  let upper := map (c1f_grow_hi n) ibad in
  set_many upper (map (fun _ => 0) upper) (set_many lower (map (fun _ => 0) lower) v).
Proof. reflexivity. Qed.

(* ================================================================== round 5: more of the stage control *)
From Coq Require Import Lqa.
From PV Require Import BSpline.Fit BSpline.Iter C11.ProofsIvar.

(* the no-good-pixel branch: `if ngood == 0` returns the zero arrays *)
Lemma gen_no_good c fits : c1f_no_good (length (good_index c)) = true ->
  combine1fiber_model c fits = (map (fun _ => 0) (c_newloglam c), map (fun _ => 0) (c_newloglam c)).
Proof.
  unfold c1f_no_good. intro H. apply Nat.eqb_eq in H. apply no_good_pixel_all_zero.
  destruct (good_index c); [reflexivity | discriminate].
Qed.

(* `np.sum(np.absolute(sset.coeff)) == 0`  is  "every coefficient is zero" *)
Lemma sumabs_nonneg c : 0 <= fold_right (fun a acc => Qabs a + acc) 0 c.
Proof.
  induction c as [|a c IH]; cbn [fold_right]; [apply Qle_refl|].
  pose proof (Qabs_nonneg a). lra.
Qed.
Lemma gen_coeff_dead c : c1f_coeff_dead c = all_zero_coeff c.
Proof.
  unfold c1f_coeff_dead, all_zero_coeff. induction c as [|a c IH]; [reflexivity|].
  cbn [fold_right forallb]. rewrite <- IH.
  pose proof (sumabs_nonneg c) as Hs. revert Hs. generalize (fold_right (fun a acc => Qabs a + acc) 0 c). intros S Hs.
  apply Bool.eq_iff_eq_true. rewrite andb_true_iff, !Qeq_bool_iff. split.
  - revert Hs. apply (Qabs_case a); intros; split; lra.
  - intros [Ha HS]. rewrite HS. revert Ha. apply (Qabs_case a); intros; lra.
Qed.
Lemma gen_usable ss f : usable ss f =
  if (length ss <=? c1f_min_group)%nat then None
  else match f with Some g => if c1f_coeff_dead (g_coeff g) then None else Some g | None => None end.
Proof. unfold usable, c1f_min_group. destruct f as [g|]; [rewrite gen_coeff_dead|]; reflexivity. Qed.

(* the per-exposure range of the variance interpolation (no EPS there) *)
Lemma gen_inbetween inloglam wts comb these newloglam newmask :
  ivar_of_exposure inloglam wts comb these newloglam newmask =
  let xs := map (nthQ inloglam) these in
  let pv := map (fun i => (nthQ inloglam i, nthQ wts i * b2q (nthB comb i))) these in
  let pm := map (fun i => (nthQ inloglam i, b2q (nthB comb i))) these in
  map (fun t => let '(p, m) := t in
         if c1f_inbetween (lminQ xs) (lmaxQ xs) p then
           (if c1f_smask_ok (interp pm p) then interp pv p else 0) * b2q m
         else 0) (combine newloglam newmask).
Proof. reflexivity. Qed.

(* running median of the weights (2-D input): the width of the source *)
Lemma gen_median nspec specnum ivar :
  smooth_weights nspec specnum ivar =
  fold_left (fun iv j =>
      let idx := filter (fun i => (nth i specnum O =? j)%nat && Qltb 0 (nthQ ivar i)) (seq 0 (length ivar)) in
      set_many idx (median_filter c1f_median_width (map (nthQ ivar) idx)) iv)
    (seq 0 nspec) ivar.
Proof. reflexivity. Qed.

(* the chain model calls the fit with the keywords of the source and the defaults of iterfit() *)
Lemma gen_chain_fit sv bkspace c ss :
  chain_fit sv bkspace c ss =
  let ys := map (nthQ (c_flux c)) ss in
  let ws := match c_ivar c with
            | Some iv => map (nthQ (weights c)) ss
            | None => let w := default_invvar ys in map (fun _ => w) ss end in
  let ds := map (fun t : nat * Q => mkDatum (nthQ (c_inloglam c) (fst t)) (nthQ (c_flux c) (fst t)) (snd t)) (combine ss ws) in
  let bk := knots_of_option (OBkspace bkspace) (map dx ds) (c_k c) 1 in
  chain_loop sv (S c1f_iterfit_maxiter) c1f_requiren (c_k c) c1f_iterfit_lower c1f_iterfit_upper
             bk (map (fun _ => true) bk) ds (initial_mask ds).
Proof. reflexivity. Qed.

(* aesthetics('damp'): damping length, damp1 = min(mingood, l), damp2 = min(maxgood, l), the two conditions *)
Lemma gen_damp erfh flux iv :
  aesthetics_damp erfh flux iv =
  let bad := map (fun v => Qeq_bool v 0) iv in
  if forallb (fun b : bool => b) bad then flux
  else if existsb (fun b => b) bad then
    let good := filter (fun i => negb (nthB bad i)) (seq 0 (length iv)) in
    let mingood := hd O good in
    let maxgood := last good O in
    let n := length flux in
    let t1 := fun i : nat => if c1f_taper1_on mingood
                             then erfh ((qnat i - qnat mingood) / qnat (Nat.min mingood c1f_damp_len)) else 1 in
    let t2 := fun i : nat => if c1f_taper2_on maxgood n
                             then erfh ((qnat maxgood - qnat i) / qnat (Nat.max (Nat.min maxgood c1f_damp_len) c1f_damp2_floor)) else 1 in
    map (fun t : nat * Q => snd t * t1 (fst t) * t2 (fst t)) (combine (seq 0 n) (maskinterp_idx flux bad))
  else flux.
Proof. reflexivity. Qed.

(* preprocess_spectra hands rowloglam - logshift[iobj] to combine1fiber *)
Lemma gen_pp_shift s l : shift_grid s l = map (fun L => pp_shift L s) l.
Proof. reflexivity. Qed.
