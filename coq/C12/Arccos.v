(* C12 -- the arccos comparison of cap_distance is the algebraic cap test.
   Over Coq's axiomatic reals (Reals): cap_distance computes
       degrees (acos (1 - |cm|) - acos d),   negated when cm < 0,     d = x . p
   and is_in_cap tests  >= 0.  For -1 <= d <= 1 and 0 <= |cm| <= 2 this is
       cm >= 0 :  1 - d <= cm           cm < 0 :  1 - d >= |cm|
   (monotonicity of acos).  The two caps (x, c) and (x, -c) are therefore complementary
   except on the common boundary 1 - d = c, which the code assigns to both. *)
From Coq Require Import Reals Lra.
Open Scope R_scope.

Lemma acos_le_iff a b : -1 <= a <= 1 -> -1 <= b <= 1 -> (acos a <= acos b <-> b <= a).
Proof.
  intros Ha Hb.
  pose proof (acos_bound a) as Ba. pose proof (acos_bound b) as Bb.
  split; intro H.
  - rewrite <- (cos_acos a Ha), <- (cos_acos b Hb).
    apply cos_decr_1; lra.
  - apply cos_decr_0; try lra.
    rewrite (cos_acos a Ha), (cos_acos b Hb). exact H.
Qed.

(* degrees() multiplies by the positive constant 180/PI: it does not change the sign test *)
Definition degrees (r : R) : R := r * (180 / PI).

Lemma degrees_nonneg r : 0 <= degrees r <-> 0 <= r.
Proof.
  unfold degrees. assert (0 < 180 / PI) as K.
  { apply Rdiv_lt_0_compat; [lra | apply PI_RGT_0]. }
  split; intro H.
  - apply (Rmult_le_reg_r (180 / PI)); [exact K|]. lra.
  - apply Rmult_le_pos; lra.
Qed.

(* the code's formula *)
Definition cap_distance_R (cm d : R) : R :=
  let cdist := degrees (acos (1 - Rabs cm) - acos d) in
  if Rlt_dec cm 0 then cdist * -1 else cdist.

Lemma arccos_test_equiv d c : -1 <= d <= 1 -> 0 <= c <= 2 ->
  (acos (1 - c) - acos d >= 0 <-> 1 - d <= c).
Proof.
  intros Hd Hc.
  assert (-1 <= 1 - c <= 1) as H1 by lra.
  pose proof (acos_le_iff (1 - c) d H1 Hd) as E.
  split; intro H.
  - assert (acos d <= acos (1 - c)) as H' by lra.
    pose proof (acos_le_iff d (1 - c) Hd H1) as E'. apply E' in H'. lra.
  - pose proof (acos_le_iff d (1 - c) Hd H1) as E'.
    assert (acos d <= acos (1 - c)) by (apply E'; lra). lra.
Qed.

Lemma arccos_test_equiv_neg d c : -1 <= d <= 1 -> 0 <= c <= 2 ->
  (- (acos (1 - c) - acos d) >= 0 <-> c <= 1 - d).
Proof.
  intros Hd Hc.
  assert (-1 <= 1 - c <= 1) as H1 by lra.
  pose proof (acos_le_iff (1 - c) d H1 Hd) as E.
  split; intro H.
  - assert (acos (1 - c) <= acos d) as H' by lra. apply E in H'. lra.
  - assert (acos (1 - c) <= acos d) by (apply E; lra). lra.
Qed.

Theorem cap_distance_sign cm d : -1 <= d <= 1 -> -2 <= cm <= 2 ->
  (cap_distance_R cm d >= 0 <->
   if Rlt_dec cm 0 then - cm <= 1 - d else 1 - d <= cm).
Proof.
  intros Hd Hc. unfold cap_distance_R. cbv zeta.
  destruct (Rlt_dec cm 0) as [Hneg|Hpos].
  - rewrite (Rabs_left cm Hneg).
    pose proof (arccos_test_equiv_neg d (- cm) Hd ltac:(lra)) as E.
    pose proof (degrees_nonneg (- (acos (1 - - cm) - acos d))) as D.
    unfold degrees in *. split; intro H.
    + apply E. apply Rle_ge. apply D. lra.
    + apply E in H. apply Rge_le in H. apply D in H. lra.
  - rewrite (Rabs_right cm) by lra.
    pose proof (arccos_test_equiv d cm Hd ltac:(lra)) as E.
    pose proof (degrees_nonneg (acos (1 - cm) - acos d)) as D.
    unfold degrees in *. split; intro H.
    + apply E. apply Rle_ge. apply D. lra.
    + apply E in H. apply Rge_le in H. apply D in H. lra.
Qed.

(* with the dot product clipped to [-1, 1] (the proposed repair of cap_distance) the test is the
   algebraic one on the clipped value; for -1 <= d this is the test on d itself even if rounding
   pushed d above 1 *)
Definition clip (d : R) : R := Rmax (-1) (Rmin 1 d).

Lemma clip_bounds d : -1 <= clip d <= 1.
Proof.
  unfold clip. split; [apply Rmax_l|].
  apply Rmax_lub; [lra | apply Rmin_l].
Qed.

Lemma clip_id d : -1 <= d <= 1 -> clip d = d.
Proof. intros H. unfold clip. rewrite Rmin_right by lra. rewrite Rmax_right by lra. reflexivity. Qed.

Theorem cap_distance_clipped_sign cm d : -1 <= d -> -2 <= cm <= 2 ->
  (cap_distance_R cm (clip d) >= 0 <->
   if Rlt_dec cm 0 then - cm <= 1 - clip d else 1 - d <= cm).
Proof.
  intros Hd Hc.
  pose proof (cap_distance_sign cm (clip d) (clip_bounds d) Hc) as E.
  destruct (Rlt_dec cm 0) as [Hneg|Hpos]; [exact E|].
  destruct (Rle_dec d 1) as [Hle|Hgt].
  - rewrite clip_id in * by lra. exact E.
  - assert (clip d = 1) as C1.
    { unfold clip. rewrite Rmin_left by lra. rewrite Rmax_right by lra. reflexivity. }
    rewrite C1 in *. split; intro H; [lra|]. apply E. lra.
Qed.

(* complement, off the boundary *)
Theorem neg_cap_is_complement c d : -1 <= d <= 1 -> 0 < c <= 2 -> 1 - d <> c ->
  (cap_distance_R (- c) d >= 0 <-> ~ cap_distance_R c d >= 0).
Proof.
  intros Hd Hc Hb.
  rewrite (cap_distance_sign (- c) d Hd ltac:(lra)).
  rewrite (cap_distance_sign c d Hd ltac:(lra)).
  destruct (Rlt_dec (- c) 0) as [_|N]; [|lra].
  destruct (Rlt_dec c 0) as [N|_]; [lra|].
  split; intro H; lra.
Qed.

(* on the boundary the code reports "inside" for both signs *)
Theorem boundary_in_both c d : -1 <= d <= 1 -> 0 < c <= 2 -> 1 - d = c ->
  cap_distance_R (- c) d >= 0 /\ cap_distance_R c d >= 0.
Proof.
  intros Hd Hc Hb. split.
  - apply (cap_distance_sign (- c) d Hd ltac:(lra)). destruct (Rlt_dec (- c) 0); lra.
  - apply (cap_distance_sign c d Hd ltac:(lra)). destruct (Rlt_dec c 0); lra.
Qed.
