(* C09 proofs: assembled from BSpline/FitProofs.v, EvalProofs.v *)
From Coq Require Import QArith List Bool Arith Lia.
Import ListNotations.
From PV Require Import Lib.WLS BSpline.Eval BSpline.Fit BSpline.FitProofs.
Open Scope Q_scope.
