(* Yanny/TypeFacts.v -- the declaration the writer emits for a column is read back by
   type()/basetype()/isarray()/array_length()/char_length()/dtype() as the column's own type. *)
From Coq Require Import NArith ZArith List Bool Lia.
Import ListNotations.
From PV Require Import Yanny.Bytes Yanny.BytesFacts Yanny.Types Yanny.Parse Yanny.Render Yanny.TokenFacts Yanny.RowFacts.
Open Scope N_scope.

(* the type text type() returns for a column written by dtype_to_struct *)
Definition typ_of (es : list enumdecl) (c : column) : bytes :=
  match ctype_word es c with Some w => w ++ decl_suffix es c | None => [] end.
Definition is_arr (c : column) : bool := match c_arr c with Some l => 0 <? l | None => false end.
Definition kind_of (t : btype) : convk :=
  match t with TShort | TInt | TLong => KInt | TFloat | TDouble => KFloat | _ => KOther end.
Definition arr_suffix (c : column) : bytes := match c_arr c with Some l => if 0 <? l then brack l else [] | None => [] end.

Lemma brack_digits_only n : forallb (fun c => is_digit c || (c =? LBRACK) || (c =? RBRACK)) (brack n) = true.
Proof.
  unfold brack. cbn [forallb]. rewrite forallb_app. cbn [forallb].
  change (LBRACK =? LBRACK) with true. change (RBRACK =? RBRACK) with true. rewrite !orb_true_r. cbn [andb].
  rewrite andb_true_r. eapply forallb_impl; [|apply show_N_digits]. intros x ->. reflexivity.
Qed.

Lemma mem_brack d n : is_digit d = false -> (d =? LBRACK) = false -> (d =? RBRACK) = false -> mem d (brack n) = false.
Proof.
  intros H1 H2 H3. apply mem_false_forallb. eapply forallb_impl; [|apply brack_digits_only].
  intros x Hx. apply negb_true_iff. apply N.eqb_neq. intros ->. rewrite H1, H2, H3 in Hx. discriminate.
Qed.

Lemma arr_suffix_cases c : (is_arr c = false /\ arr_suffix c = []) \/ (exists l, c_arr c = Some l /\ is_arr c = true /\ arr_suffix c = brack l).
Proof.
  unfold is_arr, arr_suffix. destruct (c_arr c) as [l|]; [|now left]. destruct (0 <? l); [right; eauto|now left].
Qed.

Lemma mem_arr_suffix d c : is_digit d = false -> (d =? LBRACK) = false -> (d =? RBRACK) = false -> mem d (arr_suffix c) = false.
Proof.
  intros. destruct (arr_suffix_cases c) as [[_ ->]|[l [_ [_ ->]]]]; [reflexivity|now apply mem_brack].
Qed.

Lemma search_char_arr_no_c s : mem 99 s = false -> search_char_arr s = false.
Proof.
  induction s as [|x s IH]; [reflexivity|]. intros H. apply mem_cons_false in H as [Hx Hs].
  cbn [search_char_arr]. rewrite IH by auto. rewrite orb_false_r.
  unfold match_char_arr, KW_CHAR. cbn [prefix]. rewrite N.eqb_sym, Hx; try reflexivity.
Qed.

Lemma basetype_app word sfx : mem LBRACK word = false ->
  match sfx with c :: _ => c = LBRACK | [] => True end -> basetype (word ++ sfx) = word.
Proof.
  intros Hw Hs. unfold basetype. apply mem_false_forallb in Hw.
  assert (Hw' : forallb (not_c LBRACK) word = true) by (eapply forallb_impl; [|exact Hw]; auto).
  destruct sfx as [|c sfx].
  - rewrite app_nil_r. now rewrite span_all.
  - subst c. rewrite span_app_stop; auto; unfold not_c; now rewrite N.eqb_refl.
Qed.

Lemma arr_suffix_head c : match arr_suffix c with x :: _ => x = LBRACK | [] => True end.
Proof. destruct (arr_suffix_cases c) as [[_ ->]|[l [_ [_ ->]]]]; simpl; auto. Qed.

Lemma upper_no_lower s : existsb is_lower (upper s) = false.
Proof. induction s as [|c s IH]; [reflexivity|]. change (upper (c :: s)) with (upc c :: upper s). cbn [existsb]. rewrite upc_not_lower. exact IH. Qed.

Lemma upper_neq_kw s kw : existsb is_lower kw = true -> beq (upper s) kw = false.
Proof.
  intros H. apply beq_neq. intros E. rewrite <- E in H. rewrite upper_no_lower in H. discriminate.
Qed.

Lemma upper_mem_lower d s : is_lower d = true -> mem d (upper s) = false.
Proof.
  intros Hd. induction s as [|c s IH]; [reflexivity|]. change (upper (c :: s)) with (upc c :: upper s).
  unfold mem in *. cbn [existsb]. rewrite IH, orb_false_r.
  apply N.eqb_neq. intros ->. rewrite upc_not_lower in Hd. discriminate.
Qed.

(* the type word of a supported column *)
Inductive word_kind := WNum | WChar | WEnum.
Definition wkind (es : list enumdecl) (c : column) : option word_kind :=
  match c_type c with
  | TChar _ => match enum_for (c_name c) es with Some _ => Some WEnum | None => Some WChar end
  | TUnsup _ | TCharU => None
  | _ => Some WNum
  end.

Lemma enum_for_In c es e : enum_for c es = Some e -> In e es.
Proof.
  induction es as [|x es IH]; [discriminate|]. cbn [enum_for]. destruct (enum_for c es) as [e'|].
  - intros H. inversion H; subst. right. auto.
  - destruct (beq c (e_col x)); [|discriminate]. intros H. inversion H. now left.
Qed.

Lemma typ_of_num es c : In (c_type c) [TShort; TInt; TLong; TFloat; TDouble] ->
  exists kw, In kw [S_SHORT; S_INT; S_LONG; S_FLOAT; S_DOUBLE] /\ typ_of es c = kw ++ arr_suffix c /\
             classify (kw ++ arr_suffix c) = kind_of (c_type c).
Proof.
  intros H. unfold typ_of, ctype_word, decl_suffix, arr_suffix.
  assert (G : forall kw, In kw [S_SHORT; S_INT; S_LONG; S_FLOAT; S_DOUBLE] -> basetype (kw ++ arr_suffix c) = kw).
  { intros kw Hk. apply basetype_app; [|apply arr_suffix_head].
    cbn [In] in Hk. repeat (destruct Hk as [<-|Hk]; [reflexivity|]). contradiction. }
  cbn [In] in H.
  destruct H as [E|[E|[E|[E|[E|[]]]]]]; rewrite <- E; cbn [lookup np_code dtmap beq N.eqb Pos.eqb andb].
  - exists S_SHORT. split; [cbn; auto|]. split; [now rewrite app_nil_r|]. unfold classify. rewrite G by (cbn; auto). reflexivity.
  - exists S_INT. split; [cbn; auto|]. split; [now rewrite app_nil_r|]. unfold classify. rewrite G by (cbn; auto). reflexivity.
  - exists S_LONG. split; [cbn; auto 6|]. split; [now rewrite app_nil_r|]. unfold classify. rewrite G by (cbn; auto 6). reflexivity.
  - exists S_FLOAT. split; [cbn; auto 6|]. split; [now rewrite app_nil_r|]. unfold classify. rewrite G by (cbn; auto 6). reflexivity.
  - exists S_DOUBLE. split; [cbn; auto 7|]. split; [now rewrite app_nil_r|]. unfold classify. rewrite G by (cbn; auto 7). reflexivity.
Qed.

Lemma isarray_no_c word c : mem 99 word = false -> mem LBRACK word = false -> mem LT word = false ->
  isarray (word ++ arr_suffix c) = is_arr c.
Proof.
  intros H1 H2 H3. unfold isarray.
  assert (Hc : mem 99 (word ++ arr_suffix c) = false).
  { rewrite mem_app, H1. apply mem_arr_suffix; reflexivity. }
  rewrite search_char_arr_no_c by auto. unfold KW_CHAR. rewrite contains_no_head by auto.
  cbn [negb orb andb]. rewrite !mem_app, H2, H3. cbn [orb].
  destruct (arr_suffix_cases c) as [[-> ->]|[l [_ [-> ->]]]]; [reflexivity|].
  unfold brack. cbn [mem existsb]. reflexivity.
Qed.

Lemma span_digits_brack n rest : span is_digit (show_N n ++ RBRACK :: rest) = (show_N n, RBRACK :: rest).
Proof. apply span_app_stop; [apply show_N_digits|reflexivity]. Qed.

Lemma search_cons x s : search_char_arr (x :: s) = match_char_arr (x :: s) || search_char_arr s.
Proof. reflexivity. Qed.

Lemma isarray_char c w : isarray (S_CHAR ++ arr_suffix c ++ brack w) = is_arr c.
Proof.
  unfold isarray. destruct (arr_suffix_cases c) as [[-> ->]|[l [_ [-> ->]]]].
  - change (S_CHAR ++ [] ++ brack w) with (99 :: 104 :: 97 :: 114 :: brack w).
    rewrite search_cons.
    assert (M : match_char_arr (99 :: 104 :: 97 :: 114 :: brack w) = false).
    { unfold match_char_arr, KW_CHAR. cbn [prefix N.eqb Pos.eqb]. unfold brack.
      change (is_open LBRACK) with true. cbv iota. rewrite span_digits_brack. reflexivity. }
    rewrite M.
    assert (T : search_char_arr (104 :: 97 :: 114 :: brack w) = false).
    { apply search_char_arr_no_c. change (104 :: 97 :: 114 :: brack w) with ([104; 97; 114] ++ brack w).
      rewrite mem_app. cbn [mem existsb N.eqb Pos.eqb orb]. apply mem_brack; reflexivity. }
    rewrite T. cbn [orb].
    assert (C : contains KW_CHAR (99 :: 104 :: 97 :: 114 :: brack w) = true).
    { cbn [contains]. unfold starts_with, KW_CHAR. cbn [prefix N.eqb Pos.eqb]. reflexivity. }
    rewrite C. reflexivity.
  - change (S_CHAR ++ brack l ++ brack w) with (99 :: 104 :: 97 :: 114 :: brack l ++ brack w).
    rewrite search_cons.
    assert (M : match_char_arr (99 :: 104 :: 97 :: 114 :: brack l ++ brack w) = true).
    { unfold match_char_arr, KW_CHAR. cbn [prefix N.eqb Pos.eqb]. unfold brack. cbn [app].
      change (is_open LBRACK) with true. cbv iota. rewrite <- app_assoc. cbn [app]. rewrite span_digits_brack. cbn [snd].
      change (is_close RBRACK && is_open LBRACK) with true. cbv iota. rewrite span_digits_brack. reflexivity. }
    rewrite M. reflexivity.
Qed.

Lemma mem_word_chars d s : is_word d = false -> forallb is_word s = true -> mem d s = false.
Proof. apply word_mem. Qed.

Definition col_names_ok (es : list enumdecl) : Prop := forall e, In e es -> forallb is_word (e_tname e) = true.

Lemma decl_suffix_eq es c : decl_suffix es c =
  arr_suffix c ++ match c_type c, enum_for (c_name c) es with TChar w, None => brack w | _, _ => [] end.
Proof. reflexivity. Qed.

(* classification and array-ness of every supported column *)
Theorem typ_of_facts es c : col_names_ok es -> wkind es c <> None ->
  classify (typ_of es c) = kind_of (c_type c) /\ isarray (typ_of es c) = is_arr c.
Proof.
  intros Hes Hk. unfold wkind in Hk. destruct (c_type c) eqn:Et; try congruence.
  1-5: (destruct (typ_of_num es c) as [kw [Hin [-> Hc]]]; [rewrite Et; cbn; auto 7|]; rewrite Et in Hc; split; [exact Hc|];
        apply isarray_no_c; cbn [In] in Hin; repeat (destruct Hin as [<-|Hin]; [reflexivity|]); contradiction).
  unfold typ_of, ctype_word. rewrite decl_suffix_eq, Et.
  destruct (enum_for (c_name c) es) as [e|] eqn:Ee.
  - rewrite app_nil_r. pose proof (Hes e (enum_for_In _ _ _ Ee)) as Hw. pose proof (upper_word _ Hw) as Hu. split.
    + unfold classify. rewrite basetype_app; [|now apply word_mem|apply arr_suffix_head].
      rewrite !upper_neq_kw by reflexivity. reflexivity.
    + apply isarray_no_c; [now apply upper_mem_lower|now apply word_mem|now apply word_mem].
  - split.
    + unfold classify. rewrite basetype_app; [reflexivity|reflexivity|].
      destruct (arr_suffix_cases c) as [[_ ->]|[l [_ [_ ->]]]]; reflexivity.
    + apply isarray_char.
Qed.
