(* C04 -- spherematch returns exactly the pairs closer than the match length.
   Property theorems only; each is closed by `exact` and followed by Print Assumptions.
   The property itself (C04_spherematch_spec) is CONDITIONAL: `coverage` (geometry of chunks.getbounds /
   chunks.get: every pair closer than L shares the cell looked up for the list-1 point) and
   `is_sorting_perm` (numpy argsort sorts) are explicit premises; the correspondence run checks the second
   on every case and searches for counterexamples to the first. *)
From Coq Require Import ZArith QArith List Bool Arith Sorted Permutation.
Import ListNotations.
From PV Require Import C04.Model C04.Proofs.
Close Scope Q_scope. Close Scope Z_scope. Open Scope nat_scope.

(* the certified checker decides the C04 statement, in both directions *)
Theorem C04_match_ok_iff : forall n1 n2 sep L k out,
  match_ok n1 n2 sep L k out = true <-> C04_statement n1 n2 sep L k out.
Proof. exact match_ok_iff. Qed.
Print Assumptions C04_match_ok_iff.

(* the two-counter maxmatch loops, for every k and every candidate list sorted by separation:
   sub-list of the candidates, still sorted, no point more than k times, a candidate is omitted only if one
   endpoint is already used k times by no-farther selected pairs; count pass = fill pass *)
Theorem C04_greedy_spec : forall k cs,
  StronglySorted Qle (map cd cs) ->
  let out := greedy k cs in
  (forall c, In c out -> In c cs) /\
  StronglySorted Qle (map cd out) /\
  (NoDup (map pairof cs) -> NoDup (map pairof out)) /\
  (forall i, cnt1 out i <= k) /\
  (forall j, cnt2 out j <= k) /\
  (forall c, In c cs -> ~ In (pairof c) (map pairof out) ->
     k <= used1 out (ci c) (cd c) \/ k <= used2 out (ck c) (cd c)) /\
  length out = greedy_count k zero zero cs.
Proof. exact greedy_spec. Qed.
Print Assumptions C04_greedy_spec.

(* maxmatch = 0: for ANY sorting permutation (argsort's tie order is irrelevant) *)
Theorem C04_select_all_sorted : forall s cs,
  is_sorting_perm s cs = true ->
  Permutation (select_all s cs) cs /\ StronglySorted Qle (map cd (select_all s cs)).
Proof. exact select_all_sorted. Qed.
Print Assumptions C04_select_all_sorted.

(* chunks.assign: no index twice in a cell, and exactly the cells getbounds named (after the RA wrap);
   chunkDone and its reset loop drop out *)
Theorem C04_assign_no_dup : forall nRa bs x, NoDup (clist (assign_model nRa bs) x).
Proof. exact assign_no_dup. Qed.
Print Assumptions C04_assign_no_dup.

Theorem C04_assign_exact : forall nRa bs x k,
  In k (clist (assign_model nRa bs) x) <->
  exists b, nth_error bs k = Some (Some b) /\ In x (fill_cells nRa b).
Proof. exact assign_exact. Qed.
Print Assumptions C04_assign_exact.

Theorem C04_candidates_eq_brute : forall nRa bs n1 cell_of sep L,
  coverage nRa bs n1 cell_of sep L ->
  Permutation (candidates n1 cell_of (clist (assign_model nRa bs)) sep L) (brute n1 (length bs) sep L).
Proof. exact candidates_eq_brute. Qed.
Print Assumptions C04_candidates_eq_brute.

(* the property, conditional on coverage *)
Theorem C04_spherematch_spec : forall maxmatch nRa bs n1 cell_of sep L s,
  coverage nRa bs n1 cell_of sep L ->
  is_sorting_perm s (candidates n1 cell_of (clist (assign_model nRa bs)) sep L) = true ->
  match_ok n1 (length bs) sep L maxmatch (spherematch_model maxmatch nRa bs n1 cell_of sep L s) = true.
Proof. exact spherematch_spec. Qed.
Print Assumptions C04_spherematch_spec.

(* non-vacuity: a 2 x 2 instance satisfying coverage; and coverage cannot be dropped *)
Example C04_example_covered :
  let nRa := fun _ : Z => 3%Z in
  let bs := [Some (0%Z, [(0%Z, 1%Z)]); Some (0%Z, [(2%Z, 3%Z)])] in
  let cell_of := fun i : nat => if Nat.eqb i 0 then (0%Z, 0%Z) else (0%Z, 2%Z) in
  let sep := fun i k : nat => if Nat.eqb i k then (1 # 4)%Q else (3 # 2)%Q in
  spherematch_model 0 nRa bs 2 cell_of sep 1%Q [1; 0] = [(1, 1, (1 # 4)%Q); (0, 0, (1 # 4)%Q)] /\
  match_ok 2 2 sep 1%Q 0 (spherematch_model 0 nRa bs 2 cell_of sep 1%Q [1; 0]) = true.
Proof. split; vm_compute; reflexivity. Qed.

Example C04_coverage_needed :
  let nRa := fun _ : Z => 3%Z in
  let bs := [Some (0%Z, [(0%Z, 0%Z)])] in
  let cell_of := fun _ : nat => (0%Z, 2%Z) in
  let sep := fun _ _ : nat => (1 # 2)%Q in
  match_ok 1 1 sep 1%Q 0 (spherematch_model 0 nRa bs 1 cell_of sep 1%Q []) = false.
Proof. exact coverage_needed_example. Qed.

(* ================================================================== towards `coverage` *)
From Coq Require Import Reals Qround.
From PV Require Import C04.Geometry C04.Bounds.
Close Scope R_scope. Close Scope Q_scope. Close Scope Z_scope. Open Scope nat_scope.

(* ---- (1) spherical geometry over the classical reals (axioms: see Print Assumptions) ----
   dotp dp ap dq aq = p.q for the unit vectors with (declination, right ascension) (dp, ap), (dq, aq);
   "separation <= m"  is  cos m <= p.q,  equivalently  hav <= sin^2(m/2)  as gcirc computes it (hav_le_iff). *)
Theorem C04_dec_margin_covers : forall dp ap dq aq m : R,
  (- (PI / 2) <= dp <= PI / 2)%R -> (- (PI / 2) <= dq <= PI / 2)%R -> (0 <= m <= PI)%R ->
  (cos m <= dotp dp ap dq aq)%R ->
  (Rabs (dp - dq) <= m)%R.
Proof. exact dec_margin_covers. Qed.
Print Assumptions C04_dec_margin_covers.

(* the tangent-meridian bound = raMargin of the repaired getbounds *)
Theorem C04_ra_margin_covers : forall dp ap dq aq m : R,
  (- (PI / 2) <= dp <= PI / 2)%R -> (- (PI / 2) < dq < PI / 2)%R -> (0 <= m <= PI / 2)%R ->
  (sin m < cos dq)%R ->
  (cos m <= dotp dp ap dq aq)%R ->
  (- PI <= ap - aq <= PI)%R ->
  (Rabs (ap - aq) <= asin (sin m / cos dq))%R.
Proof. exact ra_margin_covers. Qed.
Print Assumptions C04_ra_margin_covers.

Theorem C04_hav_le_iff : forall dp ap dq aq m : R,
  (hav dp ap dq aq <= (sin (m / 2))²)%R <-> (cos m <= dotp dp ap dq aq)%R.
Proof. exact hav_le_iff. Qed.
Print Assumptions C04_hav_le_iff.

(* ---- (2) the discrete half, exact rationals, bounds as data ---- *)
(* the slice walk of getbounds visits every declination slice holding a declination within m of dec *)
Theorem C04_dec_coverage : forall (B : list Q) (nDec : nat) (dec m : Q) (c0 s : nat) (d' : Q),
  mono B nDec -> c0 < nDec -> s < nDec ->
  (qbnd B s <= d' <= qbnd B (S s))%Q -> (dec - d' < m)%Q -> (d' - dec < m)%Q ->
  dec_down B dec m c0 <= s <= dec_up B dec m nDec nDec c0.
Proof. exact dec_coverage. Qed.
Print Assumptions C04_dec_coverage.

(* the cell walk inside a slice, without wrap, and through the single wrap cell at either end *)
Theorem C04_ra_coverage : forall (B : list Q) (n : nat) (ra mg : Q) (c0 s : nat) (ra' : Q),
  mono B n -> c0 < n -> s < n ->
  (qbnd B s <= ra' <= qbnd B (S s))%Q -> (ra - ra' < mg)%Q -> (ra' - ra < mg)%Q ->
  (ra_down B ra mg c0 <= Z.of_nat s <= ra_up B ra mg n n c0)%Z.
Proof. exact ra_coverage. Qed.
Print Assumptions C04_ra_coverage.

Theorem C04_ra_coverage_seam : forall (B : list Q) (n : nat) (ra mg : Q) (c0 : nat) (ra' : Q),
  mono B n -> c0 < n ->
  ((qbnd B c0 <= ra <= qbnd B n)%Q -> (ra' + (qbnd B n - qbnd B 0) - ra < mg)%Q -> (qbnd B 0 <= ra')%Q ->
     ra_up B ra mg n n c0 = Z.of_nat n) /\
  ((qbnd B 0 <= ra)%Q -> (ra + (qbnd B n - qbnd B 0) - ra' < mg)%Q -> (ra' <= qbnd B n)%Q ->
     ra_down B ra mg c0 = (-1)%Z).
Proof.
  exact (fun B n ra mg c0 ra' Hm Hc =>
    conj (fun H1 H2 H3 => ra_coverage_seam_up B n ra mg c0 ra' Hm Hc H1 H2 H3)
         (fun H1 H2 H3 => ra_coverage_seam_down B n ra mg c0 ra' Hm Hc H1 H2 H3)).
Qed.
Print Assumptions C04_ra_coverage_seam.

(* get_in_bounds: floor binning returns a valid index, namely the cell that contains the point; and the bounds
   built from list 1 (3 + floor(range/w) cells, centred, declination clamped to +-90) contain every list-1 point *)
Theorem C04_get_in_bounds : forall (x lo hi : Q) (n : nat), (lo < hi)%Q -> 0 < n -> (lo <= x < hi)%Q ->
  (0 <= cell_index x lo hi n < Z.of_nat n)%Z /\
  (ebnd lo hi n (Z.to_nat (cell_index x lo hi n)) <= x < ebnd lo hi n (S (Z.to_nat (cell_index x lo hi n))))%Q.
Proof. exact (fun x lo hi n H1 H2 H3 => conj (cell_index_valid x lo hi n H1 H2 H3) (cell_index_slice x lo hi n H1 H2 H3)). Qed.
Print Assumptions C04_get_in_bounds.

Theorem C04_bounds_contain_list1 : forall a b w x : Q, (0 < w)%Q -> (a <= x <= b)%Q ->
  (pad_lo a b w <= x < pad_hi a b w)%Q /\ 3 <= pad_n a b w /\
  ((-(90) < x < 90)%Q -> (dec_lo a b w <= x < dec_hi a b w)%Q).
Proof.
  exact (fun a b w x Hw Hx => conj (ra_pad_covers a b w x Hw Hx)
          (conj (proj2 (proj2 (pad_covers a b w Hw (Qle_trans _ _ _ (proj1 Hx) (proj2 Hx)))))
                (fun Hr => dec_pad_covers a b w x Hw Hx Hr))).
Qed.
Print Assumptions C04_bounds_contain_list1.

(* ---- (2') from the two margin facts to `coverage`, exact arithmetic, away from the 0/360 seam ---- *)
Theorem C04_coverage_exact_nowrap : forall (decB : list Q) (raB : list (list Q)) (ra dec m mg : Q) (b : bnd)
                                           (s r : nat) (dec1 ra1 : Q),
  let nDec := length decB - 1 in
  let B := nth s raB [] in
  let n := length B - 1 in
  mono decB nDec -> mono B n ->
  getbounds_model decB raB ra dec m mg = Some b ->
  s < nDec -> (qbnd decB s <= dec1 <= qbnd decB (S s))%Q -> (dec - dec1 < m)%Q -> (dec1 - dec < m)%Q ->
  r < n -> (qbnd B r <= ra1 <= qbnd B (S r))%Q -> (ra - ra1 < mg)%Q -> (ra1 - ra < mg)%Q ->
  In (Z.of_nat s, Z.of_nat r) (fill_cells (nRa_of_bounds raB) b).
Proof. exact coverage_exact_nowrap. Qed.
Print Assumptions C04_coverage_exact_nowrap.

(* ---- (3) the index arithmetic regenerated from the source on every run (Generated/Chunks.v) is the model's ---- *)
From PV Require Import Generated.Chunks C04.GenProofs.
Theorem C04_generated_index_arithmetic :
  chunks_recognised = true /\
  (forall nRa d lo hi,
     row_cells nRa 1 d lo hi =
       flat_map (fun r => let c := gen_reset_wrap (nRa d) r in if gen_reset_valid (nRa d) c then (d, c) :: nil else nil)
                (zrange (gen_reset_from lo hi) (Z.to_nat (gen_reset_to lo hi - gen_reset_from lo hi))) /\
     row_cells nRa 0 d lo hi =
       flat_map (fun r => let c := gen_fill_wrap (nRa d) r in if gen_fill_valid (nRa d) c then (d, c) :: nil else nil)
                (zrange (gen_fill_from lo hi) (Z.to_nat (gen_fill_to lo hi - gen_fill_from lo hi)))) /\
  (forall x lo hi n,
     gen_gb_dec_index x lo hi (inject_Z (Z.of_nat n)) = cell_index x lo hi n /\
     gen_gb_ra_index x lo hi (inject_Z (Z.of_nat n)) = cell_index x lo hi n /\
     gen_get_dec_index x lo hi (inject_Z (Z.of_nat n)) = cell_index x lo hi n /\
     gen_get_ra_index x lo hi (inject_Z (Z.of_nat n)) = cell_index x lo hi n) /\
  (forall B x m,
     (forall c, dec_down B x m (S c) = if gen_dec_down_test x (qbnd B (S c)) m && gen_dec_down_guard (Z.of_nat (S c)) 0
                                        then dec_down B x m c else S c) /\
     (forall nDec f c, dec_up B x m nDec (S f) c =
                       if gen_dec_up_test x (qbnd B (S c)) m && gen_dec_up_guard (Z.of_nat c) (Z.of_nat nDec)
                       then dec_up B x m nDec f (S c) else c) /\
     (forall c, ra_down B x m (S c) = if gen_ra_down_test x (qbnd B (S c)) m then ra_down B x m c else Z.of_nat (S c)) /\
     (forall n f c, ra_up B x m n (S f) c = if (c <? n)%nat && gen_ra_up_test x (qbnd B (S c)) m then ra_up B x m n f (S c) else Z.of_nat c)).
Proof. exact generated_index_arithmetic. Qed.
Print Assumptions C04_generated_index_arithmetic.


(* ---- (3') the two maxmatch passes of spherematch() as extracted on this run are the reference transliteration, and one
   iteration of the reference passes tests both counters BEFORE incrementing them, as greedy_count / greedy_fill do ---- *)
From Coq Require Import String.
From PV Require Import C05.Imp C04.GreedyRef.
Open Scope string_scope.
Theorem C04_generated_greedy_is_reference :
  gen_greedy_enabled = ref_greedy_enabled /\
  gen_greedy_count_from = ref_greedy_count_from /\
  gen_greedy_count_to = ref_greedy_count_to /\
  gen_greedy_count_step = ref_greedy_count_step /\
  gen_greedy_count_var = ref_greedy_count_var /\
  gen_greedy_count_body = ref_greedy_count_body /\
  gen_greedy_fill_from = ref_greedy_fill_from /\
  gen_greedy_fill_to = ref_greedy_fill_to /\
  gen_greedy_fill_step = ref_greedy_fill_step /\
  gen_greedy_fill_var = ref_greedy_fill_var /\
  gen_greedy_fill_body = ref_greedy_fill_body.
Proof. exact generated_greedy_is_reference. Qed.
Print Assumptions C04_generated_greedy_is_reference.

Theorem C04_greedy_pass_specs : forall s,
  let p := rd s "s" (sv s "i") in
  let a := rd s "omatch1" p in
  let b := rd s "omatch2" p in
  let take := ((rd s "gotten1" a <? sv s "maxmatch") && (rd s "gotten2" b <? sv s "maxmatch"))%Z in
  (let s' := ref_greedy_count_body s in
   (forall x, rd s' "gotten1" x = if take then zupd (rd s "gotten1") a (rd s "gotten1" a + 1)%Z x else rd s "gotten1" x) /\
   (forall x, rd s' "gotten2" x = if take then zupd (rd s "gotten2") b (rd s "gotten2" b + 1)%Z x else rd s "gotten2" x) /\
   sv s' "nmatch" = if take then (sv s "nmatch" + 1)%Z else sv s "nmatch") /\
  (let s' := ref_greedy_fill_body s in
   (forall x, rd s' "gotten1" x = if take then zupd (rd s "gotten1") a (rd s "gotten1" a + 1)%Z x else rd s "gotten1" x) /\
   (forall x, rd s' "gotten2" x = if take then zupd (rd s "gotten2") b (rd s "gotten2" b + 1)%Z x else rd s "gotten2" x) /\
   (forall x, rd s' "match1" x = if take then zupd (rd s "match1") (sv s "nmatch") a x else rd s "match1" x) /\
   (forall x, rd s' "match2" x = if take then zupd (rd s "match2") (sv s "nmatch") b x else rd s "match2" x) /\
   (forall x, rd s' "distance12" x = if take then zupd (rd s "distance12") (sv s "nmatch") (rd s "odistance12" p) x else rd s "distance12" x) /\
   sv s' "nmatch" = if take then (sv s "nmatch" + 1)%Z else sv s "nmatch") /\
  (ref_greedy_count_from s = 0%Z /\ ref_greedy_count_to s = sv s "omatch1_size" /\ ref_greedy_count_step s = 1%Z /\
   ref_greedy_fill_from s = 0%Z /\ ref_greedy_fill_to s = sv s "omatch1_size" /\ ref_greedy_fill_step s = 1%Z /\
   ref_greedy_count_var = "i" /\ ref_greedy_fill_var = "i" /\ ref_greedy_enabled s = (sv s "maxmatch" >? 0)%Z).
Proof. exact greedy_pass_specs. Qed.
Print Assumptions C04_greedy_pass_specs.

(* ================================================================== round 5: `coverage` with the seam, the dropped
   points and the rotation; what decides the grid regenerated from the source *)
From Coq Require Import Reals Qround Qabs.
From PV Require Import C04.Sphere C04.SceneModel C04.Coverage C04.GridProofs.
Close Scope string_scope. Close Scope R_scope. Close Scope Q_scope. Close Scope Z_scope. Open Scope nat_scope.

(* ---- (4) spherical geometry, strict and on the circle (axioms: the classical reals, see Print Assumptions) ---- *)
(* separation < L  ==>  |ddec| < L *)
Theorem C04_dec_margin_strict : forall dp ap dq aq L : R,
  (- (PI / 2) <= dp <= PI / 2)%R -> (- (PI / 2) <= dq <= PI / 2)%R -> (0 <= L <= PI)%R ->
  (cos L < dotp dp ap dq aq)%R ->
  (Rabs (dp - dq) < L)%R.
Proof. exact dec_margin_strict. Qed.
Print Assumptions C04_dec_margin_strict.

(* separation < L  ==>  circular RA distance < asin (sin L / cos dec_q), for ANY two right ascensions in [0, 2 PI):
   the reduction of the RA difference modulo 360 degrees is part of the theorem, not a premise *)
Theorem C04_ra_margin_circ : forall dp ap dq aq L : R,
  (- (PI / 2) <= dp <= PI / 2)%R -> (- (PI / 2) < dq < PI / 2)%R -> (0 <= L <= PI / 2)%R ->
  (sin L < cos dq)%R ->
  (cos L < dotp dp ap dq aq)%R ->
  (0 <= ap < 2 * PI)%R -> (0 <= aq < 2 * PI)%R ->
  (circ ap aq < asin (sin L / cos dq))%R.
Proof. exact ra_margin_circ. Qed.
Print Assumptions C04_ra_margin_circ.

(* the margin fits in one RA cell of every slice the point visits when chunksize >= 4 matchlength:
   c = cosDecMin of the slice (cosine of its larger |edge|, which is at least |dec_q| - L because the slice was visited),
   w / c = the RA cell width chunks.__init__ aims at *)
Theorem C04_ra_margin_le_cell : forall L dq c w : R,
  (0 <= L <= PI / 2)%R -> (- (PI / 2) < dq < PI / 2)%R -> (sin L < cos dq)%R ->
  (0 < c <= 1)%R -> ((L <= Rabs dq)%R -> (c <= cos (Rabs dq - L))%R) ->
  (4 * L <= w)%R ->
  (asin (sin L / cos dq) <= w / c)%R.
Proof. exact ra_margin_le_cell. Qed.
Print Assumptions C04_ra_margin_le_cell.

Example C04_sphere_premises_satisfiable :
  let dp := 0%R in let ap := (1 / 10)%R in let dq := (1 / 20)%R in let aq := 6%R in let L := (1 / 2)%R in
  ((- (PI / 2) <= dp <= PI / 2) /\ (- (PI / 2) < dq < PI / 2) /\ (0 <= L <= PI / 2) /\ sin L < cos dq /\
   cos L < dotp dp ap dq aq /\ (0 <= ap < 2 * PI) /\ (0 <= aq < 2 * PI) /\ PI < Rabs (ap - aq))%R.
Proof. exact sphere_premises_example. Qed.
Example C04_cell_premises_satisfiable :
  let L := (1 / 10)%R in let dq := 1%R in let c := (1 / 2)%R in let w := 1%R in
  ((0 <= L <= PI / 2) /\ (- (PI / 2) < dq < PI / 2) /\ sin L < cos dq /\ (0 < c <= 1) /\
   (L <= Rabs dq -> c <= cos (Rabs dq - L)) /\ 4 * L <= w)%R.
Proof. exact cell_premises_example. Qed.

(* ---- (5) the discrete half with the seam (exact rationals, bounds as data) ---- *)
(* one pair, anywhere relative to RA 0/360: if the list-1 point lies in cell (s, r), within the declination margin and
   within the RA margin ON THE CIRCLE of a list-2 point for which getbounds succeeds, and the slice passes slice_ok
   (margin = whole circle, or slice spans 0..360 with end cells at least one margin wide, or slice clear of 0/360 by a
   margin), then (s, r) is among the cells the list-2 point is entered in -- through the wrap cell if need be *)
Theorem C04_coverage_exact : forall (decB : list Q) (raB : list (list Q)) (ra dec m mg : Q) (b : bnd)
                                    (s r : nat) (dec1 ra1 : Q),
  let nDec := List.length decB - 1 in
  let B := nth s raB [] in
  let n := List.length B - 1 in
  mono decB nDec -> mono B n -> (qbnd B 0 < qbnd B n)%Q ->
  getbounds_model decB raB ra dec m mg = Some b ->
  s < nDec -> (qbnd decB s <= dec1 <= qbnd decB (S s))%Q -> (dec - dec1 < m)%Q -> (dec1 - dec < m)%Q ->
  r < n -> (qbnd B r <= ra1 <= qbnd B (S r))%Q ->
  (0 <= ra < 360)%Q -> (0 <= ra1 < 360)%Q ->
  circ_ltb ra1 ra mg = true ->
  slice_ok B mg = true ->
  In (Z.of_nat s, Z.of_nat r) (fill_cells (nRa_of_bounds raB) b).
Proof. exact coverage_exact. Qed.
Print Assumptions C04_coverage_exact.

(* `coverage` itself, for the grid, the rotated coordinates and the margins of one call (a `scene`):
   scene_ok is DECIDED (evaluated in Coq on the recorded grid of every run); it contains only grid-level conditions
   (monotone bounds; every list-1 point inside the bounds of the cell get() computes; per list-2 point and visited
   slice slice_ok; a list-2 point getbounds drops has no list-1 point within its margins).
   margins_sound is what is left of the geometry: separation < L puts the pair within the two margins
   (C04_dec_margin_strict / C04_ra_margin_circ over the reals; the floating-point evaluation is not modelled). *)
Theorem C04_coverage_from_margins : forall (sc : scene) (sep : nat -> nat -> Q) (L : Q),
  scene_ok sc = true ->
  margins_sound sc sep L ->
  coverage (nRa_of_bounds (s_raB sc)) (scene_bounds sc) (List.length (s_p1 sc)) (scene_cell_of sc) sep L.
Proof. exact coverage_from_margins. Qed.
Print Assumptions C04_coverage_from_margins.

(* margins_sound has a per-case decision on a separation table (also evaluated on every run) *)
Theorem C04_margins_check_sound : forall sc sep L, margins_check sc sep L = true -> margins_sound sc sep L.
Proof. exact margins_check_sound. Qed.
Print Assumptions C04_margins_check_sound.

(* the property with `coverage` replaced by the decided grid conditions + the margins *)
Theorem C04_spherematch_spec_scene : forall maxmatch (sc : scene) sep L s,
  let nRa := nRa_of_bounds (s_raB sc) in
  let bs := scene_bounds sc in
  let n1 := List.length (s_p1 sc) in
  scene_ok sc = true ->
  margins_sound sc sep L ->
  is_sorting_perm s (candidates n1 (scene_cell_of sc) (clist (assign_model nRa bs)) sep L) = true ->
  match_ok n1 (List.length (s_p2 sc)) sep L maxmatch (spherematch_model maxmatch nRa bs n1 (scene_cell_of sc) sep L s) = true.
Proof. exact spherematch_spec_scene. Qed.
Print Assumptions C04_spherematch_spec_scene.

Example C04_seam_scene_covered :
  scene_ok seam_scene = true /\ margins_check seam_scene seam_sep 2%Q = true /\
  scene_bounds seam_scene = [Some (1%Z, [(3%Z, 4%Z)])] /\ scene_cell_of seam_scene 0 = (1%Z, 0%Z) /\
  spherematch_model 0 (nRa_of_bounds (s_raB seam_scene)) (scene_bounds seam_scene) 2 (scene_cell_of seam_scene)
                    seam_sep 2%Q [0] = [(0, 0, (3 # 2)%Q)].
Proof. exact seam_scene_example. Qed.

(* ---- (6) the rotation: both lists are rotated by the same raOffset with fmod(. + raOffset, 360); the rotated RA stays
   in [0, 360) and being neighbours on the circle is preserved, so margins_sound may be read on the unrotated RA ---- *)
Theorem C04_rotation_preserves_neighbours : forall a b o mg : Q,
  (0 <= a < 360)%Q -> (0 <= b < 360)%Q -> (0 <= o < 360)%Q -> (mg <= 360)%Q ->
  (0 <= ref_currRa a o < 360)%Q /\ (forall x, (-(360) <= x < 0)%Q -> (ref_wrapra x == x + 360)%Q) /\
  (circ_ltb (ref_currRa a o) (ref_currRa b o) mg = true <-> circ_ltb a b mg = true).
Proof.
  exact (fun a b o mg Ha Hb Ho Hm =>
    conj (currRa_range a o (conj (Qle_trans _ _ _ (Qle_minus_360_0) (proj1 Ha)) (proj2 Ha)) Ho)
         (conj wrapra_neg (iff_trans (circ_ltb_iff _ _ _) (iff_trans (circ_lt_rotate a b o mg Ha Hb Ho Hm) (iff_sym (circ_ltb_iff _ _ _)))))).
Qed.
Print Assumptions C04_rotation_preserves_neighbours.

(* ---- (7) what decides the grid, as extracted from the source on this run, is the reference transliteration of
   C04/SceneModel.v: rarange (NRA, start values, trial offsets, acceptance test with EPS), getraminmax / assign /
   spherematch (the fmod rotation), chunks.__init__ (nDec, padding, clamps at +-90, pinned bounds, per-slice nRa, padding,
   the four-way "embrace 0/360" test, the polar nRa = 1), the head of spherematch (chunk size default and floor), the
   pair filter `sep < matchlength` with units=2 and /3600, the guard of assign, the raMargin switch of getbounds ---- *)
Theorem C04_generated_grid_is_reference :
  (gen_rarange_nra = ref_rarange_nra /\ gen_rarange_init = ref_rarange_init /\ gen_rarange_offset = ref_rarange_offset /\
   gen_rarange_range = ref_rarange_range /\ gen_rarange_accept = ref_accept) /\
  (gen_wrapra = ref_wrapra /\ gen_currRa_init = ref_currRa /\ gen_currRa_assign = ref_currRa /\ gen_currRa_match = ref_currRa) /\
  (gen_init_decRange0 = ref_init_decRange0 /\ gen_init_nDec = ref_init_nDec /\ gen_init_decRange = ref_init_decRange /\
   gen_init_decMin = ref_init_decMin /\ gen_init_decMax = ref_init_decMax /\
   gen_init_clamp_decMin_test = ref_clamp_decMin_test /\ gen_init_clamp_decMin_val = (- (90))%Q /\
   gen_init_clamp_decMax_test = ref_clamp_decMax_test /\ gen_init_clamp_decMax_val = 90%Q /\
   gen_init_decBound = ref_init_decBound) /\
  (gen_init_rarange_arg = ref_init_rarange_arg /\ gen_init_raRange = ref_init_raRange /\
   gen_init_cos_of_lo = ref_init_cos_of_lo /\ gen_init_cos_bad = ref_init_cos_bad /\ gen_init_nRa = ref_init_nRa /\
   gen_init_raRangeTmp = ref_init_raRangeTmp /\ gen_init_raMinTmp = ref_init_raMinTmp /\
   gen_init_raMaxTmp = ref_init_raMaxTmp /\ gen_init_embrace = ref_embrace /\
   gen_init_embrace_lo = 0%Q /\ gen_init_embrace_hi = 360%Q /\ gen_init_polar = ref_polar /\ gen_init_polar_nRa = 1%Q /\
   gen_init_raBound = ref_init_raBound) /\
  (gen_chunksize_default = ref_chunksize_default /\ gen_chunksize_small = ref_chunksize_small /\
   gen_chunksize_floor = ref_chunksize_floor /\ gen_pair_units = 2%Z /\ gen_pair_scale = 3600%Q /\
   gen_pair_test = ref_pair_test /\ gen_assign_guard = ref_assign_guard /\ gen_ramargin_full = 360%Q /\
   (forall m s c, gen_ramargin_cap_clear m s c = true -> (s < c)%Q)).
Proof. exact generated_grid_is_reference. Qed.
Print Assumptions C04_generated_grid_is_reference.

(* the chunk size spherematch() passes on is at least 4 matchlength (the side condition of C04_ra_margin_le_cell is
   established by the code itself), so the guard of assign() never raises for a positive match length; and the pair
   filter extracted from the source is the strict `<` the candidates of the model use *)
Theorem C04_chunksize_admissible : forall (cs : option Q) (L : Q),
  (4 * L <= eff_chunksize cs L)%Q /\
  ((0 < L)%Q -> ref_assign_guard L (eff_chunksize cs L) = false) /\
  (forall sep, ref_pair_test sep L = Qlt_bool sep L).
Proof. exact (fun cs L => conj (eff_chunksize_ge cs L) (conj (assign_guard_clear cs L) (fun sep => eq_refl))). Qed.
Print Assumptions C04_chunksize_admissible.

Example C04_chunksize_examples :
  eff_chunksize None (1 # 100) = dbl_0_1 /\ eff_chunksize (Some 5%Q) 2%Q = (4 * 2)%Q /\ eff_chunksize (Some 9%Q) 2%Q = 9%Q /\
  (let r := rarange_model [350; 355; 5; 10]%Q 2%Q in Qeq_bool (fst r) 20 && Qeq_bool (snd r) 60) = true.
Proof. exact chunksize_examples. Qed.
