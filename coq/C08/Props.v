(* C08 -- B-spline evaluation equals the Cox-de Boor spline of its knots and coefficients.
   Property theorems only; each is closed by `exact` and followed by Print Assumptions.
   Models: BSpline/Eval.v -- knots_of_option (bspline.__init__), intrv, bsplvn, value (with the sorting
   permutation as argument), point_mask; specification: the textbook recursion B / Bl and spline. *)
From Coq Require Import QArith ZArith List Bool Arith.
Import ListNotations.
From PV Require Import Lib.WLS BSpline.Eval BSpline.EvalProofs BSpline.CoxDeBoor BSpline.BasisProofs
  BSpline.KnotsProofs BSpline.PermProofs BSpline.ActionProofs BSpline.WindowProofs Generated.BSpline BSpline.GenBridge C08.Model C08.Proofs.
Open Scope Q_scope.

(* ---- the basis: non-negative, sums to one (every order, every knot vector, loop invariant of BSPLVN) *)
Theorem C08_bsplvn_partition_of_unity : forall t k x l,
  nondecr t -> (1 <= k)%nat -> (k - 1 <= l)%nat -> (l + k <= length t)%nat ->
  nthQ t l < nthQ t (S l) -> sumQ (bsplvn t k x l) == 1.
Proof. exact bsplvn_partition_of_unity. Qed.
Print Assumptions C08_bsplvn_partition_of_unity.

Theorem C08_bsplvn_nonneg : forall t k x l,
  nondecr t -> (1 <= k)%nat -> (k - 1 <= l)%nat -> (l + k <= length t)%nat ->
  nthQ t l < nthQ t (S l) -> nthQ t l <= x -> x <= nthQ t (S l) ->
  Forall (fun a => 0 <= a) (bsplvn t k x l).
Proof. exact bsplvn_nonneg. Qed.
Print Assumptions C08_bsplvn_nonneg.

(* ---- BSPLVN computes the Cox-de Boor basis functions: EVERY order k (induction on the order) *)
Theorem C08_bsplvn_is_coxdeboor : forall t k x l, nondecr t -> (1 <= k)%nat -> (k - 1 <= l)%nat ->
  (l + k < length t)%nat -> nthQ t l <= x -> x < nthQ t (S l) ->
  forall r, (r < k)%nat -> nthQ (bsplvn t k x l) r == B t (k - 1) (l - (k - 1) + r) x.
Proof. exact bsplvn_is_coxdeboor. Qed.
Print Assumptions C08_bsplvn_is_coxdeboor.

Theorem C08_bsplvn_is_coxdeboor_left : forall t k x l, nondecr t -> (1 <= k)%nat -> (k - 1 <= l)%nat ->
  (l + k < length t)%nat -> nthQ t l < x -> x <= nthQ t (S l) ->
  forall r, (r < k)%nat -> nthQ (bsplvn t k x l) r == Bl t (k - 1) (l - (k - 1) + r) x.
Proof. exact bsplvn_is_coxdeboor_left. Qed.
Print Assumptions C08_bsplvn_is_coxdeboor_left.

(* ---- interval search: left-open interval (t_l, t_{l+1}], clamped at both ends; on sorted input the
   running walk equals the point-by-point search *)
Theorem C08_intrv1_spec : forall gb k x, (1 <= k)%nat -> (2 * k <= length gb)%nat ->
  let n := (length gb - k)%nat in
  let l := intrv1 gb k x in
  (k - 1 <= l <= n - 1)%nat /\ ((k - 1 < l)%nat -> nthQ gb l < x) /\ ((l < n - 1)%nat -> x <= nthQ gb (S l)).
Proof. exact intrv1_spec. Qed.
Print Assumptions C08_intrv1_spec.

Theorem C08_intrv_spec : forall gb k xs, nondecr gb -> (1 <= k)%nat -> (2 * k <= length gb)%nat ->
  sortedQ xs = true ->
  Forall2 (fun x l => (k - 1 <= l <= length gb - k - 1)%nat /\
                      ((k - 1 < l)%nat -> nthQ gb l < x) /\
                      ((l < length gb - k - 1)%nat -> x <= nthQ gb (S l)))
          xs (intrv gb k xs).
Proof. exact intrv_spec. Qed.
Print Assumptions C08_intrv_spec.

(* ---- evaluation of one point = value of the spline (orders >= 2, distinct knots: whole breakpoint range) *)
Theorem C08_value_is_spline : forall gb k c x,
  incr gb -> (2 <= k)%nat -> (2 * k <= length gb)%nat -> length c = (length gb - k)%nat ->
  nthQ gb (k - 1) <= x -> x <= nthQ gb (length gb - k) ->
  eval1 gb k c x == spline gb c k x.
Proof. exact value_is_spline. Qed.
Print Assumptions C08_value_is_spline.

(* every order incl. 1, knots merely non-decreasing: the code's value is the left-continuous spline on
   (t_{k-1}, t_n] and the right-continuous one at t_{k-1}; they differ only for order 1 at knots
   (or on repeated knots) *)
Theorem C08_eval1_is_spline_left : forall gb k c x,
  nondecr gb -> (1 <= k)%nat -> (2 * k <= length gb)%nat -> length c = (length gb - k)%nat ->
  nthQ gb (k - 1) < x -> x <= nthQ gb (length gb - k) ->
  eval1 gb k c x == spline_left gb c k x.
Proof. exact eval1_is_spline_left. Qed.
Print Assumptions C08_eval1_is_spline_left.

Theorem C08_eval1_is_spline_at_left_end : forall gb k c x,
  nondecr gb -> (1 <= k)%nat -> (2 * k <= length gb)%nat -> length c = (length gb - k)%nat ->
  x == nthQ gb (k - 1) -> nthQ gb (k - 1) < nthQ gb k ->
  eval1 gb k c x == spline gb c k x.
Proof. exact eval1_is_spline_at_left_end. Qed.
Print Assumptions C08_eval1_is_spline_at_left_end.

Theorem C08_spline_left_eq_spline : forall t c k x,
  (forall i, (S i < length t)%nat -> nthQ t i < nthQ t (S i)) ->
  (2 <= k)%nat -> length c = (length t - k)%nat -> spline_left t c k x == spline t c k x.
Proof. exact spline_left_eq_spline. Qed.
Print Assumptions C08_spline_left_eq_spline.

(* ---- value(): in the caller's order, whatever the order of the points *)
Theorem C08_value_in_caller_order : forall bk k coeff xs perm,
  (1 <= k)%nat -> (2 * k <= length bk)%nat -> length coeff = (length bk - k)%nat ->
  is_perm perm (length xs) = true -> sortedQ (apply_perm 0 perm xs) = true ->
  value bk (repeat true (length bk)) k coeff xs perm
  = (map (eval1 bk k coeff) xs, map (point_mask bk (repeat true (length bk)) k) xs).
Proof. exact value_in_caller_order. Qed.
Print Assumptions C08_value_in_caller_order.

Theorem C08_value_perm_equivariant : forall bk k coeff xs q p p',
  (1 <= k)%nat -> (2 * k <= length bk)%nat -> length coeff = (length bk - k)%nat ->
  is_perm q (length xs) = true ->
  is_perm p (length xs) = true -> sortedQ (apply_perm 0 p xs) = true ->
  is_perm p' (length (apply_perm 0 q xs)) = true -> sortedQ (apply_perm 0 p' (apply_perm 0 q xs)) = true ->
  let bm := repeat true (length bk) in
  value bk bm k coeff (apply_perm 0 q xs) p'
  = (apply_perm 0 q (fst (value bk bm k coeff xs p)), apply_perm true q (snd (value bk bm k coeff xs p))).
Proof. exact value_perm_equivariant. Qed.
Print Assumptions C08_value_perm_equivariant.

(* ---- action(): for a non-decreasing interval-index vector the rows lower..upper of segment s are exactly the
   points whose interval is s + k - 1; the empty default (0, -1) selects nothing *)
Theorem C08_action_ranges_spec : forall idx k nseg s,
  nondecr_nat idx -> (s < nseg)%nat ->
  let v := (s + (k - 1))%nat in
  let '(lo, hi) := nth s (action_ranges idx k nseg) (0%Z, (-1)%Z) in
  forall p, (p < length idx)%nat ->
    (nth_error idx p = Some v <-> (lo <= Z.of_nat p <= hi)%Z).
Proof. exact action_ranges_spec. Qed.
Print Assumptions C08_action_ranges_spec.

(* ---- validity mask while no breakpoint is masked: False exactly outside [t_{k-1}, t_n] *)
Theorem C08_mask_spec : forall bk k x,
  point_mask bk (repeat true (length bk)) k x = false <->
  (x < nthQ bk (k - 1) \/ nthQ bk (length bk - k) < x).
Proof. exact mask_spec. Qed.
Print Assumptions C08_mask_spec.

(* ---- knot construction, one theorem per breakpoint option: non-decreasing, k-1 extra knots each side of
   the nshort >= 2 breakpoints, data range covered (exact arithmetic; single precision is a tolerance of
   the correspondence run) *)
Theorem C08_knots_spec_bkpt : forall b xs k s,
  xs <> [] -> 0 <= s -> (1 <= k)%nat -> incr b -> (2 <= length b)%nat ->
  let t := knots_of_option (OBkpt b) xs k s in
  nondecr t /\ (exists nshort, (2 <= nshort)%nat /\ length t = (nshort + 2 * (k - 1))%nat) /\
  nthQ t (k - 1) <= lminQ xs /\ lmaxQ xs <= nthQ t (length t - k).
Proof. exact knots_spec_bkpt. Qed.
Print Assumptions C08_knots_spec_bkpt.

Theorem C08_knots_spec_placed : forall p xs k s,
  xs <> [] -> lminQ xs < lmaxQ xs -> 0 <= s -> (1 <= k)%nat -> incr p ->
  let t := knots_of_option (OPlaced p) xs k s in
  nondecr t /\ (exists nshort, (2 <= nshort)%nat /\ length t = (nshort + 2 * (k - 1))%nat) /\
  nthQ t (k - 1) <= lminQ xs /\ lmaxQ xs <= nthQ t (length t - k).
Proof. exact knots_spec_placed. Qed.
Print Assumptions C08_knots_spec_placed.

Theorem C08_knots_spec_bkspace : forall sp xs k s,
  xs <> [] -> lminQ xs < lmaxQ xs -> 0 <= s -> (1 <= k)%nat -> 0 < sp ->
  let t := knots_of_option (OBkspace sp) xs k s in
  (nondecr t /\ (exists nshort, (2 <= nshort)%nat /\ length t = (nshort + 2 * (k - 1))%nat) /\
   nthQ t (k - 1) <= lminQ xs /\ lmaxQ xs <= nthQ t (length t - k)) /\
  nthQ t (k - 1) == lminQ xs /\ nthQ t (length t - k) == lmaxQ xs.
Proof. exact knots_spec_bkspace. Qed.
Print Assumptions C08_knots_spec_bkspace.

Theorem C08_knots_spec_nbkpts : forall nb xs k s,
  xs <> [] -> lminQ xs < lmaxQ xs -> 0 <= s -> (1 <= k)%nat ->
  let t := knots_of_option (ONbkpts nb) xs k s in
  (nondecr t /\ (exists nshort, (2 <= nshort)%nat /\ length t = (nshort + 2 * (k - 1))%nat) /\
   nthQ t (k - 1) <= lminQ xs /\ lmaxQ xs <= nthQ t (length t - k)) /\
  nthQ t (k - 1) == lminQ xs /\ nthQ t (length t - k) == lmaxQ xs.
Proof. exact knots_spec_nbkpts. Qed.
Print Assumptions C08_knots_spec_nbkpts.

Theorem C08_knots_spec_everyn : forall e xs k s,
  xs <> [] -> 0 <= s -> (1 <= k)%nat -> incr xs -> (1 <= e)%nat -> (2 <= length xs / e)%nat ->
  let t := knots_of_option (OEveryn e) xs k s in
  nondecr t /\ (exists nshort, (2 <= nshort)%nat /\ length t = (nshort + 2 * (k - 1))%nat) /\
  nthQ t (k - 1) <= lminQ xs /\ lmaxQ xs <= nthQ t (length t - k).
Proof. exact knots_spec_everyn. Qed.
Print Assumptions C08_knots_spec_everyn.

Theorem C08_pad_middle : forall b k s i, (i < length b)%nat -> nthQ (pad b k s) (k - 1 + i) = nthQ b i.
Proof. exact pad_middle. Qed.
Print Assumptions C08_pad_middle.

(* ---- the specification checker of the correspondence run evaluates exactly the textbook recursion *)
Theorem C08_checker_splineq_is_spline : forall t c k x, splineq t c k x == spline t c k x.
Proof. exact splineq_eq. Qed.
Print Assumptions C08_checker_splineq_is_spline.

Theorem C08_checker_splineq_left_is_spline_left : forall t c k x, splineq_left t c k x == spline_left t c k x.
Proof. exact splineq_left_eq. Qed.
Print Assumptions C08_checker_splineq_left_is_spline_left.

(* ---- the reference models are built from exactly the index / comparison / constant arithmetic that translate/c08.py
   extracts from bspline.py on every run (Generated/BSpline.v) *)
Theorem C08_generated_knots : forall s e p b xs k sp nb startx rangex xmin xmax,
  raw_bkpt (OBkspace s) xs = equispaced (bs_nbkpts_of_bkspace (lmaxQ xs - lminQ xs) s) (lminQ xs) (lmaxQ xs - lminQ xs) /\
  equispaced nb startx rangex =
    map (fun i => Qred (bs_equi_point i (bs_nbkpts_clamp nb) startx rangex)) (seq 0 (bs_nbkpts_clamp nb)) /\
  raw_bkpt (OEveryn e) xs =
    (let nx := length xs in let nb := bs_everyn_nb nx e in
     if bs_everyn_single nb then [nthQ xs 0] else map (fun i => nthQ xs (bs_everyn_pos nx nb i)) (seq 0 nb)) /\
  raw_bkpt (OPlaced p) xs =
    (let startx := lminQ xs in let rangex := lmaxQ xs - startx in
     let w := filter (bs_placed_keep startx rangex) p in
     if bs_placed_too_few (length w) then [Qred startx; Qred (rangex + startx)] else w) /\
  (bs_cover_independent = true /\
   cover b xmin xmax =
   match b with
   | [] => []
   | a :: r =>
       let imin := argminQ r 1 0 a in
       let imax := argmaxQ r 1 0 a in
       let b1 := if bs_cover_lo xmin (nthQ b imin) then set_nth imin xmin b else b in
       if bs_cover_hi xmax (nthQ b1 imax) then set_nth imax xmax b1 else b1
   end) /\
  pad b k sp =
    (let spc := if bs_pad_single (length b) then sp else bs_pad_spacing (nthQ b 0) (nthQ b 1) sp in
     let idx := seq bs_pad_first (bs_pad_stop k - bs_pad_first) in
     map (fun i => Qred (bs_pad_lo (nthQ b 0) spc (inject_Z (Z.of_nat i)))) (rev idx) ++ b ++
     map (fun i => Qred (bs_pad_hi (nthQ b (length b - 1)) spc (inject_Z (Z.of_nat i)))) idx) /\
  length (seq bs_pad_first (bs_pad_stop k - bs_pad_first)) = (k - 1)%nat.
Proof.
  exact (fun s e p b xs k sp nb startx rangex xmin xmax =>
    conj (gen_raw_bkspace s xs) (conj (gen_equispaced nb startx rangex) (conj (gen_raw_everyn e xs)
    (conj (gen_raw_placed p xs) (conj (gen_cover b xmin xmax) (conj (gen_pad b k sp) (gen_pad_count k))))))).
Qed.
Print Assumptions C08_generated_knots.

Theorem C08_generated_intrv : forall f gb k xs n x i,
  intrv gb k xs = intrv_walk gb (bs_intrv_n (length gb) k) xs (bs_intrv_start k) /\
  advance (S f) gb n x i =
    (if bs_intrv_advance x (nthQ gb (bs_intrv_next i)) i n then advance f gb n x (bs_intrv_next i) else i).
Proof. exact (fun f gb k xs n x i => conj (gen_intrv gb k xs) (gen_advance f gb n x i)). Qed.
Print Assumptions C08_generated_intrv.

Theorem C08_generated_bsplvn : forall s j k l gb x v dp dmr a p m prev r,
  (bs_bsplvn_continue j k = true <-> (j < k - 1)%nat) /\
  bsplvn_loop (S s) j gb x l v dp dmr =
    (let dp' := dp ++ [bs_deltap (nthQ gb (bs_ipj l j)) x] in
     let dmr' := bs_deltam (nthQ gb (bs_imj l j)) x :: dmr in
     bsplvn_loop s (S j) gb x l (pass v dp' dmr' 0) dp' dmr') /\
  pass (a :: v) (p :: dp) (m :: dmr) prev =
    Qred (bs_vnew (Qred (bs_vm a p m)) p prev) :: pass v dp dmr (Qred (bs_vmprev (Qred (bs_vm a p m)) m)) /\
  (bs_dm_index j r = (j - r)%nat /\ bs_inner_count j = S j).
Proof.
  exact (fun s j k l gb x v dp dmr a p m prev r =>
    conj (gen_bsplvn_steps j k) (conj (gen_bsplvn_loop s j gb x l v dp dmr)
    (conj (gen_pass_step a v p dp m dmr prev) (gen_bsplvn_indices j r)))).
Qed.
Print Assumptions C08_generated_bsplvn.

Theorem C08_generated_action_value : forall s k n nx bb lo hi gb x,
  ((1 <= k)%nat -> bs_action_slot (Z.of_nat (s + (k - 1))) (Z.of_nat k) = Z.of_nat s) /\
  (bs_action_upper_default = (-1)%Z /\ bs_action_nseg n k = (n - k + 1)%nat /\
   (forall nbkpt, bs_action_too_few nbkpt k = (nbkpt <? 2 * k)%nat)) /\
  ((bb < nx)%nat -> bs_action_lower_pos (Z.of_nat nx) (Z.of_nat bb) = Z.of_nat (nx - 1 - bb)) /\
  (bs_value_ict_nonempty (bs_value_ict hi lo) = (lo <=? hi)%Z /\ bs_value_slice_stop hi = (hi + 1)%Z) /\
  in_range_mask gb k x =
    negb (bs_value_outside x (nthQ gb (bs_value_lo_index k)) (nthQ gb (bs_value_hi_index (bs_value_n (length gb) k)))) /\
  bs_value_unsort_is_scatter = true.
Proof.
  exact (fun s k n nx bb lo hi gb x =>
    conj (gen_action_slot s k) (conj (gen_action_defaults n k) (conj (gen_action_lower_pos nx bb)
    (conj (gen_value_ict lo hi) (conj (gen_in_range gb k x) gen_value_unsort))))).
Qed.
Print Assumptions C08_generated_action_value.

(* non-vacuity: a cubic knot vector built by the nbkpts option satisfies the hypotheses; basis sums to one *)
(* ---- round 5 *)
(* locality: the value at x in (t_l, t_{l+1}] is the one-interval evaluation on the window of the 2k knots t_{l-k+1} .. t_{l+k}
   and the k coefficients c_{l-k+1} .. c_l, and that is the Cox-de Boor spline of the window AND of the whole knot vector.
   (What lets the check judge splines with > 100000 intervals point by point: C08.Model.CWin.) *)
Theorem C08_value_is_local : forall gb k c x l, nondecr gb -> (1 <= k)%nat -> (2 * k <= length gb)%nat ->
  length c = (length gb - k)%nat -> (k - 1 <= l)%nat -> (l + k < length gb)%nat ->
  nthQ gb l < x -> x <= nthQ gb (S l) ->
  eval1 gb k c x = eval_at (window l k gb) k (cwindow l k c) x (k - 1) /\
  eval1 gb k c x == spline_left (window l k gb) (cwindow l k c) k x /\
  spline_left gb c k x == spline_left (window l k gb) (cwindow l k c) k x.
Proof. exact eval1_window. Qed.
Print Assumptions C08_value_is_local.

(* the interval search returns THE left-open interval that holds x *)
Theorem C08_intrv1_unique : forall gb k x l, nondecr gb -> (1 <= k)%nat -> (2 * k <= length gb)%nat ->
  (k - 1 <= l)%nat -> (l + k < length gb)%nat -> nthQ gb l < x -> x <= nthQ gb (S l) -> intrv1 gb k x = l.
Proof. exact intrv1_unique. Qed.
Print Assumptions C08_intrv1_unique.

(* generated on every run: the masked-breakpoint gap logic of value() and the neighbour comparison of pydl.uniq as action()
   uses it (exact inequality of an item and its successor) *)
Theorem C08_generated_gaps_uniq : forall bk bmask k x a b r ia ib,
  gaps bk (a :: b :: r) =
    (if bs_value_gap_test a b then (nthQ bk a, nthQ bk (bs_value_gap_hi_index b)) :: gaps bk (b :: r) else gaps bk (b :: r)) /\
  point_mask bk bmask k x =
    (in_range_mask (select bmask bk) k x &&
     forallb (fun g => negb (bs_value_gap_inside x (fst g) (snd g))) (gaps bk (good_positions bmask 0))) /\
  (bs_uniq_differs (Z.of_nat ia) (Z.of_nat ib) = negb (ia =? ib)%nat /\ bs_uniq_shift = (-1)%Z).
Proof.
  exact (fun bk bmask k x a b r ia ib =>
    conj (gen_value_gaps bk a b r) (conj (gen_value_gap_inside bk bmask k x) (gen_uniq_differs ia ib))).
Qed.
Print Assumptions C08_generated_gaps_uniq.

(* non-vacuity of the locality theorem: a cubic spline on 12 knots, x = 11/2 in (t_5, t_6], window = knots 2 .. 9 *)
Example C08_example_window :
  let gb := [0; 1; 2; 3; 4; 5; 6; 7; 8; 9; 10; 11] in
  let c := [3; -1; 4; 1; -5; 9; 2; -6] in
  Qeq_bool (eval1 gb 4 c (11 # 2)) (eval_at (window 5 4 gb) 4 (cwindow 5 4 c) (11 # 2) 3) &&
  Qeq_bool (eval1 gb 4 c (11 # 2)) (splineq_left [2; 3; 4; 5; 6; 7; 8; 9] [4; 1; -5; 9] 4 (11 # 2)) = true.
Proof. vm_compute. reflexivity. Qed.

Example C08_example :
  let xs := [0; 1#2; 3; 9] in
  let gb := knots_of_option (ONbkpts 4) xs 4 1 in
  gb = [-9; -6; -3; 0; 3; 6; 9; 12; 15; 18] /\ intrv1 gb 4 (5#2) = 3%nat /\
  Qeq_bool (sumQ (bsplvn gb 4 (5#2) 3)) 1 = true /\
  Qeq_bool (eval1 gb 4 [1;2;3;4;5;6] (5#2)) (spline gb [1;2;3;4;5;6] 4 (5#2)) = true.
Proof. vm_compute. repeat split; reflexivity. Qed.
