(* Yanny/TypedefLayout.v -- the struct typedef blocks of a file in ANY layout that the reader's typedef scanners read
   as the table's columns (td_reads): the composition theorem parse_items for such files.  What a read returns then
   differs from sem d only in the typedef TEXTS it reports (pd_structs = the texts as they stand in the file). *)
From Coq Require Import NArith ZArith List Bool Lia.
Import ListNotations.
From PV Require Import Yanny.Bytes Yanny.BytesFacts Yanny.Types Yanny.Parse Yanny.Render
  Yanny.TokenFacts Yanny.RowFacts Yanny.TypeFacts Yanny.DocFacts Yanny.LayoutFacts Yanny.ScanFacts Yanny.StructFacts
  Yanny.EnumFacts Yanny.DtypeFacts Yanny.FileFacts Yanny.RoundTrip.
Open Scope N_scope.

(* the typedef "typedef struct {" body "} name;" is read as the declaration of table t:
   the pre-passes isolate it (item_good), its trailing name is the table's name in some letter case, the declaration
   scanner finds exactly the table's column names, and the type lookup gives every column its declared type *)
Definition td_reads (es : list enumdecl) (t : table) (body name : bytes) : Prop :=
  item_good (ITd KW_STRUCT body name) /\
  upper name = upper (t_name t) /\
  struct_columns body = map c_name (t_cols t) /\
  forall c, In c (t_cols t) -> find_type (c_name c) (td_text KW_STRUCT body name) = Some (typ_of es c).

Definition sentry (bn : bytes * bytes) : bytes * bytes * bytes :=
  (upper (snd bn), fst bn, td_text KW_STRUCT (fst bn) (snd bn)).
Definition btext (bn : bytes * bytes) : bytes := td_text KW_STRUCT (fst bn) (snd bn).

(* the typedef "typedef enum {" body "} name;" is read as the enum e: isolated by the pre-passes, and the enum scanner
   returns exactly the type name (as the struct declarations spell it) and the labels *)
Definition etd_reads (e : enumdecl) (body name : bytes) : Prop :=
  item_good (ITd KW_ENUM body name) /\
  enum_entry (td_text KW_ENUM body name) = Some (upper (e_tname e), e_labels e).
Definition ebtext (bn : bytes * bytes) : bytes := td_text KW_ENUM (fst bn) (snd bn).

(* the same meaning up to the typedef texts *)
Definition with_texts (p : pdoc) (etexts stexts : list bytes) : pdoc := mkpdoc (pd_pairs p) etexts stexts (pd_tables p).

Lemma struct_entry_td body name : seg_ok (Td KW_STRUCT body name) -> struct_entry (td_text KW_STRUCT body name) = Some (sentry (body, name)).
Proof.
  intros [Hkw [Hb [Hr [Hn [Hw _]]]]]. unfold struct_entry.
  rewrite <- (app_nil_r (td_text KW_STRUCT body name)) at 1. rewrite (match_typedef_text KW_STRUCT body name []); auto.
Qed.

Lemma map_Forall2 {A B C} (R : A -> B -> Prop) (f : A -> C) (g : B -> C) la lb :
  Forall2 R la lb -> (forall a b, In a la -> In b lb -> R a b -> f a = g b) -> map f la = map g lb.
Proof.
  induction 1 as [|a b la lb Hab _ IH]; intros H; [reflexivity|]. cbn [map]. f_equal.
  - apply H; [now left|now left|exact Hab].
  - apply IH. intros x y Hx Hy. apply H; now right.
Qed.

Lemma names_distinct_map (f : bytes * bytes -> bytes * bytes * bytes) l :
  distinct (map (fun x => fst (fst (f x))) l) = true -> names_distinct (map f l) = true.
Proof.
  induction l as [|x l IH]; [reflexivity|]. cbn [map distinct names_distinct]. intros H. apply andb_true_iff in H as [H1 H2].
  rewrite IH by auto. rewrite andb_true_r. apply negb_true_iff. apply negb_true_iff in H1.
  destruct (existsb (fun e' => beq (fst (fst e')) (fst (fst (f x)))) (map f l)) eqn:E; [|reflexivity].
  apply existsb_exists in E as [e [He Ee]]. apply in_map_iff in He as [y [<- Hy]]. apply beq_eq in Ee.
  assert (X : existsb (beq (fst (fst (f x)))) (map (fun x => fst (fst (f x))) l) = true).
  { apply existsb_exists. exists (fst (fst (f y))). split; [now apply (in_map (fun x => fst (fst (f x))))|]. rewrite Ee. apply beq_refl. }
  congruence.
Qed.

Theorem build_symtab_td es tws bns :
  distinct (map (fun tw => upper (t_name (fst tw))) tws) = true ->
  Forall2 (fun tw bn => td_reads es (fst tw) (fst bn) (snd bn)) tws bns ->
  build_symtab (map sentry bns) = sy_of es tws.
Proof.
  intros Hd H. unfold build_symtab.
  set (structs := map sentry bns).
  set (nm := fun e : bytes * bytes * bytes => fst (fst e)).
  set (vl := fun e : bytes * bytes * bytes =>
               map (fun c => (c, obind (lookup_def (fst (fst e)) structs) (find_type c))) (struct_columns (snd (fst e)))).
  rewrite (fold_left_ext_eq _ (fun sy e => assoc_set (nm e) (vl e) sy)).
  2:{ intros sy [[n b] t]. reflexivity. }
  assert (Enames : map (fun bn => upper (snd bn)) bns = map (fun tw => upper (t_name (fst tw))) tws).
  { symmetry. apply (map_Forall2 _ _ _ _ _ H). intros tw bn _ _ [_ [E _]]. now rewrite E. }
  assert (ND : names_distinct structs = true).
  { subst structs. apply names_distinct_map. unfold sentry. cbn [fst]. now rewrite Enames. }
  rewrite fold_assoc_set_fresh.
  - cbn [app]. subst structs. rewrite map_map. unfold sy_of. symmetry. apply (map_Forall2 _ _ _ _ _ H).
    intros tw bn Htw Hbn [_ [En [Hc Hf]]]. subst nm vl. cbn beta.
    change (fst (fst (sentry bn))) with (upper (snd bn)). change (snd (fst (sentry bn))) with (fst bn). rewrite En. f_equal.
    rewrite Hc. rewrite (struct_name_lookup_exact (map sentry bns) (upper (t_name (fst tw))) (fst bn) (btext bn)).
    + cbn [obind]. unfold tcols_of. rewrite map_map. apply map_ext_in. intros c Hcin. f_equal. symmetry. now apply Hf.
    + exact ND.
    + apply in_map_iff. exists bn. split; [|exact Hbn]. unfold sentry, btext. now rewrite En.
  - cbn [map app]. subst structs nm. rewrite map_map. unfold sentry. cbn [fst]. now rewrite Enames.
Qed.

(* ANY list of well-formed items whose struct typedefs are read as the document's tables (in table order), whose enum
   typedefs are the document's, and whose lines drive the line loop to the document's pairs and rows, is read as the
   document -- reporting the typedef texts as they stand *)
Theorem parse_items_td d tws bns ebns its st' : doc_ok d = true -> map fst tws = d_tables d -> tws_ok (d_enums d) tws ->
  Forall2 (fun tw bn => td_reads (d_enums d) (fst tw) (fst bn) (snd bn)) tws bns ->
  Forall2 (fun e bn => etd_reads e (fst bn) (snd bn)) (d_enums d) ebns ->
  Forall item_good its -> its <> [] ->
  map item_td_text (filter (item_is_td KW_STRUCT) its) = map btext bns ->
  map item_td_text (filter (item_is_td KW_ENUM) its) = map ebtext ebns ->
  process_lines (sy_of (d_enums d) tws) (st_init (sy_of (d_enums d) tws)) (map item_line its ++ [[]]) = Some st' ->
  loop_result d st' ->
  exists p, sem d = Some p /\ parse (items_text its) = Some (with_texts p (map ebtext ebns) (map btext bns)) /\
            parse_binary (items_text its) = Some (with_texts p (map ebtext ebns) (map btext bns)).
Proof.
  intros Hd Et Hok Hbn Hebn Hg Hne F1' F2' PL1 [PL2 PL3].
  destruct (doc_ok_parts d Hd) as [Hc [Hcn [Hp [Hdk [Hes [Hde [Ht Hdn]]]]]]].
  set (es := d_enums d) in *.
  destruct (items_good_text _ Hg) as [Hio [Htx Hco]].
  set (b := items_text its) in *.
  assert (Hnames : map (fun tw => upper (t_name (fst tw))) tws = tnames d).
  { unfold tnames. rewrite <- Et. now rewrite map_map. }
  assert (Hdn' : distinct (map (fun tw => upper (t_name (fst tw))) tws) = true) by (now rewrite Hnames).
  assert (Htw : Forall (fun tw => table_ok es (fst tw) = true) tws).
  { apply Forall_forall. intros tw Hin. rewrite forallb_forall in Ht. apply Ht. rewrite <- Et. now apply in_map. }
  assert (U : univ_nl b = b) by (apply univ_nl_id; now apply textch_no_cr).
  assert (J : join_cont b = b).
  { unfold join_cont. rewrite <- (app_nil_r b) at 1. rewrite join_cont_ok by auto. now rewrite app_nil_r. }
  destruct (items_prepass its Hio) as [F1 [F2 R]]. fold b in F1, F2, R. rewrite F1' in F1. rewrite F2' in F2.
  set (stexts := map btext bns) in *. set (etexts := map ebtext ebns) in *.
  assert (EE : omap enum_entry etexts = Some (enums_of es)).
  { subst etexts es. clear -Hebn. induction Hebn as [|e bn es ebns [_ He] _ IH]; [reflexivity|].
    cbn [map omap enums_of]. fold (enums_of es). unfold ebtext at 1. rewrite He. now rewrite IH. }
  assert (SE : omap struct_entry stexts = Some (map sentry bns)).
  { subst stexts. clear -Hbn. induction Hbn as [|tw bn tws bns [[Hio _] _] _ IH]; [reflexivity|].
    cbn [map omap]. rewrite IH. destruct bn as [body name]. unfold btext. cbn [fst snd] in *.
    cbn [item_ok] in Hio. now rewrite (struct_entry_td body name Hio). }
  pose proof (build_symtab_td es tws bns Hdn' Hbn) as SY.
  set (sy := sy_of es tws) in *.
  assert (SP1 : split_on NL (unlines (map item_line its)) = map item_line its ++ [[]]).
  { apply split_on_unlines. now apply items_lines_no_nl. }
  assert (RAW : parse_text_raw b = Some (mkrdoc (d_pairs d) etexts stexts
                  (map (fun tw => mkrtable (upper (t_name (fst tw))) (tcols_of es (t_cols (fst tw))) (t_rows (fst tw))) tws))).
  { unfold parse_text_raw. rewrite J, F1, F2, R, SE, SY. fold (st_init sy).
    destruct (unlines (map item_line its)) eqn:EU.
    { exfalso. destruct its as [|i its']; [congruence|]. unfold unlines in EU. cbn [map concat] in EU.
      destruct (item_line i); discriminate. }
    rewrite SP1, PL1. f_equal. rewrite PL2. f_equal. subst sy. unfold sy_of. rewrite map_map. apply map_ext_in.
    intros tw Hin. cbn [fst snd]. rewrite PL3; [reflexivity|]. rewrite <- Et. now apply in_map. }
  destruct (omap_all_some (sem_table es) (d_tables d)) as [tabs Htabs].
  { intros t Hin. apply sem_table_some; auto. rewrite forallb_forall in Ht. auto. }
  exists (mkpdoc (d_pairs d) (map render_enum es) (struct_texts es tws) tabs). split.
  - unfold sem. fold es. rewrite <- Et at 1. rewrite (omap_render_structs es tws Hok). fold (struct_texts es tws). now rewrite Htabs.
  - unfold with_texts. cbn [pd_pairs pd_tables].
    assert (PT : parse_text b = Some (mkpdoc (d_pairs d) etexts stexts tabs)); [|unfold parse, parse_binary; rewrite U; auto].
    unfold parse_text. rewrite RAW. cbn [obind]. unfold to_records. cbn [rd_enums rd_pairs rd_structs rd_tables].
    rewrite EE. rewrite omap_map.
    rewrite (omap_ext_in _ (fun tw => sem_table es (fst tw))).
    + rewrite <- omap_map. rewrite Et, Htabs. reflexivity.
    + intros tw Hin. rewrite Forall_forall in Htw. now apply to_table_rendered; auto.
Qed.
