(* C19 -- sdssflux2ab: one AB offset per band, applied consistently in the flux, magnitude and inverse-variance forms. *)
From Coq Require Import Reals QArith Qreals Lra Lia List.
Import ListNotations.
From PV Require Import C19.Spec Generated.AstroConsts.
Open Scope R_scope.

Lemma factor_pos : forall c, 0 < flux2ab_factor c.
Proof. intro c. unfold flux2ab_factor, Rpower. apply exp_pos. Qed.

(* ivar factor * flux factor^2 = 1 *)
Lemma flux2ab_ivar_consistent : forall c,
  flux2ab_ivar_factor (flux2ab_factor c) * (flux2ab_factor c * flux2ab_factor c) = 1.
Proof. intro c. unfold flux2ab_ivar_factor. pose proof (factor_pos c). field. lra. Qed.

Lemma ln10_pos : 0 < ln 10.
Proof. rewrite <- ln_1. apply ln_increasing; lra. Qed.

Lemma log10_factor : forall c, log10 (flux2ab_factor c) = - c / (5 / 2).
Proof.
  intro c. unfold log10, flux2ab_factor, Rpower. rewrite ln_exp. pose proof ln10_pos. field. lra.
Qed.

(* the magnitude of the converted flux is the magnitude plus the same offset *)
Lemma flux2ab_mag_consistent : forall c f, 0 < f ->
  - (5 / 2) * log10 (flux2ab_flux f (flux2ab_factor c)) = flux2ab_mag (- (5 / 2) * log10 f) c.
Proof.
  intros c f Hf. unfold flux2ab_flux, flux2ab_mag.
  assert (E : log10 (f * flux2ab_factor c) = log10 f + log10 (flux2ab_factor c)).
  { unfold log10. rewrite ln_mult by (try exact Hf; apply factor_pos). pose proof ln10_pos. field. lra. }
  rewrite E, log10_factor. field.
Qed.

(* the correction vector in the source is the documented one *)
Lemma correction_is_doc : forall b, (b < 5)%nat -> Q2R (nth b flux2ab_correction 0%Q) = ab_offset b.
Proof.
  intros b H. do 5 (destruct b as [|b]; [unfold flux2ab_correction, ab_offset, Q2R; cbn; lra|]). lia.
Qed.

Lemma correction_length : length flux2ab_correction = 5%nat.
Proof. reflexivity. Qed.

Lemma factor_is_doc : forall c, flux2ab_factor c = pow10 (- c / (5 / 2)).
Proof. intro c. unfold flux2ab_factor, Rpower, pow10. first [reflexivity | (f_equal; f_equal; field)]. Qed.

Lemma flux2ab_is_spec : forall b x, (b < 5)%nat ->
  let c := Q2R (nth b flux2ab_correction 0%Q) in
  flux2ab_flux x (flux2ab_factor c) = ab_flux b x /\
  flux2ab_mag x c = ab_mag b x /\
  flux2ab_flux x (flux2ab_ivar_factor (flux2ab_factor c)) = ab_ivar b x.
Proof.
  intros b x H c. unfold c. rewrite (correction_is_doc b H).
  unfold flux2ab_flux, flux2ab_mag, ab_flux, ab_mag, ab_ivar, flux2ab_ivar_factor. rewrite factor_is_doc.
  assert (P : 0 < pow10 (- ab_offset b / (5 / 2))) by (unfold pow10; apply exp_pos).
  repeat split; try reflexivity. field. lra.
Qed.
