(* C13: COMPLETENESS of the Gauss-Jordan solver of C13/LinAlg.v.
   solve_checked_sound (LinAlgProofs) says: an answer, if any, solves the system (the elimination is re-checked).
   Here: on a square system whose matrix has a trivial kernel the elimination never fails and the re-check accepts,
   so solve_checked DOES answer -- and the answer is the unique solution.  Consequence for the weighted normal
   equations: full column rank on the points of positive weight => wls_solve answers. *)
From Coq Require Import QArith Qabs Lqa List Bool Lia ZArith.
From PV Require Import Lib.WLS C13.LinAlg C13.LinAlgProofs.
Import ListNotations.
Open Scope Q_scope.

Ltac vlia := unfold vec, mat in *; lia.

(* ------------------------------------------------------------------ small facts *)
Lemma qnz_true q : qnz q = true -> ~ q == 0.
Proof. unfold qnz. intros H E. apply Qeq_bool_iff in E. rewrite E in H. discriminate. Qed.
Lemma qnz_false q : qnz q = false -> q == 0.
Proof. unfold qnz. intros H. apply Qeq_bool_iff. destruct (Qeq_bool q 0); [reflexivity|discriminate]. Qed.

Lemma veq_bool_complete u : forall v, veq u v -> veq_bool u v = true.
Proof.
  induction u as [|a u IH]; intros v H; inversion H; subst; simpl; [reflexivity|].
  apply andb_true_intro. split; [apply Qeq_bool_iff; assumption | apply IH; assumption].
Qed.

Lemma veq_nth u : forall v, length u = length v -> (forall k, (k < length u)%nat -> nth k u 0 == nth k v 0) -> veq u v.
Proof.
  induction u as [|a u IH]; intros [|b v] L H; simpl in *; try discriminate; constructor.
  - apply (H O). lia.
  - apply IH; [lia|]. intros k Hk. apply (H (S k)). lia.
Qed.
Lemma nth_veq u v k : veq u v -> nth k u 0 == nth k v 0.
Proof. intros H. revert k. induction H; intros [|k]; simpl; auto; reflexivity. Qed.

Lemma dot_app u : forall v u' v', length u = length v -> dot (u ++ u') (v ++ v') == dot u v + dot u' v'.
Proof.
  induction u as [|a u IH]; intros [|b v] u' v' H; simpl in *; try discriminate; [ring|].
  rewrite IH by lia. ring.
Qed.

(* dot with a unit vector reads a component *)
Lemma dot_unit_gen r : forall s k,
  dot r (map (fun j => if Nat.eqb k j then 1 else 0) (seq s (length r))) == (if Nat.leb s k then nth (k - s) r 0 else 0).
Proof.
  induction r as [|a r IH]; intros s k; simpl.
  - destruct (Nat.leb s k); [destruct (k - s)%nat|]; reflexivity.
  - rewrite IH. destruct (Nat.eqb k s) eqn:E.
    + apply Nat.eqb_eq in E. subst. rewrite Nat.leb_refl, Nat.sub_diag.
      replace (Nat.leb (S s) s) with false by (symmetry; apply Nat.leb_gt; lia). ring.
    + apply Nat.eqb_neq in E. destruct (Nat.leb s k) eqn:E1.
      * apply Nat.leb_le in E1. replace (Nat.leb (S s) k) with true by (symmetry; apply Nat.leb_le; lia).
        replace (k - s)%nat with (S (k - S s)) by lia. ring.
      * apply Nat.leb_gt in E1. replace (Nat.leb (S s) k) with false by (symmetry; apply Nat.leb_gt; lia). ring.
Qed.
Lemma dot_unit_vec r k : dot r (unit_vec (length r) k) == nth k r 0.
Proof. unfold unit_vec. rewrite dot_unit_gen. simpl. rewrite Nat.sub_0_r. reflexivity. Qed.
Lemma unit_vec_length n k : length (unit_vec n k) = n.
Proof. unfold unit_vec. rewrite map_length, seq_length. reflexivity. Qed.
Lemma nth_map_seq (f : nat -> Q) n k : (k < n)%nat -> nth k (map f (seq 0 n)) 0 = f k.
Proof.
  intros H. rewrite (nth_indep _ 0 (f O)) by (rewrite map_length, seq_length; exact H).
  rewrite map_nth. rewrite seq_nth by exact H. reflexivity.
Qed.
Lemma nth_unit_vec n i k : (k < n)%nat -> nth k (unit_vec n i) 0 = if Nat.eqb i k then 1 else 0.
Proof. intros H. unfold unit_vec. apply nth_map_seq. exact H. Qed.

(* ------------------------------------------------------------------ row operations *)
Lemma row_norm_length c r : length (row_norm c r) = length r.
Proof. unfold row_norm. apply map_length. Qed.
Lemma row_elim_length c p r : length p = length r -> length (row_elim c p r) = length r.
Proof.
  unfold row_elim. generalize (nth c r 0) as f. intros f. revert p.
  induction r as [|a r IH]; intros [|b p] H; simpl in *; try discriminate; auto.
Qed.

Lemma dot_row_norm c r v : ~ nth c r 0 == 0 -> dot (row_norm c r) v == dot r v / nth c r 0.
Proof.
  unfold row_norm. generalize (nth c r 0) as p. intros p Hp. revert v.
  induction r as [|a r IH]; intros [|b v]; cbn [dot map]; try (field; exact Hp).
  rewrite Qred_correct, IH. field. exact Hp.
Qed.
Lemma dot_row_elim c p r v : length p = length r -> dot (row_elim c p r) v == dot r v - nth c r 0 * dot p v.
Proof.
  unfold row_elim. generalize (nth c r 0) as f. intros f. revert p v.
  induction r as [|a r IH]; intros [|b p] [|x v] H; cbn [dot map2 length] in *; try discriminate; try ring.
  rewrite Qred_correct, IH by lia. ring.
Qed.
Lemma nth_row_norm c r k : nth k (row_norm c r) 0 == nth k r 0 / nth c r 0.
Proof.
  unfold row_norm. generalize (nth c r 0) as p. intros p. revert k.
  induction r as [|a r IH]; intros [|k]; cbn [nth map]; try (unfold Qdiv; ring).
  - apply Qred_correct.
  - apply IH.
Qed.
Lemma nth_row_elim c p r k : length p = length r -> nth k (row_elim c p r) 0 == nth k r 0 - nth c r 0 * nth k p 0.
Proof.
  unfold row_elim. generalize (nth c r 0) as f. intros f. revert p k.
  induction r as [|a r IH]; intros [|b p] [|k] H; cbn [nth map2 length] in *; try discriminate; try ring.
  - apply Qred_correct.
  - apply IH. lia.
Qed.

Lemma pick_pivot_some c rows : forall p rest, pick_pivot c rows = Some (p, rest) ->
  ~ nth c p 0 == 0 /\ length rows = S (length rest) /\ (forall P : vec -> Prop, Forall P rows <-> P p /\ Forall P rest).
Proof.
  induction rows as [|r rs IH]; intros p rest H; simpl in H; [discriminate|].
  destruct (qnz (nth c r 0)) eqn:E.
  - inversion H; subst. split; [apply qnz_true; exact E|]. split; [reflexivity|].
    intros P. split; intros HP; [inversion HP; auto | destruct HP; constructor; auto].
  - destruct (pick_pivot c rs) as [[p0 rest0]|] eqn:E2; [|discriminate]. inversion H; subst.
    destruct (IH _ _ eq_refl) as [H1 [H2 H3]]. split; [exact H1|]. split; [simpl; rewrite H2; reflexivity|].
    intros P. split; intros HP.
    + pose proof (Forall_inv HP) as Hr0. pose proof (Forall_inv_tail HP) as Ht. apply H3 in Ht. destruct Ht.
      split; [assumption | constructor; assumption].
    + destruct HP as [Hp Hr]. pose proof (Forall_inv Hr) as Hr0. pose proof (Forall_inv_tail Hr) as Ht.
      constructor; [assumption | apply H3; split; assumption].
Qed.
Lemma pick_pivot_none c rows : pick_pivot c rows = None -> Forall (fun r => nth c r 0 == 0) rows.
Proof.
  induction rows as [|r rs IH]; intros H; simpl in H; constructor.
  - destruct (qnz (nth c r 0)) eqn:E; [discriminate | apply qnz_false; exact E].
  - apply IH. destruct (qnz (nth c r 0)); [discriminate|]. destruct (pick_pivot c rs) as [[? ?]|]; [discriminate | reflexivity].
Qed.

(* ------------------------------------------------------------------ annihilated vectors are preserved *)
Definition ann (v : vec) (rows : list vec) : Prop := Forall (fun r => dot r v == 0) rows.

Lemma ann_elim L c p' rs v : length p' = L -> rows_len L rs -> dot p' v == 0 ->
  (ann v rs <-> ann v (map (row_elim c p') rs)).
Proof.
  intros Lp HL Hp. unfold ann. rewrite Forall_map. split; intros H.
  - apply Forall_forall. intros r Hr. rewrite dot_row_elim.
    + rewrite Hp. rewrite Forall_forall in H. rewrite (H r Hr). ring.
    + unfold rows_len in HL. rewrite Forall_forall in HL. rewrite (HL r Hr). exact Lp.
  - apply Forall_forall. intros r Hr. rewrite Forall_forall in H. pose proof (H r Hr) as E.
    rewrite dot_row_elim in E.
    + rewrite Hp in E. rewrite <- E. ring.
    + unfold rows_len in HL. rewrite Forall_forall in HL. rewrite (HL r Hr). exact Lp.
Qed.

Lemma ann_step L c p done rest v : length p = L -> rows_len L done -> rows_len L rest -> ~ nth c p 0 == 0 ->
  (ann v done /\ dot p v == 0 /\ ann v rest) <->
  ann v ((map (row_elim c (row_norm c p)) done ++ [row_norm c p]) ++ map (row_elim c (row_norm c p)) rest).
Proof.
  intros Lp Hd Hr Hpiv. unfold ann at 3. rewrite !Forall_app.
  assert (Lp' : length (row_norm c p) = L) by (rewrite row_norm_length; exact Lp).
  assert (E : dot (row_norm c p) v == 0 <-> dot p v == 0).
  { rewrite dot_row_norm by exact Hpiv. split; intros H.
    - setoid_replace (dot p v) with (dot p v / nth c p 0 * nth c p 0) by (field; exact Hpiv). rewrite H. ring.
    - rewrite H. field. exact Hpiv. }
  split.
  - intros [H1 [H2 H3]]. apply E in H2. repeat split.
    + apply (ann_elim L); assumption.
    + constructor; [exact H2 | constructor].
    + apply (ann_elim L); assumption.
  - intros [[H1 H2] H3]. pose proof (Forall_inv H2) as H2'. repeat split.
    + apply (ann_elim L c (row_norm c p)); assumption.
    + apply E. exact H2'.
    + apply (ann_elim L c (row_norm c p)); assumption.
Qed.

(* ------------------------------------------------------------------ the shape of the tableau at column c *)
Definition delta (i k : nat) : Q := if Nat.eqb i k then 1 else 0.
Definition unit_done (c : nat) (done : list vec) : Prop :=
  forall i r, nth_error done i = Some r -> forall k, (k < c)%nat -> nth k r 0 == delta i k.
Definition zero_todo (c : nat) (todo : list vec) : Prop :=
  Forall (fun r => forall k, (k < c)%nat -> nth k r 0 == 0) todo.

Lemma rows_len_In L rs r : rows_len L rs -> In r rs -> length r = L.
Proof. unfold rows_len. rewrite Forall_forall. auto. Qed.

Lemma step_shape L c p done rest :
  length p = L -> rows_len L done -> rows_len L rest -> ~ nth c p 0 == 0 -> length done = c ->
  unit_done c done -> (forall k, (k < c)%nat -> nth k p 0 == 0) -> zero_todo c rest ->
  unit_done (S c) (map (row_elim c (row_norm c p)) done ++ [row_norm c p]) /\
  zero_todo (S c) (map (row_elim c (row_norm c p)) rest).
Proof.
  intros Lp Hd Hr Hpiv Lc Hu Hp0 Hz.
  set (p' := row_norm c p).
  assert (Lp' : length p' = L) by (unfold p'; rewrite row_norm_length; exact Lp).
  assert (P1 : forall k, (k < c)%nat -> nth k p' 0 == 0).
  { intros k Hk. unfold p'. rewrite nth_row_norm, (Hp0 k Hk). field. exact Hpiv. }
  assert (P2 : nth c p' 0 == 1) by (unfold p'; rewrite nth_row_norm; field; exact Hpiv).
  assert (EL : forall r k, length r = L -> (k < S c)%nat ->
               nth k (row_elim c p' r) 0 == (if Nat.eqb k c then 0 else nth k r 0)).
  { intros r k Lr Hk. rewrite nth_row_elim by congruence. destruct (Nat.eqb k c) eqn:E.
    - apply Nat.eqb_eq in E. subst k. rewrite P2. ring.
    - apply Nat.eqb_neq in E. rewrite P1 by lia. ring. }
  split.
  - intros i r Hi k Hk. destruct (lt_dec i (length done)) as [Hlt|Hge].
    + rewrite nth_error_app1 in Hi by (rewrite map_length; exact Hlt).
      rewrite nth_error_map in Hi.
      match type of Hi with option_map _ ?t = _ => destruct t as [d|] eqn:Ed end; [|simpl in Hi; discriminate].
      simpl in Hi. inversion Hi; subst r; clear Hi.
      rewrite EL; [| apply (rows_len_In L done); [exact Hd | eapply nth_error_In; exact Ed] | exact Hk].
      destruct (Nat.eqb k c) eqn:E.
      * apply Nat.eqb_eq in E. subst k. unfold delta. replace (Nat.eqb i c) with false by (symmetry; apply Nat.eqb_neq; lia). reflexivity.
      * apply Nat.eqb_neq in E. apply (Hu i d Ed). lia.
    + unfold vec in *. rewrite nth_error_app2 in Hi by (rewrite map_length; lia). rewrite map_length in Hi.
      destruct (i - length done)%nat as [|q] eqn:Eq; [|simpl in Hi; destruct q; discriminate].
      simpl in Hi. inversion Hi; subst r; clear Hi. assert (i = c) by lia. subst i.
      unfold delta. destruct (Nat.eqb c k) eqn:E.
      * apply Nat.eqb_eq in E. rewrite <- E. exact P2.
      * apply Nat.eqb_neq in E. apply P1. lia.
  - unfold zero_todo. rewrite Forall_map. apply Forall_forall. intros r Hin k Hk.
    rewrite EL; [| apply (rows_len_In L rest); assumption | exact Hk].
    destruct (Nat.eqb k c) eqn:E; [reflexivity|]. apply Nat.eqb_neq in E.
    unfold zero_todo in Hz. rewrite Forall_forall in Hz. apply (Hz r Hin). lia.
Qed.

(* ------------------------------------------------------------------ no pivot => a kernel vector *)
Fixpoint colsum (c : nat) (ds : list vec) (i0 : nat) (r : vec) : Q :=
  match ds with [] => 0 | d :: ds' => nth c d 0 * nth i0 r 0 + colsum c ds' (S i0) r end.
Fixpoint nullv (L c : nat) (ds : list vec) (i0 : nat) : vec :=
  match ds with
  | [] => unit_vec L c
  | d :: ds' => vadd (vscale (- nth c d 0) (unit_vec L i0)) (nullv L c ds' (S i0))
  end.

Lemma nullv_length L c ds : forall i0, length (nullv L c ds i0) = L.
Proof.
  induction ds as [|d ds IH]; intros i0; simpl; [apply unit_vec_length|].
  rewrite vadd_length; rewrite vscale_length, unit_vec_length; [reflexivity | symmetry; apply IH].
Qed.

Lemma dot_vscale_r a u r : dot r (vscale a u) == a * dot r u.
Proof. rewrite dot_comm, dot_vscale_l, dot_comm. reflexivity. Qed.

Lemma dot_nullv L c r ds : length r = L -> forall i0, dot r (nullv L c ds i0) == nth c r 0 - colsum c ds i0 r.
Proof.
  intros Lr. induction ds as [|d ds IH]; intros i0; simpl.
  - rewrite <- Lr. rewrite dot_unit_vec. ring.
  - rewrite dot_vadd.
    + rewrite dot_vscale_r, IH. rewrite <- Lr at 1. rewrite dot_unit_vec. ring.
    + rewrite vscale_length, unit_vec_length, nullv_length. reflexivity.
    + rewrite vscale_length, unit_vec_length. exact Lr.
Qed.

Lemma colsum_zero c r ds : forall i0, (forall k, (i0 <= k < i0 + length ds)%nat -> nth k r 0 == 0) -> colsum c ds i0 r == 0.
Proof.
  induction ds as [|d ds IH]; intros i0 H; simpl; [reflexivity|].
  rewrite (H i0) by (simpl; lia). rewrite IH; [ring|]. intros k Hk. apply H. simpl. lia.
Qed.

Lemma colsum_unit c r m ds : forall i0 d,
  (forall k, (i0 <= k < i0 + length ds)%nat -> nth k r 0 == delta m k) ->
  (i0 <= m)%nat -> nth_error ds (m - i0) = Some d -> colsum c ds i0 r == nth c d 0.
Proof.
  induction ds as [|d0 ds IH]; intros i0 d H Hm Hd; simpl.
  - destruct (m - i0)%nat; discriminate.
  - destruct (Nat.eq_dec m i0) as [->|Hne].
    + rewrite Nat.sub_diag in Hd. simpl in Hd. inversion Hd; subst d0.
      rewrite (H i0) by (simpl; lia). unfold delta. rewrite Nat.eqb_refl.
      rewrite colsum_zero; [ring|]. intros k Hk. rewrite H by (simpl; lia).
      unfold delta. replace (Nat.eqb i0 k) with false by (symmetry; apply Nat.eqb_neq; lia). reflexivity.
    + rewrite (H i0) by (simpl; lia). unfold delta at 1. replace (Nat.eqb m i0) with false by (symmetry; apply Nat.eqb_neq; lia).
      replace (m - i0)%nat with (S (m - S i0)) in Hd by lia. simpl in Hd.
      rewrite (IH (S i0) d); [ring | | lia | exact Hd]. intros k Hk. apply H. simpl. lia.
Qed.

Lemma no_pivot_contra n L c done todo : (c < n)%nat -> (n < L)%nat -> length done = c -> rows_len L (done ++ todo) ->
  unit_done c done -> zero_todo c todo -> Forall (fun r => nth c r 0 == 0) todo ->
  (forall v, length v = L -> nth n v 0 == 0 -> ann v (done ++ todo) -> forall k, (k < n)%nat -> nth k v 0 == 0) -> False.
Proof.
  intros Hc HL Ld HR Hu Hz Hnp NS.
  set (v := nullv L c done 0).
  assert (Lv : length v = L) by apply nullv_length.
  assert (Hcomp : forall k, (k < L)%nat -> (forall j, (j < c)%nat -> j <> k) -> nth k v 0 == delta k c).
  { intros k Hk Hj.
    rewrite <- (dot_unit_vec v k). rewrite dot_comm. rewrite Lv. unfold v. rewrite dot_nullv by apply unit_vec_length.
    rewrite nth_unit_vec by vlia. rewrite colsum_zero; [unfold delta; ring|].
    intros j Hjr. rewrite nth_unit_vec by vlia. replace (Nat.eqb k j) with false; [reflexivity|].
    symmetry. apply Nat.eqb_neq. intros ->. apply (Hj j); [vlia | reflexivity]. }
  assert (Hn : nth n v 0 == 0).
  { rewrite Hcomp; [| exact HL | intros; vlia]. unfold delta. replace (Nat.eqb n c) with false by (symmetry; apply Nat.eqb_neq; vlia). reflexivity. }
  assert (H1 : nth c v 0 == 1).
  { rewrite Hcomp; [| vlia | intros; vlia]. unfold delta. rewrite Nat.eqb_refl. reflexivity. }
  assert (Hann : ann v (done ++ todo)).
  { unfold ann. apply Forall_app. unfold rows_len in HR. apply Forall_app in HR. destruct HR as [HRd HRt]. split.
    - apply Forall_forall. intros r Hin. destruct (In_nth_error _ _ Hin) as [m Em].
      unfold v. rewrite dot_nullv by (apply (rows_len_In L done); assumption).
      rewrite (colsum_unit c r m done 0 r).
      + ring.
      + intros k Hk. apply (Hu m r Em). vlia.
      + vlia.
      + rewrite Nat.sub_0_r. exact Em.
    - apply Forall_forall. intros r Hin.
      unfold v. rewrite dot_nullv by (apply (rows_len_In L todo); assumption).
      rewrite Forall_forall in Hnp. rewrite (Hnp r Hin). rewrite colsum_zero; [ring|].
      intros k Hk. unfold zero_todo in Hz. rewrite Forall_forall in Hz. apply (Hz r Hin). vlia. }
  pose proof (NS v Lv Hn Hann c Hc) as H0. rewrite H1 in H0. discriminate H0.
Qed.

(* ------------------------------------------------------------------ the elimination never fails *)
Lemma rows_len_app L a b : rows_len L (a ++ b) <-> rows_len L a /\ rows_len L b.
Proof. unfold rows_len. apply Forall_app. Qed.

Lemma gj_complete n L : (n < L)%nat -> forall fuel c done todo,
  (c + fuel = n)%nat -> length done = c -> length todo = fuel -> rows_len L (done ++ todo) ->
  unit_done c done -> zero_todo c todo ->
  (forall v, length v = L -> nth n v 0 == 0 -> ann v (done ++ todo) -> forall k, (k < n)%nat -> nth k v 0 == 0) ->
  exists rows, gj fuel c done todo = Some rows /\ length rows = n /\ rows_len L rows /\ unit_done n rows /\
               (forall v, ann v (done ++ todo) <-> ann v rows).
Proof.
  intros HL. induction fuel as [|fuel IH]; intros c done todo Hcf Ld Lt HR Hu Hz NS.
  - destruct todo; [|discriminate]. rewrite app_nil_r in *. exists done. simpl.
    assert (Hcn : c = n) by lia. rewrite Hcn in *.
    split; [reflexivity|]. split; [exact Ld|]. split; [exact HR|]. split; [exact Hu|]. intros v. tauto.
  - cbn [gj]. destruct (pick_pivot c todo) as [[p rest]|] eqn:Ep.
    + destruct (pick_pivot_some _ _ _ _ Ep) as [Hpiv [Lrest Hall]].
      apply rows_len_app in HR. destruct HR as [HRd HRt].
      unfold rows_len in HRt. apply Hall in HRt. destruct HRt as [Lp HRr].
      unfold zero_todo in Hz. apply Hall in Hz. destruct Hz as [Hp0 Hzr].
      destruct (step_shape L c p done rest Lp HRd HRr Hpiv Ld Hu Hp0 Hzr) as [Hu' Hz'].
      assert (Hann : forall v, ann v (done ++ todo) <->
                ann v ((map (row_elim c (row_norm c p)) done ++ [row_norm c p]) ++ map (row_elim c (row_norm c p)) rest)).
      { intros v. rewrite <- (ann_step L c p done rest v Lp HRd HRr Hpiv). unfold ann at 1. rewrite Forall_app.
        unfold ann. rewrite (Hall (fun r => dot r v == 0)). tauto. }
      destruct (IH (S c) (map (row_elim c (row_norm c p)) done ++ [row_norm c p]) (map (row_elim c (row_norm c p)) rest))
        as [rows [E [Lr [HRr' [Hur Heq]]]]].
      * lia.
      * rewrite app_length, map_length. simpl. vlia.
      * rewrite map_length. vlia.
      * apply rows_len_app. split; [apply rows_len_app; split|].
        -- unfold rows_len. rewrite Forall_map. apply Forall_forall. intros r Hr.
           rewrite row_elim_length; rewrite ?row_norm_length, (rows_len_In L done r HRd Hr); [reflexivity | exact Lp].
        -- constructor; [rewrite row_norm_length; exact Lp | constructor].
        -- unfold rows_len. rewrite Forall_map. apply Forall_forall. intros r Hr.
           rewrite row_elim_length; rewrite ?row_norm_length, (rows_len_In L rest r HRr Hr); [reflexivity | exact Lp].
      * exact Hu'.
      * exact Hz'.
      * intros v Lv Hn Ha. apply (NS v Lv Hn). apply Hann. exact Ha.
      * exists rows. split; [exact E|]. repeat split; auto.
        -- intros Ha. apply Heq. apply Hann. exact Ha.
        -- intros Ha. apply Hann. apply Heq. exact Ha.
    + exfalso. apply (no_pivot_contra n L c done todo); auto; try lia.
      apply pick_pivot_none. exact Ep.
Qed.

(* ------------------------------------------------------------------ the augmented system [A | b] *)
Definition aug (A : mat) (b : vec) := map2 (@app Q) A (map (fun bi : Q => [bi]) b).

Lemma aug_shape n A : forall b, rows_len n A -> length b = length A ->
  length (aug A b) = length A /\ rows_len (S n) (aug A b).
Proof.
  induction A as [|a A IH]; intros [|bi b] HA Hb; simpl in *; try discriminate; [split; [reflexivity|constructor]|].
  inversion HA; subst. destruct (IH b H2 ltac:(lia)) as [E1 E2]. split; [simpl; f_equal; exact E1|].
  constructor; [rewrite app_length; simpl; lia | exact E2].
Qed.

Lemma ann_aug n A z t : length z = n -> forall b, rows_len n A -> length b = length A ->
  (ann (z ++ [t]) (aug A b) <-> Forall2 (fun a bi => dot a z + bi * t == 0) A b).
Proof.
  intros Lz. induction A as [|a A IH]; intros [|bi b] HA Hb; simpl in *; try discriminate.
  - split; constructor.
  - inversion HA; subst. unfold ann in *. split; intros H.
    + pose proof (Forall_inv H) as H0. pose proof (Forall_inv_tail H) as Ht. constructor.
      * cbv beta in H0. rewrite dot_app in H0 by congruence. simpl in H0. rewrite <- H0. ring.
      * apply IH; [assumption | lia | exact Ht].
    + inversion H as [|a0 b0 A0 B0 Hhd Htl]; subst. constructor.
      * rewrite dot_app by congruence. simpl. apply (Qeq_trans _ (dot a z + bi * t)); [ring | exact Hhd].
      * apply (IH b); [assumption | lia | exact Htl].
Qed.

Lemma ann_veq v v' rows : veq v v' -> ann v rows -> ann v' rows.
Proof.
  intros E H. unfold ann in *. apply Forall_forall. intros r Hr. rewrite Forall_forall in H.
  rewrite <- (H r Hr). apply dot_veq; [apply veq_refl | apply veq_sym; exact E].
Qed.

Lemma split_last (v : vec) : forall n, length v = S n -> v = firstn n v ++ [nth n v 0].
Proof.
  induction v as [|a v IH]; intros n H; [discriminate|]. destruct n as [|n].
  - destruct v; [reflexivity|discriminate].
  - simpl. f_equal. apply IH. simpl in H. lia.
Qed.
Lemma nth_firstn (v : vec) : forall n k, (k < n)%nat -> nth k (firstn n v) 0 = nth k v 0.
Proof.
  induction v as [|a v IH]; intros [|n] [|k] H; simpl; try reflexivity; try lia. apply IH. lia.
Qed.
Lemma nth_zeros n k : nth k (zeros n) 0 = 0.
Proof. unfold zeros. revert k. induction n; intros [|k]; simpl; auto. Qed.
Lemma nth_skipn_0 (r : vec) : forall n, nth 0 (skipn n r) 0 = nth n r 0.
Proof. induction r as [|a r IH]; intros [|n]; simpl; auto. Qed.

Lemma hom_sol A z : forall b, Forall2 (fun a bi => dot a z + bi * 0 == 0) A b -> veq (mat_vec A z) (zeros (length A)).
Proof.
  induction A as [|a A IH]; intros b H; inversion H as [|a0 b0 A0 B0 Hhd Htl]; subst; simpl; constructor.
  - apply (Qeq_trans _ (dot a z + b0 * 0)); [ring | exact Hhd].
  - apply (IH B0). exact Htl.
Qed.
Lemma inhom_sol A x : forall b, Forall2 (fun a bi => dot a x + bi * -(1) == 0) A b -> veq (mat_vec A x) b.
Proof.
  induction A as [|a A IH]; intros b H; inversion H as [|a0 b0 A0 B0 Hhd Htl]; subst; simpl; constructor.
  - apply Qplus_inj_r with (z := b0 * -(1)). apply (Qeq_trans _ 0); [exact Hhd | ring].
  - apply IH. exact Htl.
Qed.

Definition nonsingular (A : mat) : Prop :=
  forall z, length z = length A -> veq (mat_vec A z) (zeros (length A)) -> veq z (zeros (length A)).

(* 1. on a square system with trivial kernel the elimination succeeds and the re-multiplication check accepts *)
Theorem solve_checked_complete A b :
  rows_len (length A) A -> length b = length A -> nonsingular A -> exists x, solve_checked A b = Some x.
Proof.
  intros HA Hb NSA. set (n := length A) in *.
  destruct (aug_shape n A b HA Hb) as [La Ra]. fold (aug A b) in *.
  destruct (gj_complete n (S n) ltac:(lia) n O (@nil vec) (aug A b)) as [rows [E [Lr [HRr [Hur Heq]]]]].
  - lia.
  - reflexivity.
  - exact La.
  - exact Ra.
  - intros i r Hi. destruct i; discriminate.
  - unfold zero_todo. apply Forall_forall. intros r _ k Hk. lia.
  - simpl. intros v Lv Hn Ha k Hk.
    rewrite (split_last v n Lv) in Ha.
    assert (Lz : length (firstn n v) = n) by (rewrite firstn_length; lia).
    apply (ann_veq _ (firstn n v ++ [0])) in Ha.
    2:{ apply Forall2_app; [apply veq_refl | constructor; [exact Hn | constructor]]. }
    apply (ann_aug n A _ 0 Lz b HA Hb) in Ha.
    assert (Hz : veq (mat_vec A (firstn n v)) (zeros n)) by (apply (hom_sol A _ b); exact Ha).
    pose proof (NSA _ Lz Hz) as Hzero. rewrite <- (nth_firstn v n k Hk).
    rewrite (nth_veq _ _ k Hzero). rewrite nth_zeros. reflexivity.
  - unfold solve_checked, solve_multi.
    pose proof E as E'. unfold n, aug in E'. rewrite E'. clear E'.
    change (length A) with n.
    set (x := map (fun r => nth 0 r 0) (map (skipn n) rows)).
    assert (Lx : length x = n) by (unfold x; rewrite !map_length; exact Lr).
    assert (Hx : forall i r, nth_error rows i = Some r -> nth i x 0 = nth n r 0).
    { intros i r Hi. unfold x. rewrite map_map. apply nth_error_nth.
      rewrite nth_error_map. unfold vec in *. rewrite Hi. simpl. rewrite nth_skipn_0. reflexivity. }
    assert (Hsol : ann (x ++ [-(1)]) rows).
    { unfold ann. apply Forall_forall. intros r Hin. destruct (In_nth_error _ _ Hin) as [i Hi].
      assert (Lrr : length r = S n) by (apply (rows_len_In (S n) rows); assumption).
      assert (Hi' : (i < n)%nat) by (rewrite <- Lr; apply nth_error_Some; unfold vec in *; rewrite Hi; discriminate).
      assert (Er : veq r (unit_vec n i ++ [nth n r 0])).
      { apply veq_nth; [rewrite app_length, unit_vec_length; simpl; lia|].
        intros k Hk. destruct (lt_dec k n) as [Hkn|Hkn].
        - rewrite app_nth1 by (rewrite unit_vec_length; exact Hkn). rewrite nth_unit_vec by exact Hkn.
          apply (Hur i r Hi k Hkn).
        - assert (k = n) by lia. subst k. rewrite app_nth2 by (rewrite unit_vec_length; lia).
          rewrite unit_vec_length, Nat.sub_diag. reflexivity. }
      rewrite (dot_veq _ _ _ _ Er (veq_refl _)). rewrite dot_app by (rewrite unit_vec_length; congruence).
      rewrite dot_comm. rewrite <- Lx at 1. rewrite dot_unit_vec. rewrite (Hx i r Hi). simpl. ring. }
    apply Heq in Hsol. simpl in Hsol. apply (ann_aug n A x (-(1)) Lx b HA Hb) in Hsol.
    assert (Hv : veq (mat_vec A x) b) by (apply inhom_sol; exact Hsol).
    exists x. rewrite Lx, Nat.eqb_refl. rewrite (veq_bool_complete _ _ Hv). reflexivity.
Qed.

(* 2. ... and what it answers is THE solution *)
Lemma vsub_zeros_veq y : forall x n, length y = length x -> veq (vsub y x) (zeros n) -> veq y x.
Proof.
  induction y as [|a y IH]; intros [|b x] n L H; simpl in *; try discriminate; [constructor|].
  destruct n as [|n]; inversion H; subst. constructor.
  - apply Qplus_inj_r with (z := - b). apply (Qeq_trans _ (a - b)); [ring|]. apply (Qeq_trans _ 0); [assumption | ring].
  - apply (IH x n); [lia | assumption].
Qed.

Lemma mat_vec_vsub_zero A y x : length y = length x -> forall b,
  veq (mat_vec A y) b -> veq (mat_vec A x) b -> veq (mat_vec A (vsub y x)) (zeros (length A)).
Proof.
  intros L. induction A as [|a A IH]; intros b Hy Hx; simpl; [constructor|].
  inversion Hx as [|? b0 ? B0 Hx1 Hx2]; subst. inversion Hy as [|? ? ? ? Hy1 Hy2]; subst. constructor.
  - rewrite dot_vsub_r by exact L. rewrite Hx1, Hy1. ring.
  - apply (IH B0); assumption.
Qed.

Theorem solve_checked_unique A b x y :
  nonsingular A -> solve_checked A b = Some x -> length y = length A -> veq (mat_vec A y) b -> veq y x.
Proof.
  intros NSA Hs Ly Hy. destruct (solve_checked_sound A b x Hs) as [Hx Lx].
  apply (vsub_zeros_veq y x (length A)); [congruence|].
  apply NSA; [rewrite vsub_length; congruence|].
  apply (mat_vec_vsub_zero A y x ltac:(congruence) b); assumption.
Qed.

(* ------------------------------------------------------------------ 3. the weighted normal equations *)
Lemma rows_len_mred m A : rows_len m A -> rows_len m (mred A).
Proof. unfold rows_len, mred. rewrite Forall_map. apply Forall_impl. intros r H. unfold vred. rewrite map_length. exact H. Qed.

(* the quadratic form of the normal matrix *)
Fixpoint qform (D : list obs) (z d : vec) : Q :=
  match D with [] => 0 | o :: D' => let '(r, w, y) := o in w * dot r z * dot r d + qform D' z d end.

Lemma normal_qform m D z d : wfl m D -> dot (mat_vec (normal_mat m D) z) d == qform D z d.
Proof.
  induction 1 as [|[[r w] y] D Hr HD IH]; simpl.
  - apply mat_vec_zero.
  - simpl in Hr. destruct (normal_mat_shape m D HD) as [L R]. destruct (outer_w_shape w r) as [L1 R1].
    rewrite mat_vec_madd.
    + rewrite mat_vec_outer, IH. reflexivity.
    + congruence.
    + apply rows_len_Forall2 with (m := m); [congruence | rewrite <- Hr; exact R1 | exact R].
Qed.

Lemma qform_nonneg m D z : wf m D -> 0 <= qform D z z.
Proof.
  induction 1 as [|[[r w] y] D [Hr Hw] HD IH]; simpl in *; [lra|].
  assert (0 <= w * dot r z * dot r z).
  { rewrite <- Qmult_assoc. apply Qmult_le_0_compat; [exact Hw|]. generalize (dot r z); intro t. nra. }
  lra.
Qed.

Lemma qform_zero m D z : wf m D -> qform D z z == 0 ->
  Forall (fun o => 0 < snd (fst o) -> dot (fst (fst o)) z == 0) D.
Proof.
  induction 1 as [|[[r w] y] D [Hr Hw] HD IH]; simpl in *; intros H0; constructor.
  - simpl. intros Hpos. pose proof (qform_nonneg m D z HD) as Hn.
    assert (Ht : 0 <= w * dot r z * dot r z).
    { rewrite <- Qmult_assoc. apply Qmult_le_0_compat; [exact Hw|]. generalize (dot r z); intro t. nra. }
    assert (Hz : w * dot r z * dot r z == 0) by lra.
    revert Hz. generalize (dot r z). intros t Hz.
    destruct (Qeq_dec t 0) as [E|E]; [exact E|]. exfalso.
    assert (0 < t * t).
    { destruct (Qlt_le_dec 0 t); [nra|].
      assert (t < 0) by (apply Qle_lteq in q; destruct q as [q|q]; [exact q | exfalso; apply E; exact q]). nra. }
    assert (0 < w * (t * t)) by (apply Qmult_lt_0_compat; assumption).
    assert (w * t * t == w * (t * t)) by ring. lra.
  - apply IH. pose proof (qform_nonneg m D z HD) as Hn.
    assert (Ht : 0 <= w * dot r z * dot r z).
    { rewrite <- Qmult_assoc. apply Qmult_le_0_compat; [exact Hw|]. generalize (dot r z); intro t. nra. }
    lra.
Qed.

(* full column rank on the points of positive weight *)
Definition full_rank (m : nat) (D : list obs) : Prop :=
  forall z, length z = m -> Forall (fun o => 0 < snd (fst o) -> dot (fst (fst o)) z == 0) D -> veq z (zeros m).

Lemma normal_nonsingular m D : wf m D -> full_rank m D -> nonsingular (mred (normal_mat m D)).
Proof.
  intros Hwf FR z Lz Hz. pose proof (wf_wfl m D Hwf) as Hwl.
  destruct (normal_mat_shape m D Hwl) as [LN RN].
  assert (LM : length (mred (normal_mat m D)) = m) by (unfold mred; rewrite map_length; exact LN).
  rewrite LM in *. apply FR; [exact Lz|]. apply (qform_zero m D z Hwf).
  rewrite <- (normal_qform m D z z Hwl).
  rewrite (dot_veq _ (zeros m) z z); [apply dot_zeros_l | | apply veq_refl].
  apply (veq_trans _ (mat_vec (mred (normal_mat m D)) z)); [|exact Hz].
  apply veq_sym. apply mat_vec_meq. apply mred_meq.
Qed.

Theorem wls_solve_complete m D : wf m D -> full_rank m D -> exists x, wls_solve m D = Some x.
Proof.
  intros Hwf FR. unfold wls_solve. pose proof (wf_wfl m D Hwf) as Hwl.
  destruct (normal_mat_shape m D Hwl) as [LN RN].
  assert (LM : length (mred (normal_mat m D)) = m) by (unfold mred; rewrite map_length; exact LN).
  apply solve_checked_complete.
  - rewrite LM. apply rows_len_mred. exact RN.
  - rewrite LM. unfold vred. rewrite map_length. apply normal_rhs_length. exact Hwl.
  - apply normal_nonsingular; assumption.
Qed.

(* with wls_solve_optimal: under full rank the weighted least-squares problem HAS an answer in the model, the answer
   is the global minimiser, and every minimiser of the normal equations is that answer *)
Theorem wls_solve_total m D : wf m D -> full_rank m D ->
  exists x, wls_solve m D = Some x /\ length x = m /\ forall z, length z = m -> chi2 D x <= chi2 D z.
Proof.
  intros Hwf FR. destruct (wls_solve_complete m D Hwf FR) as [x Hx]. exists x. split; [exact Hx|].
  apply (wls_solve_optimal m D x Hwf Hx).
Qed.

Example gj_example : solve_checked [[2; 1; 0]; [1; 3; 1]; [0; 1; 4]] [3; 5; 5] = Some [1; 1; 1].
Proof. vm_compute. reflexivity. Qed.
