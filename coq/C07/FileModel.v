(* C07, file level (definitions only): from the BYTES of a maskbits file to the dictionary, through the proved model
   of the raw yanny reader (Yanny/Parse.v: parse_raw), and the correspondence case that starts from the file text. *)
From Coq Require Import NArith ZArith List Bool String.
Import ListNotations.
From PV Require Import Yanny.Bytes Yanny.Types Yanny.Parse C07.Model.
Open Scope Z_scope.

Definition b2s (b : bytes) : str := map Z.of_N b.

Definition T_MASKBITS : bytes := Eval compute in bs "MASKBITS"%string.
Definition T_MASKALIAS : bytes := Eval compute in bs "MASKALIAS"%string.
Definition C_FLAG : bytes := Eval compute in bs "flag"%string.
Definition C_BIT : bytes := Eval compute in bs "bit"%string.
Definition C_LABEL : bytes := Eval compute in bs "label"%string.
Definition C_ALIAS : bytes := Eval compute in bs "alias"%string.

Definition find_table (name : bytes) (r : rdoc) : option rtable := find (fun t => beq (rt_name t) name) (rd_tables r).

Fixpoint col_index (name : bytes) (cols : list (bytes * option bytes)) : option nat :=
  match cols with
  | [] => None
  | (c, _) :: t => if beq c name then Some O else option_map S (col_index name t)
  end.

(* maskfile[TABLE][column] in raw mode: one list per column; a short row contributes nothing to the later columns *)
Definition colvals (j : nat) (rows : list (list cell)) : list cell :=
  flat_map (fun r => match nth_error r j with Some c => [c] | None => [] end) rows.
Definition column (t : rtable) (name : bytes) : option (list cell) :=
  option_map (fun j => colvals j (rt_rows t)) (col_index name (rt_cols t)).

Definition cell_str (c : cell) : option str := match c with Sc (STok t) => Some (b2s t) | _ => None end.
Definition cell_int (c : cell) : option Z := match c with Sc (SInt z) => Some z | _ => None end.

(* for k in range(maskfile.size(T)): size = length of the FIRST column's list *)
Definition table_size (t : rtable) : nat := List.length (colvals 0 (rt_rows t)).

Fixpoint opt_all {A} (l : list (option A)) : option (list A) :=
  match l with
  | [] => Some []
  | Some x :: t => option_map (cons x) (opt_all t)
  | None :: _ => None
  end.

(* round 5: WHICH table / column the loader reads for which role is a parameter; Generated/Maskbits.v carries the
   string constants found in the ast of set_maskbits (C07/Code.v: code_names), Props.v the obligation that they are
   std_names.  n_bits_size / n_alias_size: the table whose size() bounds the loop; n_alias_guard: the table of the
   `'MASKALIAS' in maskfile` test. *)
Record fnames := mknames {
  n_bits_size : bytes; n_bits_flag : bytes * bytes; n_bits_label : bytes * bytes; n_bits_bit : bytes * bytes;
  n_alias_guard : bytes; n_alias_size : bytes; n_alias_alias : bytes * bytes; n_alias_flag : bytes * bytes }.
Definition std_names : fnames :=
  mknames T_MASKBITS (T_MASKBITS, C_FLAG) (T_MASKBITS, C_LABEL) (T_MASKBITS, C_BIT)
          T_MASKALIAS T_MASKALIAS (T_MASKALIAS, C_ALIAS) (T_MASKALIAS, C_FLAG).

(* maskfile[T][c] : None = KeyError *)
Definition tcolumn (r : rdoc) (tc : bytes * bytes) : option (list cell) :=
  match find_table (fst tc) r with Some t => column t (snd tc) | None => None end.
Definition tsize (r : rdoc) (t : bytes) : option nat := option_map table_size (find_table t r).

(* None = outside the model: a table without the expected columns, a cell of another kind (the struct declared the
   column differently), or an index beyond a column's list (IndexError in set_maskbits).
   A cell of a char column is taken WHOLE, whatever width the typedef declares (cell_str): the raw reader does not
   cut values (Yanny.Parse.conv1: KOther => STok t), and neither does set_maskbits. *)
Definition maskbits_rows_n (n : fnames) (r : rdoc) : option (list row) :=
  match tsize r (n_bits_size n), tcolumn r (n_bits_flag n), tcolumn r (n_bits_bit n), tcolumn r (n_bits_label n) with
  | Some sz, Some fs, Some bs, Some ls =>
      opt_all (map (fun k => match nth_error fs k, nth_error bs k, nth_error ls k with
                             | Some f, Some b, Some l =>
                                 match cell_str f, cell_int b, cell_str l with
                                 | Some f, Some b, Some l => Some (f, b, l)
                                 | _, _, _ => None
                                 end
                             | _, _, _ => None
                             end) (seq 0 sz))
  | _, _, _, _ => None
  end.

Definition maskalias_rows_n (n : fnames) (r : rdoc) : option (list arow) :=
  match tsize r (n_alias_size n), tcolumn r (n_alias_flag n), tcolumn r (n_alias_alias n) with
  | Some sz, Some fs, Some als =>
      opt_all (map (fun k => match nth_error fs k, nth_error als k with
                             | Some f, Some a =>
                                 match cell_str f, cell_str a with
                                 | Some f, Some a => Some (f, a)
                                 | _, _ => None
                                 end
                             | _, _ => None
                             end) (seq 0 sz))
  | _, _, _ => None
  end.

(* the MASKBITS rows and the MASKALIAS rows (none if the file declares no maskalias struct) *)
Definition file_tables_n (n : fnames) (r : rdoc) : option (list row * list arow) :=
  match maskbits_rows_n n r with
  | None => None
  | Some rows =>
      match find_table (n_alias_guard n) r with
      | None => Some (rows, [])
      | Some _ => option_map (fun al => (rows, al)) (maskalias_rows_n n r)
      end
  end.
Definition file_tables : rdoc -> option (list row * list arow) := file_tables_n std_names.

Definition file_rows_n (n : fnames) (b : bytes) : option (list row * list arow) := obind (parse_raw b) (file_tables_n n).
Definition file_rows (b : bytes) : option (list row * list arow) := obind (parse_raw b) file_tables.

(* set_maskbits(maskbits_file=...) on the bytes of the file *)
Definition from_file (up : bool) (b : bytes) : option table :=
  match file_rows b with
  | Some (rows, aliases) => load up rows aliases
  | None => None
  end.

(* ---------------- correspondence case that starts from the file text ---------------- *)

Definition row_eqb (a b : row) : bool :=
  str_eqb (fst (fst a)) (fst (fst b)) && (snd (fst a) =? snd (fst b)) && str_eqb (snd a) (snd b).
Definition arow_eqb (a b : arow) : bool := str_eqb (fst a) (fst b) && str_eqb (snd a) (snd b).

(* text: the file; rows / aliases: what the REAL raw reader returned for it; the rest as in Model.case *)
Inductive fcase :=
  FCase (c : cfg) (n : fnames) (text : string) (rows : list row) (aliases : list arow) (loaded : Z) (tbl : table)
        (calls : list (call * res)).

(* verdicts: [reader] ++ [load] ++ calls.  reader: 0 = the Coq reader model gives the rows the real reader gave,
   1 = it does not (or the file is outside the model).  Everything after is computed from the rows COQ parsed. *)
(* round 5: the load entry also compares the dictionary the real set_maskbits returned (tbl, cell by cell, in its own
   order) with M's (+1) and, for a well-formed file, with the specification of the dictionary (+2).
   M reads the file through the names found in the source (rm, am = file_rows_n n); S and the well-formedness test
   always use the rows of the standard reading (rs, as = file_rows), so a loader that reads other cells is judged
   against the file, not against itself. *)
Definition table_verdict (c : cfg) (rm : list row) (am : list arow) (rs : list row) (als : list arow) (loaded : Z) (tbl : table) : Z :=
  if loaded =? 0 then
    match load_c c rm am with
    | Some m => (if table_eqb m tbl then 0 else 1)
                + (if wf_file rs als && negb (spec_table_ok rs als tbl) then 2 else 0)
    | None => 0
    end
  else 0.

Definition call_verdict_2 (c : cfg) (wf : bool) (m : table) (rs : list row) (als : list arow) (ce : call * res) : Z :=
  let (k, expect) := ce in
  (if res_eqb (model_call_c c m k) expect then 0 else 1)
  + (if wf then
       match spec_call rs als k with
       | Some s => if res_eqb (res_upper s) (res_upper expect) then 0 else 2
       | None => 0
       end
     else 0).

Definition call_verdicts_2 (c : cfg) (rm : list row) (am : list arow) (rs : list row) (als : list arow) (loaded : Z)
                           (calls : list (call * res)) : list Z :=
  let wf := wf_file rs als in
  match load_c c rm am with
  | None => [(if loaded =? 1 then 0 else 1) + (if wf && negb (loaded =? 0) then 2 else 0)]
  | Some m =>
      if loaded =? 0 then 0 :: map (call_verdict_2 c wf m rs als) calls
      else [1 + (if wf then 2 else 0)]
  end.

Definition fcase_verdicts (fc : fcase) : list Z :=
  match fc with
  | FCase c n text rows aliases loaded tbl calls =>
      match obind (parse_raw (bs text)) (fun r => match file_tables r, file_tables_n n r with
                                                  | Some a, Some b => Some (a, b) | _, _ => None end) with
      | Some ((rs, als), (rm, am)) =>
          (if list_eqb row_eqb rs rows && list_eqb arow_eqb als aliases then 0 else 1)
          :: match call_verdicts_2 c rm am rs als loaded calls with
             | v0 :: t => Z.lor v0 (table_verdict c rm am rs als loaded tbl) :: t
             | [] => []
             end
      | None => [1]
      end
  end.

Definition run_fcase (fc : fcase) : Z :=
  let vs := fcase_verdicts fc in
  let o := fold_right Z.lor 0 vs in
  if o =? 0 then 0 else o + 4 * first_bad vs 0.

Definition run_fcases (l : list fcase) : list Z := map run_fcase l.

Definition explain_c (c : cfg) (rows : list row) (aliases : list arow) (k : call) :=
  (option_map (fun m => model_call_c c m k) (load_c c rows aliases), spec_call rows aliases k, wf_file rows aliases).
