(* C15: computechi2 and the HMF steps as assembled from the expressions regenerated from the source
   (Generated/Chi2.v) ARE the reference forms the theorems of Chi2Proofs / HmfProofs* speak about.  A weight lost or put on
   the wrong axis, a changed penalty index, a different epsilon test ... change the generated definitions and these
   proofs stop checking. *)
From Coq Require Import QArith Qabs Qminmax Lqa List Bool Lia ZArith.
From PV Require Import Lib.WLS C13.LinAlg C13.LinAlgProofs Generated.Chi2 C15.Model C15.Chi2Proofs C15.HmfProofs
                       C15.HmfProofs2 C15.HmfProofs3.
Import ListNotations.
Open Scope Q_scope.

Lemma vadd_veq a a' b b' : veq a a' -> veq b b' -> veq (vadd a b) (vadd a' b').
Proof.
  intros H; revert b b'; induction H as [|x x' a a' Hx Ha IH]; intros b b' Hb.
  - constructor.
  - destruct Hb as [|z z' b b' Hz Hb]; simpl; constructor; [rewrite Hx, Hz; reflexivity | apply IH; exact Hb].
Qed.
Lemma madd_meq A : forall A' B B', meq A A' -> meq B B' -> meq (madd A B) (madd A' B').
Proof.
  unfold madd. intros A' B B' H. revert B B'. induction H as [|a a' A A' Ha HA IH]; intros B B' HB.
  - constructor.
  - destruct HB as [|b b' B B' Hb HB]; simpl; constructor; [apply vadd_veq; assumption | apply IH; exact HB].
Qed.
Lemma map_veq {A : Type} (f h : A -> Q) l : (forall x, f x == h x) -> veq (map f l) (map h l).
Proof. intros H. induction l; simpl; constructor; auto. Qed.
Lemma map_meq {A : Type} (f h : A -> vec) l : (forall x, veq (f x) (h x)) -> meq (map f l) (map h l).
Proof. intros H. induction l; simpl; constructor; auto. Qed.

(* ------------------------------------------------------------------ the generic bridge *)
Lemma gen_normal_meq T m D : (forall a b w, T a b w == w * a * b) -> meq (gen_normal T m D) (normal_mat m D).
Proof.
  intros HT. induction D as [|[[r w] y] D IH]; simpl; [apply meq_refl|].
  apply madd_meq; [|exact IH]. unfold outer_w. apply map_meq. intros a. unfold vscale. apply map_veq. intros b. apply HT.
Qed.
Lemma gen_rhsF_veq F m D : (forall y w, F y w == w * y) -> veq (gen_rhsF F m D) (normal_rhs m D).
Proof.
  intros HF. induction D as [|[[r w] y] D IH]; simpl; [apply veq_refl|].
  apply vadd_veq; [|exact IH]. unfold vscale. apply map_veq. intros a. rewrite HF. ring.
Qed.

(* ------------------------------------------------------------------ astep *)
Theorem astep_eq_ref s w g : astep s w g = astep_ref s w g.
Proof.
  unfold astep, astep_ref, wls_solve. f_equal. revert w. induction s as [|si s IH]; intros [|wi w]; simpl; try reflexivity.
  rewrite IH. f_equal.
  rewrite (mred_complete _ _ (gen_normal_meq g_astep_G (length g) (hmf_row_data g wi si) ltac:(intros; unfold g_astep_G; ring))).
  rewrite (vred_complete _ _ (gen_rhsF_veq g_astep_F (length g) (hmf_row_data g wi si) ltac:(intros; unfold g_astep_F; ring))).
  reflexivity.
Qed.

(* ------------------------------------------------------------------ gstep *)
Lemma eps_active_gen_eq eps : eps_active_gen eps = eps_active eps.
Proof. reflexivity. Qed.

(* the three e assignments and the d loop of the source are "sum over the neighbouring columns" / "number of neighbours" *)
Lemma gen_dmult_nbrs M j : (2 <= M)%nat -> (j < M)%nat -> gen_dmult M j == inject_Z (Z.of_nat (length (nbrs M j))).
Proof.
  intros HM Hj. unfold gen_dmult, g_d_interior, g_d_factor, nbrs.
  destruct (Nat.ltb_spec 0 j); destruct (Nat.ltb_spec j (M - 1)); destruct (Nat.ltb_spec (S j) M); simpl; try reflexivity; lia.
Qed.
Lemma gen_e_nbrs e g M j k : (2 <= M)%nat -> (j < M)%nat -> gen_e e g M j k == e * vsum (map (gat g k) (nbrs M j)).
Proof.
  intros HM Hj. unfold gen_e, nbrs, g_e_first, g_e_last, g_e_mid, g_e_first_src, g_e_last_src, g_e_mid_src_a, g_e_mid_src_b, vsum.
  destruct (Nat.eqb_spec j 0) as [E0|E0].
  - subst. simpl. destruct (Nat.ltb_spec 1 M); [simpl; ring | lia].
  - destruct (Nat.eqb_spec j (M - 1)) as [E1|E1].
    + destruct (Nat.ltb_spec 0 j); [|lia]. destruct (Nat.ltb_spec (S j) M); [lia|]. simpl.
      replace (M - 2)%nat with (j - 1)%nat by lia. ring.
    + destruct (Nat.ltb_spec 0 j); [|lia]. destruct (Nat.ltb_spec (S j) M); [|lia]. simpl.
      replace (j + 1)%nat with (S j) by lia. ring.
Qed.

Theorem gstep_col_eq_ref s w a g eps K M j : (2 <= M)%nat -> (j < M)%nat ->
  gstep_col s w a g eps K M j = gstep_col_ref s w a g eps K M j.
Proof.
  intros HM Hj. unfold gstep_col, gstep_col_ref. rewrite eps_active_gen_eq.
  set (D := hmf_col_data a (col j w) (col j s)).
  pose proof (gen_normal_meq g_gstep_A K D ltac:(intros; unfold g_gstep_A; ring)) as EA.
  pose proof (gen_rhsF_veq g_gstep_F K D ltac:(intros; unfold g_gstep_F; ring)) as EF.
  destruct (eps_active eps) as [e|].
  - assert (Ed : meq (map (vscale (g_d_diag e * gen_dmult M j)) (identity K))
                     (map (vscale (e * inject_Z (Z.of_nat (length (nbrs M j))))) (identity K))).
    { apply map_meq. intros r. unfold vscale. apply map_veq. intros x. rewrite (gen_dmult_nbrs M j HM Hj). unfold g_d_diag. reflexivity. }
    assert (Ee : veq (map (gen_e e g M j) (seq 0 K)) (map (fun k => e * vsum (map (gat g k) (nbrs M j))) (seq 0 K))).
    { apply map_veq. intros k. apply gen_e_nbrs; assumption. }
    rewrite (mred_complete _ _ (madd_meq _ _ _ _ EA Ed)), (vred_complete _ _ (vadd_veq _ _ _ _ EF Ee)). reflexivity.
  - rewrite (mred_complete _ _ EA), (vred_complete _ _ EF). reflexivity.
Qed.

Theorem gstep_eq_ref s w a g eps : (2 <= ncols s)%nat -> gstep s w a g eps = gstep_ref s w a g eps.
Proof.
  intros HM. unfold gstep, gstep_ref.
  assert (E : map (gstep_col s w a g eps (ncols a) (ncols s)) (seq 0 (ncols s))
              = map (gstep_col_ref s w a g eps (ncols a) (ncols s)) (seq 0 (ncols s))).
  { apply map_ext_in. intros j Hj. apply in_seq in Hj. apply gstep_col_eq_ref; lia. }
  rewrite E. reflexivity.
Qed.

(* ------------------------------------------------------------------ computechi2 *)
Lemma dot_map_scale s r : forall x, dot (map (fun a => g_mm a s) r) x == s * dot r x.
Proof. induction r as [|a r IH]; intros [|b x]; simpl; try ring. rewrite IH. unfold g_mm. ring. Qed.

Lemma gen_data_normal A : forall sq b m,
  meq (normal_mat m (gen_data A sq b)) (normal_mat m (cc_data A sq b))
  /\ veq (normal_rhs m (gen_data A sq b)) (normal_rhs m (cc_data A sq b)).
Proof.
  unfold gen_data, cc_data, gen_mm, gen_bw. cbn [g_mm_axis].
  induction A as [|r A IH]; intros sq b m.
  - split; [apply meq_refl | apply veq_refl].
  - destruct sq as [|s sq]; [split; [apply meq_refl | apply veq_refl]|].
    destruct b as [|y b]; [split; [apply meq_refl | apply veq_refl]|].
    destruct (IH sq b m) as [E1 E2]. cbn [map2 map combine normal_mat normal_rhs]. split.
    + apply madd_meq; [|exact E1]. unfold outer_w. rewrite map_map. apply map_meq. intros a.
      unfold vscale. rewrite map_map. apply map_veq. intros c. unfold g_mm, sqr. ring.
    + apply vadd_veq; [|exact E2]. unfold vscale. rewrite map_map. apply map_veq. intros a. unfold g_mm, g_bw, sqr. ring.
Qed.

Lemma gen_chi2_eq A : forall sq b a, gen_chi2 (gen_mm A sq) (gen_bw b sq) a = cc_chi2 A sq b a.
Proof.
  unfold gen_mm, gen_bw. cbn [g_mm_axis].
  induction A as [|r A IH]; intros [|s sq] [|y b] a; try reflexivity.
  cbn [map2 gen_chi2 cc_chi2]. rewrite IH. apply Qred_complete.
  unfold g_chi2_term, g_bw, sqr. rewrite !dotr_correct, dot_map_scale. ring.
Qed.

Theorem computechi2_eq_ref b sq A : computechi2 b sq A = computechi2_ref b sq A.
Proof.
  unfold computechi2, computechi2_ref.
  destruct (gen_data_normal A sq b (ncols A)) as [E1 E2].
  rewrite (mred_complete _ _ E1), (vred_complete _ _ E2).
  destruct (solve_checked _ _) as [a|]; [|reflexivity]. destruct (inverse_checked _) as [cov|]; [|reflexivity].
  rewrite gen_chi2_eq. reflexivity.
Qed.

(* what the source says about the pseudo-inverse and covar weights, the pcomp sort and scaling, normbase *)
Lemma generated_axes : g_mm_axis = ScaleRows /\ g_mmi_axis = ScaleCols /\ g_pcomp_axis = ScaleCols /\ g_pcomp_order = Descending
                       /\ g_norm_axis = 1%nat.
Proof. repeat split; reflexivity. Qed.
Lemma generated_reciprocals w vt : 0 < w -> g_wwt w == / w /\ g_mmi_scale vt w == vt / w.
Proof.
  intros H. unfold g_wwt, g_mmi_scale, gQlt_bool. split; [|reflexivity].
  destruct (Qle_bool w (0 # 1)) eqn:E; simpl.
  - apply Qle_bool_iff in E. lra.
  - field. lra.
Qed.
Lemma generated_covar_term wwt vi vj : g_covar_term wwt vi vj == wwt * (vi * vj).
Proof. unfold g_covar_term. ring. Qed.
Lemma generated_pcomp_norm l tr : 0 <= l -> g_pcomp_norm2 l == l /\ g_variance l tr == l / tr.
Proof. intros H. unfold g_pcomp_norm2, g_variance. split; [apply Q.max_l; exact H | reflexivity]. Qed.
Lemma normbase2_is_mean_square g : normbase2 g = map (fun gk => vsum (map sqr gk) / inject_Z (Z.of_nat (length gk))) g.
Proof. reflexivity. Qed.
