(* C20: nested calls.  A caller that snapshots variables into its own locals, runs ANY callee inside try/finally and
   puts the snapshots back in the finally block restores those variables whatever the callee does to them -- including
   a callee that itself saves, overwrites and "cleans up" only on its straight-line path (template_metadata /
   _template_input under template_input).  Proved directly on the operational semantics (not through the abstract
   interpreter), for every callee, schedule and initial state; the only side condition is the one Python scoping
   guarantees: the callee does not assign the caller's local variables (slots). *)
From Coq Require Import List Bool Arith Lia.
Import ListNotations.
From PV Require Import C20.Model C20.Proofs.

Definition instr_slots (i : instr) : list slot :=
  match i with
  | SaveStrict _ s | SaveOpt _ s => [s]
  | _ => []
  end.
Fixpoint prog_slots (p : prog) : list slot :=
  match p with
  | Skip | Raise | Ret => []
  | I i => instr_slots i
  | Seq p q | Choice p q | TryFinally p q | TryExcept p q => prog_slots p ++ prog_slots q
  | Scope p => prog_slots p
  end.

(* the shapes the translator produces: no trailing Skip *)
Fixpoint restores (gs : list (var * slot)) : prog :=
  match gs with
  | [] => Skip
  | (v, s) :: gs' => match gs' with
                     | [] => I (RestoreOptPop v s)
                     | _ => Seq (I (RestoreOptPop v s)) (restores gs')
                     end
  end.
Fixpoint saves_then (gs : list (var * slot)) (k : prog) : prog :=
  match gs with
  | [] => k
  | (v, s) :: gs' => Seq (I (SaveOpt v s)) (saves_then gs' k)
  end.
Definition guard (gs : list (var * slot)) (body : prog) : prog :=
  saves_then gs (TryFinally body (restores gs)).

Definition slots_free (gs : list (var * slot)) (body : prog) : bool :=
  forallb (fun s => negb (existsb (Nat.eqb s) (prog_slots body))) (map snd gs).
Fixpoint nodupb (l : list nat) : bool :=
  match l with
  | [] => true
  | x :: l' => negb (existsb (Nat.eqb x) l') && nodupb l'
  end.

(* ---------- slots a program does not assign keep their contents ---------- *)

Lemma step_slot_frame i sc st st' o sc' s :
  step i sc st = (st', o, sc') -> ~ In s (instr_slots i) -> snd st' s = snd st s.
Proof.
  destruct st as [e sl]. intros H Hn.
  assert (U : forall (x : option (option val)) w, w <> s -> upd sl w x s = sl s).
  { intros x w Hw. unfold upd. destruct (Nat.eqb s w) eqn:Q; [apply Nat.eqb_eq in Q; congruence | reflexivity]. }
  destruct i; simpl in H, Hn;
    repeat match type of H with
           | context[match ?x with _ => _ end] => destruct x
           end; inversion H; subst; simpl; auto; apply U; intuition.
Qed.

Theorem exec_slot_frame p : forall sc st st' o sc' s,
  exec p sc st = (st', o, sc') -> ~ In s (prog_slots p) -> snd st' s = snd st s.
Proof.
  induction p; intros sc st st' o sc' s H Hn; simpl in H, Hn.
  - inversion H; subst; auto.
  - eapply step_slot_frame; eauto.
  - destruct (exec p1 sc st) as [[st1 o1] sc1] eqn:E1.
    assert (F1 : snd st1 s = snd st s) by (eapply IHp1; eauto; intro; apply Hn; apply in_or_app; auto).
    destruct o1; [|inversion H; subst; auto|inversion H; subst; auto].
    rewrite <- F1. eapply IHp2; eauto. intro; apply Hn; apply in_or_app; auto.
  - destruct (pop sc) as [b sc1]. destruct b;
      [eapply IHp1 | eapply IHp2]; eauto; intro; apply Hn; apply in_or_app; auto.
  - destruct (exec p1 sc st) as [[st1 o1] sc1] eqn:E1.
    destruct (exec p2 sc1 st1) as [[st2 o2] sc2] eqn:E2.
    assert (F1 : snd st1 s = snd st s) by (eapply IHp1; eauto; intro; apply Hn; apply in_or_app; auto).
    assert (F2 : snd st2 s = snd st1 s) by (eapply IHp2; eauto; intro; apply Hn; apply in_or_app; auto).
    destruct o2; inversion H; subst; congruence.
  - destruct (exec p1 sc st) as [[st1 o1] sc1] eqn:E1.
    assert (F1 : snd st1 s = snd st s) by (eapply IHp1; eauto; intro; apply Hn; apply in_or_app; auto).
    destruct o1; [inversion H; subst; auto| |inversion H; subst; auto].
    destruct (pop sc1) as [b sc2]. destruct b; [|inversion H; subst; auto].
    rewrite <- F1. eapply IHp2; eauto. intro; apply Hn; apply in_or_app; auto.
  - destruct (exec p sc st) as [[st1 o1] sc1] eqn:E1. inversion H; subst. eapply IHp; eauto.
  - inversion H; subst; auto.
  - inversion H; subst; auto.
Qed.

(* ---------- the restoring block ---------- *)

Lemma restores_cons v s gs sc st :
  exec (restores ((v, s) :: gs)) sc st = exec (Seq (I (RestoreOptPop v s)) (restores gs)) sc st.
Proof.
  destruct gs as [|[v' s'] gs]; [|reflexivity].
  simpl. destruct (step (RestoreOptPop v s) sc st) as [[st1 o1] sc1]. destruct o1; reflexivity.
Qed.

Lemma exec_restores (orig : env) : forall gs sc (e : env) (sl : slots),
  (forall v s, In (v, s) gs -> sl s = Some (orig v)) ->
  exists e' : env, exec (restores gs) sc (e, sl) = ((e', sl), N, sc) /\
             (forall v, In v (map fst gs) -> e' v = orig v) /\
             (forall w, ~ In w (map fst gs) -> e' w = e w).
Proof.
  induction gs as [|[v s] gs IH]; intros sc e sl Hs.
  - exists e. simpl. split; [reflexivity|]. split; [intros v []|auto].
  - rewrite restores_cons. cbn [exec].
    assert (Hv : sl s = Some (orig v)) by (apply Hs; left; reflexivity).
    assert (S1 : step (RestoreOptPop v s) sc (e, sl) = ((upd e v (orig v), sl), N, sc)).
    { simpl. rewrite Hv. destruct (orig v); reflexivity. }
    rewrite S1.
    destruct (IH sc (upd e v (orig v)) sl) as [e' [X [Y Z]]].
    { intros v0 s0 Hin. apply Hs. right; exact Hin. }
    exists e'. split; [exact X|]. split.
    + intros w Hw. simpl in Hw.
      destruct (in_dec Nat.eq_dec w (map fst gs)) as [Hin|Hout]; [apply Y; exact Hin|].
      destruct Hw as [<-|Hw]; [|contradiction].
      rewrite Z by exact Hout. unfold upd. rewrite Nat.eqb_refl. reflexivity.
    + intros w Hw. simpl in Hw. rewrite Z by tauto.
      unfold upd. destruct (Nat.eqb w v) eqn:Q; [apply Nat.eqb_eq in Q; subst; tauto | reflexivity].
Qed.

(* ---------- the theorem ---------- *)

Lemma nodupb_spec l : nodupb l = true -> NoDup l.
Proof.
  induction l as [|x l IH]; simpl; intros H; [constructor|].
  apply andb_true_iff in H as [H1 H2]. constructor; [|apply IH; exact H2].
  intro Hin. apply negb_true_iff in H1. assert (existsb (Nat.eqb x) l = true); [|congruence].
  apply existsb_exists. exists x. split; [exact Hin | apply Nat.eqb_refl].
Qed.

Lemma exec_saves_then gs : NoDup (map snd gs) -> forall k sc (e : env) (sl : slots),
  exists sl' : slots, exec (saves_then gs k) sc (e, sl) = exec k sc (e, sl') /\
              (forall v s, In (v, s) gs -> sl' s = Some (e v)) /\
              (forall s, ~ In s (map snd gs) -> sl' s = sl s).
Proof.
  induction gs as [|[v s] gs IH]; intros Hnd k sc e sl.
  - exists sl. simpl. split; [reflexivity|]. split; [intros v s []|auto].
  - simpl in Hnd. inversion Hnd as [|x l Hnotin Hnd']; subst.
    destruct (IH Hnd' k sc e (upd sl s (Some (e v)))) as [sl' [X [Y Z]]].
    exists sl'. split; [simpl; exact X|]. split.
    + intros v0 s0 [Heq|Hin]; [|apply Y; exact Hin].
      inversion Heq; subst. rewrite Z by exact Hnotin. unfold upd. rewrite Nat.eqb_refl. reflexivity.
    + intros s0 Hs0. simpl in Hs0. rewrite Z by tauto.
      unfold upd. destruct (Nat.eqb s0 s) eqn:Q; [apply Nat.eqb_eq in Q; subst; tauto | reflexivity].
Qed.

Lemma exec_finally p q sc st :
  exec (TryFinally p q) sc st =
  let '(st1, o, sc1) := exec p sc st in
  let '(st2, o2, sc2) := exec q sc1 st1 in
  match o2 with N => (st2, o, sc2) | _ => (st2, o2, sc2) end.
Proof. reflexivity. Qed.

(* whatever the callee does (to these or to any other variables), the guarded variables are back afterwards, the
   outcome is the callee's own, and the guard itself adds no change to any other variable *)
Theorem guard_restores gs body :
  NoDup (map snd gs) -> (forall s, In s (map snd gs) -> ~ In s (prog_slots body)) ->
  forall env0 sl sc st' o sc', exec (guard gs body) sc (env0, sl) = (st', o, sc') ->
  (forall v, In v (map fst gs) -> fst st' v = env0 v) /\
  (forall w, ~ In w (map fst gs) -> ~ In w (prog_writes body) -> fst st' w = env0 w).
Proof.
  intros Hnd Hfree env0 sl sc st' o sc' H. unfold guard in H.
  destruct (exec_saves_then gs Hnd (TryFinally body (restores gs)) sc env0 sl) as [sl' [X [Y _]]].
  rewrite X in H. rewrite exec_finally in H.
  destruct (exec body sc (env0, sl')) as [[[e1 sl1] o1] sc1] eqn:E1.
  assert (Hsl : forall v s, In (v, s) gs -> sl1 s = Some (env0 v)).
  { intros v s Hin. rewrite <- (Y v s Hin).
    change (sl1 s) with (snd (e1, sl1) s). change (sl' s) with (snd (env0, sl') s).
    eapply exec_slot_frame; eauto. apply Hfree. apply in_map_iff. exists (v, s). auto. }
  destruct (exec_restores env0 gs sc1 e1 sl1 Hsl) as [e' [R1 [R2 R3]]].
  rewrite R1 in H. inversion H; subst. simpl. split; [exact R2|].
  intros w Hw Hnw. rewrite R3 by exact Hw.
  change (e1 w) with (fst (e1, sl1) w). change (env0 w) with (fst (env0, sl') w).
  eapply exec_frame; eauto.
Qed.

(* boolean side conditions, for skeletons *)
Theorem guard_restores_b gs body :
  nodupb (map snd gs) = true -> slots_free gs body = true ->
  forall env0 sl sc st' o sc', exec (guard gs body) sc (env0, sl) = (st', o, sc') ->
  forall v, In v (map fst gs) -> fst st' v = env0 v.
Proof.
  intros Hnd Hfree env0 sl sc st' o sc' H.
  refine (proj1 (guard_restores gs body (nodupb_spec _ Hnd) _ env0 sl sc st' o sc' H)).
  intros s Hs Hin. unfold slots_free in Hfree. rewrite forallb_forall in Hfree.
  specialize (Hfree s Hs). apply negb_true_iff in Hfree.
  assert (existsb (Nat.eqb s) (prog_slots body) = true); [|congruence].
  apply existsb_exists. exists s. split; [exact Hin | apply Nat.eqb_refl].
Qed.

(* the outcome of an inlined callee is never "return": the caller goes on *)
Theorem scope_never_returns p sc st : snd (fst (exec (Scope p) sc st)) <> R.
Proof.
  simpl. destruct (exec p sc st) as [[st1 o1] sc1]. simpl. destruct o1; discriminate.
Qed.
