(* C05 -- algorithmic models (definitions only): class groups, the mapGroups merge loop and the tail of
   chunks.friendsoffriends().  Transliterations of pydl/pydlutils/spheregroup.py; `while` loops carry fuel. *)
From Coq Require Import ZArith List Bool Arith.
Import ListNotations.
From PV Require Import C05.Model.

(* ------------------------------------------------------------------ class groups (per-cell friends-of-friends) *)

(* k = first[g]; while k != -1: inGroup[k] = v; k = next[k] *)
Fixpoint set_walk (fuel : nat) (next ing : arr) (k v : Z) : arr :=
  match fuel with
  | O => ing
  | S f => if (k =? -1)%Z then ing else set_walk f next (aset ing (Z.to_nat k) v) (aget next k) v
  end.

Record gstate := { g_in : arr; g_first : arr; g_next : arr; g_n : Z }.

Definition groups_step (m : nat) (lnk : nat -> nat -> bool) (st : gstate) (i : nat) : gstate :=
  let nbrs := filter (fun j => lnk i j) (seq 0 m) in                 (* multGroup[0..nTmp-1] *)
  let minGroup := fold_left (fun mg j => Z.min mg (g_in st j)) nbrs (g_n st) in
  let ing := fold_left (fun ing j =>
                let ing1 := if (ing j <? Z.of_nat m)%Z
                            then set_walk (S m) (g_next st) ing (aget (g_first st) (ing j)) minGroup
                            else ing in
                aset ing1 j minGroup) nbrs (g_in st) in
  let ng := if (minGroup =? g_n st)%Z then (g_n st + 1)%Z else g_n st in
  let first0 := fun x => if x <=? i then (-1)%Z else g_first st x in  (* for j in range(i+1): first[j] = -1 *)
  let '(first, next) := build_lists (rev (seq 0 (S i))) ing first0 (g_next st) in
  {| g_in := ing; g_first := first; g_next := next; g_n := ng |}.

(* (nGroups, inGroup, multGroup, firstGroup, nextGroup) *)
Definition groups_model (m : nat) (lnk : nat -> nat -> bool) : Z * (list Z * list Z * list Z * list Z) :=
  let st0 := {| g_in := fun i => Z.of_nat i; g_first := const (-1)%Z; g_next := const (-1)%Z; g_n := 0%Z |} in
  let st := fold_left (groups_step m lnk) (seq 0 m) st0 in
  let '(ing, c) := renumber_loop (S m) (g_first st) (g_next st) (seq 0 m) (g_in st) (fun _ => false) 0%Z in
  let '(first, next) := build_lists (rev (seq 0 m)) ing (const (-1)%Z) (g_next st) in
  (* multGroup keeps the neighbour indices of the last point beyond nGroups: not compared *)
  let mult := mult_loop (S m) (Z.to_nat c) first next in
  (c, (tolist m ing, tolist m mult, tolist m first, tolist m next)).

(* ------------------------------------------------------------------ the mapGroups merge (union-find) *)

Definition upd (mp : nat -> nat) (i v : nat) : nat -> nat := fun x => if Nat.eqb x i then v else mp x.
Definition oset (a : nat -> option nat) (i : nat) (v : nat) : nat -> option nat :=
  fun x => if Nat.eqb x i then Some v else a x.

(* while mapGroups[c] != c: c = mapGroups[c] *)
Fixpoint chase (fuel : nat) (mp : nat -> nat) (c : nat) : nat :=
  match fuel with
  | O => c
  | S f => if Nat.eqb (mp c) c then c else chase f mp (mp c)
  end.

(* while mapGroups[c] != c: tmp = mapGroups[c]; mapGroups[c] = m; c = tmp
   mapGroups[c] = m *)
Fixpoint compress (fuel : nat) (mp : nat -> nat) (c m : nat) : nat -> nat :=
  match fuel with
  | O => mp
  | S f => if Nat.eqb (mp c) c then upd mp c m else compress f (upd mp c m) (mp c) m
  end.

Definition omin (me : option nat) (r : nat) : option nat :=
  match me with None => Some r | Some x => Some (Nat.min x r) end.

(* first walk over the members of one provisional group t: minEarly (None = the sentinel 9*nPoints) *)
Definition pass1 (fuel t : nat) (mp : nat -> nat) (g : list nat) (ing : nat -> option nat)
  : (nat -> option nat) * option nat :=
  fold_left (fun st p => match fst st p with
                         | Some e => (fst st, omin (snd st) (chase fuel mp e))
                         | None => (oset (fst st) p t, snd st)
                         end) g (ing, None).

(* second walk: path compression towards minEarly *)
Definition pass2 (fuel : nat) (g : list nat) (ing : nat -> option nat) (mp : nat -> nat) (m : nat) : nat -> nat :=
  fold_left (fun mp p => match ing p with Some e => compress fuel mp e m | None => mp end) g mp.

Record mstate := { m_in : nat -> option nat; m_map : nat -> nat; m_n : nat }.

Definition merge_step (st : mstate) (g : list nat) : mstate :=
  let t := m_n st in
  let '(ing1, me) := pass1 (S t) t (m_map st) g (m_in st) in
  match me with
  | None => {| m_in := ing1; m_map := upd (m_map st) t t; m_n := S t |}
  | Some m => {| m_in := ing1; m_map := pass2 (S t) g ing1 (upd (m_map st) t m) m; m_n := S t |}
  end.

Definition merge_model (pgs : list (list nat)) : mstate :=
  fold_left merge_step pgs {| m_in := fun _ => None; m_map := fun x => x; m_n := 0 |}.

(* provisional groups of one cell: walk first[k]/next[] of the cell's groups object, map positions to points *)
Definition pgs_of_cell (c : list nat) (ng : nat) (first next : arr) : list (list nat) :=
  map (fun k => map (fun l => nth l c 0) (walk (S (length c)) next (first k))) (seq 0 ng).

(* ------------------------------------------------------------------ tail of chunks.friendsoffriends *)

(* for i in range(nMapGroups): if map[i] == i: map[i] = nGroups; nGroups += 1 else: map[i] = map[map[i]] *)
Definition flatten (t : nat) (mp : nat -> nat) : (nat -> nat) * nat :=
  fold_left (fun st i => if Nat.eqb (fst st i) i then (upd (fst st) i (snd st), S (snd st))
                         else (upd (fst st) i (fst st (fst st i)), snd st)) (seq 0 t) (mp, 0).

(* (inGroup, multGroup, firstGroup, nextGroup, nGroups) as arrays *)
Definition fof_tail_arrs (n : nat) (st : mstate) : arr * arr * arr * arr * nat :=
  let '(mp, ng) := flatten (m_n st) (m_map st) in
  let ing : arr := fun i => match m_in st i with Some g => Z.of_nat (mp g) | None => (-1)%Z end in
  let '(first, next) := build_lists (rev (seq 0 n)) ing (const (-1)%Z) (const (-1)%Z) in
  let mult := mult_loop (S n) ng first next in
  (ing, mult, first, next, ng).

Definition fof_tail_model (n : nat) (st : mstate) : list Z * list Z * list Z * list Z * Z :=
  let '(ing, mult, first, next, ng) := fof_tail_arrs n st in
  (tolist n ing, tolist n mult, tolist n first, tolist n next, Z.of_nat ng).

(* spheregroup() after chunk.assign: merge the provisional groups of all cells, finish friendsoffriends,
   renumber.  pgs = the provisional groups (members as point indices) in the order they are created *)
Definition spheregroup_model (n : nat) (pgs : list (list nat)) : out4 :=
  let '(ing, mult, first, next, ng) := fof_tail_arrs n (merge_model pgs) in
  renumber_model n ing first next ng.

(* ------------------------------------------------------------------ correspondence *)
(* one recorded cell: chunkList[i][j], and the groups object computed for it *)
Record cellrec := {
  cr_list : list nat;
  cr_ng : Z;
  cr_in : list Z; cr_first : list Z; cr_next : list Z
}.

Definition groups_agree (adj : list Z) (c : cellrec) : bool :=
  let pts := cr_list c in
  let m := length pts in
  let lnk := fun a b => link_of adj (nth a pts 0) (nth b pts 0) in
  let '(ng, (ing, _, first, next)) := groups_model m lnk in
  (ng =? cr_ng c)%Z && listZ_eqb ing (cr_in c) && listZ_eqb first (cr_first c) && listZ_eqb next (cr_next c).

Definition fof_of_cells (n : nat) (cells : list cellrec) : list Z * list Z * list Z * list Z * Z :=
  let pgs := flat_map (fun c => pgs_of_cell (cr_list c) (Z.to_nat (cr_ng c)) (arr_of (cr_first c)) (arr_of (cr_next c))) cells in
  fof_tail_model n (merge_model pgs).

Definition fof_agree (n : nat) (cells : list cellrec) (fof : list Z * list Z * list Z * list Z * Z) : bool :=
  let '(i1, m1, f1, n1, g1) := fof_of_cells n cells in
  let '(i2, m2, f2, n2, g2) := fof in
  listZ_eqb i1 i2 && listZ_eqb m1 m2 && listZ_eqb f1 f2 && listZ_eqb n1 n2 && (g1 =? g2)%Z.

Definition mkcell (l : list Z) (ng : Z) (i f nx : list Z) : cellrec :=
  {| cr_list := map Z.to_nat l; cr_ng := ng; cr_in := i; cr_first := f; cr_next := nx |}.

(* ------------------------------------------------------------------ the whole of spheregroup() after chunk.assign *)
(* provisional groups of one cell: run class groups on the cell's points, walk its lists *)
Definition cell_pgs (lnk : nat -> nat -> bool) (c : list nat) : list (list nat) :=
  let '(ng, (ing, mult, first, next)) := groups_model (length c) lnk in
  pgs_of_cell c (Z.to_nat ng) (arr_of first) (arr_of next).

(* cells = the non-empty chunkList entries in the order friendsoffriends visits them *)
Definition spheregroup_full (n : nat) (link : nat -> nat -> bool) (cells : list (list nat)) : out4 :=
  spheregroup_model n (flat_map (fun c => cell_pgs (fun a b => link (nth a c 0) (nth b c 0)) c) cells).

(* verdict bits: +1 some model differs from the implementation; +2 output is not the specification's *)
Definition run_case2 (x : case * (list cellrec * option (list Z * list Z * list Z * list Z * Z))) : Z :=
  let '(c, (cells, fof)) := x in
  let n := length (c_adj c) in
  let algo_ok := forallb (groups_agree (c_adj c)) cells &&
                 match fof with Some f => fof_agree n cells f | None => true end &&
                 (* the complete model, from the adjacency matrix and the recorded cell lists alone *)
                 out4_eqb (spheregroup_full n (link_of (c_adj c)) (map cr_list cells)) (c_out c) in
  ((if renumber_agrees c && algo_ok then 0 else 1) + (if spec_ok c then 0 else 2))%Z.
Definition run_cases2 (xs : list (case * (list cellrec * option (list Z * list Z * list Z * list Z * Z)))) : list Z :=
  map run_case2 xs.

