(* Yanny/Render.v -- the logical document, the writer model `render` (dtype_to_struct + write, as
   write_ndarray_to_yanny / write_table_yanny drive them), the specification `sem` (what a read of the
   written file must return) and the boolean domain predicate `doc_ok`.
   Does NOT depend on Yanny/Parse.v.  DEFINITIONS ONLY. *)
From Coq Require Import String.
From Coq Require Import NArith ZArith List Bool.
Import ListNotations.
From PV Require Import Yanny.Bytes Yanny.Types.
Open Scope N_scope.

(* numpy element types as dtype_to_struct sees them (dt[c].str[1:]) *)
Inductive btype := TShort | TInt | TLong | TFloat | TDouble
                 | TChar (w : N)            (* S<w> and U<w>: w characters *)
                 | TUnsup (code : bytes)    (* anything else: u1 u2 u4 u8 i1 b1 f2 f16 c8 c16 ... *)
                 | TCharU.                  (* char[] : only in hand-written files (C02); the writer never emits it *)
Record column := mkcol { c_name : bytes; c_type : btype; c_arr : option N }.
Record table := mktable { t_name : bytes; t_cols : list column; t_rows : list (list cell) }.
(* enums= dictionary: column name -> (type name, labels) *)
Record enumdecl := mkenum { e_col : bytes; e_tname : bytes; e_labels : list bytes }.
Record doc := mkdoc { d_comments : list bytes; d_pairs : list (bytes * bytes); d_enums : list enumdecl;
                      d_tables : list table }.

Definition S_TYPEDEF_STRUCT : bytes := Eval compute in bs "typedef struct {"%string.
Definition S_TYPEDEF_ENUM : bytes := Eval compute in bs "typedef enum {"%string.
Definition S_INDENT : bytes := Eval compute in bs "    "%string.
Definition S_MAGIC : bytes := Eval compute in bs "#%yanny"%string.
Definition S_SHORT : bytes := Eval compute in bs "short"%string.
Definition S_INT : bytes := Eval compute in bs "int"%string.
Definition S_LONG : bytes := Eval compute in bs "long"%string.
Definition S_FLOAT : bytes := Eval compute in bs "float"%string.
Definition S_DOUBLE : bytes := Eval compute in bs "double"%string.
Definition S_CHAR : bytes := Eval compute in bs "char"%string.

(* ---- protect() ---- *)
Definition needs_quote (s : bytes) : bool :=
  match s with [] => true | _ => existsb (fun c => (c =? HASH) || is_ws c) s end.
Definition protect (s : bytes) : bytes := if needs_quote s then QUOTE :: s ++ [QUOTE] else s.

Definition show_sval (v : sval) : bytes := match v with SInt z => show_Z z | STok t => t end.
Definition render_sval (v : sval) : bytes := protect (show_sval v).
Definition render_array (l : list sval) : bytes := LBRACE :: join [SP] (map render_sval l) ++ [RBRACE].
Definition render_cell (c : cell) : bytes := match c with Sc v => render_sval v | Ar l => render_array l end.
(* ' '.join([sym] + data) + newline *)
Definition render_row_line (name : bytes) (r : list cell) : bytes := join [SP] (name :: map render_cell r).
Definition render_row (name : bytes) (r : list cell) : bytes := render_row_line name r ++ [NL].

(* ---- dtype_to_struct ---- *)
(* the dtmap dictionary of dtype_to_struct: numpy code -> C type *)
Definition dtmap : list (bytes * bytes) :=
  Eval compute in [(bs "i2"%string, S_SHORT); (bs "i4"%string, S_INT); (bs "i8"%string, S_LONG);
                   (bs "f4"%string, S_FLOAT); (bs "f8"%string, S_DOUBLE)].
Fixpoint lookup (k : bytes) (l : list (bytes * bytes)) : option bytes :=
  match l with [] => None | (k', v) :: l' => if beq k k' then Some v else lookup k l' end.
Definition np_code (t : btype) : bytes :=
  match t with
  | TShort => [105; 50] | TInt => [105; 52] | TLong => [105; 56] | TFloat => [102; 52] | TDouble => [102; 56]
  | TChar w => 83 :: show_N w
  | TUnsup c => c
  | TCharU => [83; 48]
  end.
Definition is_char (t : btype) : bool := match t with TChar _ => true | _ => false end.
Fixpoint enum_for (c : bytes) (es : list enumdecl) : option enumdecl :=
  match es with
  | [] => None
  | e :: es' => match enum_for c es' with Some e' => Some e' | None => if beq c (e_col e) then Some e else None end
  end.
(* the type word of a column's declaration; None = KeyError in dtmap (refused) *)
Definition ctype_word (es : list enumdecl) (c : column) : option bytes :=
  match c_type c with
  | TChar _ => match enum_for (c_name c) es with Some e => Some (upper (e_tname e)) | None => Some S_CHAR end
  | t => lookup (np_code t) dtmap
  end.
Definition brack (n : N) : bytes := LBRACK :: show_N n ++ [RBRACK].
Definition decl_suffix (es : list enumdecl) (c : column) : bytes :=
  (match c_arr c with Some l => if 0 <? l then brack l else [] | None => [] end) ++
  (match c_type c, enum_for (c_name c) es with TChar w, None => brack w | _, _ => [] end).
Definition decl_line (es : list enumdecl) (c : column) : option bytes :=
  match ctype_word es c with
  | Some w => Some (S_INDENT ++ w ++ [SP] ++ c_name c ++ decl_suffix es c ++ [SEMI])
  | None => None
  end.
Definition render_struct (es : list enumdecl) (t : table) : option bytes :=
  match omap (decl_line es) (t_cols t) with
  | Some ls => Some (join [NL] ([S_TYPEDEF_STRUCT] ++ ls ++ [RBRACE :: SP :: upper (t_name t) ++ [SEMI]]))
  | None => None
  end.
Definition strip_commas (s : bytes) : bytes :=       (* str.strip(',') *)
  let f := fix f (s : bytes) := match s with c :: s' => if c =? COMMA then f s' else s | [] => [] end in
  rev (f (rev (f s))).
Definition render_enum (e : enumdecl) : bytes :=
  let ls := S_TYPEDEF_ENUM :: map (fun n => S_INDENT ++ n ++ [COMMA]) (e_labels e) in
  let ls' := match rev ls with last :: r => rev (strip_commas last :: r) | [] => [] end in
  join [NL] (ls' ++ [RBRACE :: SP :: upper (e_tname e) ++ [SEMI]]).

(* ---- write() ---- *)
Definition render_header (comments : list bytes) : bytes :=
  S_MAGIC ++ [NL] ++ join [NL] (map (fun c => HASH :: SP :: c) comments) ++ [NL].
Definition render_pair (kv : bytes * bytes) : bytes := fst kv ++ [SP] ++ snd kv ++ [NL].
Definition render_block (texts : list bytes) : bytes :=
  match texts with [] => [] | _ => [NL] ++ join [NL; NL] texts ++ [NL] end.
Definition render_rows (t : table) : bytes := concat (map (render_row (upper (t_name t))) (t_rows t)).

Definition render_checked (d : doc) : option bytes :=
  match omap (render_struct (d_enums d)) (d_tables d) with
  | None => None
  | Some structs =>
      Some (render_header (d_comments d) ++ concat (map render_pair (d_pairs d))
            ++ render_block (map render_enum (d_enums d)) ++ render_block structs ++ [NL]
            ++ concat (map render_rows (d_tables d)))
  end.
Definition render (d : doc) : bytes := match render_checked d with Some b => b | None => [] end.

(* ------------------------------------------------------------------ *)
(* specification: what reading the written file must return            *)
Definition np_of (es : list enumdecl) (c : column) : option npk :=
  match c_type c with
  | TShort => Some NI2 | TInt => Some NI4 | TLong => Some NI8 | TFloat => Some NF4 | TDouble => Some NF8
  | TChar w => match enum_for (c_name c) es with
               | Some e => Some (NS (N.of_nat (maxlen (e_labels e))))
               | None => Some (NS w)
               end
  | TUnsup _ | TCharU => None
  end.
Definition sem_col (es : list enumdecl) (c : column) : option pcol :=
  match ctype_word es c, np_of es c with
  | Some w, Some k => Some (mkpcol (c_name c) (w ++ decl_suffix es c) k (c_arr c))
  | _, _ => None
  end.
Definition sem_table (es : list enumdecl) (t : table) : option ptable :=
  option_map (fun cols => mkptable (upper (t_name t)) cols (t_rows t)) (omap (sem_col es) (t_cols t)).
Definition sem (d : doc) : option pdoc :=
  match omap (render_struct (d_enums d)) (d_tables d), omap (sem_table (d_enums d)) (d_tables d) with
  | Some structs, Some tabs => Some (mkpdoc (d_pairs d) (map render_enum (d_enums d)) structs tabs)
  | _, _ => None
  end.

(* ------------------------------------------------------------------ *)
(* the domain (boolean)                                                *)
Definition KW_TYPEDEF_R : bytes := Eval compute in bs "typedef"%string.
Definition printable (c : N) : bool := (c =? TAB) || ((32 <=? c) && (c <=? 126)).
(* a string value the format can express as a scalar cell *)
Definition str_ok (s : bytes) : bool :=
  forallb (fun c => printable c && negb (c =? QUOTE)) s
  && match s with c :: _ => negb (c =? LBRACE) | [] => true end
  && negb (contains KW_TYPEDEF_R s).
Definition elt_ok (s : bytes) : bool := str_ok s && negb (mem RBRACE s).
Definition ends_bsl (s : bytes) : bool := match last_byte s with Some c => c =? BSL | None => false end.
Definition ident (s : bytes) : bool :=
  match s with c :: s' => (is_alpha c || (c =? USCORE)) && forallb is_word s' | [] => false end.
(* float text as numpy prints it: opaque, but a bare token *)
Definition bare_ok (t : bytes) : bool :=
  negb (needs_quote t) && str_ok t && negb (mem RBRACE t) && negb (mem BSL t).

Definition int_range (t : btype) (z : Z) : bool :=
  match t with
  | TShort => (-32768 <=? z)%Z && (z <=? 32767)%Z
  | TInt => (-2147483648 <=? z)%Z && (z <=? 2147483647)%Z
  | TLong => (-9223372036854775808 <=? z)%Z && (z <=? 9223372036854775807)%Z
  | _ => false
  end.
Definition sval_ok (es : list enumdecl) (c : column) (inarr : bool) (v : sval) : bool :=
  match c_type c, v with
  | (TShort | TInt | TLong) as t, SInt z => int_range t z
  | (TFloat | TDouble), STok t => bare_ok t
  | TChar w, STok s =>
      (if inarr then elt_ok s else str_ok s) &&
      match enum_for (c_name c) es with
      | Some e => existsb (beq s) (e_labels e)
      | None => (N.of_nat (length s) <=? w)
      end
  | _, _ => false
  end.
Definition cell_ok (es : list enumdecl) (c : column) (x : cell) : bool :=
  match c_arr c, x with
  | None, Sc v => sval_ok es c false v
  | Some n, Ar l => (0 <? n) && Nat.eqb (length l) (N.to_nat n) && forallb (sval_ok es c true) l
  | _, _ => false
  end.
Fixpoint row_ok (es : list enumdecl) (cols : list column) (r : list cell) : bool :=
  match cols, r with
  | [], [] => true
  | c :: cols', x :: r' => cell_ok es c x && row_ok es cols' r'
  | _, _ => false
  end.
(* the line must not end in a backslash: a bare scalar in the last column *)
Definition row_end_ok (r : list cell) : bool :=
  match rev r with Sc v :: _ => negb (ends_bsl (show_sval v)) | _ => true end.
Fixpoint distinct (l : list bytes) : bool :=
  match l with [] => true | x :: l' => negb (existsb (beq x) l') && distinct l' end.
Definition col_ok (c : column) : bool :=
  ident (c_name c) && negb (contains KW_TYPEDEF_R (c_name c))
  && match c_arr c with Some l => 0 <? l | None => true end
  && match c_type c with TUnsup _ | TCharU => false | TChar w => 0 <? w | _ => true end.
Definition table_ok (es : list enumdecl) (t : table) : bool :=
  ident (t_name t) && match t_cols t with [] => false | _ => true end
  && forallb col_ok (t_cols t) && distinct (map c_name (t_cols t))
  && forallb (fun r => row_ok es (t_cols t) r && row_end_ok r) (t_rows t).
Definition enum_ok (e : enumdecl) : bool :=
  ident (e_col e) && ident (e_tname e) && match e_labels e with [] => false | _ => true end
  && forallb (fun l => ident l && negb (contains KW_TYPEDEF_R l)) (e_labels e).
(* header value: printable, no '#', no blank at either end (= its own strip()), no final backslash, no brace,
   no typedef keyword *)
Definition hdr_ok (v : bytes) : bool :=
  forallb (fun c => printable c && negb (c =? HASH)) v
  && match v with c :: _ => negb (is_ws c) | [] => true end && match rev v with c :: _ => negb (is_ws c) | [] => true end
  && negb (ends_bsl v)
  && negb (mem LBRACE v) && negb (contains KW_TYPEDEF_R v).
Definition comment_ok (c : bytes) : bool :=
  forallb printable c && negb (mem BSL c) && negb (contains KW_TYPEDEF_R c).
Definition doc_ok (d : doc) : bool :=
  let names := map (fun t => upper (t_name t)) (d_tables d) in
  forallb comment_ok (d_comments d) && match d_comments d with [] => false | _ => true end
  && forallb (fun kv => ident (fst kv) && negb (contains KW_TYPEDEF_R (fst kv)) && hdr_ok (snd kv)
                        && negb (existsb (beq (upper (fst kv))) names)) (d_pairs d)
  && distinct (map fst (d_pairs d))
  && forallb enum_ok (d_enums d) && distinct (map e_col (d_enums d)) && distinct (map (fun e => upper (e_tname e)) (d_enums d))
  && forallb (table_ok (d_enums d)) (d_tables d) && distinct names.
