(* C17: the lines of an n-D array along an axis, derived from (shape, axis): they partition the flat indices. *)
From Coq Require Import ZArith List Bool Lia Arith.Arith.
Import ListNotations.
From PV Require Import C17.Model.

Lemma prod_split : forall ax shape, (ax < length shape)%nat ->
  prod shape = (prod (firstn ax shape) * (nth ax shape O * prod (skipn (S ax) shape)))%nat.
Proof.
  induction ax as [|ax IH]; intros [|a r] H; cbn [length] in H; try lia.
  - cbn [firstn skipn nth]. change (prod (a :: r)) with (a * prod r)%nat. change (prod []) with 1%nat. lia.
  - cbn [firstn nth]. change (skipn (S (S ax)) (a :: r)) with (skipn (S ax) r).
    change (prod (a :: r)) with (a * prod r)%nat.
    change (prod (a :: firstn ax r)) with (a * prod (firstn ax r))%nat.
    rewrite (IH r) by lia. generalize (prod (firstn ax r)) (nth ax r O * prod (skipn (S ax) r))%nat. intros; nia.
Qed.

Lemma length_concat_const : forall {A} (L : list (list A)) c, (forall l, In l L -> length l = c) ->
  length (concat L) = (length L * c)%nat.
Proof.
  induction L as [|l L IH]; intros c H; [reflexivity|]. cbn. rewrite app_length, (H l (or_introl eq_refl)), (IH c); [lia|].
  intros l' Hl'. apply H. right. exact Hl'.
Qed.

Lemma length_flat_map_const : forall {A B} (f : A -> list B) (l : list A) c, (forall a, In a l -> length (f a) = c) ->
  length (flat_map f l) = (length l * c)%nat.
Proof.
  induction l as [|a l IH]; intros c H; [reflexivity|]. cbn. rewrite app_length, (H a (or_introl eq_refl)), (IH c); [lia|].
  intros a' Ha'. apply H. right. exact Ha'.
Qed.

Section Lines.
  Variables (outer len inner : nat).
  Let L := flat_map (fun o => map (fun i => map (fun k => ((o * len + k) * inner + i)%nat) (seq 0 len)) (seq 0 inner)) (seq 0 outer).

  Lemma In_lines : forall k, In k (concat L) <->
    exists o kk i, (o < outer /\ kk < len /\ i < inner)%nat /\ k = ((o * len + kk) * inner + i)%nat.
  Proof.
    intros k. rewrite in_concat. split.
    - intros (l & Hl & Hk). unfold L in Hl. apply in_flat_map in Hl as (o & Ho & Hl).
      apply in_map_iff in Hl as (i & <- & Hi). apply in_map_iff in Hk as (kk & <- & Hkk).
      apply in_seq in Ho, Hi, Hkk. exists o, kk, i. split; [lia | reflexivity].
    - intros (o & kk & i & (Ho & Hkk & Hi) & ->).
      exists (map (fun k => ((o * len + k) * inner + i)%nat) (seq 0 len)). split.
      + unfold L. apply in_flat_map. exists o. split; [apply in_seq; lia|].
        apply in_map_iff. exists i. split; [reflexivity | apply in_seq; lia].
      + apply in_map_iff. exists kk. split; [reflexivity | apply in_seq; lia].
  Qed.

  Lemma lines_bound : forall k, In k (concat L) <-> (k < outer * (len * inner))%nat.
  Proof.
    intros k. rewrite In_lines. split.
    - intros (o & kk & i & (Ho & Hkk & Hi) & ->).
      assert (o * len + kk + 1 <= outer * len)%nat by nia. nia.
    - intros Hk.
      assert (Hin : (0 < inner)%nat) by (destruct inner; [lia | lia]).
      assert (Hlen : (0 < len)%nat) by (destruct len; [lia | lia]).
      exists (k / inner / len)%nat, ((k / inner) mod len)%nat, (k mod inner)%nat.
      pose proof (Nat.div_mod k inner ltac:(lia)) as D1.
      pose proof (Nat.div_mod (k / inner) len ltac:(lia)) as D2.
      pose proof (Nat.mod_upper_bound k inner ltac:(lia)).
      pose proof (Nat.mod_upper_bound (k / inner) len ltac:(lia)).
      assert (Q1 : (k / inner < outer * len)%nat) by (apply Nat.div_lt_upper_bound; lia).
      assert (Q2 : (k / inner / len < outer)%nat) by (apply Nat.div_lt_upper_bound; lia).
      split; [lia|]. rewrite D1 at 1. rewrite D2 at 1. lia.
  Qed.

  Lemma lines_count : length (concat L) = (outer * (len * inner))%nat.
  Proof.
    rewrite (length_concat_const L len).
    - unfold L. rewrite (length_flat_map_const _ _ inner); [rewrite seq_length; lia|].
      intros o _. rewrite map_length, seq_length. reflexivity.
    - intros l Hl. unfold L in Hl. apply in_flat_map in Hl as (o & _ & Hl).
      apply in_map_iff in Hl as (i & <- & _). rewrite map_length, seq_length. reflexivity.
  Qed.

  Lemma lines_nodup : NoDup (concat L).
  Proof.
    apply (NoDup_incl_NoDup (l := seq 0 (outer * (len * inner)))).  
    - apply seq_NoDup.
    - rewrite lines_count, seq_length. lia.
    - intros k Hk. apply in_seq in Hk. apply lines_bound. lia.
  Qed.
End Lines.

(* the lines along an axis are disjoint and together cover exactly the flat indices 0 .. size-1 *)
Theorem lines_partition : forall shape ax, (ax < length shape)%nat ->
  NoDup (concat (lines_of shape ax)) /\ forall k, In k (concat (lines_of shape ax)) <-> (k < prod shape)%nat.
Proof.
  intros shape ax H. unfold lines_of. split; [apply lines_nodup|].
  intros k. rewrite lines_bound, (prod_split ax shape H). reflexivity.
Qed.

Theorem lines_pydl_partition : forall shape axis, (axis < length shape)%nat ->
  NoDup (concat (lines_pydl shape axis)) /\ forall k, In k (concat (lines_pydl shape axis)) <-> (k < prod shape)%nat.
Proof. intros. unfold lines_pydl. apply lines_partition. lia. Qed.

(* every line has the length of the axis *)
Theorem lines_length : forall shape ax l, In l (lines_of shape ax) -> length l = nth ax shape O.
Proof.
  intros shape ax l H. unfold lines_of in H. apply in_flat_map in H as (o & _ & H).
  apply in_map_iff in H as (i & <- & _). rewrite map_length, seq_length. reflexivity.
Qed.

(* maskinterp_axis with the lines derived from (shape, axis) *)
From Coq Require Import QArith.
From PV Require Import C17.ProofsAxis.

Theorem maskinterp_axis_shape : forall ys mask xval shape axis line,
  (axis < length shape)%nat -> prod shape = length ys -> In line (lines_pydl shape axis) ->
  gather 0%Q (maskinterp_nd_model ys mask xval (lines_pydl shape axis)) line = line_model ys mask xval line.
Proof.
  intros ys mask xval shape axis line Ha Hp Hin.
  destruct (lines_pydl_partition shape axis Ha) as [ND B].
  apply maskinterp_axis_model; [exact ND | intros k Hk; rewrite <- Hp; apply B, Hk | exact Hin].
Qed.

Theorem maskinterp_axis_shape_spec : forall ys mask xval shape axis line,
  (axis < length shape)%nat -> prod shape = length ys -> In line (lines_pydl shape axis) ->
  gather 0%Q (maskinterp_nd_spec ys mask xval (lines_pydl shape axis)) line = line_spec ys mask xval line.
Proof.
  intros ys mask xval shape axis line Ha Hp Hin.
  destruct (lines_pydl_partition shape axis Ha) as [ND B].
  apply maskinterp_axis_spec; [exact ND | intros k Hk; rewrite <- Hp; apply B, Hk | exact Hin].
Qed.
