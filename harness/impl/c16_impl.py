"""C16 implementation runner: builds synthetic spPlate/spZbest/spZall/photoPlate/platelist trees with astropy
(no pydl code involved) and calls the real readspec / spec_append of the repository under test.

stdin : {"jobs": [job, ...]}   job = {"kind": "scenario", "root": dir, "trees": [...], "calls": [...]}
                                     | {"kind": "append", "cases": [{"a": rows, "b": rows, "shift": int, "dtype": str}, ...]}
stdout: {"pydl_file": ..., "results": [per job: list of per-call results]}

All environment variables readspec consults (RUN2D, RUN1D, BOSS_SPECTRO_REDUX, SPECTRO_REDUX, SPECTRO_MATCH,
PHOTO_RESOLVE) are set here, per call, and nowhere else.
"""
import json
import os
import sys
import warnings

import numpy as np
from astropy.io import fits

_real_stdout = sys.stdout
sys.stdout = sys.stderr   # astropy's logger writes INFO lines to stdout

from pydl.pydlspec2d.spec1d import readspec, spec_append, spec_path  # noqa: E402

# record every file readspec opens (spec1d calls fits.open through the module attribute)
OPENED = []
_orig_open = fits.open


def _recording_open(name, *a, **k):
    OPENED.append(str(name))
    return _orig_open(name, *a, **k)


fits.open = _recording_open
import pydl  # noqa: E402

SCALE = 1 << 20
ENV_KEYS = ('RUN2D', 'RUN1D', 'BOSS_SPECTRO_REDUX', 'SPECTRO_REDUX', 'SPECTRO_MATCH', 'PHOTO_RESOLVE')
IMG_DTYPES = ['>f8', '>f8', '>i4', '>i4', '>f8', None, '>f8']   # HDU 0..6 (5 = plugmap table)


def table_hdu(cols):
    """cols: list of {"name", "kind": 'J'|'K'|'D'|'A'|'5D', "rows": [[ints]]}"""
    out = []
    for c in cols:
        rows = c['rows']
        k = c['kind']
        if k == 'A':
            arr = np.array(['T%d' % r[0] for r in rows])
            out.append(fits.Column(name=c['name'], format='16A', array=arr))
        elif k in ('J', 'K'):
            out.append(fits.Column(name=c['name'], format=k, array=np.array([r[0] for r in rows], dtype='i8')))
        elif k == 'D':
            out.append(fits.Column(name=c['name'], format='D', array=np.array([r[0] for r in rows], dtype='f8')))
        else:   # vector column, e.g. 5D
            n = int(k[:-1])
            out.append(fits.Column(name=c['name'], format='%dD' % n, array=np.array(rows, dtype='f8').reshape(len(rows), n)))
    return fits.BinTableHDU.from_columns(out)


def build_tree(tree):
    """tree = {"top": dir, "layout": 'path'|'topdir', "run2d", "run1d", "files": [filespec], "platelist": [...]|None}"""
    top = tree['top']
    run2d, run1d = tree['run2d'], tree['run1d']
    for f in tree['files']:
        d = top if tree['layout'] == 'path' else os.path.join(top, run2d, '%04d' % f['plate'])
        os.makedirs(os.path.join(d, run1d), exist_ok=True)
        pm = '%04d-%05d' % (f['plate'], f['mjd'])
        hd = fits.Header()
        hd['COEFF0'] = f['c0z'] / SCALE
        hd['COEFF1'] = f['c1z'] / SCALE
        hd['PLATEID'] = f['plate']
        hd['MJD'] = f['mjd']
        hdus = []
        imgs = f['imgs']   # 6 images: HDU 0,1,2,3,4,6
        order = [0, 1, 2, 3, 4, None, 5]
        for h, ix in enumerate(order):
            if ix is None:
                t = table_hdu(f['plug'])
                t.name = 'PLUGMAP'
                hdus.append(t)
            else:
                a = np.array(imgs[ix], dtype='i8').astype(IMG_DTYPES[h])
                hdus.append(fits.PrimaryHDU(a, header=hd) if h == 0 else fits.ImageHDU(a))
        fits.HDUList(hdus).writeto(os.path.join(d, 'spPlate-%s.fits' % pm), overwrite=True)
        if f.get('zbest'):
            fits.HDUList([fits.PrimaryHDU(), table_hdu(f['zbest'])]).writeto(
                os.path.join(d, run1d, 'spZbest-%s.fits' % pm), overwrite=True)
        if f.get('zall'):
            p = fits.PrimaryHDU()
            p.header['DIMS0'] = f['nper']
            fits.HDUList([p, table_hdu(f['zall'])]).writeto(os.path.join(d, run1d, 'spZall-%s.fits' % pm), overwrite=True)
        if f.get('photo'):
            fits.HDUList([fits.PrimaryHDU(), table_hdu(f['photo'])]).writeto(
                os.path.join(d, 'photoPlate-%s.fits' % pm), overwrite=True)
    if tree.get('platelist'):
        pl = tree['platelist']
        cols = [fits.Column(name='PLATE', format='J', array=np.array([r['plate'] for r in pl])),
                fits.Column(name='MJD', format='J', array=np.array([r['mjd'] for r in pl])),
                fits.Column(name='RUN2D', format='8A', array=np.array([r['run2d'] for r in pl])),
                fits.Column(name='RUN1D', format='8A', array=np.array([r['run1d'] for r in pl])),
                fits.Column(name='N_TOTAL', format='J', array=np.array([r['n_total'] for r in pl]))]
        os.makedirs(tree['platelist_dir'], exist_ok=True)
        fits.HDUList([fits.PrimaryHDU(), fits.BinTableHDU.from_columns(cols)]).writeto(
            os.path.join(tree['platelist_dir'], 'platelist.fits'), overwrite=True)


def to_int_rows(a, scale=1):
    """ndarray (n,) or (n,w) of numbers/strings -> list of rows of exact ints, or None if not integral"""
    a = np.asarray(a)
    if a.ndim == 1:
        a = a.reshape(len(a), 1)
    if a.dtype.kind in ('U', 'S'):
        rows = []
        for r in a:
            s = r[0].decode() if isinstance(r[0], bytes) else str(r[0])
            s = s.strip()
            if not (s.startswith('T') and s[1:].isdigit()):
                return None
            rows.append([int(s[1:])])
        return rows
    rows = []
    for r in a:
        row = []
        for v in r:
            if a.dtype.kind == 'f':
                x = float(v) * scale
                if x != int(x):
                    return None
                row.append(int(x))
            else:
                row.append(int(v))
        rows.append(row)
    return rows


def conv(x, dtype):
    """{"s": int} | {"a": [...]} | None -> python int | list | ndarray"""
    if x is None:
        return None
    if 's' in x:
        return int(x['s']) if dtype != 'npscalar' else np.int32(x['s'])
    if dtype == 'list':
        return [int(v) for v in x['a']]
    return np.array([int(v) for v in x['a']], dtype=dtype if dtype not in ('npscalar',) else 'i4')


def run_call(c):
    for k in ENV_KEYS:
        os.environ.pop(k, None)
    for k, v in c['env'].items():
        os.environ[k] = v
    kw = dict(c['kwargs'])
    args = {}
    if c.get('mjd') is not None:
        args['mjd'] = conv(c['mjd'], c.get('dtype', 'i4'))
    if c.get('fiber') is not None:
        args['fiber'] = conv(c['fiber'], c.get('dtype', 'i4'))
    plate = conv(c['plate'], c.get('dtype', 'i4'))
    del OPENED[:]
    try:
        with warnings.catch_warnings():
            warnings.simplefilter('ignore')
            r = readspec(plate, **args, **kw)
    except Exception as e:  # noqa: BLE001 - the error class is the observation
        return {'err': type(e).__name__, 'msg': str(e)[:200], 'opened': list(OPENED)}
    out = {'keys': sorted(r.keys()), 'arrays': [], 'names': [], 'bad': [], 'opened': list(OPENED)}

    max_rows = int(c.get('max_rows', 1 << 30))

    def put(name, a, scale=1):
        # a result with more rows than requests is wrong whatever the rows hold: keep the evidence bounded
        out.setdefault('nrows', []).append(int(np.asarray(a).shape[0]))
        rows = to_int_rows(np.asarray(a)[:max_rows], scale)
        if rows is None:
            out['bad'].append(name)
            rows = []
        out['names'].append(name)
        out['arrays'].append(rows)

    for k in ('flux', 'invvar', 'andmask', 'ormask', 'disp', 'sky'):
        if k in r:
            put(k, r[k])
        else:
            out['bad'].append('missing:' + k)
    if 'loglam' in r:
        put('loglam', r['loglam'], SCALE)
    for grp in ('plugmap', 'tsobj', 'zans'):
        if grp in r:
            for cname in c['columns'].get(grp, list(r[grp].keys())):
                if cname in r[grp]:
                    put(grp + '.' + cname, r[grp][cname])
                else:
                    out['bad'].append('missing:%s.%s' % (grp, cname))
            extra = [cn for cn in r[grp].keys() if cn not in c['columns'].get(grp, [])]
            if extra:
                out['bad'].append('extra:%s:%s' % (grp, ','.join(extra)))
    out['groups'] = [g for g in ('plugmap', 'tsobj', 'zans') if g in r]
    out['flux_dtype'] = str(r['flux'].dtype) if 'flux' in r else None
    return out


def run_append(c):
    a = np.array(c['a'], dtype=c.get('dtype', 'i8'))
    b = np.array(c['b'], dtype=c.get('dtype', 'i8'))
    try:
        if c.get('shift') is None:
            r = spec_append(a, b)
        elif c.get('kwshift'):
            r = spec_append(a, b, pixshift=int(c['shift']))
        else:
            r = spec_append(a, b, int(c['shift']))
    except Exception as e:  # noqa: BLE001
        return {'err': type(e).__name__, 'msg': str(e)[:200]}
    rows = to_int_rows(r) if r.ndim == 2 and r.shape[1] > 0 else [[] for _ in range(r.shape[0])]
    return {'ok': rows, 'dtype': str(r.dtype), 'same_dtype': bool(r.dtype == a.dtype),
            'inputs_untouched': bool(np.array_equal(a, np.array(c['a'], dtype=a.dtype)) and
                                     np.array_equal(b, np.array(c['b'], dtype=b.dtype)))}


def run_specpath(c):
    for k in ENV_KEYS:
        os.environ.pop(k, None)
    for k, v in c['env'].items():
        os.environ[k] = v
    plate = conv(c['plate'], c.get('dtype', 'i4'))
    try:
        r = spec_path(plate, **c['kwargs'])
    except Exception as e:  # noqa: BLE001
        return {'err': type(e).__name__, 'msg': str(e)[:200]}
    return {'ok': [str(x) for x in r]}


def main():
    payload = json.load(sys.stdin)
    results = []
    for job in payload['jobs']:
        if job['kind'] == 'scenario':
            for t in job['trees']:
                build_tree(t)
            rs = []
            for c in job['calls']:
                for t in c.get('build_first') or []:   # a file that appears between two calls
                    build_tree(t)
                rs.append(run_call(c))
            results.append(rs)
        elif job['kind'] == 'specpath':
            results.append([run_specpath(c) for c in job['cases']])
        else:
            results.append([run_append(c) for c in job['cases']])
    json.dump({'pydl_file': pydl.__file__, 'results': results}, _real_stdout)


if __name__ == '__main__':
    main()
