(* C07 -- maskbits: names <-> values.  Definitions only (proofs are in C07/Proofs.v).

   M  (algorithmic model, a transliteration of pydl/pydlutils/sdss.py):
        load          set_maskbits from the rows of the raw yanny reader
                      (python dict = association list in insertion order; an update keeps the position)
        flagval       sdss_flagval   (upper-casing, `+=` of uint64 powers, carried mod 2^64)
        flagname      sdss_flagname  (bit scan 0..63, first label of the group carrying the bit)
        flagexist     sdss_flagexist
   S  (specification, written on the raw rows of the file, independent of M):
        value = OR of 2^bit, names = labels of the defined set bits sorted by bit,
        alias = the group it names, lookups modulo ASCII case.
   Strings are lists of character codes; `upper` is Python's str.upper() on ASCII. *)
From Coq Require Import ZArith List Bool.
Import ListNotations.
Open Scope Z_scope.

(* ------------------------------------------------------------------ strings *)

Definition str := list Z.

Fixpoint str_eqb (a b : str) : bool :=
  match a, b with
  | [], [] => true
  | x :: a', y :: b' => (x =? y) && str_eqb a' b'
  | _, _ => false
  end.

Definition upper_c (c : Z) : Z := if (97 <=? c) && (c <=? 122) then c - 32 else c.
Definition upper (s : str) : str := map upper_c s.
Definition norm (up : bool) (s : str) : str := if up then upper s else s.

(* compact literal used by the harness: the base-256 number of a (non-empty, NUL-free) byte string *)
Fixpoint sz_aux (fuel : nat) (z : Z) (acc : str) : str :=
  match fuel with
  | O => acc
  | S f => if z <=? 0 then acc else sz_aux f (z / 256) (z mod 256 :: acc)
  end.
Definition sz (z : Z) : str := sz_aux (S (Z.to_nat (Z.log2 z))) z [].

(* ------------------------------------------------------------------ python dict *)

Fixpoint dget {V} (k : str) (d : list (str * V)) : option V :=
  match d with
  | [] => None
  | (k', v) :: t => if str_eqb k k' then Some v else dget k t
  end.

(* d[k] = v : an existing key keeps its place, a new key goes to the end *)
Fixpoint dset {V} (k : str) (v : V) (d : list (str * V)) : list (str * V) :=
  match d with
  | [] => [(k, v)]
  | (k', v') :: t => if str_eqb k k' then (k', v) :: t else (k', v') :: dset k v t
  end.

Definition group := list (str * Z).        (* LABEL -> bit *)
Definition table := list (str * group).    (* GROUP -> {LABEL -> bit} *)
Definition row := (str * Z * str)%type.    (* one MASKBITS row : flag, bit, label *)
Definition arow := (str * str)%type.       (* one MASKALIAS row: flag (the real group), alias *)

(* ------------------------------------------------------------------ M: set_maskbits *)

(* `up` = does set_maskbits upper-case the names it reads (Generated/Maskbits.v says what the source does) *)
Definition add_row (up : bool) (m : table) (r : row) : table :=
  match r with
  | (f, b, l) =>
      let f := norm up f in
      let l := norm up l in
      match dget f m with
      | Some g => dset f (dset l b g) m
      | None => dset f [(l, b)] m
      end
  end.

(* None = KeyError (alias of a group that is not in the dictionary at that moment) *)
Definition add_alias (up : bool) (m : option table) (a : arow) : option table :=
  match m with
  | None => None
  | Some m =>
      match a with
      | (f, al) =>
          match dget (norm up f) m with
          | Some g => Some (dset (norm up al) g m)
          | None => None
          end
      end
  end.

Definition load_rows (up : bool) (rows : list row) : table := fold_left (add_row up) rows [].
Definition load (up : bool) (rows : list row) (aliases : list arow) : option table :=
  fold_left (add_alias up) aliases (Some (load_rows up rows)).

(* ------------------------------------------------------------------ M: the three queries *)

Inductive res :=
| RVal (v : Z)
| RNames (l : list str)
| RBools (l : list bool)
| RKeyError
| ROther.

Definition two64 : Z := 2 ^ 64.

(* for bit in bitnames: if flagu in maskbits: if bit in maskbits[flagu]: flagvalue += uint64(2)**uint64(b) ... *)
Fixpoint flagval_loop (grp : option group) (labels : list str) (acc : Z) : res :=
  match labels with
  | [] => RVal acc
  | l :: t =>
      match grp with
      | None => RKeyError
      | Some g =>
          match dget l g with
          | None => RKeyError
          | Some b => if b <? 0 then ROther   (* np.uint64(negative) : OverflowError *)
                      else flagval_loop grp t ((acc + (2 ^ b) mod two64) mod two64)
          end
      end
  end.

Definition flagval (m : table) (g : str) (labels : list str) : res :=
  flagval_loop (dget (upper g) m) (map upper labels) 0.

Fixpoint zseq (lo : Z) (n : nat) : list Z := match n with O => [] | S n' => lo :: zseq (lo + 1) n' end.

(* bits = [bit for bit in range(64) if (flagvaluint & (one << bit)) != 0] *)
Definition set_bits (v : Z) : list Z := filter (Z.testbit v) (zseq 0 64).

(* f = [x for x in maskbits[flagu].items() if x[1] == bit] ; f[0][0] *)
Fixpoint first_with_bit (b : Z) (g : group) : option str :=
  match g with
  | [] => None
  | (l, b') :: t => if b' =? b then Some l else first_with_bit b t
  end.

(* None = KeyError; the group is only looked up inside the loop *)
Fixpoint flagname_loop (grp : option group) (bits : list Z) (acc : list str) : option (list str) :=
  match bits with
  | [] => Some acc
  | b :: t =>
      match grp with
      | None => None
      | Some g => flagname_loop grp t (match first_with_bit b g with Some l => acc ++ [l] | None => acc end)
      end
  end.

Definition in_u64 (v : Z) : bool := (0 <=? v) && (v <? two64).

Fixpoint join (sep : Z) (l : list str) : str :=
  match l with
  | [] => []
  | [s] => s
  | s :: t => s ++ sep :: join sep t
  end.

Definition flagname (m : table) (g : str) (v : Z) : res :=
  if in_u64 v then
    match flagname_loop (dget (upper g) m) (set_bits v) [] with
    | Some r => RNames r
    | None => RKeyError
    end
  else ROther.   (* np.uint64(v) raises OverflowError *)

Definition concat_res (concat : bool) (r : res) : res :=
  match r with RNames l => if concat then RNames [join 32 l] else r | _ => r end.

Definition has {V} (k : str) (d : list (str * V)) : bool := match dget k d with Some _ => true | None => false end.

(* the answer is returned as the list  l :: [f if flagexist] ++ [which if whichexist] *)
Definition flagexist (m : table) (g : str) (labels : list str) (fe we : bool) : res :=
  let ls := map upper labels in
  let f := has (upper g) m in
  let which := match dget (upper g) m with
               | Some gr => map (fun l => has l gr) ls
               | None => map (fun _ => false) ls
               end in
  let l := f && forallb (fun x => x) which in
  RBools (l :: (if fe then [f] else []) ++ (if we then which else [])).

(* ------------------------------------------------------------------ S: the specification *)

Definition rflag (r : row) : str := upper (fst (fst r)).
Definition rbit (r : row) : Z := snd (fst r).
Definition rlabel (r : row) : str := upper (snd r).

(* ra = MASKALIAS rows, LAST row first.  An alias stands for the group it names. *)
Fixpoint resolve (ra : list arow) (g : str) : str :=
  match ra with
  | [] => g
  | (f, a) :: t => if str_eqb (upper a) g then resolve t (upper f) else resolve t g
  end.

Definition target (aliases : list arow) (g : str) : str := resolve (rev aliases) (upper g).

(* definitions of group g: (LABEL, bit) in file order *)
Definition defs (rows : list row) (aliases : list arow) (g : str) : group :=
  map (fun r => (rlabel r, rbit r)) (filter (fun r => str_eqb (rflag r) (target aliases g)) rows).

Definition known (rows : list row) (aliases : list arow) (g : str) : bool :=
  existsb (fun r => str_eqb (rflag r) (target aliases g)) rows.

Definition bit_of (d : group) (l : str) : option Z := dget l d.

Fixpoint bits_of (d : group) (ls : list str) : option (list Z) :=
  match ls with
  | [] => Some []
  | l :: t => match bit_of d l, bits_of d t with Some b, Some r => Some (b :: r) | _, _ => None end
  end.

Definition or_bits (bs : list Z) : Z := fold_right (fun b acc => Z.lor (2 ^ b) acc) 0 bs.

(* insertion sort of (label, bit) pairs by bit *)
Fixpoint ins (x : str * Z) (l : group) : group :=
  match l with
  | [] => [x]
  | y :: t => if snd x <=? snd y then x :: y :: t else y :: ins x t
  end.
Fixpoint isort (l : group) : group := match l with [] => [] | x :: t => ins x (isort t) end.

(* labels of the defined set bits, ascending *)
Definition spec_names (d : group) (v : Z) : list str :=
  map fst (isort (filter (fun lb => Z.testbit v (snd lb)) d)).

Definition defined_mask (d : group) : Z := or_bits (map snd d).

Definition spec_flagval (rows : list row) (aliases : list arow) (g : str) (labels : list str) : res :=
  match labels with
  | [] => RVal 0                          (* nothing to convert: no lookup is needed *)
  | _ =>
    if known rows aliases g then
      match bits_of (defs rows aliases g) (map upper labels) with
      | Some bs => RVal (or_bits bs)
      | None => RKeyError
      end
    else RKeyError
  end.

Definition spec_flagname (rows : list row) (aliases : list arow) (g : str) (v : Z) : res :=
  if v =? 0 then RNames []                (* a zero value names nothing, whatever the group *)
  else if known rows aliases g then RNames (spec_names (defs rows aliases g) v)
  else RKeyError.

Definition spec_flagexist (rows : list row) (aliases : list arow) (g : str) (labels : list str) (fe we : bool) : res :=
  let f := known rows aliases g in
  let which := map (fun l => has (upper l) (defs rows aliases g)) labels in
  RBools ((f && forallb (fun x => x) which) :: (if fe then [f] else []) ++ (if we then which else [])).

(* value -> names -> value : the defined bits of v *)
Definition spec_vnv (rows : list row) (aliases : list arow) (g : str) (v : Z) : res :=
  if v =? 0 then RVal 0
  else if known rows aliases g then RVal (Z.land v (defined_mask (defs rows aliases g)))
  else RKeyError.

(* names -> value -> names : the same labels, by ascending bit *)
Definition spec_nvn (rows : list row) (aliases : list arow) (g : str) (labels : list str) : res :=
  match spec_flagval rows aliases g labels with
  | RVal v => spec_flagname rows aliases g v
  | r => r
  end.

(* ---- which files / calls the property speaks about ---- *)

Fixpoint nodupb {A} (eqb : A -> A -> bool) (l : list A) : bool :=
  match l with
  | [] => true
  | x :: t => negb (existsb (eqb x) t) && nodupb eqb t
  end.

Definition fl_eqb (a b : str * str) : bool := str_eqb (fst a) (fst b) && str_eqb (snd a) (snd b).
Definition fb_eqb (a b : str * Z) : bool := str_eqb (fst a) (fst b) && (snd a =? snd b).

(* bits 0..63, one bit per label and one label per bit within a group (modulo case) *)
Definition wf_rows (rows : list row) : bool :=
  forallb (fun r => (0 <=? rbit r) && (rbit r <? 64)) rows
  && nodupb fl_eqb (map (fun r => (rflag r, rlabel r)) rows)
  && nodupb fb_eqb (map (fun r => (rflag r, rbit r)) rows).

Definition mem (s : str) (l : list str) : bool := existsb (str_eqb s) l.

(* every alias names a group (or an earlier alias) and is itself a new name *)
Fixpoint wf_aliases (names : list str) (aliases : list arow) : bool :=
  match aliases with
  | [] => true
  | (f, a) :: t => mem (upper f) names && negb (mem (upper a) names) && wf_aliases (upper a :: names) t
  end.

Definition wf_file (rows : list row) (aliases : list arow) : bool :=
  wf_rows rows && wf_aliases (map rflag rows) aliases.

Definition distinct_labels (labels : list str) : bool := nodupb str_eqb (map upper labels).

(* ------------------------------------------------------------------ correspondence cases *)

Fixpoint list_eqb {A} (eqb : A -> A -> bool) (a b : list A) : bool :=
  match a, b with
  | [], [] => true
  | x :: a', y :: b' => eqb x y && list_eqb eqb a' b'
  | _, _ => false
  end.

Definition res_eqb (a b : res) : bool :=
  match a, b with
  | RVal x, RVal y => x =? y
  | RNames x, RNames y => list_eqb str_eqb x y
  | RBools x, RBools y => list_eqb Bool.eqb x y
  | RKeyError, RKeyError => true
  | ROther, ROther => true
  | _, _ => false
  end.

(* ---- round 5: the loaded dictionary itself, cell by cell ----
   table_eqb: the same keys, labels and bits in the same (insertion) order -- M against the real dictionary.
   spec_table_ok (S, on the raw rows, no M): what the statement needs of ANY dictionary built from the file, modulo
   the spelling and the order it is stored in: every key is a name the file defines and holds exactly the (LABEL, bit)
   definitions of the group it stands for (compared sorted by bit), every group and alias name of the file is a key,
   and no two keys coincide modulo case. *)
Definition table_eqb (a b : table) : bool :=
  list_eqb (fun x y => str_eqb (fst x) (fst y) && list_eqb fb_eqb (snd x) (snd y)) a b.
Definition up_group (d : group) : group := map (fun lb => (upper (fst lb), snd lb)) d.
Definition group_same (a b : group) : bool := list_eqb fb_eqb (isort (up_group a)) (isort b).
Definition has_ci (name : str) (t : table) : bool := existsb (fun kv => str_eqb (upper (fst kv)) name) t.
Definition spec_table_ok (rows : list row) (aliases : list arow) (t : table) : bool :=
  forallb (fun kv => known rows aliases (fst kv) && group_same (snd kv) (defs rows aliases (fst kv))) t
  && forallb (fun r => has_ci (rflag r) t) rows
  && forallb (fun a => has_ci (upper (snd a)) t) aliases
  && nodupb str_eqb (map (fun kv => upper (fst kv)) t).

(* names are compared modulo case: the property fixes the labels, not their spelling *)
Definition res_upper (r : res) : res := match r with RNames l => RNames (map upper l) | _ => r end.

Inductive call :=
| KVal (g : str) (labels : list str)                 (* sdss_flagval(g, labels) *)
| KName (g : str) (v : Z) (concat : bool)             (* sdss_flagname(g, v, concat) *)
| KExist (g : str) (labels : list str) (fe we : bool) (* sdss_flagexist(g, labels, fe, we) as a flat list *)
| KVNV (g : str) (v : Z)                              (* sdss_flagval(g, sdss_flagname(g, v)) *)
| KNVN (g : str) (labels : list str).                 (* sdss_flagname(g, sdss_flagval(g, labels)) *)

Definition model_call (m : table) (c : call) : res :=
  match c with
  | KVal g ls => flagval m g ls
  | KName g v cc => concat_res cc (flagname m g v)
  | KExist g ls fe we => flagexist m g ls fe we
  | KVNV g v => match flagname m g v with RNames ns => flagval m g ns | r => r end
  | KNVN g ls => match flagval m g ls with RVal v => flagname m g v | r => r end
  end.

(* Some r = the property fixes the answer r ; None = the property says nothing about this call *)
Definition spec_call (rows : list row) (aliases : list arow) (c : call) : option res :=
  match c with
  | KVal g ls => if distinct_labels ls then Some (spec_flagval rows aliases g ls) else None
  | KName g v cc => if in_u64 v then Some (concat_res cc (spec_flagname rows aliases g v)) else None
  | KExist g ls fe we => Some (spec_flagexist rows aliases g ls fe we)
  | KVNV g v => if in_u64 v then Some (spec_vnv rows aliases g v) else None
  | KNVN g ls => if distinct_labels ls then Some (spec_nvn rows aliases g ls) else None
  end.

(* one case = one maskbits file (rows as the raw yanny reader returned them), what set_maskbits did
   (0 = returned, 1 = KeyError, 2 = another exception) and the observed answers of a list of calls *)
Inductive case := Case (up : bool) (rows : list row) (aliases : list arow) (loaded : Z) (calls : list (call * res)).

Definition call_verdict (wf : bool) (m : table) (rows : list row) (aliases : list arow) (ce : call * res) : Z :=
  let (c, expect) := ce in
  (if res_eqb (model_call m c) expect then 0 else 1)
  + (if wf then
       match spec_call rows aliases c with
       | Some s => if res_eqb (res_upper s) (res_upper expect) then 0 else 2
       | None => 0
       end
     else 0).

Fixpoint first_bad (vs : list Z) (i : Z) : Z :=
  match vs with [] => 0 | v :: t => if v =? 0 then first_bad t (i + 1) else i end.

(* compact constructors for the generated case files (strings as base-256 numbers, see sz) *)
Definition szs (l : list Z) : list str := map sz l.
Definition R (f b l : Z) : row := (sz f, b, sz l).
Definition A (f a : Z) : arow := (sz f, sz a).
Definition rNames (l : list Z) : res := RNames (szs l).
Definition cVal (g : Z) (ls : list Z) (r : res) : call * res := (KVal (sz g) (szs ls), r).
Definition cName (g v : Z) (cc : bool) (r : res) : call * res := (KName (sz g) v cc, r).
Definition cExist (g : Z) (ls : list Z) (fe we : bool) (r : res) : call * res := (KExist (sz g) (szs ls) fe we, r).
Definition cVNV (g v : Z) (r : res) : call * res := (KVNV (sz g) v, r).
Definition cNVN (g : Z) (ls : list Z) (r : res) : call * res := (KNVN (sz g) (szs ls), r).
Definition TG (g : Z) (e : list (Z * Z)) : str * group := (sz g, map (fun lb => (sz (fst lb), snd lb)) e).

(* per file: verdict of the load itself, then one verdict per call
   (0 = agrees with M and satisfies S; +1 = M differs from impl; +2 = impl contradicts S) *)
Definition call_verdicts (c : case) : list Z :=
  match c with
  | Case up rows aliases loaded calls =>
      let wf := wf_file rows aliases in
      match load up rows aliases with
      | None => [(if loaded =? 1 then 0 else 1) + (if wf && negb (loaded =? 0) then 2 else 0)]
      | Some m =>
          if loaded =? 0 then 0 :: map (call_verdict wf m rows aliases) calls
          else [1 + (if wf then 2 else 0)]
      end
  end.

(* verdict of a file: 0 = everything agrees; otherwise (OR of the verdicts) + 4 * (index of the first offending
   entry: 0 = the load, k = the k-th call) *)
Definition run_case (c : case) : Z :=
  let vs := call_verdicts c in
  let o := fold_right Z.lor 0 vs in
  if o =? 0 then 0 else o + 4 * first_bad vs 0.

(* what M and S say about one call (for replay files) *)
Definition explain (up : bool) (rows : list row) (aliases : list arow) (c : call) :=
  (option_map (fun m => model_call m c) (load up rows aliases), spec_call rows aliases c, wf_file rows aliases).

Definition run_cases (cs : list case) : list Z := map run_case cs.

(* ------------------------------------------------------------------ M with the facts of the source as parameters
   (round 2): what translate/c07.py reads off the ast of set_maskbits / sdss_flagval / sdss_flagname /
   sdss_flagexist.  std_cfg is what the theorems are about; C07/Code.v instantiates cfg from Generated/Maskbits.v and
   Props.v carries the obligations that the source has the standard values.  *)
(* round 5: the return statement chain of sdss_flagexist.  A result is a sequence of components l / f / which
   (tuple order); ret4 = the sequence for (fe, we) = (true, true), (true, false), (false, true), (false, false).
   Generated/Maskbits.v carries the if / elif chain of the source as a Gallina function (exist_ret_code). *)
Inductive efield := EL | EF | EWhich.
Definition ret4 := (list efield * list efield * list efield * list efield)%type.
Definition exist_std (fe we : bool) : list efield := EL :: (if fe then [EF] else []) ++ (if we then [EWhich] else []).
Definition ret4_of (f : bool -> bool -> list efield) : ret4 := (f true true, f true false, f false true, f false false).
Definition ret4_get (r : ret4) (fe we : bool) : list efield :=
  match r with (a, b, c, d) => if fe then (if we then a else b) else (if we then c else d) end.
Definition std_ret4 : ret4 := ret4_of exist_std.
Fixpoint assemble (l f : bool) (which : list bool) (fs : list efield) : list bool :=
  match fs with
  | [] => []
  | EL :: t => l :: assemble l f which t
  | EF :: t => f :: assemble l f which t
  | EWhich :: t => which ++ assemble l f which t
  end.
(* the python structure of the result: a bare bool when there is one scalar component, else a tuple *)
Definition efield_of (n : nat) : efield := match n with O => EL | S O => EF | _ => EWhich end.

Record cfg := mkcfg {
  c_load_upper : bool;     (* set_maskbits upper-cases the names it stores *)
  c_scan_bits : nat;       (* range(N) of the bit scan in sdss_flagname *)
  c_acc_add : bool;        (* flagvalue += ...   (false: |=) *)
  c_acc_u64 : bool;        (* np.uint64 arithmetic (false: np.int64) *)
  c_first : bool;          (* f[0][0]: first label carrying the bit (false: f[-1][0], the last) *)
  c_upper_group : bool;    (* flagname.upper() in the three query functions *)
  c_upper_labels : bool;   (* b.upper() on the labels in sdss_flagval / sdss_flagexist *)
  c_exist_all : bool;      (* l = sum(which) == len(which)  (false: any(which)) *)
  c_exist_ret : ret4       (* round 5: what sdss_flagexist returns for the four (flagexist, whichexist) combinations *)
}.
Definition std_cfg : cfg := mkcfg true 64 true true true true true true std_ret4.

Definition swrap64 (z : Z) : Z := (z + 2 ^ 63) mod two64 - 2 ^ 63.
Definition wrap_c (c : cfg) (z : Z) : Z := if c_acc_u64 c then z mod two64 else swrap64 z.

Fixpoint flagval_loop_c (c : cfg) (grp : option group) (labels : list str) (acc : Z) : res :=
  match labels with
  | [] => RVal acc
  | l :: t =>
      match grp with
      | None => RKeyError
      | Some g =>
          match dget l g with
          | None => RKeyError
          | Some b => if b <? 0 then ROther
                      else flagval_loop_c c grp t
                             (wrap_c c (if c_acc_add c then acc + wrap_c c (2 ^ b) else Z.lor acc (wrap_c c (2 ^ b))))
          end
      end
  end.

Definition flagval_c (c : cfg) (m : table) (g : str) (labels : list str) : res :=
  flagval_loop_c c (dget (norm (c_upper_group c) g) m) (map (norm (c_upper_labels c)) labels) 0.

Definition set_bits_c (c : cfg) (v : Z) : list Z := filter (Z.testbit v) (zseq 0 (c_scan_bits c)).

Definition label_with_bit (c : cfg) (b : Z) (g : group) : option str :=
  if c_first c then first_with_bit b g else first_with_bit b (rev g).

Fixpoint flagname_loop_c (c : cfg) (grp : option group) (bits : list Z) (acc : list str) : option (list str) :=
  match bits with
  | [] => Some acc
  | b :: t =>
      match grp with
      | None => None
      | Some g => flagname_loop_c c grp t (match label_with_bit c b g with Some l => acc ++ [l] | None => acc end)
      end
  end.

Definition flagname_c (c : cfg) (m : table) (g : str) (v : Z) : res :=
  if in_u64 v then
    match flagname_loop_c c (dget (norm (c_upper_group c) g) m) (set_bits_c c v) [] with
    | Some r => RNames r
    | None => RKeyError
    end
  else ROther.

Definition flagexist_c (c : cfg) (m : table) (g : str) (labels : list str) (fe we : bool) : res :=
  let ls := map (norm (c_upper_labels c)) labels in
  let G := norm (c_upper_group c) g in
  let f := has G m in
  let which := match dget G m with
               | Some gr => map (fun l => has l gr) ls
               | None => map (fun _ => false) ls
               end in
  let l := f && (if c_exist_all c then forallb (fun x => x) which else existsb (fun x => x) which) in
  RBools (assemble l f which (ret4_get (c_exist_ret c) fe we)).

Definition load_c (c : cfg) : list row -> list arow -> option table := load (c_load_upper c).

Definition model_call_c (c : cfg) (m : table) (k : call) : res :=
  match k with
  | KVal g ls => flagval_c c m g ls
  | KName g v cc => concat_res cc (flagname_c c m g v)
  | KExist g ls fe we => flagexist_c c m g ls fe we
  | KVNV g v => match flagname_c c m g v with RNames ns => flagval_c c m g ns | r => r end
  | KNVN g ls => match flagval_c c m g ls with
                 | RVal v => flagname_c c m g (if c_acc_u64 c then v else v mod two64)   (* np.uint64(np.int64(v)) wraps *)
                 | r => r end
  end.

Definition call_verdict_c (c : cfg) (wf : bool) (m : table) (rows : list row) (aliases : list arow) (ce : call * res) : Z :=
  let (k, expect) := ce in
  (if res_eqb (model_call_c c m k) expect then 0 else 1)
  + (if wf then
       match spec_call rows aliases k with
       | Some s => if res_eqb (res_upper s) (res_upper expect) then 0 else 2
       | None => 0
       end
     else 0).

(* verdict of the load, then one verdict per call -- as call_verdicts, for the parametrised model *)
Definition call_verdicts_c (c : cfg) (rows : list row) (aliases : list arow) (loaded : Z) (calls : list (call * res)) : list Z :=
  let wf := wf_file rows aliases in
  match load_c c rows aliases with
  | None => [(if loaded =? 1 then 0 else 1) + (if wf && negb (loaded =? 0) then 2 else 0)]
  | Some m =>
      if loaded =? 0 then 0 :: map (call_verdict_c c wf m rows aliases) calls
      else [1 + (if wf then 2 else 0)]
  end.
