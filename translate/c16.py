"""C16 extractor: the integer expressions of readspec / spec_append (pydl/pydlspec2d/spec1d.py)
-> coq/Generated/Readspec.v.

Extracted (fail-closed; any unrecognised shape => recognised: false, previous file kept):
  readspec   : pmjd = (platevec << N) + mjdvec;  zupmjd = zip(upmjd >> N, upmjd & ((1 << N) - 1));
               the row index expressions  spplate[k].data[<e>, :], spplate[k].data[<e>], photop[1].data[<e>],
               spz[1].data[<e>];  zfiber in the two branches;  presence of  j = allpmjdindex.argsort().
  spec_append: symbolic execution of the straight-line body: nadd1, nadd2, maxpix and the two slice
               assignments  spec3[r0:r1, c0:c1] = specK.
C16/Source.v proves that these expressions are the ones the hand-written model C16/Model.v uses.

Round 5 (dtypes are NOT stripped for these):
  typed_extract: every route of fibervec / platevec / mjdvec (+ latest_mjd's buffer), the uint64 key and its decoding, the row
               subscripts and both zfiber branches as typed expressions of C16/Typed.v (gen_t_*); C16/Storage.v runs the
               verified range analysis on them.
  align_extract: ps = np.floor((coeff0[0] - mincoeff0)/coeff1[0] + 0.5) as a term over Q, the test ps > 0, the two COEFF0
               updates, mincoeff0 = min(allcoeff0), spec_append(..., pixshift=ps)  (C16/AlignSource.v).
"""
import ast
import os
import re

from . import pyexpr as P

SRC = 'pydl/pydlspec2d/spec1d.py'


class Strip(ast.NodeTransformer):
    """np.array(x, dtype=...) -> x ;  kwargs['name'] -> name"""

    def visit_Call(self, n):
        self.generic_visit(n)
        f = n.func
        if isinstance(f, ast.Attribute) and f.attr == 'array' and isinstance(f.value, ast.Name) and f.value.id == 'np' \
                and len(n.args) == 1 and all(k.arg == 'dtype' for k in n.keywords):
            return n.args[0]
        return n

    def visit_Subscript(self, n):
        self.generic_visit(n)
        if isinstance(n.value, ast.Name) and n.value.id == 'kwargs' and isinstance(n.slice, ast.Constant) \
                and isinstance(n.slice.value, str):
            return ast.copy_location(ast.Name(id=n.slice.value, ctx=ast.Load()), n)
        return n


def expr(node, env):
    """integer expression -> Gallina, with max(a, b) and substitution of already computed names"""
    if isinstance(node, ast.Call) and isinstance(node.func, ast.Name) and node.func.id == 'max' and len(node.args) == 2:
        return '(Z.max %s %s)' % (expr(node.args[0], env), expr(node.args[1], env))
    if isinstance(node, ast.BinOp):
        op = P.BIN.get(type(node.op))
        if op is None:
            raise P.Unrecognised('operator %s' % type(node.op).__name__)
        return '(%s %s %s)' % (op, expr(node.left, env), expr(node.right, env))
    if isinstance(node, ast.UnaryOp) and isinstance(node.op, ast.USub):
        return '(Z.opp %s)' % expr(node.operand, env)
    return P.to_gallina(node, env)


def cond(test, env):
    if not (isinstance(test, ast.Compare) and len(test.ops) == 1):
        raise P.Unrecognised('condition')
    a, b = expr(test.left, env), expr(test.comparators[0], env)
    op = test.ops[0]
    if isinstance(op, ast.NotEq):
        return '(negb (Z.eqb %s %s))' % (a, b)
    if isinstance(op, ast.Eq):
        return '(Z.eqb %s %s)' % (a, b)
    if isinstance(op, ast.Lt):
        return '(Z.ltb %s %s)' % (a, b)
    if isinstance(op, ast.Gt):
        return '(Z.ltb %s %s)' % (b, a)
    if isinstance(op, ast.LtE):
        return '(Z.leb %s %s)' % (a, b)
    if isinstance(op, ast.GtE):
        return '(Z.leb %s %s)' % (b, a)
    raise P.Unrecognised('comparison')


def sym_exec(stmts, state, blocks):
    """straight-line integer code with if/else; state: name -> Gallina expression"""
    for st in stmts:
        if isinstance(st, ast.Expr) and isinstance(st.value, ast.Constant) and isinstance(st.value.value, str):
            continue   # docstring
        if isinstance(st, ast.Assign) and len(st.targets) == 1:
            t, v = st.targets[0], st.value
            if isinstance(t, ast.Tuple) and len(t.elts) == 2 and all(isinstance(e, ast.Name) for e in t.elts) \
                    and isinstance(v, ast.Attribute) and v.attr == 'shape' and isinstance(v.value, ast.Name):
                for e in t.elts:
                    state[e.id] = e.id       # nrows1, npix1, ... are parameters of the generated functions
                continue
            if isinstance(t, ast.Name):
                if isinstance(v, ast.Call) and isinstance(v.func, ast.Attribute) and v.func.attr == 'zeros':
                    sh = v.args[0]
                    if not (isinstance(sh, ast.Tuple) and len(sh.elts) == 2):
                        raise P.Unrecognised('zeros shape')
                    state['__shape_rows'] = expr(sh.elts[0], state)
                    state['__shape_cols'] = expr(sh.elts[1], state)
                    state['__zeros'] = t.id
                    continue
                state[t.id] = expr(v, state)
                continue
            if isinstance(t, ast.Subscript) and isinstance(t.value, ast.Name) and t.value.id == state.get('__zeros') \
                    and isinstance(t.slice, ast.Tuple) and len(t.slice.elts) == 2 \
                    and all(isinstance(s, ast.Slice) and s.step is None and s.lower is not None and s.upper is not None
                            for s in t.slice.elts) and isinstance(v, ast.Name):
                r, c = t.slice.elts
                blocks.append((v.id, expr(r.lower, state), expr(r.upper, state), expr(c.lower, state), expr(c.upper, state)))
                continue
            raise P.Unrecognised('assignment %s' % ast.dump(st)[:80])
        if isinstance(st, ast.If):
            c = cond(st.test, state)
            s1, s2 = dict(state), dict(state)
            b1, b2 = [], []
            sym_exec(st.body, s1, b1)
            sym_exec(st.orelse, s2, b2)
            if b1 or b2:
                raise P.Unrecognised('slice assignment under a condition')
            for k in set(s1) | set(s2):
                if s1.get(k) != s2.get(k):
                    if k not in s1 or k not in s2:
                        raise P.Unrecognised('name %s defined on one branch only' % k)
                    state[k] = '(if %s then %s else %s)' % (c, s1[k], s2[k])
            continue
        if isinstance(st, ast.Return):
            if not (isinstance(st.value, ast.Name) and st.value.id == state.get('__zeros')):
                raise P.Unrecognised('return value')
            state['__returned'] = True
            continue
        raise P.Unrecognised('statement %s' % type(st).__name__)
    return state


def first_index(sub):
    """the row index of  X.data[<e>, :]  or  X.data[<e>]"""
    s = sub.slice
    if isinstance(s, ast.Tuple):
        if not (len(s.elts) == 2 and isinstance(s.elts[1], ast.Slice) and s.elts[1].lower is None and s.elts[1].upper is None):
            raise P.Unrecognised('row subscript tuple')
        return s.elts[0]
    return s



def blit(text):
    return '[' + '; '.join('%d' % c for c in text.encode('ascii')) + ']'


def format_calls(fn):
    """all  "literal".format(...)  calls in a function -> list of literal strings (source order)"""
    out = []
    for n in ast.walk(fn):
        if isinstance(n, ast.Call) and isinstance(n.func, ast.Attribute) and n.func.attr == 'format' \
                and isinstance(n.func.value, ast.Constant) and isinstance(n.func.value.value, str):
            out.append((n.lineno, n.col_offset, n.func.value.value))
    return [t for _, _, t in sorted(out)]


def name_parts(fmts, stem):
    """'spPlate-{0}.fits' -> ('spPlate-', '.fits'); all occurrences must agree"""
    found = set(f for f in fmts if f.startswith(stem) and '{0}' in f)
    if len(found) != 1:
        raise P.Unrecognised('file name format %s: %s' % (stem, sorted(found)))
    pre, suf = list(found)[0].split('{0}')
    return pre, suf


def nfiber_constants(fn):
    """nfiber[mjd < T] = N  and  (nfiber == N).all()"""
    t = nn = None
    for n in ast.walk(fn):
        if isinstance(n, ast.Assign) and len(n.targets) == 1 and isinstance(n.targets[0], ast.Subscript) \
                and isinstance(n.targets[0].value, ast.Name) and n.targets[0].value.id == 'nfiber' \
                and isinstance(n.targets[0].slice, ast.Compare) and len(n.targets[0].slice.ops) == 1 \
                and isinstance(n.targets[0].slice.ops[0], ast.Lt) and isinstance(n.targets[0].slice.left, ast.Name) \
                and n.targets[0].slice.left.id == 'mjd':
            t = P.const_value(n.targets[0].slice.comparators[0])
            nn = P.const_value(n.value)
    if t is None:
        raise P.Unrecognised('nfiber[mjd < T] = N not found')
    short = [P.const_value(n.comparators[0]) for n in ast.walk(fn)
             if isinstance(n, ast.Compare) and isinstance(n.left, ast.Name) and n.left.id == 'nfiber'
             and len(n.ops) == 1 and isinstance(n.ops[0], ast.Eq)]
    if short != [nn]:
        raise P.Unrecognised('short-circuit constant %s vs %s' % (short, nn))
    return t, nn


def env_names(fn):
    """env = "A"; try: int(run2d) except ValueError: env = "B"  ->  (A, B)"""
    for n in ast.walk(fn):
        if isinstance(n, ast.Try) and len(n.handlers) == 1 and isinstance(n.handlers[0].type, ast.Name) \
                and n.handlers[0].type.id == 'ValueError':
            calls = [c for c in ast.walk(ast.Module(body=n.body, type_ignores=[])) if isinstance(c, ast.Call)
                     and isinstance(c.func, ast.Name) and c.func.id == 'int' and len(c.args) == 1
                     and isinstance(c.args[0], ast.Name) and c.args[0].id == 'run2d']
            hb = n.handlers[0].body
            if len(calls) == 1 and len(hb) == 1 and isinstance(hb[0], ast.Assign) and isinstance(hb[0].targets[0], ast.Name) \
                    and hb[0].targets[0].id == 'env' and isinstance(hb[0].value, ast.Constant):
                other = hb[0].value.value
                first = [a.value.value for a in ast.walk(fn) if isinstance(a, ast.Assign) and isinstance(a.targets[0], ast.Name)
                         and a.targets[0].id == 'env' and isinstance(a.value, ast.Constant) and a is not hb[0]]
                if len(first) == 1:
                    return first[0], other
    raise P.Unrecognised('environment variable selection in spec_path')



# ---------------------------------------------------------------- storage types (round 5)
# Typed expressions (C16/Typed.v: pexpr) of the request normalisation and of every index readspec computes from a
# fibre number.  Trees: ('arr', i) | ('int', i) | ('lit', c) | ('cast', T, e) | ('bin', op, a, b) | ('hole', name).
# Variables: 0 fiber (array element of unknown storage), 1 nper (Python int, DIMS0), 2 znum (Python int keyword),
# 3 plate (array element), 4 mjd (array element), 5 element of np.arange(n) (int64), 6 bigmjd (Python int, latest_mjd).

DTYPES = {'i1': 'I8', 'i2': 'I16', 'i4': 'I32', 'i8': 'I64', 'u1': 'U8', 'u2': 'U16', 'u4': 'U32', 'u8': 'U64',
          'int8': 'I8', 'int16': 'I16', 'int32': 'I32', 'int64': 'I64', 'uint8': 'U8', 'uint16': 'U16', 'uint32': 'U32',
          'uint64': 'U64'}
NP_OF = {'I8': 'i1', 'I16': 'i2', 'I32': 'i4', 'I64': 'i8', 'U8': 'u1', 'U16': 'u2', 'U32': 'u4', 'U64': 'u8'}
TOPS = {ast.Add: 'OAdd', ast.Sub: 'OSub', ast.Mult: 'OMul', ast.LShift: 'OShl', ast.RShift: 'OShr', ast.BitAnd: 'OAnd'}
VARS = {'fiber': ('arr', 0), 'nper': ('int', 1), 'znum': ('int', 2), 'plate': ('arr', 3), 'mjd': ('arr', 4),
        'arange': ('arr', 5), 'bigmjd': ('int', 6)}


def dtype_of(call):
    """the dtype keyword (or second positional argument) of np.array / np.zeros; None when absent"""
    d = [k.value for k in call.keywords if k.arg == 'dtype']
    if not d and len(call.args) >= 2:
        d = [call.args[1]]
    if not d:
        return None
    d = d[0]
    name = d.value if isinstance(d, ast.Constant) and isinstance(d.value, str) else (d.attr if isinstance(d, ast.Attribute) else None)
    if name is None:
        raise P.Unrecognised('dtype expression')
    name = name.lstrip('<=')
    if name not in DTYPES:
        raise P.Unrecognised('dtype %r' % name)
    return DTYPES[name]


def is_np(call, attr):
    return isinstance(call, ast.Call) and isinstance(call.func, ast.Attribute) and call.func.attr == attr \
        and isinstance(call.func.value, ast.Name) and call.func.value.id == 'np'


def ttree(node, env):
    """typed expression tree of a Python expression; env: name -> tree"""
    if isinstance(node, ast.Constant) and isinstance(node.value, int) and not isinstance(node.value, bool):
        return ('lit', node.value)
    if isinstance(node, ast.Name):
        if node.id in env:
            return env[node.id]
        raise P.Unrecognised('free name %s in a typed expression' % node.id)
    if isinstance(node, ast.Subscript) and isinstance(node.value, ast.Name) and node.value.id == 'kwargs' \
            and isinstance(node.slice, ast.Constant) and node.slice.value in env:
        return env[node.slice.value]
    if isinstance(node, ast.BinOp):
        op = TOPS.get(type(node.op))
        if op is None:
            raise P.Unrecognised('typed operator %s' % type(node.op).__name__)
        return ('bin', op, ttree(node.left, env), ttree(node.right, env))
    if is_np(node, 'array') and node.args:
        t = dtype_of(node)
        if t is None:
            raise P.Unrecognised('np.array without dtype')
        return ('cast', t, ttree(node.args[0], env))
    if is_np(node, 'zeros'):
        t = dtype_of(node)
        if t is None:
            raise P.Unrecognised('np.zeros without an integer dtype')
        return ('cast', t, ('lit', 0))
    if is_np(node, 'arange') and len(node.args) == 1 and not node.keywords:
        return ('cast', 'I64', VARS['arange'])      # default integer of np.arange
    raise P.Unrecognised('typed expression %s' % ast.dump(node)[:80])


def tcoq(t):
    k = t[0]
    if k == 'arr':
        return '(PArr %d)' % t[1]
    if k == 'int':
        return '(PInt %d)' % t[1]
    if k == 'lit':
        return '(PLit %s)' % P.zlit(t[1])
    if k == 'cast':
        return '(PCast %s %s)' % (t[1], tcoq(t[2]))
    if k == 'hole':
        return t[1]
    return '(PBin %s %s %s)' % (t[1], tcoq(t[2]), tcoq(t[3]))


def tsubst(t, name, val):
    if t[0] == 'hole':
        return val if t[1] == name else t
    if t[0] == 'cast':
        return ('cast', t[1], tsubst(t[2], name, val))
    if t[0] == 'bin':
        return ('bin', t[1], tsubst(t[2], name, val), tsubst(t[3], name, val))
    return t


def assignments(fn, name):
    """(plain, sliced): right-hand sides of  name = ...  and  name[...] = ...  in source order"""
    plain, sliced = [], []
    for n in ast.walk(fn):
        if isinstance(n, ast.Assign) and len(n.targets) == 1:
            t = n.targets[0]
            if isinstance(t, ast.Name) and t.id == name:
                plain.append((n.lineno, n.value))
            elif isinstance(t, ast.Subscript) and isinstance(t.value, ast.Name) and t.value.id == name:
                sliced.append((n.lineno, n.value))
    return [v for _, v in sorted(plain, key=lambda x: x[0])], [v for _, v in sorted(sliced, key=lambda x: x[0])]


def vector_routes(fn, name, env, slice_env):
    """every way the vector `name` gets its elements: value assignments, and slice assignments into a zeros buffer
    (converted to the buffer's type).  -> (routes of the 'given' convention, routes through a zeros buffer)"""
    plain, sliced = assignments(fn, name)
    buffers = [v for v in plain if is_np(v, 'zeros')]
    values = [v for v in plain if not is_np(v, 'zeros')
              and not (isinstance(v, ast.Call) and isinstance(v.func, ast.Name) and v.func.id == 'latest_mjd')]   # typed in latest_mjd itself
    given = [ttree(v, env) for v in values]
    filled = []
    if sliced:
        if len(buffers) != 1:
            raise P.Unrecognised('%s: %d zeros buffers for %d slice assignments' % (name, len(buffers), len(sliced)))
        bt = dtype_of(buffers[0])
        if bt is None:
            raise P.Unrecognised('%s: buffer without an integer dtype' % name)
        filled = [('cast', bt, ttree(v, slice_env)) for v in sliced]
    elif buffers:
        raise P.Unrecognised('%s: zeros buffer never filled' % name)
    return given, filled


def typed_extract(repo):
    """-> (list of Coq definitions, dict of trees for the harness)"""
    tree = ast.parse(open(os.path.join(repo, SRC)).read())
    rs = P.find_function(tree, 'readspec')
    lm = P.find_function(tree, 'latest_mjd')
    V = VARS
    fib_given, fib_all = vector_routes(rs, 'fibervec', {'fiber': V['fiber']}, {})
    pl_given, pl_all = vector_routes(rs, 'platevec', {'plate': V['plate']}, {'p': V['plate']})
    mj_given, _ = vector_routes(rs, 'mjdvec', {'mjd': V['mjd']}, {})
    mj_given = [t for t in mj_given]     # the latest_mjd call is not an integer expression: filtered below
    _, mj_latest = vector_routes(lm, 'mjd', {}, {'bigmjd': V['bigmjd']})
    if not (fib_given and fib_all and pl_given and pl_all and mj_given and mj_latest):
        raise P.Unrecognised('request vector routes: %s' % [len(x) for x in (fib_given, fib_all, pl_given, pl_all, mj_given, mj_latest)])
    # nper must be a header value (a Python int), znum the caller's keyword
    nper_rhs, _ = assignments(rs, 'nper')
    if len(nper_rhs) != 1 or not (isinstance(nper_rhs[0], ast.Subscript) and isinstance(nper_rhs[0].value, ast.Attribute)
                                   and nper_rhs[0].value.attr == 'header'):
        raise P.Unrecognised('nper is not a header value')
    tf_rhs, _ = assignments(rs, 'thisfiber')
    if len(tf_rhs) != 1 or not (isinstance(tf_rhs[0], ast.Subscript) and isinstance(tf_rhs[0].value, ast.Name)
                                 and tf_rhs[0].value.id == 'fibervec'):
        raise P.Unrecognised('thisfiber is not an element selection of fibervec')
    hole_f, hole_z, hole_k, hole_p, hole_m = (('hole', n) for n in ('f', 'zf', 'k', 'pv', 'mv'))
    zf_rhs, _ = assignments(rs, 'zfiber')
    zenv = {'thisfiber': hole_f, 'nper': V['nper'], 'znum': V['znum']}
    ztrees = [ttree(v, zenv) for v in zf_rhs]
    zn = [t for t in ztrees if 'PInt 2' in tcoq(t)]
    zb = [t for t in ztrees if 'PInt 2' not in tcoq(t)]
    if len(zn) != 1 or len(zb) != 1:
        raise P.Unrecognised('typed zfiber branches')
    rows = {}
    for n in ast.walk(rs):
        if isinstance(n, ast.Subscript) and isinstance(n.value, ast.Attribute) and n.value.attr == 'data' \
                and isinstance(n.value.value, ast.Subscript) and isinstance(n.value.value.value, ast.Name):
            base = n.value.value.value.id
            rows.setdefault(base, set()).add(ttree(first_index(n), {'thisfiber': hole_f, 'zfiber': hole_z}))
    for base in ('spplate', 'photop', 'spz'):
        if len(rows.get(base, ())) != 1:
            raise P.Unrecognised('typed row index of %s' % base)
    key_rhs, _ = assignments(rs, 'pmjd')
    if len(key_rhs) != 1:
        raise P.Unrecognised('pmjd')
    key = ttree(key_rhs[0], {'platevec': hole_p, 'mjdvec': hole_m})
    zup, _ = assignments(rs, 'zupmjd')
    v = zup[0] if len(zup) == 1 else None
    if not (isinstance(v, ast.Call) and isinstance(v.func, ast.Name) and v.func.id == 'list' and isinstance(v.args[0], ast.Call)
            and isinstance(v.args[0].func, ast.Name) and v.args[0].func.id == 'zip' and len(v.args[0].args) == 2):
        raise P.Unrecognised('zupmjd')
    kp, km = (ttree(a, {'upmjd': hole_k}) for a in v.args[0].args)
    lst = lambda ts: '[' + '; '.join(tcoq(t) for t in ts) + ']'   # noqa: E731
    defs = ['(* storage types: typed expressions of C16/Typed.v; variables 0 fiber, 1 nper, 2 znum, 3 plate, 4 mjd, 5 arange element, 6 bigmjd *)',
            'Definition gen_t_fiber_given : list pexpr := %s.' % lst(fib_given),
            'Definition gen_t_fiber_all : list pexpr := %s.' % lst(fib_all),
            'Definition gen_t_plate_given : list pexpr := %s.' % lst(pl_given),
            'Definition gen_t_plate_all : list pexpr := %s.' % lst(pl_all),
            'Definition gen_t_mjd_given : list pexpr := %s.' % lst(mj_given),
            'Definition gen_t_mjd_latest : list pexpr := %s.' % lst(mj_latest),
            'Definition gen_t_img_row (f : pexpr) : pexpr := %s.' % tcoq(list(rows['spplate'])[0]),
            'Definition gen_t_photo_row (f : pexpr) : pexpr := %s.' % tcoq(list(rows['photop'])[0]),
            'Definition gen_t_z_row (zf : pexpr) : pexpr := %s.' % tcoq(list(rows['spz'])[0]),
            'Definition gen_t_zbest_fiber (f : pexpr) : pexpr := %s.' % tcoq(zb[0]),
            'Definition gen_t_znum_fiber (f : pexpr) : pexpr := %s.' % tcoq(zn[0]),
            'Definition gen_t_key (pv mv : pexpr) : pexpr := %s.' % tcoq(key),
            'Definition gen_t_key_plate (k : pexpr) : pexpr := %s.' % tcoq(kp),
            'Definition gen_t_key_mjd (k : pexpr) : pexpr := %s.' % tcoq(km)]
    # closed expressions for the typed correspondence (NumPy semantics of exactly these expressions)
    closed = []
    for fam, fs in (('given', fib_given), ('all', fib_all)):
        for f in fs:
            closed.append(('fiber-%s' % fam, f))
            closed.append(('img-row-%s' % fam, tsubst(list(rows['spplate'])[0], 'f', f)))
            closed.append(('znum-row-%s' % fam, tsubst(list(rows['spz'])[0], 'zf', tsubst(zn[0], 'f', f))))
    for pv in pl_given + pl_all:
        for mv in mj_given + mj_latest:
            k = tsubst(tsubst(key, 'pv', pv), 'mv', mv)
            closed.append(('key', k))
            closed.append(('key-plate', tsubst(kp, 'k', k)))
            closed.append(('key-mjd', tsubst(km, 'k', k)))
    seen, uniq = set(), []
    for nm, t in closed:
        if (nm, t) not in seen:
            seen.add((nm, t))
            uniq.append({'name': nm, 'tree': t, 'coq': tcoq(t)})
    types = sorted(set(re.findall(r'PCast (\w+)', ' '.join(defs))))
    return defs, {'closed': uniq, 'types': types,
                  'fibervec_types': sorted(set(re.findall(r'PCast (\w+)', lst(fib_given + fib_all))))}



# ---------------------------------------------------------------- align=True: rounding rule and coefficient updates (round 5)

def qexpr(node, names):
    """rational expression: + - * / over names, name[0] and the constant 0.5"""
    if isinstance(node, ast.Constant) and node.value == 0.5:
        return '(1 # 2)'
    if isinstance(node, ast.Subscript) and isinstance(node.value, ast.Name) and isinstance(node.slice, ast.Constant) and node.slice.value == 0:
        node = node.value
    if isinstance(node, ast.Name) and node.id in names:
        return '(inject_Z %s)' % node.id
    if isinstance(node, ast.BinOp):
        op = {ast.Add: 'Qplus', ast.Sub: 'Qminus', ast.Mult: 'Qmult', ast.Div: 'Qdiv'}.get(type(node.op))
        if op is None:
            raise P.Unrecognised('rational operator')
        return '(%s %s %s)' % (op, qexpr(node.left, names), qexpr(node.right, names))
    raise P.Unrecognised('rational expression %s' % ast.dump(node)[:80])


def align_extract(repo):
    tree = ast.parse(open(os.path.join(repo, SRC)).read())
    rs = P.find_function(tree, 'readspec')
    blocks = [n for n in ast.walk(rs) if isinstance(n, ast.If) and isinstance(n.test, ast.Compare)
              and isinstance(n.test.left, ast.Constant) and n.test.left.value == 'align' and isinstance(n.test.ops[0], ast.In)]
    blocks = [b for b in blocks if any(isinstance(x, ast.Assign) and isinstance(x.targets[0], ast.Name) and x.targets[0].id == 'ps'
                                       for x in ast.walk(b))]
    if len(blocks) != 1:
        raise P.Unrecognised('align block')
    blk = blocks[0]
    ps_rhs = [x.value for x in blk.body if isinstance(x, ast.Assign) and isinstance(x.targets[0], ast.Name) and x.targets[0].id == 'ps']
    else_ps = [x.value for x in blk.orelse if isinstance(x, ast.Assign) and isinstance(x.targets[0], ast.Name) and x.targets[0].id == 'ps']
    if len(ps_rhs) != 1 or len(else_ps) != 1 or P.const_value(else_ps[0]) != 0:
        raise P.Unrecognised('ps assignments')
    v = ps_rhs[0]
    if isinstance(v, ast.Call) and isinstance(v.func, ast.Name) and v.func.id == 'int' and len(v.args) == 1 and not v.keywords:
        v = v.args[0]          # int(np.floor(...)): the same integer
    if not (is_np(v, 'floor') and len(v.args) == 1):
        raise P.Unrecognised('ps is not np.floor(...)')
    q = qexpr(v.args[0], {'coeff0', 'mincoeff0', 'coeff1'})
    mins = [x.value for x in blk.body if isinstance(x, ast.Assign) and isinstance(x.targets[0], ast.Name) and x.targets[0].id == 'mincoeff0']
    if len(mins) != 1 or not (isinstance(mins[0], ast.Call) and isinstance(mins[0].func, ast.Name) and mins[0].func.id == 'min'
                              and len(mins[0].args) == 1 and isinstance(mins[0].args[0], ast.Name) and mins[0].args[0].id == 'allcoeff0'):
        raise P.Unrecognised('mincoeff0 = min(allcoeff0)')
    ifs = [x for x in blk.body if isinstance(x, ast.If) and isinstance(x.test, ast.Compare) and isinstance(x.test.left, ast.Name)
           and x.test.left.id == 'ps']
    if len(ifs) != 1 or len(ifs[0].body) != 1 or len(ifs[0].orelse) != 1:
        raise P.Unrecognised('if ps > 0')
    c = cond(ifs[0].test, {'ps': 'ps'})
    a1, a2 = ifs[0].body[0], ifs[0].orelse[0]
    if not (isinstance(a1, ast.Assign) and a1.targets[0].id == 'coeff0' and isinstance(a2, ast.Assign) and a2.targets[0].id == 'allcoeff0'):
        raise P.Unrecognised('coefficient updates')
    new_c0 = expr(a1.value, {'coeff0': 'coeff0', 'ps': 'ps', 'coeff1': 'coeff1'})
    old_c0 = expr(a2.value, {'allcoeff0': 'allcoeff0', 'ps': 'ps', 'allcoeff1': 'allcoeff1'})
    calls = [n for n in ast.walk(rs) if isinstance(n, ast.Call) and isinstance(n.func, ast.Name) and n.func.id == 'spec_append']
    if len(calls) != 1 or [k.arg for k in calls[0].keywords] != ['pixshift'] or not (
            isinstance(calls[0].keywords[0].value, ast.Name) and calls[0].keywords[0].value.id == 'ps'):
        raise P.Unrecognised('spec_append(..., pixshift=ps)')
    return ['(* align=True: the pixel shift, as the source spells it over the rationals, and the COEFF0 updates *)',
            'Definition gen_align_ps (coeff0 mincoeff0 coeff1 : Z) : Z := Qfloor %s.' % q,
            'Definition gen_align_shift_new (ps : Z) : bool := %s.' % c,
            'Definition gen_align_new_c0 (coeff0 ps coeff1 : Z) : Z := %s.' % new_c0,
            'Definition gen_align_old_c0 (allcoeff0 ps allcoeff1 : Z) : Z := %s.' % old_c0]


def generate(repo):
    info = {'recognised': False, 'source': SRC}
    try:
        tree = ast.parse(open(os.path.join(repo, SRC)).read())
        rs = Strip().visit(P.find_function(tree, 'readspec'))
        sa = P.find_function(tree, 'spec_append')
        defs = []
        key = unzip = None
        rows = {}
        zfib = []
        argsort = False
        for n in ast.walk(rs):
            if isinstance(n, ast.Assign) and len(n.targets) == 1 and isinstance(n.targets[0], ast.Name):
                name = n.targets[0].id
                if name == 'pmjd':
                    key = expr(n.value, {'platevec': 'platevec', 'mjdvec': 'mjdvec'})
                elif name == 'zupmjd':
                    v = n.value
                    if not (isinstance(v, ast.Call) and isinstance(v.func, ast.Name) and v.func.id == 'list' and
                            isinstance(v.args[0], ast.Call) and isinstance(v.args[0].func, ast.Name) and
                            v.args[0].func.id == 'zip' and len(v.args[0].args) == 2):
                        raise P.Unrecognised('zupmjd')
                    unzip = [expr(a, {'upmjd': 'upmjd'}) for a in v.args[0].args]
                elif name == 'zfiber':
                    zfib.append(expr(n.value, {'thisfiber': 'thisfiber', 'nper': 'nper', 'znum': 'znum'}))
                elif name == 'j':
                    v = n.value
                    argsort = (isinstance(v, ast.Call) and isinstance(v.func, ast.Attribute) and v.func.attr == 'argsort'
                               and isinstance(v.func.value, ast.Name) and v.func.value.id == 'allpmjdindex' and not v.args)
            if isinstance(n, ast.Subscript) and isinstance(n.value, ast.Attribute) and n.value.attr == 'data' \
                    and isinstance(n.value.value, ast.Subscript) and isinstance(n.value.value.value, ast.Name):
                base = n.value.value.value.id
                e = expr(first_index(n), {'thisfiber': 'thisfiber', 'zfiber': 'zfiber'})
                rows.setdefault(base, set()).add(e)
        if key is None or unzip is None or not argsort:
            raise P.Unrecognised('pmjd / zupmjd / argsort statement not found')
        for base in ('spplate', 'photop', 'spz'):
            if len(rows.get(base, ())) != 1:
                raise P.Unrecognised('row index of %s: %s' % (base, sorted(rows.get(base, ()))))
        if len(zfib) != 2:
            raise P.Unrecognised('zfiber assignments: %d' % len(zfib))
        zn = [z for z in zfib if 'znum' in z]
        zb = [z for z in zfib if 'znum' not in z]
        if len(zn) != 1 or len(zb) != 1:
            raise P.Unrecognised('zfiber branches')
        blocks = []
        st = sym_exec(sa.body, {'pixshift': 'pixshift'}, blocks)
        if not st.get('__returned') or len(blocks) != 2 or [b[0] for b in blocks] != ['spec1', 'spec2']:
            raise P.Unrecognised('spec_append body')
        for k in ('nadd1', 'nadd2', 'maxpix', 'nrows'):
            if k not in st:
                raise P.Unrecognised('spec_append: %s' % k)
        if st['__shape_rows'] != st['nrows'] or st['__shape_cols'] != st['maxpix']:
            raise P.Unrecognised('spec_append: shape of the result')
        # ---- number_of_fibers constants, format strings, environment variable names
        tboss, nsdss = nfiber_constants(P.find_function(tree, 'number_of_fibers'))
        spf = format_calls(P.find_function(tree, 'spec_path'))
        m = [re.fullmatch(r'\{0:0?(\d*)d\}', f) for f in spf]
        if len(spf) != 1 or m[0] is None:
            raise P.Unrecognised('spec_path format strings %s' % spf)
        dir_width = int(m[0].group(1) or 0)
        rsf = format_calls(P.find_function(tree, 'readspec'))
        pm = [re.fullmatch(r'\{0:0?(\d*)d\}([^{}]*)\{1:0?(\d*)d\}', f) for f in rsf]
        pm = [x for x in pm if x is not None]
        if len(pm) != 1:
            raise P.Unrecognised('pmjdstr format')
        wp, sep, wm = int(pm[0].group(1) or 0), pm[0].group(2), int(pm[0].group(3) or 0)
        parts = {stem: name_parts(rsf, stem) for stem in ('spPlate-', 'spZbest-', 'spZall-', 'photoPlate-')}
        env_int, env_other = env_names(P.find_function(tree, 'spec_path'))
        defs.append('Definition gen_nfiber_boss_mjd : Z := %d.' % tboss)
        defs.append('Definition gen_nfiber_sdss : Z := %d.' % nsdss)
        defs.append('Definition gen_dir_plate_width : nat := %d.' % dir_width)
        defs.append('Definition gen_pmjd_plate_width : nat := %d.' % wp)
        defs.append('Definition gen_pmjd_mjd_width : nat := %d.' % wm)
        defs.append('Definition gen_pmjd_sep : list Z := %s.   (* %r *)' % (blit(sep), sep))
        for stem, nm in (('spPlate-', 'spplate'), ('spZbest-', 'spzbest'), ('spZall-', 'spzall'), ('photoPlate-', 'photoplate')):
            defs.append('Definition gen_pre_%s : list Z := %s.   (* %r *)' % (nm, blit(parts[stem][0]), parts[stem][0]))
            defs.append('Definition gen_suf_%s : list Z := %s.   (* %r *)' % (nm, blit(parts[stem][1]), parts[stem][1]))
        defs.append('Definition gen_env_int_run2d : list Z := %s.   (* %r *)' % (blit(env_int), env_int))
        defs.append('Definition gen_env_other_run2d : list Z := %s.   (* %r *)' % (blit(env_other), env_other))
        defs.append('Definition gen_key (platevec mjdvec : Z) : Z := %s.' % key)
        defs.append('Definition gen_key_plate (upmjd : Z) : Z := %s.' % unzip[0])
        defs.append('Definition gen_key_mjd (upmjd : Z) : Z := %s.' % unzip[1])
        defs.append('Definition gen_img_row (thisfiber : Z) : Z := %s.' % list(rows['spplate'])[0])
        defs.append('Definition gen_photo_row (thisfiber : Z) : Z := %s.' % list(rows['photop'])[0])
        defs.append('Definition gen_z_row (zfiber : Z) : Z := %s.' % list(rows['spz'])[0])
        defs.append('Definition gen_zbest_fiber (thisfiber : Z) : Z := %s.' % zb[0])
        defs.append('Definition gen_znum_fiber (thisfiber nper znum : Z) : Z := %s.' % zn[0])
        defs.append('Definition gen_sa_nadd1 (pixshift : Z) : Z := %s.' % st['nadd1'])
        defs.append('Definition gen_sa_nadd2 (pixshift : Z) : Z := %s.' % st['nadd2'])
        defs.append('Definition gen_sa_nrows (nrows1 nrows2 : Z) : Z := %s.' % st['nrows'])
        defs.append('Definition gen_sa_maxpix (npix1 npix2 pixshift : Z) : Z := %s.' % st['maxpix'])
        for i, b in enumerate(blocks, 1):
            defs.append('Definition gen_sa_block%d (nrows1 nrows2 npix1 npix2 pixshift : Z) : Z * Z * Z * Z :=\n  (%s, %s, %s, %s).'
                        % (i, b[1], b[2], b[3], b[4]))
        tdefs, tinfo = typed_extract(repo)
        defs += tdefs
        defs += align_extract(repo)
        text = ('(* GENERATED by translate/c16.py from %s -- do not edit. *)\n'
                'From Coq Require Import ZArith Bool List QArith Qround.\nFrom PV Require Import Lib.NumpyInt C16.Typed.\nImport ListNotations.\nOpen Scope Z_scope.\n\n' % SRC) + '\n'.join(defs) + '\n'
        info.update({'recognised': True, 'nfiber': [tboss, nsdss], 'widths': [dir_width, wp, wm], 'env': [env_int, env_other], 'key': key, 'znum_fiber': zn[0], 'img_row': list(rows['spplate'])[0],
                     'nadd1': st['nadd1'], 'nadd2': st['nadd2'], 'typed': tinfo})
        return text, info
    except (P.Unrecognised, OSError, SyntaxError, IndexError, AttributeError, ValueError, UnicodeError) as e:
        info['error'] = '%s: %s' % (type(e).__name__, e)
        return None, info
