(* Yanny/RowFacts.v -- row level: a rendered data row survives strip / trailing_comment / the double-brace
   rewrite, dispatches to its table and parses back to its cells. *)
From Coq Require Import NArith ZArith List Bool Lia.
Import ListNotations.
From PV Require Import Yanny.Bytes Yanny.BytesFacts Yanny.Types Yanny.Parse Yanny.Render Yanny.TokenFacts.
Open Scope N_scope.

(* character-class reasoning by linear arithmetic *)
Ltac nclass_u :=
  unfold upc, lowc, not_ws, not_c, is_word, is_alpha, is_upper, is_lower, is_digit, is_ws, printable, is_open, is_close,
         QUOTE, HASH, LBRACE, RBRACE, LBRACK, RBRACK, LT, GT, SEMI, COMMA, BSL, MINUS, PLUS, USCORE, SP, NL, CR, TAB in *.
Ltac nclass :=
  nclass_u;
  repeat match goal with
         | |- context [if ?b then _ else _] => let E := fresh "E" in destruct b eqn:E
         | H : context [if ?b then _ else _] |- _ => let E := fresh "E" in destruct b eqn:E
         end;
  rewrite ?negb_true_iff, ?negb_false_iff, ?orb_true_iff, ?orb_false_iff, ?andb_true_iff, ?andb_false_iff,
          ?N.leb_le, ?N.leb_gt, ?N.eqb_eq, ?N.eqb_neq in *;
  try discriminate; try lia.

Lemma word_not_ws c : is_word c = true -> is_ws c = false.
Proof. intros H. destruct (is_ws c) eqn:E; auto. exfalso. nclass. Qed.
Lemma word_not c d : is_word c = true -> is_word d = false -> (c =? d) = false.
Proof. intros H1 H2. apply N.eqb_neq. intros ->. congruence. Qed.
Lemma upc_word c : is_word c = true -> is_word (upc c) = true.
Proof. intros H. nclass. Qed.
Lemma upc_not_lower c : is_lower (upc c) = false.
Proof. destruct (is_lower (upc c)) eqn:E; auto. exfalso. nclass. Qed.
Lemma upc_idem c : upc (upc c) = upc c.
Proof. unfold upc at 1. now rewrite upc_not_lower. Qed.
Lemma upper_idem s : upper (upper s) = upper s.
Proof. unfold upper. rewrite map_map. apply map_ext. apply upc_idem. Qed.

Lemma ident_word s : ident s = true -> s <> [] /\ forallb is_word s = true.
Proof.
  destruct s as [|c s]; [discriminate|]. cbn [ident forallb]. intros H. apply andb_true_iff in H as [H1 H2].
  split; [discriminate|]. rewrite H2, andb_true_r. nclass.
Qed.
Lemma upper_word s : forallb is_word s = true -> forallb is_word (upper s) = true.
Proof.
  induction s as [|c s IH]; cbn [upper map forallb]; auto. intros H. apply andb_true_iff in H as [H1 H2].
  rewrite upc_word by auto. now apply IH.
Qed.
Lemma word_forallb (q : N -> bool) s : (forall c, is_word c = true -> q c = true) -> forallb is_word s = true -> forallb q s = true.
Proof. intros H. apply forallb_impl. exact H. Qed.
Lemma word_mem d s : is_word d = false -> forallb is_word s = true -> mem d s = false.
Proof.
  intros Hd H. apply mem_false_forallb. eapply forallb_impl; [|exact H].
  intros x Hx. apply negb_true_iff. now apply word_not.
Qed.

(* a word (identifier) as a bare token *)
Lemma word_tok_ok s : forallb is_word s = true -> tok_ok s = true.
Proof.
  intros H. unfold tok_ok. rewrite (word_mem QUOTE) by auto. destruct s as [|c s]; auto.
  cbn [forallb] in H. apply andb_true_iff in H as [H _]. cbn [negb andb]. apply negb_true_iff. now apply word_not.
Qed.
Lemma word_all_not_ws s : forallb is_word s = true -> forallb not_ws s = true.
Proof. apply word_forallb. intros c H. unfold not_ws. now rewrite word_not_ws. Qed.

(* ---- integers as tokens ---- *)
Definition numch (c : N) : bool := is_digit c || (c =? MINUS).
Lemma show_Z_numch z : forallb numch (show_Z z) = true.
Proof.
  assert (H : forall n, forallb numch (show_N n) = true).
  { intros n. eapply forallb_impl; [|apply show_N_digits]. intros x Hx. unfold numch. now rewrite Hx. }
  destruct z; unfold show_Z; auto. cbn [forallb]. now rewrite H.
Qed.
Lemma show_Z_nonempty z : show_Z z <> [].
Proof. destruct z; unfold show_Z; try apply show_N_nonempty. discriminate. Qed.
Lemma numch_mem d s : numch d = false -> forallb numch s = true -> mem d s = false.
Proof.
  intros Hd H. apply mem_false_forallb. eapply forallb_impl; [|exact H].
  intros x Hx. apply negb_true_iff. apply N.eqb_neq. intros ->. congruence.
Qed.
Lemma num_tok_ok s : forallb numch s = true -> tok_ok s = true.
Proof.
  intros H. unfold tok_ok. rewrite (numch_mem QUOTE) by auto. destruct s as [|c s]; auto.
  cbn [forallb] in H. apply andb_true_iff in H as [H _]. cbn [negb andb]. apply negb_true_iff.
  apply N.eqb_neq. intros ->. discriminate.
Qed.
Lemma num_no_quote_needed s : s <> [] -> forallb numch s = true -> needs_quote s = false.
Proof.
  intros Hn H. unfold needs_quote. destruct s as [|c s]; [congruence|].
  remember (c :: s) as t. clear Heqt Hn. induction t as [|x t IH]; auto.
  cbn [forallb existsb] in *. apply andb_true_iff in H as [H1 H2]. rewrite IH by auto.
  rewrite orb_false_r. apply orb_false_iff. split.
  - apply N.eqb_neq. intros ->. discriminate.
  - destruct (is_ws x) eqn:E; auto. exfalso. unfold numch in H1. nclass.
Qed.

(* ---- one value ---- *)
(* the token text of a value is acceptable to get_token (scalar position / array-element position) *)
Definition sval_tok_ok (inarr : bool) (v : sval) : bool :=
  match v with SInt _ => true | STok t => if inarr then etok_ok t else tok_ok t end.

Lemma show_sval_tok_ok v : sval_tok_ok false v = true -> tok_ok (show_sval v) = true.
Proof. destruct v; simpl; auto. intros _. apply num_tok_ok, show_Z_numch. Qed.
Lemma show_sval_etok_ok v : sval_tok_ok true v = true -> etok_ok (show_sval v) = true.
Proof.
  destruct v; simpl; auto. intros _. unfold etok_ok. rewrite num_tok_ok by apply show_Z_numch.
  rewrite (numch_mem RBRACE); auto. apply show_Z_numch.
Qed.

(* convert(): the kind of column decides int() or identity *)
Definition kind_matches (k : convk) (v : sval) : bool :=
  match k, v with KInt, SInt _ => true | (KFloat | KOther), STok _ => true | _, _ => false end.
Lemma conv1_show k v : kind_matches k v = true -> conv1 k (show_sval v) = Some v.
Proof.
  destruct k, v; simpl; try discriminate; auto. intros _. now rewrite parse_show_Z.
Qed.
Lemma omap_conv1_show k l : forallb (kind_matches k) l = true -> omap (conv1 k) (map show_sval l) = Some l.
Proof.
  induction l as [|v l IH]; simpl; auto. intros H. apply andb_true_iff in H as [H1 H2].
  rewrite conv1_show by auto. now rewrite IH.
Qed.

(* ---- cells ---- *)
Lemma render_sval_nonempty v : render_sval v <> [].
Proof. apply protect_nonempty. Qed.
Lemma render_cell_nonempty x : render_cell x <> [].
Proof. destruct x; [apply render_sval_nonempty|discriminate]. Qed.
Lemma render_cell_head x : head_not_ws (render_cell x).
Proof. destruct x; [apply protect_head_not_ws|reflexivity]. Qed.
Lemma render_cell_last x : last_not_ws (render_cell x).
Proof.
  destruct x; [apply protect_last_not_ws|]. unfold render_cell, render_array.
  change (LBRACE :: join [SP] (map render_sval l) ++ [RBRACE]) with ((LBRACE :: join [SP] (map render_sval l)) ++ [RBRACE]).
  now apply last_not_ws_app.
Qed.

Lemma join_cells_head r : head_not_ws (join [SP] (map render_cell r)).
Proof.
  destruct r as [|x r]; simpl; auto. pose proof (render_cell_head x) as H. pose proof (render_cell_nonempty x) as Hn.
  destruct (map render_cell r); [exact H|]. destruct (render_cell x); [congruence|exact H].
Qed.
Lemma join_cells_nonempty x r : join [SP] (map render_cell (x :: r)) <> [].
Proof.
  cbn [map]. pose proof (render_cell_nonempty x) as Hn. destruct (map render_cell r); simpl.
  - exact Hn.
  - destruct (render_cell x); [congruence|discriminate].
Qed.

Lemma head_not_ws_not_all_ws s : s <> [] -> head_not_ws s -> all_ws s = false.
Proof. destruct s; [congruence|]. simpl. now intros _ ->. Qed.

(* a column as the parser sees it: its kind and whether it is an array; a cell fits it *)
Definition cell_fits (k : convk) (isarr : bool) (x : cell) : bool :=
  match x with
  | Sc v => negb isarr && kind_matches k v && sval_tok_ok false v
  | Ar l => isarr && forallb (kind_matches k) l && forallb (sval_tok_ok true) l
  end.

Lemma map_show_protect l : map render_sval l = map protect (map show_sval l).
Proof. now rewrite map_map. Qed.

Lemma forallb_map {A B} (f : A -> B) p l : forallb p (map f l) = forallb (fun x => p (f x)) l.
Proof. induction l; simpl; auto. now rewrite IHl. Qed.

(* get_token + convert on one rendered cell followed by a separator or the end of the line *)
Lemma cell_token typ x w rest :
  cell_fits (classify typ) (isarray typ) x = true -> all_ws w = true -> head_not_ws rest -> (w = [] -> rest = []) ->
  exists data, get_token (render_cell x ++ w ++ rest) = Some (data, rest) /\
    (if isarray typ
     then obind (split_array (S (length data)) data) (fun ts => option_map Ar (omap (conv1 (classify typ)) ts))
     else option_map Sc (conv1 (classify typ) data)) = Some x.
Proof.
  intros Hf Hw Hr Hwr. destruct x as [v|l]; cbn [cell_fits] in Hf.
  - apply andb_true_iff in Hf as [Hf Ht]. apply andb_true_iff in Hf as [Ha Hk]. apply negb_true_iff in Ha.
    exists (show_sval v). rewrite Ha. rewrite conv1_show by auto. split; auto.
    cbn [render_cell]. unfold render_sval. destruct w as [|c w].
    + rewrite (Hwr eq_refl). rewrite !app_nil_r. apply protect_token_eol. now apply show_sval_tok_ok.
    + apply protect_token_sep; auto; [now apply show_sval_tok_ok|discriminate].
  - apply andb_true_iff in Hf as [Hf Ht]. apply andb_true_iff in Hf as [Ha Hk].
    exists (join [SP] (map protect (map show_sval l))). rewrite Ha.
    assert (He : forallb etok_ok (map show_sval l) = true).
    { rewrite forallb_map. eapply forallb_impl; [|exact Ht]. intros v Hv. now apply show_sval_etok_ok. }
    split.
    + cbn [render_cell]. unfold render_array. rewrite map_show_protect.
      change ((LBRACE :: join [SP] (map protect (map show_sval l)) ++ [RBRACE]) ++ w ++ rest)
        with (LBRACE :: (join [SP] (map protect (map show_sval l)) ++ [RBRACE]) ++ w ++ rest).
      rewrite <- app_assoc. now apply array_token.
    + rewrite array_roundtrip by auto. cbn [obind]. now rewrite omap_conv1_show.
Qed.

Fixpoint row_fits (cols : tcols) (r : list cell) : bool :=
  match cols, r with
  | [], [] => true
  | (_, Some typ) :: cols', x :: r' => cell_fits (classify typ) (isarray typ) x && row_fits cols' r'
  | _, _ => false
  end.

(* the cells of a rendered row come back, whatever the symbol table says about the column types,
   as long as each cell fits its column's kind *)
Theorem parse_cells_render cols : forall r, row_fits cols r = true ->
  parse_cells cols (join [SP] (map render_cell r)) = Some r.
Proof.
  induction cols as [|[name otyp] cols IH]; intros r Hr.
  - destruct r; [reflexivity|discriminate].
  - destruct r as [|x r]; [destruct otyp; discriminate|]. destruct otyp as [typ|]; [|discriminate].
    cbn [row_fits] in Hr. apply andb_true_iff in Hr as [Hx Hr].
    cbn [parse_cells]. rewrite head_not_ws_not_all_ws; [|apply join_cells_nonempty|apply join_cells_head].
    set (w := match r with [] => [] | _ :: _ => [SP] end : bytes).
    assert (E : join [SP] (map render_cell (x :: r)) = render_cell x ++ w ++ join [SP] (map render_cell r)).
    { subst w. destruct r; cbn [map join]; [now rewrite app_nil_r|reflexivity]. }
    rewrite E.
    destruct (cell_token typ x w (join [SP] (map render_cell r)) Hx) as [data [Hg Hc]].
    + subst w. destruct r; reflexivity.
    + apply join_cells_head.
    + subst w. destruct r; [reflexivity|discriminate].
    + rewrite Hg, Hc. now rewrite IH.
Qed.

(* ---- the whole line: strip, trailing_comment, double braces ---- *)
Lemma qscan_tt_app a b : qscan a = (true, true) -> qscan b = (true, true) -> qscan (a ++ b) = (true, true).
Proof.
  intros Ha Hb. rewrite qscan_app; unfold quotes_even, hash_safe; now rewrite ?Ha, ?Hb.
Qed.

Definition sval_q_ok (v : sval) : bool := match v with SInt _ => true | STok t => negb (mem QUOTE t) end.
Definition cell_q_ok (x : cell) : bool := match x with Sc v => sval_q_ok v | Ar l => forallb sval_q_ok l end.

Lemma qscan_render_sval v : sval_q_ok v = true -> qscan (render_sval v) = (true, true).
Proof.
  intros H. apply qscan_protect. destruct v; simpl in *.
  - apply (numch_mem QUOTE); auto. apply show_Z_numch.
  - now apply negb_true_iff.
Qed.
Lemma qscan_join_svals l : forallb sval_q_ok l = true -> qscan (join [SP] (map render_sval l)) = (true, true).
Proof.
  induction l as [|v l IH]; [reflexivity|]. cbn [forallb]. intros H. apply andb_true_iff in H as [H1 H2].
  destruct l as [|u l]; [now apply qscan_render_sval|].
  change (map render_sval (v :: u :: l)) with (render_sval v :: render_sval u :: map render_sval l).
  rewrite join_cons. apply qscan_tt_app; [now apply qscan_render_sval|].
  apply (qscan_tt_app [SP]); [reflexivity|]. now apply IH.
Qed.
Lemma qscan_render_cell x : cell_q_ok x = true -> qscan (render_cell x) = (true, true).
Proof.
  destruct x as [v|l]; cbn [cell_q_ok render_cell]; [apply qscan_render_sval|]. intros H. unfold render_array.
  apply (qscan_tt_app [LBRACE]); [reflexivity|]. apply qscan_tt_app; [now apply qscan_join_svals|reflexivity].
Qed.
Lemma qscan_join_cells r : forallb cell_q_ok r = true -> qscan (join [SP] (map render_cell r)) = (true, true).
Proof.
  induction r as [|x r IH]; [reflexivity|]. cbn [forallb]. intros H. apply andb_true_iff in H as [H1 H2].
  destruct r as [|y r]; [now apply qscan_render_cell|].
  change (map render_cell (x :: y :: r)) with (render_cell x :: render_cell y :: map render_cell r).
  rewrite join_cons. apply qscan_tt_app; [now apply qscan_render_cell|].
  apply (qscan_tt_app [SP]); [reflexivity|]. now apply IH.
Qed.

Lemma row_line_split name r : render_row_line name r =
  name ++ match r with [] => [] | _ => SP :: join [SP] (map render_cell r) end.
Proof. unfold render_row_line. destruct r; cbn [map join]; [now rewrite app_nil_r|reflexivity]. Qed.

(* the quote-parity argument: trailing_comment leaves a rendered row intact *)
Theorem row_comment_free name r : forallb is_word name = true -> forallb cell_q_ok r = true ->
  trailing_comment (render_row_line name r) = render_row_line name r.
Proof.
  intros Hn Hr. apply trailing_comment_safe. unfold hash_safe. rewrite row_line_split.
  assert (Hq : qscan name = (true, true)).
  { apply qscan_plain; apply word_mem; auto. }
  destruct r as [|x r]; [now rewrite app_nil_r, Hq|].
  rewrite qscan_tt_app; auto. apply (qscan_tt_app [SP]); [reflexivity|]. now apply qscan_join_cells.
Qed.

(* the double-brace rewrite leaves a rendered row intact *)
Definition ws_or_end (r : bytes) : Prop := match r with c :: _ => is_ws c = true | [] => True end.

Lemma dbl_protect_scalar s r : tok_ok s = true -> ws_or_end r ->
  dbl_aux 0 0 (protect s ++ r) = protect s ++ dbl_aux 0 0 r.
Proof.
  intros Hok Hr. destruct (needs_quote s) eqn:E.
  - rewrite protect_quoted by auto.
    change ((QUOTE :: s ++ [QUOTE]) ++ r) with (QUOTE :: (s ++ [QUOTE]) ++ r). rewrite <- app_assoc. cbn [app].
    rewrite dbl_quoted.
    + change (QUOTE :: s ++ QUOTE :: dbl_aux 0 0 r) with (QUOTE :: s ++ [QUOTE] ++ dbl_aux 0 0 r).
      now rewrite app_assoc.
    + unfold tok_ok in Hok. apply andb_true_iff in Hok as [Hq _]. now apply negb_true_iff.
  - rewrite protect_bare by auto. destruct (needs_quote_false s E) as [A [B _]].
    apply dbl_word; auto. unfold tok_ok in Hok. apply andb_true_iff in Hok as [Hq Hb].
    destruct s as [|c s]; auto. apply negb_true_iff in Hq. apply mem_cons_false in Hq as [Hq _].
    apply negb_true_iff in Hb. auto.
Qed.

Lemma tok_ok_head s : tok_ok s = true ->
  mem QUOTE s = false /\ match s with c :: _ => (c =? QUOTE) = false /\ (c =? LBRACE) = false | [] => True end.
Proof.
  unfold tok_ok. intros H. apply andb_true_iff in H as [Hq Hb]. apply negb_true_iff in Hq. split; auto.
  destruct s as [|c s]; auto. apply mem_cons_false in Hq as [Hq _]. apply negb_true_iff in Hb. auto.
Qed.

(* the last element of an array, followed by the closing brace *)
Lemma dbl_protect_close s r : tok_ok s = true -> ws_or_end r ->
  dbl_aux 0 0 (protect s ++ RBRACE :: r) = protect s ++ RBRACE :: dbl_aux 0 0 r.
Proof.
  intros Hok Hr. destruct (tok_ok_head s Hok) as [Hq Hh]. destruct (needs_quote s) eqn:E.
  - rewrite protect_quoted by auto.
    change ((QUOTE :: s ++ [QUOTE]) ++ RBRACE :: r) with (QUOTE :: (s ++ [QUOTE]) ++ RBRACE :: r).
    rewrite <- app_assoc. cbn [app]. rewrite dbl_quoted by auto.
    change (RBRACE :: r) with ([RBRACE] ++ r). rewrite (dbl_word [RBRACE] r); [|discriminate|reflexivity|split; reflexivity|exact Hr].
    change (QUOTE :: s ++ QUOTE :: [RBRACE] ++ dbl_aux 0 0 r) with (QUOTE :: s ++ [QUOTE] ++ RBRACE :: dbl_aux 0 0 r).
    now rewrite app_assoc.
  - rewrite protect_bare by auto. destruct (needs_quote_false s E) as [A [B _]].
    replace (s ++ RBRACE :: r) with ((s ++ [RBRACE]) ++ r) by (now rewrite <- app_assoc).
    rewrite dbl_word; auto.
    + now rewrite <- app_assoc.
    + destruct s; discriminate.
    + rewrite forallb_app, B. reflexivity.
    + destruct s as [|c s]; [congruence|]. exact Hh.
Qed.

Lemma protect_head_cases s : tok_ok s = true ->
  match protect s with c :: _ => is_ws c = false /\ (c =? LBRACE) = false | [] => False end.
Proof.
  intros Hok. destruct (tok_ok_head s Hok) as [Hq Hh]. destruct (needs_quote s) eqn:E.
  - rewrite protect_quoted by auto. split; reflexivity.
  - rewrite protect_bare by auto. destruct (needs_quote_false s E) as [A [B _]].
    destruct s as [|c s]; [congruence|]. cbn [forallb] in B. apply andb_true_iff in B as [B _].
    split; [now apply negb_true_iff|apply Hh].
Qed.

Lemma dbl_elements l : forall r, l <> [] -> forallb tok_ok l = true -> ws_or_end r ->
  dbl_aux 0 0 (join [SP] (map protect l) ++ RBRACE :: r) = join [SP] (map protect l) ++ RBRACE :: dbl_aux 0 0 r.
Proof.
  induction l as [|x l IH]; intros r Hn Hok Hr; [congruence|].
  cbn [forallb] in Hok. apply andb_true_iff in Hok as [Hx Hl].
  destruct l as [|y l].
  - cbn [map join]. now apply dbl_protect_close.
  - change (map protect (x :: y :: l)) with (protect x :: protect y :: map protect l).
    rewrite join_cons. rewrite <- !app_assoc. rewrite dbl_protect_scalar; auto; [|reflexivity].
    cbn [app]. rewrite dbl_ws by reflexivity.
    change (protect y :: map protect l) with (map protect (y :: l)). rewrite IH; auto. discriminate.
Qed.

Definition cell_tok_ok (x : cell) : bool :=
  match x with Sc v => sval_tok_ok false v | Ar l => forallb (sval_tok_ok true) l end.

Lemma dbl_cell x r : cell_tok_ok x = true -> ws_or_end r ->
  dbl_aux 0 0 (render_cell x ++ r) = render_cell x ++ dbl_aux 0 0 r.
Proof.
  intros Hok Hr. destruct x as [v|l]; cbn [cell_tok_ok render_cell] in *.
  - apply dbl_protect_scalar; auto. now apply show_sval_tok_ok.
  - unfold render_array. rewrite map_show_protect.
    assert (Ht : forallb tok_ok (map show_sval l) = true).
    { rewrite forallb_map. eapply forallb_impl; [|exact Hok]. intros v Hv.
      apply show_sval_etok_ok in Hv. unfold etok_ok in Hv. now apply andb_true_iff in Hv as [Hv _]. }
    change ((LBRACE :: join [SP] (map protect (map show_sval l)) ++ [RBRACE]) ++ r)
      with (LBRACE :: (join [SP] (map protect (map show_sval l)) ++ [RBRACE]) ++ r).
    rewrite <- app_assoc. cbn [app]. destruct l as [|v l].
    + cbn [map join app]. rewrite dbl_open by (split; reflexivity).
      change (RBRACE :: r) with ([RBRACE] ++ r). rewrite (dbl_word [RBRACE] r); [reflexivity|discriminate|reflexivity|split; reflexivity|exact Hr].
    + rewrite dbl_open.
      * rewrite dbl_elements; auto; [|discriminate]. now rewrite <- app_assoc.
      * cbn [map forallb] in Ht. apply andb_true_iff in Ht as [Hv _].
        pose proof (protect_head_cases _ Hv) as Hh. cbn [map].
        destruct (map protect (map show_sval l)); cbn [join]; destruct (protect (show_sval v)); try contradiction; exact Hh.
Qed.

Lemma dbl_cells r : forallb cell_tok_ok r = true ->
  dbl_aux 0 0 (join [SP] (map render_cell r)) = join [SP] (map render_cell r).
Proof.
  induction r as [|x r IH]; [reflexivity|]. cbn [forallb]. intros H. apply andb_true_iff in H as [H1 H2].
  destruct r as [|y r].
  - cbn [map join]. rewrite <- (app_nil_r (render_cell x)) at 1. rewrite dbl_cell; auto; [|exact I].
    now rewrite app_nil_r.
  - change (map render_cell (x :: y :: r)) with (render_cell x :: render_cell y :: map render_cell r).
    rewrite join_cons. rewrite dbl_cell; auto; [|reflexivity]. cbn [app]. rewrite dbl_ws by reflexivity.
    change (render_cell y :: map render_cell r) with (map render_cell (y :: r)). now rewrite IH.
Qed.

Theorem row_double_brace_free name r : name <> [] -> forallb is_word name = true -> forallb cell_tok_ok r = true ->
  double_braces (render_row_line name r) = render_row_line name r.
Proof.
  intros Hn Hw Hr. unfold double_braces. rewrite row_line_split.
  assert (Hh : match name with c :: _ => (c =? QUOTE) = false /\ (c =? LBRACE) = false | [] => True end).
  { destruct name as [|c name]; auto. cbn [forallb] in Hw. apply andb_true_iff in Hw as [Hc _].
    split; now apply word_not. }
  destruct r as [|x r].
  - rewrite dbl_word; [reflexivity|exact Hn|now apply word_all_not_ws|exact Hh|exact I].
  - rewrite dbl_word; [|exact Hn|now apply word_all_not_ws|exact Hh|reflexivity].
    rewrite dbl_ws by reflexivity. now rewrite dbl_cells.
Qed.

Lemma cell_tok_q x : cell_tok_ok x = true -> cell_q_ok x = true.
Proof.
  assert (A : forall b v, sval_tok_ok b v = true -> sval_q_ok v = true).
  { intros b [z|t]; simpl; auto. destruct b; intros H.
    - unfold etok_ok in H. apply andb_true_iff in H as [H _]. unfold tok_ok in H. now apply andb_true_iff in H as [H _].
    - unfold tok_ok in H. now apply andb_true_iff in H as [H _]. }
  destruct x as [v|l]; simpl; [apply A|]. apply forallb_impl. apply A.
Qed.

(* strip() leaves a rendered row intact *)
Theorem row_strip_free name r : name <> [] -> forallb is_word name = true ->
  strip (render_row_line name r) = render_row_line name r.
Proof.
  intros Hn Hw. apply strip_id.
  - rewrite row_line_split. destruct name as [|c name]; [congruence|]. cbn [app head_not_ws].
    cbn [forallb] in Hw. apply andb_true_iff in Hw as [Hc _]. now apply word_not_ws.
  - rewrite row_line_split. destruct r as [|x r].
    + rewrite app_nil_r. unfold last_not_ws. destruct (rev name) as [|c t] eqn:E; auto.
      assert (In c name) by (apply in_rev; rewrite E; now left).
      rewrite forallb_forall in Hw. apply word_not_ws. auto.
    + apply last_not_ws_app_r; [discriminate|].
      change (SP :: join [SP] (map render_cell (x :: r))) with ([SP] ++ join [SP] (map render_cell (x :: r))).
      apply last_not_ws_app_r; [apply join_cells_nonempty|].
      clear. revert x. induction r as [|y r IH]; intros x.
      * cbn [map join]. apply render_cell_last.
      * change (map render_cell (x :: y :: r)) with (render_cell x :: render_cell y :: map render_cell r).
        rewrite join_cons. apply last_not_ws_app_r.
        { discriminate. }
        change ([SP] ++ join [SP] (render_cell y :: map render_cell r)) with ([SP] ++ join [SP] (map render_cell (y :: r))).
        apply last_not_ws_app_r; [apply join_cells_nonempty|apply IH].
Qed.

(* ---- dispatch: the whole data line ---- *)
Lemma row_fits_tok_ok cols : forall r, row_fits cols r = true -> forallb cell_tok_ok r = true.
Proof.
  induction cols as [|[n [typ|]] cols IH]; intros [|x r] H; try discriminate; auto.
  cbn [row_fits] in H. apply andb_true_iff in H as [H1 H2]. cbn [forallb]. rewrite (IH r H2), andb_true_r.
  destruct x as [v|l]; cbn [cell_fits cell_tok_ok] in *.
  - now apply andb_true_iff in H1 as [_ H1].
  - now apply andb_true_iff in H1 as [_ H1].
Qed.

Theorem row_line_roundtrip sy st name cols r :
  name <> [] -> forallb is_word name = true -> assoc (upper name) sy = Some cols -> row_fits cols r = true ->
  process_line sy st (render_row_line name r)
  = Some (mkst (st_pairs st) (assoc_app (upper name) r (st_rows st))).
Proof.
  intros Hn Hw Hsy Hr. pose proof (row_fits_tok_ok cols r Hr) as Ht.
  unfold process_line.
  assert (Hskip : skip_line (render_row_line name r) = false).
  { rewrite row_line_split. destruct name as [|c name]; [congruence|]. cbn [forallb] in Hw.
    apply andb_true_iff in Hw as [Hc _]. unfold skip_line. cbn [app lstrip all_ws forallb].
    rewrite (word_not_ws c Hc). unfold starts_with. cbn [prefix]. change (HASH =? c) with (35 =? c).
    rewrite N.eqb_sym. rewrite (word_not c 35 Hc eq_refl). reflexivity. }
  rewrite Hskip. unfold clean_line.
  rewrite row_strip_free, row_comment_free, row_double_brace_free; auto.
  2:{ eapply forallb_impl; [|exact Ht]. apply cell_tok_q. }
  rewrite row_line_split.
  assert (G : get_token (name ++ match r with [] => [] | _ :: _ => SP :: join [SP] (map render_cell r) end)
              = Some (name, join [SP] (map render_cell r))).
  { destruct r as [|x r].
    - rewrite app_nil_r. apply get_token_bare_eol; auto; [now apply word_tok_ok|now apply word_all_not_ws].
    - rewrite get_token_bare; auto; [|now apply word_tok_ok|now apply word_all_not_ws].
      f_equal. f_equal. change (SP :: join [SP] (map render_cell (x :: r))) with ([SP] ++ join [SP] (map render_cell (x :: r))).
      apply lstrip_ws_app_id; [reflexivity|apply join_cells_head]. }
  rewrite G. rewrite Hsy. now rewrite parse_cells_render.
Qed.
