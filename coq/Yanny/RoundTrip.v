(* Yanny/RoundTrip.v -- whole-file level, part 2: the file the writer produces for a document, as items;
   every stage of the reader on it; parse (render d) = sem d. *)
From Coq Require Import NArith ZArith List Bool Lia.
Import ListNotations.
From PV Require Import Yanny.Bytes Yanny.BytesFacts Yanny.Types Yanny.Parse Yanny.Render
  Yanny.TokenFacts Yanny.RowFacts Yanny.TypeFacts Yanny.DocFacts Yanny.LayoutFacts Yanny.ScanFacts Yanny.StructFacts
  Yanny.EnumFacts Yanny.DtypeFacts Yanny.FileFacts.
Open Scope N_scope.

(* ---------------------------------------------------------------- the rendered file as items *)
Definition comment_line (c : bytes) : bytes := HASH :: SP :: c.
Definition pair_line (kv : bytes * bytes) : bytes := fst kv ++ [SP] ++ snd kv.
Definition block_items (kw : bytes) (tds : list (bytes * bytes)) : list item :=
  match tds with
  | [] => []
  | bn :: rest => ILine [] :: ITd kw (fst bn) (snd bn) :: flat_map (fun bn => [ILine []; ITd kw (fst bn) (snd bn)]) rest
  end.
Definition enum_td (e : enumdecl) : bytes * bytes := (NL :: unlines (elines (e_labels e)), upper (e_tname e)).
Definition struct_td (es : list enumdecl) (tw : table * list bytes) : bytes * bytes :=
  (NL :: unlines (lines_of es (t_cols (fst tw)) (snd tw)), upper (t_name (fst tw))).
Definition row_lines (t : table) : list bytes := map (render_row_line (upper (t_name t))) (t_rows t).

Definition items_of (d : doc) (tws : list (table * list bytes)) : list item :=
  [ILine S_MAGIC] ++ map (fun c => ILine (comment_line c)) (d_comments d)
  ++ map (fun kv => ILine (pair_line kv)) (d_pairs d)
  ++ block_items KW_ENUM (map enum_td (d_enums d))
  ++ block_items KW_STRUCT (map (struct_td (d_enums d)) tws)
  ++ [ILine []]
  ++ flat_map (fun t => map ILine (row_lines t)) (d_tables d).

Lemma items_text_app a b : items_text (a ++ b) = items_text a ++ items_text b.
Proof. unfold items_text. now rewrite map_app, concat_app. Qed.

Lemma join_nl_unlines ls : ls <> [] -> join [NL] ls ++ [NL] = unlines ls.
Proof.
  induction ls as [|l ls IH]; [congruence|]. intros _. destruct ls as [|m ls].
  - unfold unlines. cbn [join map concat]. now rewrite app_nil_r.
  - rewrite join_cons. change (unlines (l :: m :: ls)) with ((l ++ [NL]) ++ unlines (m :: ls)).
    rewrite <- IH by discriminate. now rewrite <- !app_assoc.
Qed.

Lemma items_text_lines ls : items_text (map ILine ls) = unlines ls.
Proof. unfold items_text, unlines. now rewrite map_map. Qed.

Lemma block_join kw rest : forall bn,
  join [NL; NL] (map (fun bn => td_text kw (fst bn) (snd bn)) (bn :: rest)) ++ [NL]
  = td_text kw (fst bn) (snd bn) ++ [NL] ++ items_text (flat_map (fun bn => [ILine []; ITd kw (fst bn) (snd bn)]) rest).
Proof.
  induction rest as [|bn' rest IH]; intros bn.
  - cbn [map join flat_map]. unfold items_text. cbn [map concat]. now rewrite app_nil_r.
  - change (map (fun bn0 : bytes * bytes => td_text kw (fst bn0) (snd bn0)) (bn :: bn' :: rest))
      with (td_text kw (fst bn) (snd bn) :: map (fun bn0 : bytes * bytes => td_text kw (fst bn0) (snd bn0)) (bn' :: rest)).
    cbn [map] . rewrite join_cons. rewrite <- !app_assoc.
    change (td_text kw (fst bn') (snd bn') :: map (fun bn0 : bytes * bytes => td_text kw (fst bn0) (snd bn0)) rest)
      with (map (fun bn0 : bytes * bytes => td_text kw (fst bn0) (snd bn0)) (bn' :: rest)).
    rewrite IH. cbn [flat_map]. unfold items_text. cbn [app map concat item_text]. rewrite <- !app_assoc. reflexivity.
Qed.

Lemma render_block_items kw tds :
  render_block (map (fun bn => td_text kw (fst bn) (snd bn)) tds) = items_text (block_items kw tds).
Proof.
  destruct tds as [|bn rest]; [reflexivity|]. unfold render_block.
  destruct (map (fun bn0 : bytes * bytes => td_text kw (fst bn0) (snd bn0)) (bn :: rest)) eqn:E; [discriminate|]. rewrite <- E.
  rewrite block_join. cbn [block_items]. unfold items_text. cbn [map concat item_text app]. rewrite <- !app_assoc. reflexivity.
Qed.

Definition tws_ok (es : list enumdecl) (tws : list (table * list bytes)) : Prop :=
  Forall (fun tw => cols_words es (t_cols (fst tw)) (snd tw)) tws.

Lemma tws_exist es tables : forallb enum_ok es = true -> forallb (table_ok es) tables = true ->
  exists tws, map fst tws = tables /\ tws_ok es tws.
Proof.
  intros Hes. induction tables as [|t ts IH]; intros H; [exists []; split; [reflexivity|constructor]|].
  cbn [forallb] in H. apply andb_true_iff in H as [Ht Hts]. destruct (IH Hts) as [tws [E Hok]].
  destruct (table_ok_parts es t Ht) as [_ [_ [Hc _]]]. destruct (cols_words_exist es (t_cols t) Hes Hc) as [ws Hws].
  exists ((t, ws) :: tws). split; [cbn [map fst]; now rewrite E|]. constructor; auto.
Qed.

Lemma omap_render_structs es tws : tws_ok es tws ->
  omap (render_struct es) (map fst tws) = Some (map (fun tw => td_text KW_STRUCT (fst (struct_td es tw)) (snd (struct_td es tw))) tws).
Proof.
  induction 1 as [|tw tws Hw _ IH]; [reflexivity|]. cbn [map omap]. rewrite (render_struct_text es (fst tw) (snd tw) Hw).
  rewrite IH. reflexivity.
Qed.

Lemma map_render_enums es : forallb enum_ok es = true ->
  map render_enum es = map (fun bn => td_text KW_ENUM (fst bn) (snd bn)) (map enum_td es).
Proof.
  induction es as [|e es IH]; [reflexivity|]. cbn [forallb]. intros H. apply andb_true_iff in H as [He Hes].
  cbn [map]. rewrite render_enum_text by auto. rewrite IH by auto. reflexivity.
Qed.

Theorem render_items d tws : d_comments d <> [] -> forallb enum_ok (d_enums d) = true ->
  map fst tws = d_tables d -> tws_ok (d_enums d) tws ->
  render_checked d = Some (items_text (items_of d tws)).
Proof.
  intros Hc Hes Et Hok. unfold render_checked. rewrite <- Et. rewrite (omap_render_structs _ tws Hok). f_equal.
  unfold items_of. rewrite <- Et. rewrite !items_text_app.
  assert (H1 : render_header (d_comments d) = items_text [ILine S_MAGIC] ++ items_text (map (fun c => ILine (comment_line c)) (d_comments d))).
  { unfold render_header. rewrite <- (map_map comment_line ILine). rewrite items_text_lines.
    rewrite <- join_nl_unlines by (destruct (d_comments d); [congruence|discriminate]).
    unfold items_text. cbn [map concat item_text]. rewrite app_nil_r. rewrite <- !app_assoc. reflexivity. }
  assert (H2 : concat (map render_pair (d_pairs d)) = items_text (map (fun kv => ILine (pair_line kv)) (d_pairs d))).
  { unfold items_text. rewrite map_map. f_equal. apply map_ext. intros kv. unfold render_pair, pair_line. cbn [item_text].
    now rewrite <- !app_assoc. }
  assert (H3 : render_block (map render_enum (d_enums d)) = items_text (block_items KW_ENUM (map enum_td (d_enums d)))).
  { rewrite map_render_enums by auto. apply render_block_items. }
  assert (H4 : render_block (map (fun tw => td_text KW_STRUCT (fst (struct_td (d_enums d) tw)) (snd (struct_td (d_enums d) tw))) tws)
               = items_text (block_items KW_STRUCT (map (struct_td (d_enums d)) tws))).
  { rewrite <- render_block_items. now rewrite map_map. }
  assert (H5 : concat (map render_rows (map fst tws)) = items_text (flat_map (fun t => map ILine (row_lines t)) (map fst tws))).
  { unfold items_text. generalize (map fst tws). intros ts. induction ts as [|t ts IH]; [reflexivity|].
    cbn [map concat flat_map]. rewrite map_app, concat_app, <- IH. f_equal.
    unfold render_rows, row_lines. rewrite !map_map. reflexivity. }
  change (items_text [ILine []]) with [NL].
  rewrite H1, H2, H3, H4, H5. rewrite <- !app_assoc. reflexivity.
Qed.

(* ---------------------------------------------------------------- every item is well-formed *)
Definition textch (x : N) : bool := printable x || (x =? NL).

Lemma word_printable s : forallb is_word s = true -> forallb printable s = true.
Proof. apply forallb_impl. intros x Hx. nclass. Qed.
Lemma numch_printable s : forallb numch s = true -> forallb printable s = true.
Proof. apply forallb_impl. intros x Hx. unfold numch in Hx. nclass. Qed.
Lemma sfxch_printable s : forallb sfxch s = true -> forallb printable s = true.
Proof. apply forallb_impl. intros x Hx. unfold sfxch in Hx. nclass. Qed.
Lemma printable_no_nl s : forallb printable s = true -> mem NL s = false.
Proof.
  intros H. apply mem_false_forallb. eapply forallb_impl; [|exact H]. intros x Hx. apply negb_true_iff.
  apply N.eqb_neq. intros ->. discriminate.
Qed.
Lemma printable_textch s : forallb printable s = true -> forallb textch s = true.
Proof. apply forallb_impl. intros x Hx. unfold textch. now rewrite Hx. Qed.
Lemma textch_no_cr s : forallb textch s = true -> mem CR s = false.
Proof.
  intros H. apply mem_false_forallb. eapply forallb_impl; [|exact H]. intros x Hx. apply negb_true_iff.
  apply N.eqb_neq. intros ->. discriminate.
Qed.

Lemma str_ok_parts s : str_ok s = true -> forallb printable s = true /\ no_td s = true.
Proof.
  unfold str_ok. intros H. apply andb_true_iff in H as [H H3]. apply andb_true_iff in H as [H1 _]. split.
  - eapply forallb_impl; [|exact H1]. intros x Hx. now apply andb_true_iff in Hx as [Hx _].
  - exact H3.
Qed.

Definition sval_str_ok (v : sval) : bool := match v with SInt _ => true | STok t => str_ok t end.
Definition cell_str_ok (x : cell) : bool := match x with Sc v => sval_str_ok v | Ar l => forallb sval_str_ok l end.

Lemma sval_ok_str es c b v : sval_ok es c b v = true -> sval_str_ok v = true.
Proof.
  unfold sval_ok. destruct (c_type c), v as [z|t]; try discriminate; auto; cbn [sval_str_ok]; intros H.
  - now destruct (bare_ok_str t H).
  - now destruct (bare_ok_str t H).
  - apply andb_true_iff in H as [H _]. destruct b; auto. unfold elt_ok in H. now apply andb_true_iff in H as [H _].
Qed.

Lemma row_ok_str es cols : forall r, row_ok es cols r = true -> forallb cell_str_ok r = true.
Proof.
  induction cols as [|c cols IH]; intros [|x r] H; try discriminate; auto.
  cbn [row_ok] in H. apply andb_true_iff in H as [Hx Hr]. cbn [forallb]. rewrite (IH r Hr), andb_true_r.
  unfold cell_ok in Hx. destruct (c_arr c), x as [v|l]; try discriminate; cbn [cell_str_ok].
  - apply andb_true_iff in Hx as [_ Hl]. eapply forallb_impl; [|exact Hl]. intros v. apply sval_ok_str.
  - eapply sval_ok_str; eauto.
Qed.

Lemma show_sval_plain v : sval_str_ok v = true -> forallb printable (show_sval v) = true /\ no_td (show_sval v) = true.
Proof.
  destruct v as [z|t]; cbn [sval_str_ok show_sval].
  - intros _. split; [apply numch_printable, show_Z_numch|]. apply no_td_no_t. apply (numch_mem 116); [reflexivity|apply show_Z_numch].
  - apply str_ok_parts.
Qed.

Lemma protect_plain s : forallb printable s = true -> no_td s = true ->
  forallb printable (protect s) = true /\ (forall r, no_td r = true -> no_td (protect s ++ SP :: r) = true /\ no_td (protect s ++ RBRACE :: r) = true /\ no_td (protect s ++ NL :: r) = true).
Proof.
  intros Hp Ht. unfold protect. destruct (needs_quote s).
  - split; [cbn [forallb]; rewrite forallb_app, Hp; reflexivity|]. intros r Hr.
    assert (A : forall c, sep_ok c = true -> no_td ((QUOTE :: s ++ [QUOTE]) ++ c :: r) = true).
    { intros c Hc. cbn [app]. apply no_td_cons; [reflexivity|]. rewrite <- app_assoc. cbn [app].
      apply no_td_sep; auto. now apply no_td_cons. }
    repeat split; apply A; reflexivity.
  - split; auto. intros r Hr. repeat split; apply no_td_sep; auto.
Qed.

(* a list of protected values joined by blanks, followed by a separator *)
Lemma join_svals_plain l : forallb sval_str_ok l = true ->
  forallb printable (join [SP] (map render_sval l)) = true /\
  (forall r, no_td r = true -> no_td (join [SP] (map render_sval l) ++ RBRACE :: r) = true).
Proof.
  induction l as [|v l IH]; cbn [forallb]; intros H.
  - split; [reflexivity|]. intros r Hr. now apply no_td_cons.
  - apply andb_true_iff in H as [Hv Hl]. destruct (show_sval_plain v Hv) as [P1 T1].
    destruct (protect_plain _ P1 T1) as [PP TT]. destruct (IH Hl) as [IP IT].
    destruct l as [|u l].
    + cbn [map join]. split; [exact PP|]. intros r Hr. now destruct (TT r Hr) as [_ [X _]].
    + change (map render_sval (v :: u :: l)) with (render_sval v :: render_sval u :: map render_sval l).
      rewrite join_cons. split.
      * rewrite !forallb_app. unfold render_sval at 1. rewrite PP. cbn [forallb]. change (map render_sval (u :: l)) with (render_sval u :: map render_sval l) in IP. now rewrite IP.
      * intros r Hr. rewrite <- !app_assoc. cbn [app]. unfold render_sval at 1.
        destruct (TT (join [SP] (render_sval u :: map render_sval l) ++ RBRACE :: r)) as [X _]; [now apply IT|exact X].
Qed.

Lemma render_cell_plain x : cell_str_ok x = true ->
  forallb printable (render_cell x) = true /\
  (forall r, no_td r = true -> no_td (render_cell x ++ SP :: r) = true /\ no_td (render_cell x ++ NL :: r) = true).
Proof.
  destruct x as [v|l]; cbn [cell_str_ok render_cell]; intros H.
  - destruct (show_sval_plain v H) as [P1 T1]. destruct (protect_plain _ P1 T1) as [PP TT]. split; [exact PP|].
    intros r Hr. destruct (TT r Hr) as [A [_ B]]. auto.
  - destruct (join_svals_plain l H) as [JP JT]. unfold render_array. split.
    + cbn [forallb]. rewrite forallb_app, JP. reflexivity.
    + intros r Hr. cbn [app]. split; apply no_td_cons; try reflexivity; rewrite <- app_assoc; cbn [app]; apply JT; now apply no_td_cons.
Qed.

Lemma join_cells_plain r : forallb cell_str_ok r = true ->
  forallb printable (join [SP] (map render_cell r)) = true /\ no_td (join [SP] (map render_cell r) ++ [NL]) = true.
Proof.
  induction r as [|x r IH]; cbn [forallb]; intros H; [split; reflexivity|].
  apply andb_true_iff in H as [Hx Hr]. destruct (render_cell_plain x Hx) as [XP XT]. destruct (IH Hr) as [IP IT].
  destruct r as [|y r].
  - cbn [map join]. split; [exact XP|]. now destruct (XT [] eq_refl) as [_ B].
  - change (map render_cell (x :: y :: r)) with (render_cell x :: render_cell y :: map render_cell r). rewrite join_cons. split.
    + rewrite !forallb_app, XP. cbn [forallb]. exact IP.
    + rewrite <- !app_assoc. cbn [app]. now destruct (XT _ IT) as [A _].
Qed.

Lemma row_line_plain name r : forallb is_word name = true -> forallb cell_str_ok r = true ->
  forallb printable (render_row_line (upper name) r) = true /\ no_td (render_row_line (upper name) r ++ [NL]) = true.
Proof.
  intros Hw Hr. rewrite row_line_split. destruct (join_cells_plain r Hr) as [JP JT].
  pose proof (upper_word _ Hw) as Hu. split.
  - rewrite forallb_app, (word_printable _ Hu). destruct r; [reflexivity|]. cbn [forallb]. exact JP.
  - destruct r as [|x r].
    + rewrite app_nil_r. apply no_td_end; [apply no_td_word_upper|reflexivity].
    + rewrite <- app_assoc. cbn [app]. apply no_td_sep; [apply no_td_word_upper|reflexivity|exact JT].
Qed.

(* ---------------------------------------------------------------- all three text-level conditions per item *)
Definition item_good (i : item) : Prop :=
  item_ok i /\ forallb textch (item_text i) = true /\ cont_okb (item_text i) = true.

Lemma items_good_text items : Forall item_good items ->
  Forall item_ok items /\ forallb textch (items_text items) = true /\ cont_okb (items_text items) = true.
Proof.
  unfold items_text. induction 1 as [|i l [H1 [H2 H3]] _ [I1 [I2 I3]]]; [repeat split; constructor|].
  cbn [map concat]. repeat split.
  - constructor; auto.
  - now rewrite forallb_app, H2, I2.
  - now apply cont_okb_app.
Qed.

Lemma line_good l : forallb printable l = true -> no_td (l ++ [NL]) = true -> (good_end l \/ mem BSL l = false) ->
  item_good (ILine l).
Proof.
  intros Hp Ht Hc. pose proof (printable_no_nl l Hp) as Hn. repeat split; auto.
  - cbn [item_text]. rewrite forallb_app, (printable_textch _ Hp). reflexivity.
  - cbn [item_text]. destruct Hc as [Hc|Hc]; [now apply cont_okb_line|].
    apply cont_okb_nobsl. rewrite mem_app, Hc. reflexivity.
Qed.

Lemma printable_no d s : printable d = false -> forallb printable s = true -> mem d s = false.
Proof.
  intros Hd H. apply mem_false_forallb. eapply forallb_impl; [|exact H]. intros x Hx. apply negb_true_iff.
  apply N.eqb_neq. intros ->. congruence.
Qed.

Lemma magic_good : item_good (ILine S_MAGIC).
Proof. apply line_good; [reflexivity|reflexivity|right; reflexivity]. Qed.

Lemma blank_good : item_good (ILine []).
Proof. apply line_good; [reflexivity|reflexivity|right; reflexivity]. Qed.

Lemma comment_good c : comment_ok c = true -> item_good (ILine (comment_line c)).
Proof.
  unfold comment_ok. intros H. apply andb_true_iff in H as [H H3]. apply andb_true_iff in H as [H1 H2].
  apply negb_true_iff in H2. apply line_good.
  - cbn [comment_line forallb]. exact H1.
  - unfold comment_line. cbn [app]. apply no_td_cons; [reflexivity|]. apply no_td_cons; [reflexivity|]. now apply no_td_end.
  - right. unfold comment_line. unfold mem. cbn [existsb]. exact H2.
Qed.

Lemma hdr_ok_parts v : hdr_ok v = true ->
  forallb printable v = true /\ mem HASH v = false /\ (v = [] \/ head_not_ws v /\ good_end v) /\ mem LBRACE v = false /\ no_td v = true.
Proof.
  unfold hdr_ok. intros H. apply andb_true_iff in H as [H H6]. apply andb_true_iff in H as [H H5].
  apply andb_true_iff in H as [H H4]. apply andb_true_iff in H as [H H3]. apply andb_true_iff in H as [H1 H2].
  assert (P : forallb printable v = true).
  { eapply forallb_impl; [|exact H1]. intros x Hx. now apply andb_true_iff in Hx as [Hx _]. }
  assert (Q : mem HASH v = false).
  { apply mem_false_forallb. eapply forallb_impl; [|exact H1]. intros x Hx. now apply andb_true_iff in Hx as [_ Hx]. }
  repeat split; auto.
  - destruct v as [|c v]; [now left|]. right. split.
    + cbn [head_not_ws]. now apply negb_true_iff.
    + unfold good_end. unfold ends_bsl, last_byte in H4. destruct (rev (c :: v)) as [|x t]; auto.
      split; [now apply negb_true_iff|now apply negb_true_iff].
  - now apply negb_true_iff.
Qed.

Lemma good_end_app a b : b <> [] -> good_end b -> good_end (a ++ b).
Proof.
  unfold good_end. intros Hb H. rewrite rev_app_distr. destruct (rev b) eqn:E; [|exact H].
  apply (f_equal (@rev N)) in E. rewrite rev_involutive in E. cbn in E. congruence.
Qed.

Lemma pair_good k v : ident k = true -> no_td k = true -> hdr_ok v = true -> item_good (ILine (pair_line (k, v))).
Proof.
  intros Hk Hkt Hv. destruct (ident_word _ Hk) as [Hkn Hkw]. destruct (hdr_ok_parts v Hv) as [P [Q [E [L T]]]].
  unfold pair_line. cbn [fst snd]. apply line_good.
  - rewrite !forallb_app, (word_printable _ Hkw), P. reflexivity.
  - rewrite <- !app_assoc. cbn [app]. apply no_td_sep; auto. now apply no_td_end.
  - destruct v as [|c v'].
    + right. rewrite app_nil_r, mem_app. rewrite (word_mem BSL) by auto. reflexivity.
    + left. destruct E as [E|[_ G]]; [discriminate|]. apply good_end_app; [discriminate|].
      apply (good_end_app [SP]); [discriminate|exact G].
Qed.

(* a data row *)
Lemma good_end_protect s : tok_ok s = true -> (needs_quote s = false -> ends_bsl s = false) -> good_end (protect s).
Proof.
  intros Hok Hb. destruct (needs_quote s) eqn:E.
  - rewrite protect_quoted by auto. unfold good_end. change (QUOTE :: s ++ [QUOTE]) with ((QUOTE :: s) ++ [QUOTE]).
    rewrite rev_app_distr. cbn [rev app]. split; reflexivity.
  - rewrite protect_bare by auto. specialize (Hb eq_refl). destruct (needs_quote_false s E) as [_ [B _]].
    unfold good_end. unfold ends_bsl, last_byte in Hb. destruct (rev s) as [|x t] eqn:R; auto. split; auto.
    assert (In x s) by (apply in_rev; rewrite R; now left). rewrite forallb_forall in B. apply negb_true_iff. now apply B.
Qed.

Lemma good_end_row name r : name <> [] -> forallb is_word name = true -> forallb cell_tok_ok r = true -> row_end_ok r = true ->
  good_end (render_row_line name r).
Proof.
  intros Hn Hw Hr He. rewrite row_line_split. destruct r as [|x r].
  - rewrite app_nil_r. unfold good_end. destruct (rev name) as [|c t] eqn:E; auto.
    assert (In c name) by (apply in_rev; rewrite E; now left). rewrite forallb_forall in Hw. specialize (Hw c H).
    split; [now apply word_not_ws|now apply word_not].
  - apply good_end_app; [discriminate|]. apply (good_end_app [SP]); [apply join_cells_nonempty|].
    (* the last cell decides *)
    unfold row_end_ok in He. revert x Hr He. induction r as [|y r IH]; intros x Hr He.
    + cbn [map join]. cbn [forallb] in Hr. apply andb_true_iff in Hr as [Hx _]. cbn [rev app] in He.
      destruct x as [v|l]; cbn [render_cell].
      * apply good_end_protect; [now apply show_sval_tok_ok|]. intros _. now apply negb_true_iff.
      * unfold render_array, good_end. change (LBRACE :: join [SP] (map render_sval l) ++ [RBRACE]) with ((LBRACE :: join [SP] (map render_sval l)) ++ [RBRACE]).
        rewrite rev_app_distr. split; reflexivity.
    + change (map render_cell (x :: y :: r)) with (render_cell x :: render_cell y :: map render_cell r). rewrite join_cons.
      apply good_end_app; [discriminate|]. apply (good_end_app [SP]); [apply (join_cells_nonempty y r)|].
      apply IH.
      * cbn [forallb] in Hr. now apply andb_true_iff in Hr as [_ Hr].
      * change (rev (x :: y :: r)) with (rev (y :: r) ++ [x]) in He.
        destruct (rev (y :: r)) eqn:E; [cbn [rev] in E; destruct (rev r); discriminate|]. cbn [app] in He. exact He.
Qed.

Lemma row_good es t r : forallb enum_ok es = true -> table_ok es t = true -> In r (t_rows t) ->
  item_good (ILine (render_row_line (upper (t_name t)) r)).
Proof.
  intros Hes Ht Hr. destruct (table_ok_parts es t Ht) as [Hn [_ [Hc [_ Hrows]]]]. destruct (ident_word _ Hn) as [Hne Hw].
  rewrite forallb_forall in Hrows. specialize (Hrows r Hr). apply andb_true_iff in Hrows as [Hrow Hend].
  destruct (row_line_plain (t_name t) r Hw (row_ok_str es _ r Hrow)) as [P T].
  apply line_good; auto. left. apply good_end_row; auto.
  - destruct (t_name t); [congruence|discriminate].
  - now apply upper_word.
  - eapply row_fits_tok_ok. apply row_ok_fits; eauto. now apply enums_ok_names.
Qed.

(* ---------------------------------------------------------------- typedef items *)
Definition tdch (x : N) : bool :=
  is_word x || (x =? SP) || (x =? NL) || (x =? COMMA) || (x =? LBRACE) || (x =? RBRACE) || (x =? SEMI) || (x =? LBRACK) || (x =? RBRACK).

Lemma tdch_textch s : forallb tdch s = true -> forallb textch s = true.
Proof. apply forallb_impl. intros x Hx. unfold tdch in Hx. unfold textch. nclass. Qed.
Lemma tdch_no_bsl s : forallb tdch s = true -> mem BSL s = false.
Proof.
  intros H. apply mem_false_forallb. eapply forallb_impl; [|exact H]. intros x Hx. apply negb_true_iff.
  apply N.eqb_neq. intros ->. discriminate.
Qed.

Lemma td_text_tdch kw body name : kw = KW_STRUCT \/ kw = KW_ENUM -> forallb tdch body = true -> forallb tdch name = true ->
  forallb tdch (td_text kw body name ++ [NL]) = true.
Proof.
  intros Hkw Hb Hn. unfold td_text. rewrite !forallb_app, Hb, Hn. destruct Hkw as [-> | ->]; reflexivity.
Qed.

Lemma td_good kw body name : kw = KW_STRUCT \/ kw = KW_ENUM -> body <> [] -> mem RBRACE body = false -> name <> [] ->
  forallb is_word name = true -> no_td body = true -> no_td name = true -> forallb tdch body = true ->
  item_good (ITd kw body name).
Proof.
  intros Hkw Hb Hr Hn Hw Tb Tn Cb.
  assert (Cn : forallb tdch name = true).
  { eapply forallb_impl; [|exact Hw]. intros x Hx. unfold tdch. now rewrite Hx. }
  pose proof (td_text_tdch kw body name Hkw Cb Cn) as C. repeat split; auto.
  - cbn [item_text]. now apply tdch_textch.
  - cbn [item_text]. apply cont_okb_nobsl. now apply tdch_no_bsl.
Qed.

Lemma stext_no_td labels : forallb no_td labels = true -> no_td (stext labels ++ [NL]) = true.
Proof.
  induction labels as [|n l IH]; [reflexivity|]. cbn [forallb]. intros H. apply andb_true_iff in H as [Hn Hl].
  destruct l as [|m l]; [cbn [stext]; now apply no_td_end|].
  change (stext (n :: m :: l)) with (n ++ [COMMA] ++ [NL] ++ S_INDENT ++ stext (m :: l)).
  rewrite <- !app_assoc. cbn [app]. apply no_td_sep; [exact Hn|reflexivity|]. unfold S_INDENT. cbn [app].
  repeat (apply no_td_cons; [reflexivity|]). now apply IH.
Qed.

Lemma stext_tdch labels : labels_ok labels = true -> forallb tdch (stext labels) = true.
Proof.
  intros H. eapply forallb_impl; [|apply (stext_chars labels H)]. intros x Hx. unfold tdch.
  apply orb_true_iff in Hx as [Hx|Hx]; [|now rewrite Hx, !orb_true_r].
  apply orb_true_iff in Hx as [Hx|Hx]; [|now rewrite Hx, !orb_true_r].
  apply orb_true_iff in Hx as [Hx|Hx]; [now rewrite Hx|now rewrite Hx, !orb_true_r].
Qed.

Lemma enum_good e : enum_ok e = true -> item_good (ITd KW_ENUM (fst (enum_td e)) (snd (enum_td e))).
Proof.
  intros He. destruct (enum_ok_parts e He) as [_ [Hn [Hne Hl]]]. destruct (ident_word _ Hn) as [Hn1 Hn2].
  pose proof (idents_labels_ok _ Hl) as Hlo. pose proof (stext_tdch _ Hlo) as Ct.
  cbn [enum_td fst snd]. rewrite unlines_elines by auto.
  assert (Cb : forallb tdch (NL :: S_INDENT ++ stext (e_labels e) ++ [NL]) = true).
  { cbn [forallb]. rewrite !forallb_app, Ct. reflexivity. }
  apply td_good; auto.
  - discriminate.
  - change (NL :: S_INDENT ++ stext (e_labels e) ++ [NL]) with ((NL :: S_INDENT) ++ stext (e_labels e) ++ [NL]).
    rewrite !mem_app. change (mem RBRACE (NL :: S_INDENT)) with false. change (mem RBRACE [NL]) with false.
    rewrite orb_false_r. cbn [orb]. apply mem_false_forallb.
    eapply forallb_impl; [|apply (stext_chars _ Hlo)]. intros x Hx. apply negb_true_iff. apply N.eqb_neq. intros ->. discriminate.
  - destruct (e_tname e); [congruence|discriminate].
  - now apply upper_word.
  - unfold S_INDENT. cbn [app]. repeat (apply no_td_cons; [reflexivity|]). apply stext_no_td. now apply enum_ok_labels_no_td.
  - apply no_td_word_upper.
Qed.

Lemma linech_tdch s : forallb linech s = true -> forallb tdch s = true.
Proof.
  apply forallb_impl. intros x Hx. unfold linech, sfxch in Hx. unfold tdch.
  destruct (is_word x) eqn:W; [reflexivity|]. cbn [orb] in *.
  destruct (is_digit x) eqn:D; [exfalso; nclass|]. cbn [orb] in Hx.
  destruct (x =? LBRACK) eqn:E1; [now rewrite !orb_true_r|].
  destruct (x =? RBRACK) eqn:E2; [now rewrite !orb_true_r|].
  destruct (x =? SP) eqn:E3; [reflexivity|].
  destruct (x =? SEMI) eqn:E4; [now rewrite !orb_true_r|].
  destruct (x =? NL) eqn:E5; [now rewrite !orb_true_r|]. discriminate.
Qed.

Lemma type_word_no_td es c w : forallb enum_ok es = true -> ctype_word es c = Some w -> no_td w = true.
Proof.
  intros Hes. unfold ctype_word. destruct (c_type c); cbn [np_code lookup dtmap beq N.eqb Pos.eqb andb]; intros H;
    try (inversion H; subst; reflexivity); try discriminate.
  - destruct (enum_for (c_name c) es); inversion H; subst; [apply no_td_word_upper|reflexivity].
  - repeat (match type of H with context [if ?b then _ else _] => destruct b end); inversion H; subst; reflexivity.
Qed.

Lemma struct_good es tw : forallb enum_ok es = true -> table_ok es (fst tw) = true -> cols_words es (t_cols (fst tw)) (snd tw) ->
  item_good (ITd KW_STRUCT (fst (struct_td es tw)) (snd (struct_td es tw))).
Proof.
  intros Hes Ht Hw. destruct (table_ok_parts es _ Ht) as [Hn [_ [Hc _]]]. destruct (ident_word _ Hn) as [Hn1 Hn2].
  cbn [struct_td fst snd]. pose proof (linech_lines es _ _ Hw) as L.
  apply td_good; auto.
  - discriminate.
  - change (NL :: unlines (lines_of es (t_cols (fst tw)) (snd tw))) with ([NL] ++ unlines (lines_of es (t_cols (fst tw)) (snd tw))).
    rewrite mem_app. cbn [mem existsb orb]. change (RBRACE =? NL) with false. cbn [orb]. apply (linech_mem RBRACE); auto.
  - destruct (t_name (fst tw)); [congruence|discriminate].
  - now apply upper_word.
  - apply no_td_cons; [reflexivity|]. apply no_td_lines; auto.
    + clear -Hes Hw. induction Hw as [|c w cols ws [H1 _] _ IH]; constructor; auto. eapply type_word_no_td; eauto.
    + eapply forallb_impl; [|exact Hc]. intros c Hcc. now destruct (col_ok_parts c Hcc) as [_ [X _]].
  - apply no_td_word_upper.
  - cbn [forallb]. now rewrite (linech_tdch _ L).
Qed.

(* ---------------------------------------------------------------- the whole document *)
Definition tnames (d : doc) : list bytes := map (fun t => upper (t_name t)) (d_tables d).

Lemma doc_ok_parts d : doc_ok d = true ->
  forallb comment_ok (d_comments d) = true /\ d_comments d <> [] /\
  forallb (fun kv => ident (fst kv) && negb (contains KW_TYPEDEF_R (fst kv)) && hdr_ok (snd kv)
                      && negb (existsb (beq (upper (fst kv))) (tnames d))) (d_pairs d) = true /\
  distinct (map fst (d_pairs d)) = true /\
  forallb enum_ok (d_enums d) = true /\ distinct (map (fun e => upper (e_tname e)) (d_enums d)) = true /\
  forallb (table_ok (d_enums d)) (d_tables d) = true /\ distinct (tnames d) = true.
Proof.
  unfold doc_ok, tnames. intros H.
  repeat match type of H with _ && _ = true => let H' := fresh "H" in apply andb_true_iff in H as [H H'] end.
  repeat split; auto. destruct (d_comments d); [discriminate|discriminate].
Qed.

Lemma Forall_map_in {A B} (P : B -> Prop) (f : A -> B) l : (forall x, In x l -> P (f x)) -> Forall P (map f l).
Proof. intros H. induction l; constructor; [apply H; now left|apply IHl; intros; apply H; now right]. Qed.

Lemma block_items_good kw tds : Forall (fun bn => item_good (ITd kw (fst bn) (snd bn))) tds -> Forall item_good (block_items kw tds).
Proof.
  intros H. destruct H as [|bn rest Hb Hrest]; [constructor|]. cbn [block_items].
  constructor; [apply blank_good|]. constructor; [exact Hb|].
  induction Hrest as [|bn' rest Hb' _ IH]; [constructor|]. cbn [flat_map app].
  constructor; [apply blank_good|]. constructor; auto.
Qed.

Theorem items_all_good d tws : doc_ok d = true -> map fst tws = d_tables d -> tws_ok (d_enums d) tws ->
  Forall item_good (items_of d tws).
Proof.
  intros Hd Et Hok. destruct (doc_ok_parts d Hd) as [Hc [_ [Hp [_ [Hes [_ [Ht _]]]]]]].
  unfold items_of. repeat (apply Forall_app; split).
  - constructor; [apply magic_good|constructor].
  - apply Forall_map_in. intros c Hin. apply comment_good. rewrite forallb_forall in Hc. auto.
  - apply Forall_map_in. intros [k v] Hin. rewrite forallb_forall in Hp. specialize (Hp _ Hin). cbn [fst snd] in Hp.
    apply andb_true_iff in Hp as [Hp _]. apply andb_true_iff in Hp as [Hp H3]. apply andb_true_iff in Hp as [H1 H2].
    now apply pair_good.
  - apply block_items_good. apply Forall_map_in. intros e Hin. apply enum_good. rewrite forallb_forall in Hes. auto.
  - apply block_items_good. apply Forall_map_in. intros tw Hin. apply struct_good; auto.
    + rewrite forallb_forall in Ht. apply Ht. rewrite <- Et. now apply in_map.
    + unfold tws_ok in Hok. rewrite Forall_forall in Hok. auto.
  - constructor; [apply blank_good|constructor].
  - apply Forall_forall. intros i Hi. apply in_flat_map in Hi as [t [Hin Hi]]. apply in_map_iff in Hi as [l [<- Hl]].
    unfold row_lines in Hl. apply in_map_iff in Hl as [r [<- Hr]]. eapply row_good; eauto.
    rewrite forallb_forall in Ht. auto.
Qed.

(* ---------------------------------------------------------------- the line loop on the rendered lines *)
Lemma skip_all sy st ls : Forall (fun l => all_ws l = true \/ starts_with [HASH] (lstrip l) = true) ls ->
  process_lines sy st ls = Some st.
Proof.
  induction 1 as [|l ls Hl _ IH]; [reflexivity|]. cbn [process_lines]. now rewrite blank_and_comment_lines_skipped.
Qed.

Lemma dbl_no_lbrace s : mem LBRACE s = false -> forall copy, dbl_aux copy 0 s = s.
Proof.
  induction s as [|c s IH]; intros H copy; [reflexivity|]. apply mem_cons_false in H as [Hc Hs].
  cbn [dbl_aux]. destruct copy; [|now rewrite IH].
  destruct ((c =? QUOTE) && mem QUOTE s); [now rewrite IH|].
  destruct (negb (is_ws c) && negb (c =? QUOTE) && negb (c =? LBRACE)); [now rewrite IH|].
  unfold match_dbl. rewrite Hc. now rewrite IH.
Qed.

Lemma assoc_none_keys {A} k (l : list (bytes * A)) : existsb (beq k) (map fst l) = false -> assoc k l = None.
Proof.
  induction l as [|[k' v] l IH]; [reflexivity|]. cbn [map fst existsb assoc]. intros H. apply orb_false_iff in H as [H1 H2].
  now rewrite H1, IH.
Qed.

(* a keyword/value line *)
Theorem pair_line_roundtrip sy st k v : ident k = true -> hdr_ok v = true -> existsb (beq (upper k)) (map fst sy) = false ->
  process_line sy st (pair_line (k, v)) = Some (mkst (assoc_set k v (st_pairs st)) (st_rows st)).
Proof.
  intros Hk Hv Hsy. destruct (ident_word _ Hk) as [Hkn Hkw]. destruct (hdr_ok_parts v Hv) as [P [Q [E [L T]]]].
  unfold pair_line. cbn [fst snd]. unfold process_line.
  assert (Hh : exists c k', k = c :: k' /\ is_word c = true).
  { destruct k as [|c k']; [congruence|]. cbn [forallb] in Hkw. apply andb_true_iff in Hkw as [Hc _]. eauto. }
  destruct Hh as [c [k' [Ek Hc]]].
  assert (Sk : skip_line (k ++ [SP] ++ v) = false).
  { rewrite Ek. unfold skip_line. cbn [app lstrip all_ws forallb]. rewrite (word_not_ws c Hc).
    unfold starts_with. cbn [prefix]. rewrite N.eqb_sym. now rewrite (word_not c HASH Hc eq_refl). }
  rewrite Sk.
  assert (NH : mem HASH (k ++ [SP] ++ v) = false).
  { rewrite !mem_app, Q. rewrite (word_mem HASH) by auto. reflexivity. }
  assert (NB : mem LBRACE (k ++ [SP] ++ v) = false).
  { rewrite !mem_app, L. rewrite (word_mem LBRACE) by auto. reflexivity. }
  assert (TC : forall s, mem HASH s = false -> trailing_comment s = s).
  { intros s Hs. unfold trailing_comment. now rewrite rsplit_at_none. }
  unfold clean_line. destruct v as [|x v'].
  - (* empty value: the line is the key and a blank *)
    rewrite app_nil_r. unfold strip. rewrite rstrip_app_ws by reflexivity.
    assert (Lk : last_not_ws k).
    { unfold last_not_ws. destruct (rev k) as [|y t] eqn:R; auto. assert (In y k) by (apply in_rev; rewrite R; now left).
      rewrite forallb_forall in Hkw. apply word_not_ws. auto. }
    rewrite rstrip_id by auto. rewrite lstrip_id by (rewrite Ek; cbn [head_not_ws]; now apply word_not_ws).
    rewrite TC by (now apply word_mem). unfold double_braces. rewrite dbl_no_lbrace by (now apply word_mem).
    rewrite get_token_bare_eol; auto; [|now apply word_tok_ok|now apply word_all_not_ws].
    now rewrite (assoc_none_keys _ _ Hsy).
  - destruct E as [E|[Hh Hg]]; [discriminate|].
    assert (Ll : last_not_ws (k ++ [SP] ++ x :: v')).
    { apply last_not_ws_app_r; [discriminate|]. apply (last_not_ws_app_r [SP]); [discriminate|].
      unfold good_end in Hg. unfold last_not_ws. destruct (rev (x :: v')); auto. now destruct Hg. }
    rewrite strip_id; auto; [|rewrite Ek; cbn [app head_not_ws]; now apply word_not_ws].
    rewrite TC by auto. unfold double_braces. rewrite dbl_no_lbrace by auto.
    cbn [app]. rewrite get_token_bare; auto; [|now apply word_tok_ok|now apply word_all_not_ws].
    change (lstrip (SP :: x :: v')) with (lstrip (x :: v')). rewrite lstrip_id by exact Hh.
    now rewrite (assoc_none_keys _ _ Hsy).
Qed.

Lemma assoc_set_fresh {A} k (v : A) l : existsb (beq k) (map fst l) = false -> assoc_set k v l = l ++ [(k, v)].
Proof.
  induction l as [|[k' v'] l IH]; [reflexivity|]. cbn [map fst existsb assoc_set]. intros H. apply orb_false_iff in H as [H1 H2].
  rewrite H1. cbn [app]. now rewrite IH.
Qed.

Lemma distinct_app_fresh l k : distinct (l ++ [k]) = true -> existsb (beq k) l = false.
Proof.
  induction l as [|x l IH]; [reflexivity|]. cbn [app distinct existsb]. intros H. apply andb_true_iff in H as [H1 H2].
  apply negb_true_iff in H1. rewrite existsb_app in H1. apply orb_false_iff in H1 as [_ H1]. cbn [existsb] in H1.
  rewrite orb_false_r in H1. rewrite IH by auto. rewrite orb_false_r. apply beq_neq. apply beq_neq in H1. congruence.
Qed.

Lemma distinct_snoc l k : distinct (l ++ [k]) = true -> distinct l = true.
Proof.
  induction l as [|x l IH]; [reflexivity|]. cbn [app distinct]. intros H. apply andb_true_iff in H as [H1 H2].
  rewrite IH by auto. rewrite andb_true_r. apply negb_true_iff in H1. apply negb_true_iff. rewrite existsb_app in H1.
  now apply orb_false_iff in H1 as [H1 _].
Qed.

Theorem pairs_processed sy rows : forall pairs done,
  forallb (fun kv => ident (fst kv) && hdr_ok (snd kv) && negb (existsb (beq (upper (fst kv))) (map fst sy))) pairs = true ->
  distinct (map fst (done ++ pairs)) = true ->
  process_lines sy (mkst done rows) (map pair_line pairs) = Some (mkst (done ++ pairs) rows).
Proof.
  induction pairs as [|[k v] pairs IH]; intros done H Hd; [now rewrite app_nil_r|].
  cbn [forallb fst snd] in H. apply andb_true_iff in H as [H Hps]. apply andb_true_iff in H as [H H3]. apply andb_true_iff in H as [H1 H2].
  apply negb_true_iff in H3. cbn [map process_lines]. rewrite pair_line_roundtrip by auto. cbn [st_pairs st_rows].
  rewrite assoc_set_fresh.
  - rewrite IH; auto; rewrite <- app_assoc; auto.
  - replace (done ++ (k, v) :: pairs) with ((done ++ [(k, v)]) ++ pairs) in Hd by (now rewrite <- app_assoc).
    rewrite map_app in Hd.
    assert (D1 : distinct (map fst (done ++ [(k, v)])) = true).
    { clear -Hd. revert Hd. generalize (map fst (done ++ [(k, v)])) as a, (map fst pairs) as b. intros a b.
      induction a as [|x a IHa]; [reflexivity|]. cbn [app distinct]. intros H. apply andb_true_iff in H as [H1 H2].
      rewrite IHa by auto. rewrite andb_true_r. apply negb_true_iff in H1. apply negb_true_iff. rewrite existsb_app in H1.
      now apply orb_false_iff in H1 as [H1 _]. }
    rewrite map_app in D1. cbn [map fst] in D1. now apply distinct_app_fresh.
Qed.

(* ---------------------------------------------------------------- data rows, table by table *)
Lemma beq_sym a b : beq a b = beq b a.
Proof. destruct (beq a b) eqn:E, (beq b a) eqn:F; auto; [apply beq_eq in E; subst; rewrite beq_refl in F; discriminate|apply beq_eq in F; subst; rewrite beq_refl in E; discriminate]. Qed.

Lemma assoc_app_lookup {A} k k' (r : A) l :
  assoc k (assoc_app k' r l) = if beq k k' then option_map (fun rs => rs ++ [r]) (assoc k l) else assoc k l.
Proof.
  induction l as [|[k0 vs] l IH]; [destruct (beq k k'); reflexivity|]. cbn [assoc_app assoc].
  destruct (beq k' k0) eqn:E1.
  - apply beq_eq in E1. subst k0. cbn [assoc]. rewrite (beq_sym k k'). destruct (beq k' k); reflexivity.
  - cbn [assoc]. destruct (beq k k0) eqn:E2.
    + apply beq_eq in E2. subst k0. rewrite (beq_sym k k'), E1. reflexivity.
    + exact IH.
Qed.

Definition tr_line (tr : table * list cell) : bytes := render_row_line (upper (t_name (fst tr))) (snd tr).
Definition rows_for (k : bytes) (trs : list (table * list cell)) : list (list cell) :=
  map snd (filter (fun tr => beq k (upper (t_name (fst tr)))) trs).

Theorem rows_processed es sy : forallb enum_ok es = true -> forall trs st,
  Forall (fun tr => table_ok es (fst tr) = true /\ In (snd tr) (t_rows (fst tr)) /\
                    assoc (upper (t_name (fst tr))) sy = Some (tcols_of es (t_cols (fst tr)))) trs ->
  exists st', process_lines sy st (map tr_line trs) = Some st' /\ st_pairs st' = st_pairs st /\
              forall k, assoc k (st_rows st') = option_map (fun rs => rs ++ rows_for k trs) (assoc k (st_rows st)).
Proof.
  intros Hes trs. induction trs as [|[t r] trs IH]; intros st H.
  - exists st. split; [reflexivity|]. split; [reflexivity|]. intros k. unfold rows_for. cbn [filter map].
    destruct (assoc k (st_rows st)); cbn [option_map]; [now rewrite app_nil_r|reflexivity].
  - inversion H as [|? ? [Ht [Hr Hsy]] Hrest]; subst. cbn [fst snd] in *.
    cbn [map process_lines]. unfold tr_line at 1. cbn [fst snd]. rewrite (row_roundtrip es t r sy st Hes Ht Hr Hsy).
    destruct (IH (mkst (st_pairs st) (assoc_app (upper (t_name t)) r (st_rows st))) Hrest) as [st' [P1 [P2 P3]]].
    exists st'. split; [exact P1|]. split; [exact P2|]. intros k. rewrite P3. cbn [st_rows]. rewrite assoc_app_lookup.
    unfold rows_for. cbn [filter fst snd]. destruct (beq k (upper (t_name t))); cbn [map]; [|reflexivity].
    destruct (assoc k (st_rows st)); cbn [option_map]; [|reflexivity]. now rewrite <- app_assoc.
Qed.

Definition all_trs (tables : list table) : list (table * list cell) := flat_map (fun t => map (fun r => (t, r)) (t_rows t)) tables.

Lemma all_trs_lines tables : map tr_line (all_trs tables) = flat_map row_lines tables.
Proof.
  induction tables as [|t ts IH]; [reflexivity|]. unfold all_trs in *. cbn [flat_map]. rewrite map_app, IH. f_equal.
  unfold row_lines. rewrite map_map. reflexivity.
Qed.

Lemma rows_for_distinct tables t : distinct (map (fun t => upper (t_name t)) tables) = true -> In t tables ->
  rows_for (upper (t_name t)) (all_trs tables) = t_rows t.
Proof.
  unfold rows_for, all_trs. induction tables as [|x ts IH]; [contradiction|]. cbn [map distinct flat_map]. intros Hd Hin.
  apply andb_true_iff in Hd as [Hx Hd]. apply negb_true_iff in Hx. rewrite filter_app, map_app.
  assert (F1 : forall (y : table), filter (fun tr : table * list cell => beq (upper (t_name t)) (upper (t_name (fst tr)))) (map (fun r => (y, r)) (t_rows y))
               = if beq (upper (t_name t)) (upper (t_name y)) then map (fun r => (y, r)) (t_rows y) else []).
  { intros y. induction (t_rows y) as [|r rs IHr]; [destruct (beq _ _); reflexivity|]. cbn [map filter fst]. rewrite IHr.
    destruct (beq (upper (t_name t)) (upper (t_name y))); reflexivity. }
  rewrite (F1 x). destruct Hin as [->|Hin].
  - rewrite beq_refl. rewrite map_map. cbn [snd]. rewrite map_id.
    assert (E : filter (fun tr : table * list cell => beq (upper (t_name t)) (upper (t_name (fst tr))))
                  (flat_map (fun t0 => map (fun r => (t0, r)) (t_rows t0)) ts) = []).
    { clear -Hx F1. induction ts as [|y ts IH]; [reflexivity|]. cbn [map existsb] in Hx. apply orb_false_iff in Hx as [H1 H2].
      cbn [flat_map]. rewrite filter_app, (F1 y). rewrite H1. now apply IH. }
    rewrite E. now rewrite app_nil_r.
  - assert (Hne : beq (upper (t_name t)) (upper (t_name x)) = false).
    { apply beq_neq. intros E. assert (existsb (beq (upper (t_name x))) (map (fun t => upper (t_name t)) ts) = true).
      { apply existsb_exists. exists (upper (t_name t)). split; [now apply (in_map (fun t => upper (t_name t)))|]. rewrite E. apply beq_refl. }
      congruence. }
    rewrite Hne. cbn [map app]. now apply IH.
Qed.

(* ---------------------------------------------------------------- the symbol table *)
Definition struct_of (es : list enumdecl) (tw : table * list bytes) : bytes * bytes * bytes :=
  (upper (t_name (fst tw)), fst (struct_td es tw), td_text KW_STRUCT (fst (struct_td es tw)) (snd (struct_td es tw))).
Definition sy_of (es : list enumdecl) (tws : list (table * list bytes)) : symtab :=
  map (fun tw => (upper (t_name (fst tw)), tcols_of es (t_cols (fst tw)))) tws.

Lemma find_distinct (cols : list column) c : distinct (map c_name cols) = true -> In c cols ->
  find (fun c' => beq (c_name c') (c_name c)) cols = Some c.
Proof.
  induction cols as [|x cols IH]; [contradiction|]. cbn [map distinct find]. intros Hd Hin. apply andb_true_iff in Hd as [Hx Hd].
  apply negb_true_iff in Hx. destruct Hin as [->|Hin]; [now rewrite beq_refl|].
  destruct (beq (c_name x) (c_name c)) eqn:E; [|now apply IH].
  exfalso. apply beq_eq in E. assert (existsb (beq (c_name x)) (map c_name cols) = true).
  { apply existsb_exists. exists (c_name c). split; [now apply in_map|]. rewrite E. apply beq_refl. }
  congruence.
Qed.

Lemma names_distinct_structs es tws : distinct (map (fun tw => upper (t_name (fst tw))) tws) = true ->
  names_distinct (map (struct_of es) tws) = true.
Proof.
  induction tws as [|tw tws IH]; [reflexivity|]. cbn [map distinct names_distinct]. intros H. apply andb_true_iff in H as [H1 H2].
  rewrite IH by auto. rewrite andb_true_r. apply negb_true_iff in H1. apply negb_true_iff.
  clear -H1. induction tws as [|x tws IH]; [reflexivity|]. cbn [map existsb] in *. apply orb_false_iff in H1 as [A B].
  rewrite IH by auto. rewrite orb_false_r. unfold struct_of. cbn [fst]. now rewrite beq_sym.
Qed.

Lemma struct_cols_rendered es tws tw : forallb enum_ok es = true ->
  distinct (map (fun tw => upper (t_name (fst tw))) tws) = true -> In tw tws ->
  table_ok es (fst tw) = true -> cols_words es (t_cols (fst tw)) (snd tw) ->
  map (fun c => (c, obind (lookup_def (upper (t_name (fst tw))) (map (struct_of es) tws)) (find_type c)))
      (struct_columns (fst (struct_td es tw)))
  = tcols_of es (t_cols (fst tw)).
Proof.
  intros Hes Hd Hin Ht Hw. destruct (table_ok_parts es _ Ht) as [_ [_ [Hc [Hdc _]]]].
  assert (SC : struct_columns (fst (struct_td es tw)) = map c_name (t_cols (fst tw))) by (apply (struct_columns_rendered es _ _ Hw)).
  rewrite SC.
  rewrite (struct_name_lookup_exact (map (struct_of es) tws) _ (fst (struct_td es tw))
             (td_text KW_STRUCT (fst (struct_td es tw)) (snd (struct_td es tw)))).
  - cbn [obind]. unfold tcols_of. rewrite map_map. apply map_ext_in. intros c Hcin. f_equal.
    change (td_text KW_STRUCT (fst (struct_td es tw)) (snd (struct_td es tw)))
      with (struct_text es (t_cols (fst tw)) (snd tw) (upper (t_name (fst tw)))).
    apply find_type_rendered; auto.
    + now apply find_distinct.
    + rewrite forallb_forall in Hc. destruct (col_ok_parts c (Hc c Hcin)) as [Hi _]. now destruct (ident_word _ Hi).
  - now apply names_distinct_structs.
  - apply in_map_iff. exists tw. split; auto.
Qed.

Lemma fold_assoc_set_fresh {A B} (name : A -> bytes) (val : A -> B) l : forall acc,
  distinct (map fst acc ++ map name l) = true ->
  fold_left (fun sy e => assoc_set (name e) (val e) sy) l acc = acc ++ map (fun e => (name e, val e)) l.
Proof.
  induction l as [|e l IH]; intros acc Hd; [now rewrite app_nil_r|]. cbn [fold_left map].
  assert (Hf : existsb (beq (name e)) (map fst acc) = false).
  { clear -Hd. cbn [map] in Hd. induction (map fst acc) as [|x a IHa]; [reflexivity|]. cbn [app distinct existsb] in *.
    apply andb_true_iff in Hd as [H1 H2]. rewrite IHa by auto. rewrite orb_false_r. apply negb_true_iff in H1.
    rewrite existsb_app in H1. apply orb_false_iff in H1 as [_ H1]. cbn [existsb] in H1. apply orb_false_iff in H1 as [H1 _].
    now rewrite beq_sym. }
  rewrite assoc_set_fresh by auto. rewrite IH.
  - now rewrite <- app_assoc.
  - rewrite map_app. cbn [map fst]. rewrite <- app_assoc. exact Hd.
Qed.

Lemma fold_left_ext_eq {A B} (f g : A -> B -> A) l : (forall a b, f a b = g a b) -> forall a, fold_left f l a = fold_left g l a.
Proof. intros H. induction l as [|x l IH]; intros a; [reflexivity|]. cbn [fold_left]. now rewrite H, IH. Qed.

Theorem build_symtab_rendered es tws : forallb enum_ok es = true ->
  distinct (map (fun tw => upper (t_name (fst tw))) tws) = true ->
  Forall (fun tw => table_ok es (fst tw) = true /\ cols_words es (t_cols (fst tw)) (snd tw)) tws ->
  build_symtab (map (struct_of es) tws) = sy_of es tws.
Proof.
  intros Hes Hd H. unfold build_symtab.
  set (structs := map (struct_of es) tws).
  set (nm := fun e : bytes * bytes * bytes => fst (fst e)).
  set (vl := fun e : bytes * bytes * bytes =>
               map (fun c => (c, obind (lookup_def (fst (fst e)) structs) (find_type c))) (struct_columns (snd (fst e)))).
  rewrite (fold_left_ext_eq _ (fun sy e => assoc_set (nm e) (vl e) sy)).
  2:{ intros sy [[n b] t]. reflexivity. }
  rewrite fold_assoc_set_fresh.
  - cbn [app]. subst structs. rewrite map_map. unfold sy_of. apply map_ext_in. intros tw Hin.
    rewrite Forall_forall in H. destruct (H tw Hin) as [Ht Hw]. subst nm vl. cbn beta. unfold struct_of at 1. cbn [fst snd].
    f_equal. unfold struct_of at 1 2. cbn [fst snd]. now apply struct_cols_rendered.
  - cbn [map app]. subst structs nm. rewrite map_map. unfold struct_of. cbn [fst]. exact Hd.
Qed.

(* ---------------------------------------------------------------- what the pre-passes find in the rendered file *)
Lemma filter_td_lines {A} kw (f : A -> bytes) (ls : list A) : filter (item_is_td kw) (map (fun x => ILine (f x)) ls) = [].
Proof. induction ls as [|l ls IH]; [reflexivity|]. cbn [map filter item_is_td]. exact IH. Qed.

Lemma filter_td_block kw kw' tds :
  filter (item_is_td kw) (block_items kw' tds) = if beq kw kw' then map (fun bn => ITd kw' (fst bn) (snd bn)) tds else [].
Proof.
  destruct tds as [|bn rest]; [destruct (beq kw kw'); reflexivity|]. cbn [block_items filter item_is_td].
  assert (R : filter (item_is_td kw) (flat_map (fun bn => [ILine []; ITd kw' (fst bn) (snd bn)]) rest)
              = if beq kw kw' then map (fun bn => ITd kw' (fst bn) (snd bn)) rest else []).
  { induction rest as [|x rest IH]; [destruct (beq kw kw'); reflexivity|]. cbn [flat_map app filter item_is_td map]. rewrite IH.
    destruct (beq kw kw'); reflexivity. }
  rewrite R. destruct (beq kw kw'); reflexivity.
Qed.

Lemma block_lines_blank kw tds : Forall (fun l => all_ws l = true \/ starts_with [HASH] (lstrip l) = true) (map item_line (block_items kw tds)).
Proof.
  destruct tds as [|bn rest]; [constructor|]. cbn [block_items map item_line].
  constructor; [now left|]. constructor; [now left|].
  induction rest as [|x rest IH]; [constructor|]. cbn [flat_map app map item_line]. constructor; [now left|]. constructor; [now left|]. exact IH.
Qed.

Lemma filter_td_rows kw tables : filter (item_is_td kw) (flat_map (fun t => map ILine (row_lines t)) tables) = [].
Proof.
  induction tables as [|t ts IH]; [reflexivity|]. cbn [flat_map]. rewrite filter_app, IH, app_nil_r.
  induction (row_lines t) as [|l ls IHl]; [reflexivity|]. exact IHl.
Qed.

Lemma items_structs d tws :
  map item_td_text (filter (item_is_td KW_STRUCT) (items_of d tws))
  = map (fun tw => td_text KW_STRUCT (fst (struct_td (d_enums d) tw)) (snd (struct_td (d_enums d) tw))) tws.
Proof.
  unfold items_of. rewrite !filter_app. rewrite !filter_td_lines, filter_td_rows. rewrite !filter_td_block.
  cbn [filter item_is_td app beq]. change (beq KW_STRUCT KW_ENUM) with false. change (beq KW_STRUCT KW_STRUCT) with true. cbv iota.
  cbn [app]. rewrite app_nil_r. rewrite !map_map. reflexivity.
Qed.

Lemma items_enums d tws : forallb enum_ok (d_enums d) = true ->
  map item_td_text (filter (item_is_td KW_ENUM) (items_of d tws)) = map render_enum (d_enums d).
Proof.
  intros Hes. unfold items_of. rewrite !filter_app. rewrite !filter_td_lines, filter_td_rows. rewrite !filter_td_block.
  cbn [filter item_is_td app]. change (beq KW_ENUM KW_ENUM) with true. change (beq KW_ENUM KW_STRUCT) with false. cbv iota.
  cbn [app]. rewrite app_nil_r. rewrite map_render_enums by auto. rewrite !map_map. reflexivity.
Qed.

Lemma items_lines d tws :
  map item_line (items_of d tws)
  = ([S_MAGIC] ++ map comment_line (d_comments d)) ++ map pair_line (d_pairs d)
    ++ (map item_line (block_items KW_ENUM (map enum_td (d_enums d)))
        ++ map item_line (block_items KW_STRUCT (map (struct_td (d_enums d)) tws)) ++ [[]])
    ++ flat_map row_lines (d_tables d).
Proof.
  unfold items_of. rewrite !map_app. rewrite !map_map. cbn [map item_line].
  assert (R : map item_line (flat_map (fun t => map ILine (row_lines t)) (d_tables d)) = flat_map row_lines (d_tables d)).
  { induction (d_tables d) as [|t ts IH]; [reflexivity|]. cbn [flat_map]. rewrite map_app, IH, map_map. cbn [item_line]. now rewrite map_id. }
  rewrite R. rewrite <- !app_assoc. reflexivity.
Qed.

Lemma assoc_sy_of es tws tw : distinct (map (fun tw => upper (t_name (fst tw))) tws) = true -> In tw tws ->
  assoc (upper (t_name (fst tw))) (sy_of es tws) = Some (tcols_of es (t_cols (fst tw))).
Proof.
  unfold sy_of. induction tws as [|x tws IH]; [contradiction|]. cbn [map distinct assoc]. intros Hd Hin.
  apply andb_true_iff in Hd as [Hx Hd]. apply negb_true_iff in Hx. destruct Hin as [->|Hin]; [now rewrite beq_refl|].
  destruct (beq (upper (t_name (fst tw))) (upper (t_name (fst x)))) eqn:E; [|now apply IH].
  exfalso. apply beq_eq in E. assert (existsb (beq (upper (t_name (fst x)))) (map (fun tw => upper (t_name (fst tw))) tws) = true).
  { apply existsb_exists. exists (upper (t_name (fst tw))). split; [now apply (in_map (fun tw => upper (t_name (fst tw))))|]. rewrite E. apply beq_refl. }
  congruence.
Qed.

Lemma assoc_init {A} k (sy : list (bytes * A)) : existsb (beq k) (map fst sy) = true ->
  assoc k (map (fun e => (fst e, @nil (list cell))) sy) = Some [].
Proof.
  induction sy as [|[k' v] sy IH]; [discriminate|]. cbn [map fst existsb assoc]. destruct (beq k k'); auto.
Qed.

(* ---------------------------------------------------------------- THE ROUND TRIP *)
Lemma sem_table_some es t : forallb enum_ok es = true -> table_ok es t = true -> exists p, sem_table es t = Some p.
Proof.
  intros Hes Ht. destruct (table_ok_parts es t Ht) as [_ [_ [Hc _]]]. unfold sem_table.
  assert (exists pc, omap (sem_col es) (t_cols t) = Some pc) as [pc ->].
  { induction (t_cols t) as [|c cols IH]; [eexists; reflexivity|]. cbn [forallb] in Hc. apply andb_true_iff in Hc as [H1 H2].
    destruct (IH H2) as [pc E]. destruct (sem_col_eq es c Hes H1) as [k [_ Hs]]. cbn [omap]. rewrite Hs, E. eauto. }
  eexists. reflexivity.
Qed.

Lemma omap_all_some {A B} (f : A -> option B) l : (forall x, In x l -> exists y, f x = Some y) -> exists r, omap f l = Some r.
Proof.
  induction l as [|x l IH]; intros H; [eexists; reflexivity|]. destruct (H x (or_introl eq_refl)) as [y Hy].
  destruct IH as [r Hr]; [intros z Hz; apply H; now right|]. cbn [omap]. rewrite Hy, Hr. eauto.
Qed.

Lemma omap_map {A B C} (f : B -> option C) (g : A -> B) l : omap f (map g l) = omap (fun x => f (g x)) l.
Proof. induction l as [|x l IH]; [reflexivity|]. cbn [map omap]. now rewrite IH. Qed.

Lemma omap_ext_in {A B} (f g : A -> option B) l : (forall x, In x l -> f x = g x) -> omap f l = omap g l.
Proof.
  induction l as [|x l IH]; intros H; [reflexivity|]. cbn [omap]. rewrite (H x (or_introl eq_refl)).
  rewrite IH; auto. intros y Hy. apply H. now right.
Qed.

(* the state the line loop must reach *)
Definition loop_result (d : doc) (st' : pstate) : Prop :=
  st_pairs st' = d_pairs d /\ forall t, In t (d_tables d) -> assoc (upper (t_name t)) (st_rows st') = Some (t_rows t).
Definition st_init (sy : symtab) : pstate := mkst [] (map (fun e : bytes * tcols => (fst e, @nil (list cell))) sy).
Definition struct_texts (es : list enumdecl) (tws : list (table * list bytes)) : list bytes :=
  map (fun tw => td_text KW_STRUCT (fst (struct_td es tw)) (snd (struct_td es tw))) tws.

(* ANY list of well-formed items that contains the document's typedefs and drives the line loop to the
   document's pairs and rows is read as the document *)
Theorem parse_items d tws its st' : doc_ok d = true -> map fst tws = d_tables d -> tws_ok (d_enums d) tws ->
  Forall item_good its -> its <> [] ->
  map item_td_text (filter (item_is_td KW_STRUCT) its) = struct_texts (d_enums d) tws ->
  map item_td_text (filter (item_is_td KW_ENUM) its) = map render_enum (d_enums d) ->
  process_lines (sy_of (d_enums d) tws) (st_init (sy_of (d_enums d) tws)) (map item_line its ++ [[]]) = Some st' ->
  loop_result d st' ->
  exists p, sem d = Some p /\ parse (items_text its) = Some p /\ parse_binary (items_text its) = Some p.
Proof.
  intros Hd Et Hok Hg Hne F1' F2' PL1 [PL2 PL3].
  destruct (doc_ok_parts d Hd) as [Hc [Hcn [Hp [Hdk [Hes [Hde [Ht Hdn]]]]]]].
  set (es := d_enums d) in *.
  destruct (items_good_text _ Hg) as [Hio [Htx Hco]].
  set (b := items_text its) in *.
  assert (Hnames : map (fun tw => upper (t_name (fst tw))) tws = tnames d).
  { unfold tnames. rewrite <- Et. now rewrite map_map. }
  assert (Hdn' : distinct (map (fun tw => upper (t_name (fst tw))) tws) = true) by (now rewrite Hnames).
  assert (Htw : Forall (fun tw => table_ok es (fst tw) = true /\ cols_words es (t_cols (fst tw)) (snd tw)) tws).
  { apply Forall_forall. intros tw Hin. split.
    - rewrite forallb_forall in Ht. apply Ht. rewrite <- Et. now apply in_map.
    - unfold tws_ok in Hok. rewrite Forall_forall in Hok. auto. }
  assert (U : univ_nl b = b) by (apply univ_nl_id; now apply textch_no_cr).
  assert (J : join_cont b = b).
  { unfold join_cont. rewrite <- (app_nil_r b) at 1. rewrite join_cont_ok by auto. now rewrite app_nil_r. }
  destruct (items_prepass its Hio) as [F1 [F2 R]]. fold b in F1, F2, R. rewrite F1' in F1. rewrite F2' in F2.
  set (stexts := struct_texts es tws) in *. set (etexts := map render_enum es) in *.
  assert (SE : omap struct_entry stexts = Some (map (struct_of es) tws)).
  { subst stexts. unfold struct_texts. rewrite omap_map. clear -Htw. induction Htw as [|tw tws [Ht Hw] _ IH]; [reflexivity|].
    cbn [omap map]. rewrite IH.
    destruct (table_ok_parts es _ Ht) as [Hn _]. destruct (ident_word _ Hn) as [Hn1 Hn2].
    change (td_text KW_STRUCT (fst (struct_td es tw)) (snd (struct_td es tw)))
      with (struct_text es (t_cols (fst tw)) (snd tw) (upper (t_name (fst tw)))).
    rewrite struct_entry_rendered; auto.
    - rewrite upper_idem. reflexivity.
    - destruct (t_name (fst tw)); [congruence|discriminate].
    - now apply upper_word. }
  pose proof (build_symtab_rendered es tws Hes Hdn' Htw) as SY.
  set (sy := sy_of es tws) in *.
  assert (SP1 : split_on NL (unlines (map item_line its)) = map item_line its ++ [[]]).
  { apply split_on_unlines. now apply items_lines_no_nl. }
  assert (RAW : parse_text_raw b = Some (mkrdoc (d_pairs d) etexts stexts
                  (map (fun tw => mkrtable (upper (t_name (fst tw))) (tcols_of es (t_cols (fst tw))) (t_rows (fst tw))) tws))).
  { unfold parse_text_raw. rewrite J, F1, F2, R, SE, SY. fold (st_init sy).
    destruct (unlines (map item_line its)) eqn:EU.
    { exfalso. destruct its as [|i its']; [congruence|]. unfold unlines in EU. cbn [map concat] in EU.
      destruct (item_line i); discriminate. }
    rewrite SP1, PL1. f_equal. rewrite PL2. f_equal. subst sy. unfold sy_of. rewrite map_map. apply map_ext_in.
    intros tw Hin. cbn [fst snd]. rewrite PL3; [reflexivity|]. rewrite <- Et. now apply in_map. }
  destruct (omap_all_some (sem_table es) (d_tables d)) as [tabs Htabs].
  { intros t Hin. apply sem_table_some; auto. rewrite forallb_forall in Ht. auto. }
  exists (mkpdoc (d_pairs d) etexts stexts tabs). split.
  - unfold sem. fold es. rewrite <- Et at 1. rewrite (omap_render_structs es tws Hok). fold (struct_texts es tws). fold stexts. now rewrite Htabs.
  - assert (PT : parse_text b = Some (mkpdoc (d_pairs d) etexts stexts tabs)); [|unfold parse, parse_binary; rewrite U; auto].
    unfold parse_text. rewrite RAW. cbn [obind]. unfold to_records. cbn [rd_enums rd_pairs rd_structs rd_tables].
    subst etexts. rewrite (omap_enum_entries es Hes). rewrite omap_map.
    rewrite (omap_ext_in _ (fun tw => sem_table es (fst tw))).
    + rewrite <- omap_map. rewrite Et, Htabs. reflexivity.
    + intros tw Hin. rewrite Forall_forall in Htw. destruct (Htw tw Hin) as [Htok _]. now apply to_table_rendered.
Qed.

(* the line loop on the canonical file *)
Theorem canonical_line_loop d tws : doc_ok d = true -> map fst tws = d_tables d -> tws_ok (d_enums d) tws ->
  exists st', process_lines (sy_of (d_enums d) tws) (st_init (sy_of (d_enums d) tws)) (map item_line (items_of d tws) ++ [[]]) = Some st'
              /\ loop_result d st'.
Proof.
  intros Hd Et Hok. destruct (doc_ok_parts d Hd) as [Hc [Hcn [Hp [Hdk [Hes [Hde [Ht Hdn]]]]]]].
  set (es := d_enums d) in *.
  assert (Hnames : map (fun tw => upper (t_name (fst tw))) tws = tnames d).
  { unfold tnames. rewrite <- Et. now rewrite map_map. }
  assert (Hdn' : distinct (map (fun tw => upper (t_name (fst tw))) tws) = true) by (now rewrite Hnames).
  set (sy := sy_of es tws) in *.
  assert (Hkeys : map fst sy = tnames d).
  { subst sy. unfold sy_of. rewrite map_map. cbn [fst]. exact Hnames. }
  rewrite items_lines. fold es. unfold loop_result, st_init.
  rewrite process_lines_app. rewrite process_lines_app.
  rewrite skip_all.
  2:{ cbn [app]. constructor; [right; reflexivity|]. apply Forall_map_in. intros c _. right. reflexivity. }
  rewrite process_lines_app.
  rewrite (pairs_processed sy _ (d_pairs d) []).
  2:{ eapply forallb_impl; [|exact Hp]. intros [k v] H. cbn [fst snd] in *.
      apply andb_true_iff in H as [H H4]. apply andb_true_iff in H as [H H3]. apply andb_true_iff in H as [H1 H2].
      rewrite H1, H3. cbn [andb]. now rewrite Hkeys. }
  2:{ exact Hdk. }
  cbn [app]. rewrite process_lines_app. rewrite skip_all.
  2:{ apply Forall_app. split; [apply block_lines_blank|]. apply Forall_app. split; [apply block_lines_blank|].
      constructor; [now left|constructor]. }
  rewrite <- all_trs_lines.
  destruct (rows_processed es sy Hes (all_trs (d_tables d))
              (mkst (d_pairs d) (map (fun e : bytes * tcols => (fst e, @nil (list cell))) sy))) as [st' [P1 [P2 P3]]].
  { apply Forall_forall. intros [t r] Hin. unfold all_trs in Hin. apply in_flat_map in Hin as [t' [Ht' Hin]].
    apply in_map_iff in Hin as [r' [E Hr']]. inversion E; subst t' r'. cbn [fst snd].
    split; [rewrite forallb_forall in Ht; auto|]. split; [exact Hr'|].
    rewrite <- Et in Ht'. apply in_map_iff in Ht' as [tw [Etw Htw']]. subst t. subst sy. now apply assoc_sy_of. }
  rewrite P1. cbn [process_lines]. rewrite blank_and_comment_lines_skipped by (now left).
  exists st'. split; [reflexivity|]. split; [exact P2|]. intros t Hin. rewrite P3. cbn [st_rows].
  rewrite assoc_init.
  - cbn [option_map app]. f_equal. apply rows_for_distinct; auto.
  - rewrite Hkeys. apply existsb_exists. exists (upper (t_name t)). split; [|apply beq_refl].
    unfold tnames. now apply (in_map (fun t => upper (t_name t))).
Qed.

Theorem file_roundtrip d : doc_ok d = true ->
  exists b p, render_checked d = Some b /\ sem d = Some p /\ parse b = Some p /\ parse_binary b = Some p.
Proof.
  intros Hd. destruct (doc_ok_parts d Hd) as [Hc [Hcn [Hp [Hdk [Hes [Hde [Ht Hdn]]]]]]].
  destruct (tws_exist _ _ Hes Ht) as [tws [Et Hok]].
  destruct (canonical_line_loop d tws Hd Et Hok) as [st' [PL LR]].
  destruct (parse_items d tws (items_of d tws) st' Hd Et Hok) as [p [S1 [S2 S3]]]; auto.
  - now apply items_all_good.
  - unfold items_of. discriminate.
  - apply items_structs.
  - now apply items_enums.
  - exists (items_text (items_of d tws)), p. split; [now apply render_items|]. auto.
Qed.
