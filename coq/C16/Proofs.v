(* C16 -- proofs about the readspec / spec_append models of C16/Model.v. *)
From Coq Require Import ZArith List Bool Arith Lia Permutation Sorted.
Import ListNotations.
From PV Require Import Lib.Bits C16.Model C16.ListLemmas.

(* ================================================================== keys *)

Open Scope Z_scope.

Lemma key_eq p m : key p m = p * 65536 + m.
Proof. unfold key. rewrite Z.shiftl_mul_pow2 by lia. change (2 ^ 16) with 65536. reflexivity. Qed.

Lemma key_plate_eq k : key_plate k = k / 65536.
Proof. unfold key_plate. rewrite Z.shiftr_div_pow2 by lia. change (2 ^ 16) with 65536. reflexivity. Qed.

Lemma key_mjd_eq k : key_mjd k = k mod 65536.
Proof.
  unfold key_mjd. change (Z.shiftl 1 16 - 1) with (2 ^ 16 - 1).
  rewrite land_ones_mod by lia. change (2 ^ 16) with 65536. reflexivity.
Qed.

Lemma key_decode p m : 0 <= m < 2 ^ 16 -> key_plate (key p m) = p /\ key_mjd (key p m) = m.
Proof.
  change (2 ^ 16) with 65536. intros H. rewrite key_plate_eq, key_mjd_eq, key_eq. split; lia.
Qed.

Lemma pmjd_key_injective p m p' m' :
  0 <= m < 2 ^ 16 -> 0 <= m' < 2 ^ 16 -> key p m = key p' m' -> p = p' /\ m = m'.
Proof.
  intros H H' E. destruct (key_decode p m H) as [A B]. destruct (key_decode p' m' H') as [A' B'].
  rewrite E in A, B. split; congruence.
Qed.

(* the uint64 arithmetic of the code does not wrap for non-negative plates below 2^48 *)
Lemma key_no_wrap p m : 0 <= p < 2 ^ 48 -> 0 <= m < 2 ^ 16 -> 0 <= key p m < 2 ^ 64.
Proof.
  change (2 ^ 16) with 65536. change (2 ^ 48) with 281474976710656.
  change (2 ^ 64) with 18446744073709551616. rewrite key_eq. lia.
Qed.

(* the test the code applies to every request (plate == key>>16 and mjd == key & 0xffff) is the key test *)
Lemma decoded_test_is_key_test p m k :
  0 <= m < 2 ^ 16 -> 0 <= k ->
  ((p =? key_plate k) && (m =? key_mjd k)) = (key p m =? k).
Proof.
  change (2 ^ 16) with 65536. intros H Hk. rewrite key_plate_eq, key_mjd_eq, key_eq.
  destruct (p =? k / 65536) eqn:E1; destruct (m =? k mod 65536) eqn:E2;
    destruct (p * 65536 + m =? k) eqn:E3; try reflexivity; exfalso;
    rewrite ?Z.eqb_eq, ?Z.eqb_neq in *; lia.
Qed.

(* ================================================================== spec_append *)

Open Scope nat_scope.

Definition rect (b : img) : Prop := forall r, In r b -> length r = width b.

Lemma place_length off w r : off + length r <= w -> length (place off w r) = w.
Proof. intros H. unfold place. rewrite !app_length, !repeat_length. lia. Qed.

Lemma nth_error_repeat {A} (x : A) n i : i < n -> nth_error (repeat x n) i = Some x.
Proof.
  revert i; induction n as [|n IH]; intros i H; [lia|]. destruct i; cbn; [reflexivity|]. apply IH. lia.
Qed.

Lemma place_data off w r p v : nth_error r p = Some v -> nth_error (place off w r) (off + p) = Some v.
Proof.
  intros H. unfold place. rewrite nth_error_app2 by (rewrite repeat_length; lia).
  rewrite repeat_length. replace (off + p - off) with p by lia.
  rewrite nth_error_app1 by (apply nth_error_Some; congruence). exact H.
Qed.

Lemma place_zero off w r j : off + length r <= w -> j < w -> (j < off \/ off + length r <= j) ->
  nth_error (place off w r) j = Some 0%Z.
Proof.
  intros Hw Hj H. unfold place. destruct H as [H|H].
  - rewrite nth_error_app1 by (rewrite repeat_length; lia). apply nth_error_repeat. exact H.
  - rewrite nth_error_app2 by (rewrite repeat_length; lia). rewrite repeat_length.
    rewrite nth_error_app2 by lia. apply nth_error_repeat. lia.
Qed.

Lemma nadd_shift s : (Z.of_nat (nadd2_of s) - Z.of_nat (nadd1_of s) = s)%Z /\ (nadd1_of s = 0 \/ nadd2_of s = 0).
Proof.
  unfold nadd1_of, nadd2_of. destruct (s <? 0)%Z eqn:E1; destruct (0 <? s)%Z eqn:E2;
    rewrite ?Z.ltb_lt, ?Z.ltb_ge in *; split; try lia; auto.
Qed.

(* the pointwise statement: where every input pixel lands, and that everything else is zero *)
Lemma spec_append_spec a b s :
  rect a -> rect b ->
  let n1 := nadd1_of s in
  let n2 := nadd2_of s in
  let w := Nat.max (width a + n1) (width b + n2) in
  let out := spec_append a b s in
  length out = length a + length b /\
  (forall i r, nth_error a i = Some r ->
     exists o, nth_error out i = Some o /\ length o = w /\
       (forall p v, nth_error r p = Some v -> nth_error o (n1 + p) = Some v) /\
       (forall j, j < w -> (j < n1 \/ n1 + length r <= j) -> nth_error o j = Some 0%Z)) /\
  (forall i r, nth_error b i = Some r ->
     exists o, nth_error out (length a + i) = Some o /\ length o = w /\
       (forall p v, nth_error r p = Some v -> nth_error o (n2 + p) = Some v) /\
       (forall j, j < w -> (j < n2 \/ n2 + length r <= j) -> nth_error o j = Some 0%Z)).
Proof.
  intros Ra Rb n1 n2 w out. unfold out, spec_append. fold n1 n2 w. split; [|split].
  - rewrite app_length, !map_length. reflexivity.
  - intros i r Hi. exists (place n1 w r).
    assert (length r = width a) as Hr by (apply Ra; eapply nth_error_In; exact Hi).
    assert (n1 + length r <= w) as Hw by (unfold w; lia).
    split; [|split; [|split]].
    + rewrite nth_error_app1 by (rewrite map_length; apply nth_error_Some; congruence).
      rewrite nth_error_map, Hi. reflexivity.
    + apply place_length. exact Hw.
    + intros p v Hp. apply place_data. exact Hp.
    + intros j Hj H. apply place_zero; assumption.
  - intros i r Hi. exists (place n2 w r).
    assert (length r = width b) as Hr by (apply Rb; eapply nth_error_In; exact Hi).
    assert (n2 + length r <= w) as Hw by (unfold w; lia).
    split; [|split; [|split]].
    + rewrite nth_error_app2 by (rewrite map_length; lia).
      rewrite map_length. replace (length a + i - length a) with i by lia.
      rewrite nth_error_map, Hi. reflexivity.
    + apply place_length. exact Hw.
    + intros p v Hp. apply place_data. exact Hp.
    + intros j Hj H. apply place_zero; assumption.
Qed.

(* M = S for spec_append: the slice-assignment model equals the index-arithmetic specification *)
Lemma place_entries off w r : off + length r <= w ->
  place off w r = map (fun j => if (off <=? j) && (j <? off + length r) then nth (j - off) r 0%Z else 0%Z) (seq 0 w).
Proof.
  intros Hw. apply nth_error_ext_eq. intros j.
  destruct (Nat.lt_ge_cases j w) as [Hj|Hj].
  - rewrite nth_error_map, nth_error_seq by exact Hj. cbn [option_map Nat.add].
    destruct (off <=? j) eqn:E1; destruct (j <? off + length r) eqn:E2; cbn [andb];
      rewrite ?Nat.leb_le, ?Nat.leb_gt, ?Nat.ltb_lt, ?Nat.ltb_ge in *.
    + replace j with (off + (j - off)) at 1 by lia.
      apply place_data. apply nth_error_nth'. lia.
    + apply place_zero; lia.
    + apply place_zero; lia.
    + apply place_zero; lia.
  - assert (nth_error (place off w r) j = None) as -> by (apply nth_error_None; rewrite place_length; lia).
    symmetry. apply nth_error_None. rewrite map_length, seq_length. exact Hj.
Qed.

Lemma spec_append_M_eq_S a b s : rect a -> rect b -> spec_append a b s = spec_append_S a b s.
Proof.
  intros Ra Rb. unfold spec_append, spec_append_S.
  set (n1 := nadd1_of s). set (n2 := nadd2_of s). set (w := Nat.max (width a + n1) (width b + n2)).
  apply nth_error_ext_eq. intros i.
  destruct (Nat.lt_ge_cases i (length a + length b)) as [Hi|Hi].
  - rewrite (nth_error_map _ i (seq 0 (length a + length b))), nth_error_seq by exact Hi.
    cbn [option_map Nat.add].
    destruct (Nat.lt_ge_cases i (length a)) as [Ha|Ha].
    + rewrite nth_error_app1 by (rewrite map_length; exact Ha).
      rewrite nth_error_map.
      destruct (nth_error a i) as [r|] eqn:E; [|apply nth_error_None in E; lia].
      cbn [option_map]. f_equal.
      assert (length r = width a) as Hr by (apply Ra; eapply nth_error_In; exact E).
      rewrite place_entries by (unfold w; lia).
      apply map_ext. intros j. unfold append_entry. fold n1.
      assert ((i <? length a) = true) as -> by (apply Nat.ltb_lt; exact Ha).
      rewrite Hr. rewrite (nth_error_nth _ _ [] E). reflexivity.
    + rewrite nth_error_app2 by (rewrite map_length; exact Ha).
      rewrite map_length, nth_error_map.
      destruct (nth_error b (i - length a)) as [r|] eqn:E; [|apply nth_error_None in E; lia].
      cbn [option_map]. f_equal.
      assert (length r = width b) as Hr by (apply Rb; eapply nth_error_In; exact E).
      rewrite place_entries by (unfold w; lia).
      apply map_ext. intros j. unfold append_entry. fold n2.
      assert ((i <? length a) = false) as -> by (apply Nat.ltb_ge; exact Ha).
      rewrite Hr. rewrite (nth_error_nth _ _ [] E). reflexivity.
  - assert (nth_error (map (place n1 w) a ++ map (place n2 w) b) i = None) as ->
      by (apply nth_error_None; rewrite app_length, !map_length; exact Hi).
    symmetry. apply nth_error_None. rewrite map_length, seq_length. exact Hi.
Qed.

(* ---------- a chain of spec_append with pixshift 0 = pad everything on the right to the longest *)

Lemma place0_pad w r : place 0 w r = pad w r.
Proof. unfold place, pad. cbn. rewrite Nat.sub_0_r. reflexivity. Qed.

Lemma pad_length w r : length r <= w -> length (pad w r) = w.
Proof. intros H. unfold pad. rewrite app_length, repeat_length. lia. Qed.

Lemma pad_pad w w' r : length r <= w -> w <= w' -> pad w' (pad w r) = pad w' r.
Proof.
  intros H H'. unfold pad. rewrite app_length, repeat_length, <- app_assoc, <- repeat_app.
  f_equal. f_equal. lia.
Qed.

Lemma pad_exact r : pad (length r) r = r.
Proof. unfold pad. rewrite Nat.sub_diag. cbn. apply app_nil_r. Qed.

Lemma spec_append_0 a b :
  spec_append a b 0 = map (pad (Nat.max (width a) (width b))) a ++ map (pad (Nat.max (width a) (width b))) b.
Proof.
  unfold spec_append. change (nadd1_of 0) with 0. change (nadd2_of 0) with 0. rewrite !Nat.add_0_r.
  f_equal; apply map_ext; intros r; apply place0_pad.
Qed.

Lemma width_map_pad W rows : rows <> [] -> (forall r, In r rows -> length r <= W) -> width (map (pad W) rows) = W.
Proof.
  destruct rows as [|r rows]; intros Hne H; [congruence|]. cbn. apply pad_length. apply H. left; reflexivity.
Qed.

Lemma fold_append_pad bs : forall rows0 W,
  rows0 <> [] -> (forall r, In r rows0 -> length r <= W) ->
  (forall b, In b bs -> rect b) ->
  fold_left (fun acc b => spec_append acc b 0) bs (map (pad W) rows0)
  = map (pad (fold_left Nat.max (map width bs) W)) (rows0 ++ concat bs).
Proof.
  induction bs as [|b bs IH]; intros rows0 W Hne Hlen Hb.
  - cbn. rewrite app_nil_r. reflexivity.
  - cbn [fold_left map concat]. rewrite spec_append_0.
    rewrite (width_map_pad W rows0 Hne Hlen).
    set (mx := Nat.max W (width b)).
    assert (map (pad mx) (map (pad W) rows0) ++ map (pad mx) b = map (pad mx) (rows0 ++ b)) as ->.
    { rewrite map_app. f_equal. rewrite map_map. apply map_ext_in. intros r Hr.
      apply pad_pad; [apply Hlen; exact Hr|unfold mx; lia]. }
    rewrite IH.
    + rewrite <- app_assoc. reflexivity.
    + destruct rows0; [congruence|discriminate].
    + intros r Hr. apply in_app_or in Hr. destruct Hr as [Hr|Hr].
      * specialize (Hlen r Hr). unfold mx. lia.
      * rewrite (Hb b (or_introl eq_refl) r Hr). unfold mx. lia.
    + intros b' Hb'. apply Hb. right; exact Hb'.
Qed.

Lemma accumulate_padded b0 bs :
  b0 <> [] -> (forall b, In b (b0 :: bs) -> rect b /\ b <> []) ->
  fold_left (fun acc b => spec_append acc b 0) bs b0
  = map (pad (list_max_nat (map (@length Z) (concat (b0 :: bs))))) (concat (b0 :: bs)).
Proof.
  intros Hne H.
  assert (rect b0) as R0 by (apply H; left; reflexivity).
  assert (b0 = map (pad (width b0)) b0) as E0.
  { rewrite <- (map_id b0) at 1. apply map_ext_in. intros r Hr. rewrite <- (R0 r Hr). symmetry. apply pad_exact. }
  rewrite E0 at 1.
  rewrite fold_append_pad; [|exact Hne|intros r Hr; rewrite (R0 r Hr); lia|intros b Hb; apply H; right; exact Hb].
  cbn [concat]. f_equal. f_equal.
  rewrite fold_left_max.
  (* max of the block widths = max of all row lengths *)
  assert (forall blocks, (forall b, In b blocks -> rect b /\ b <> []) ->
            list_max_nat (map (@length Z) (concat blocks)) = list_max_nat (map width blocks)) as Hmax.
  { induction blocks as [|b blocks IHb]; intros Hb; [reflexivity|].
    cbn [concat map]. rewrite map_app, list_max_nat_app, IHb by (intros b' Hb'; apply Hb; right; exact Hb').
    change (list_max_nat (width b :: map width blocks)) with (Nat.max (width b) (list_max_nat (map width blocks))).
    f_equal. destruct (Hb b (or_introl eq_refl)) as [Rb Nb].
    apply list_max_nat_const.
    - destruct b; [congruence|discriminate].
    - intros x Hx. apply in_map_iff in Hx. destruct Hx as (r & <- & Hr). apply Rb. exact Hr. }
  change (b0 ++ concat bs) with (concat (b0 :: bs)).
  rewrite (Hmax (b0 :: bs) H). reflexivity.
Qed.

Lemma accumulate_spec w (blocks : list img) :
  blocks <> [] -> (padded w = true -> forall b, In b blocks -> rect b /\ b <> []) ->
  accumulate w blocks =
  Some (if padded w then map (pad (list_max_nat (map (@length Z) (concat blocks)))) (concat blocks) else concat blocks).
Proof.
  intros Hne H. destruct blocks as [|b0 bs]; [congruence|]. unfold accumulate.
  destruct (padded w); [|reflexivity].
  rewrite accumulate_padded; [reflexivity|apply (H eq_refl b0 (or_introl eq_refl))|apply H; reflexivity].
Qed.

(* ================================================================== the final reorder *)

(* Whatever order the grouping visits the (position, request) pairs in, indexing the gathered rows by
   argsort of the gathered positions puts the row of request i at place i. *)
Lemma reorder_inverts_grouping {A B} (reqs : list A) (GG : list (nat * A)) (D : A -> B) (d : B) :
  Permutation GG (indexed reqs) ->
  take_rows d (map (fun ir => D (snd ir)) GG) (argsort (map fst GG)) = map D reqs.
Proof.
  intros P.
  set (n := length reqs).
  assert (Permutation (map fst GG) (seq 0 n)) as Pidx.
  { unfold n. rewrite <- map_fst_indexed. apply Permutation_map. exact P. }
  assert (length GG = n) as HlenG.
  { rewrite (Permutation_length P). unfold indexed. rewrite combine_length, seq_length. unfold n. lia. }
  apply nth_error_ext_eq. intros i. unfold take_rows.
  destruct (Nat.lt_ge_cases i n) as [Hi|Hi].
  - (* where does i sit in the gathered positions? *)
    assert (In i (map fst GG)) as Hin by (apply (Permutation_in _ (Permutation_sym Pidx)), in_seq; lia).
    apply In_nth_error in Hin. destruct Hin as [j Hj].
    rewrite nth_error_map, (argsort_inverse _ n Pidx i j Hj). cbn [option_map].
    rewrite nth_error_map in Hj.
    destruct (nth_error GG j) as [[i' r]|] eqn:E; [|discriminate]. cbn in Hj. inversion Hj; subst i'.
    assert (nth_error reqs i = Some r) as Hr.
    { apply in_indexed. apply (Permutation_in _ P). eapply nth_error_In. exact E. }
    rewrite nth_error_map, Hr. cbn [option_map]. f_equal.
    apply nth_error_nth. rewrite nth_error_map, E. reflexivity.
  - assert (nth_error (map D reqs) i = None) as -> by (apply nth_error_None; rewrite map_length; exact Hi).
    apply nth_error_None. rewrite map_length, argsort_length, map_length. lia.
Qed.

(* argsort of a permutation is the explicit inverse permutation *)
Lemma index_of_spec i l : In i l -> nth_error l (index_of i l) = Some i.
Proof.
  induction l as [|x l IH]; intros H; [destruct H|]. cbn.
  destruct (x =? i) eqn:E.
  - apply Nat.eqb_eq in E. subst. reflexivity.
  - apply Nat.eqb_neq in E. destruct H as [H|H]; [congruence|]. cbn. apply IH. exact H.
Qed.

Lemma argsort_is_inverse_permutation l n : Permutation l (seq 0 n) -> argsort l = inv_perm l.
Proof.
  intros P. assert (length l = n) as Hlen by (rewrite (Permutation_length P); apply seq_length).
  apply nth_error_ext_eq. intros i. unfold inv_perm.
  destruct (Nat.lt_ge_cases i n) as [Hi|Hi].
  - rewrite nth_error_map, Hlen, nth_error_seq by exact Hi. cbn [option_map Nat.add].
    apply (argsort_inverse l n P). apply index_of_spec.
    apply (Permutation_in _ (Permutation_sym P)), in_seq. lia.
  - assert (nth_error (argsort l) i = None) as -> by (apply nth_error_None; rewrite argsort_length; lia).
    symmetry. apply nth_error_None. rewrite map_length, seq_length. lia.
Qed.

(* ================================================================== grouping *)

Open Scope Z_scope.

Definition valid_req (r : req) : Prop := 0 <= r_plate r /\ 0 <= r_mjd r < 2 ^ 16.
Definition keyf (r : req) : Z := key (r_plate r) (r_mjd r).

Lemma keyf_nonneg r : valid_req r -> 0 <= keyf r.
Proof. unfold valid_req, keyf. change (2 ^ 16) with 65536. rewrite key_eq. lia. Qed.

Lemma group_is_key_class (ireqs : list (nat * req)) k :
  (forall ir, In ir ireqs -> valid_req (snd ir)) -> 0 <= k ->
  group ireqs (key_plate k) (key_mjd k) = filter (fun ir => keyf (snd ir) =? k) ireqs.
Proof.
  intros Hv Hk. unfold group. apply filter_ext_in. intros ir Hir.
  apply decoded_test_is_key_test; [apply (Hv ir Hir)|exact Hk].
Qed.

(* the position lists of the unique keys partition 0..n-1 *)
Lemma group_positions_partition (reqs : list req) :
  (forall r, In r reqs -> valid_req r) ->
  let ukeys := usort (map keyf reqs) in
  let groups := map (fun k => group (indexed reqs) (key_plate k) (key_mjd k)) ukeys in
  Permutation (concat groups) (indexed reqs) /\
  Permutation (concat (map (map fst) groups)) (seq 0 (length reqs)).
Proof.
  intros Hv ukeys groups.
  assert (forall ir, In ir (indexed reqs) -> valid_req (snd ir)) as Hvi.
  { intros [i r] H. apply in_indexed in H. apply Hv. eapply nth_error_In. exact H. }
  assert (Permutation (concat groups) (indexed reqs)) as P.
  { unfold groups.
    rewrite (map_ext_in _ (fun k => filter (fun ir => keyf (snd ir) =? k) (indexed reqs))).
    - apply (partition_perm (fun ir => keyf (snd ir))).
      + apply usort_NoDup.
      + intros [i r] H. apply usort_In. apply in_map. apply in_indexed in H. eapply nth_error_In. exact H.
    - intros k Hk. apply group_is_key_class; [exact Hvi|].
      apply (proj1 (usort_In _ _)) in Hk. apply in_map_iff in Hk. destruct Hk as (r & <- & Hr).
      apply keyf_nonneg. apply Hv. exact Hr. }
  split; [exact P|].
  rewrite <- concat_map, <- map_fst_indexed. apply Permutation_map. exact P.
Qed.

(* ================================================================== readspec: M = S *)

(* every HDU / column of one file is a rectangular array *)
Definition uniform (sv : survey) (w : what) : Prop :=
  forall f fb fb' r r', In f sv -> ext1 w f fb = Some r -> ext1 w f fb' = Some r' -> length r = length r'.

Lemma find_file_spec sv p m f : find_file sv p m = Some f -> In f sv /\ f_plate f = p /\ f_mjd f = m.
Proof.
  unfold find_file. intros H. apply find_some in H. destruct H as [H1 H2].
  apply andb_true_iff in H2. rewrite !Z.eqb_eq in H2. tauto.
Qed.

Theorem readspec_core_correct sv w reqs rows :
  (forall r, In r reqs -> valid_req r) ->
  uniform sv w ->
  reqs <> [] ->
  mapM (spec_row sv w) reqs = Some rows ->
  readspec_core sv w reqs = Some (if padded w then map (pad (npixmax rows)) rows else rows).
Proof.
  intros Hv Hu Hne Hrows.
  destruct (mapM_Some_inv _ [] _ _ Hrows) as [Erows Hall].
  set (rowf := fun r => match spec_row sv w r with Some y => y | None => [] end) in *.
  set (ireqs := indexed reqs).
  set (ukeys := usort (map keyf reqs)).
  set (G := fun k => group ireqs (key_plate k) (key_mjd k)).
  destruct (group_positions_partition reqs Hv) as [PG Pidx]. fold ireqs ukeys in PG, Pidx.
  change (map (fun k => group ireqs (key_plate k) (key_mjd k)) ukeys) with (map G ukeys) in PG, Pidx.
  (* facts about one key *)
  assert (forall k, In k ukeys -> exists r0, In r0 reqs /\ key_plate k = r_plate r0 /\ key_mjd k = r_mjd r0) as Hkey.
  { intros k Hk. apply (proj1 (usort_In _ _)) in Hk. apply in_map_iff in Hk. destruct Hk as (r0 & <- & Hr0).
    exists r0. split; [exact Hr0|]. destruct (Hv r0 Hr0) as [_ Hm].
    destruct (key_decode (r_plate r0) (r_mjd r0) Hm) as [A B]. split; assumption. }
  assert (forall k ir, In ir (G k) -> In (snd ir) reqs /\ r_plate (snd ir) = key_plate k /\ r_mjd (snd ir) = key_mjd k) as HG.
  { intros k [i r] H. unfold G, group in H. apply filter_In in H. destruct H as [H1 H2].
    apply andb_true_iff in H2. rewrite !Z.eqb_eq in H2. cbn in *. split; [|exact H2].
    apply in_indexed in H1. eapply nth_error_In. exact H1. }
  (* the loop over the keys succeeds and yields the expected blocks *)
  assert (read_blocks sv w reqs = Some (map (fun k => (map fst (G k), map (fun ir => rowf (snd ir)) (G k))) ukeys)) as Hblocks.
  { unfold read_blocks. fold ireqs. fold keyf. change (usort (map (fun r => key (r_plate r) (r_mjd r)) reqs)) with ukeys.
    apply mapM_all. intros k Hk. cbv zeta. fold (G k).
    destruct (Hkey k Hk) as (r0 & Hr0 & Ep & Em).
    pose proof (Hall r0 Hr0) as H0. unfold spec_row in H0. rewrite <- Ep, <- Em in H0.
    destruct (find_file sv (key_plate k) (key_mjd k)) as [f|] eqn:Ef; [|discriminate].
    rewrite (mapM_all _ (fun ir => rowf (snd ir))); [reflexivity|].
    intros ir Hir. destruct (HG k ir Hir) as (Hin & E1 & E2).
    pose proof (Hall (snd ir) Hin) as H1. fold (rowf (snd ir)) in H1.
    unfold spec_row in H1. rewrite E1, E2, Ef in H1. exact H1. }
  unfold readspec_core. rewrite Hblocks. cbv zeta.
  rewrite !map_map. cbn [fst snd].
  set (GG := concat (map G ukeys)) in *.
  assert (concat (map (fun k => map fst (G k)) ukeys) = map fst GG) as Eidx.
  { unfold GG. rewrite concat_map, map_map. reflexivity. }
  rewrite Eidx.
  (* there is at least one key *)
  assert (ukeys <> []) as Hune.
  { destruct reqs as [|r0 reqs']; [congruence|]. intros E.
    assert (In (keyf r0) ukeys) as H by (apply usort_In; left; reflexivity). rewrite E in H. destruct H. }
  set (blocks := @map Z img (fun k => map (fun ir => rowf (snd ir)) (G k)) ukeys).
  assert (concat blocks = map (fun ir => rowf (snd ir)) GG) as Edata.
  { unfold blocks, GG. rewrite concat_map, map_map. reflexivity. }
  assert (blocks <> []) as Hbne by (unfold blocks; destruct ukeys; [congruence|discriminate]).
  assert (padded w = true -> forall b, In b blocks -> rect b /\ b <> []) as Hb.
  { intros _ b Hb. unfold blocks in Hb. apply in_map_iff in Hb. destruct Hb as (k & <- & Hk).
      destruct (Hkey k Hk) as (r0 & Hr0 & Ep & Em). split.
      - (* all rows of the block come from the same file *)
        assert (forall ir ir', In ir (G k) -> In ir' (G k) -> length (rowf (snd ir)) = length (rowf (snd ir'))) as Hlen.
        { intros ir ir' Hir Hir'.
          destruct (HG k ir Hir) as (Hin & E1 & E2). destruct (HG k ir' Hir') as (Hin' & E1' & E2').
          pose proof (Hall (snd ir) Hin) as H1. fold (rowf (snd ir)) in H1. unfold spec_row in H1.
          pose proof (Hall (snd ir') Hin') as H1'. fold (rowf (snd ir')) in H1'. unfold spec_row in H1'.
          rewrite E1, E2 in H1. rewrite E1', E2' in H1'.
          destruct (find_file sv (key_plate k) (key_mjd k)) as [f|] eqn:Ef; [|discriminate].
          apply (Hu f _ _ _ _ (proj1 (find_file_spec _ _ _ _ Ef)) H1 H1'). }
        intros r Hr. apply in_map_iff in Hr. destruct Hr as (ir & <- & Hir).
        destruct (G k) as [|ir0 g] eqn:EG; [destruct Hir|]. cbn [map width].
        apply Hlen; [exact Hir|left; reflexivity].
      - (* the request that produced the key is in its group *)
        destruct (In_nth_error _ _ Hr0) as [i Hi].
        assert (In (i, r0) (G k)) as Hin.
        { unfold G, group. apply filter_In. split; [apply in_indexed; exact Hi|].
          cbn [snd]. rewrite Ep, Em, !Z.eqb_refl. reflexivity. }
        destruct (G k); [destruct Hin|discriminate]. }
  rewrite (accumulate_spec w blocks Hbne Hb). rewrite Edata.
  destruct (padded w) eqn:Epad.
  - (* images: chain of spec_append *)
    rewrite map_map.
    rewrite (reorder_inverts_grouping reqs GG (fun r => pad (list_max_nat (map (@length Z) (map (fun ir => rowf (snd ir)) GG))) (rowf r)) [] PG).
    apply f_equal. rewrite Erows. rewrite (map_map rowf (pad _)). apply map_ext. intros r. apply (f_equal (fun W => pad W (rowf r))).
    unfold npixmax. apply list_max_nat_perm. apply Permutation_map.
    rewrite <- (map_snd_indexed reqs) at 1. fold ireqs. rewrite (map_map snd rowf).
    apply Permutation_map. exact PG.
  - (* table columns: np.concatenate *)
    rewrite (reorder_inverts_grouping reqs GG rowf [] PG). f_equal. symmetry. exact Erows.
Qed.

(* ---------- the converse: the model succeeds only if every request has its row *)

Lemma readspec_core_Some_rows sv w reqs out :
  (forall r, In r reqs -> valid_req r) ->
  readspec_core sv w reqs = Some out ->
  exists rows, mapM (spec_row sv w) reqs = Some rows.
Proof.
  intros Hv H.
  assert (forall r, In r reqs -> spec_row sv w r <> None) as Hall.
  { intros r Hr E. unfold readspec_core in H.
    assert (read_blocks sv w reqs = None) as Hb; [|rewrite Hb in H; discriminate].
    unfold read_blocks. apply (mapM_None_in _ _ (keyf r)).
    - apply usort_In. apply (in_map keyf). exact Hr.
    - cbv zeta. destruct (Hv r Hr) as [_ Hm].
      destruct (key_decode (r_plate r) (r_mjd r) Hm) as [A B]. fold (keyf r) in A, B. rewrite A, B.
      unfold spec_row in E.
      destruct (find_file sv (r_plate r) (r_mjd r)) as [f|]; [|reflexivity].
      destruct (In_nth_error _ _ Hr) as [i Hi].
      rewrite (mapM_None_in _ _ (i, r)); [reflexivity| |exact E].
      unfold group. apply filter_In. split; [apply in_indexed; exact Hi|].
      cbn [snd]. rewrite !Z.eqb_refl. reflexivity. }
  exists (map (fun r => match spec_row sv w r with Some y => y | None => [] end) reqs).
  apply mapM_all. intros r Hr. specialize (Hall r Hr). destruct (spec_row sv w r); congruence.
Qed.

Theorem readspec_core_eq_spec sv w reqs :
  (forall r, In r reqs -> valid_req r) -> uniform sv w ->
  readspec_core sv w reqs = spec_readspec sv w reqs.
Proof.
  intros Hv Hu. destruct reqs as [|r0 reqs'] eqn:Ereqs; [reflexivity|]. rewrite <- Ereqs in *.
  assert (reqs <> []) as Hne by (rewrite Ereqs; discriminate).
  assert (spec_readspec sv w reqs =
          match mapM (spec_row sv w) reqs with
          | None => None
          | Some rows => Some (if padded w then map (pad (npixmax rows)) rows else rows)
          end) as ES by (rewrite Ereqs; reflexivity).
  rewrite ES.
  destruct (mapM (spec_row sv w) reqs) as [rows|] eqn:E.
  - apply readspec_core_correct; assumption.
  - destruct (readspec_core sv w reqs) as [out|] eqn:EM; [|reflexivity].
    destruct (readspec_core_Some_rows sv w reqs out Hv EM) as [rows Hrows]. congruence.
Qed.

(* ---------- padding: on the right, with zeros, nothing moves *)

Open Scope nat_scope.

Lemma pad_spec W row : length row <= W ->
  length (pad W row) = W /\
  (forall p v, nth_error row p = Some v -> nth_error (pad W row) p = Some v) /\
  (forall j, length row <= j < W -> nth_error (pad W row) j = Some 0%Z).
Proof.
  intros H. split; [apply pad_length; exact H|]. split.
  - intros p v Hp. unfold pad. rewrite nth_error_app1 by (apply nth_error_Some; congruence). exact Hp.
  - intros j Hj. unfold pad. rewrite nth_error_app2 by lia. apply nth_error_repeat. lia.
Qed.

Lemma npixmax_bound rows r : In r rows -> length r <= npixmax rows.
Proof.
  unfold npixmax, list_max_nat. induction rows as [|x rows IH]; intros H; [destruct H|].
  cbn. destruct H as [->|H]; [lia|]. specialize (IH H). lia.
Qed.

Lemma npixmax_attained rows : rows <> [] -> exists r, In r rows /\ length r = npixmax rows.
Proof.
  unfold npixmax, list_max_nat. induction rows as [|x rows IH]; intros H; [congruence|].
  destruct rows as [|y rows].
  - exists x. split; [left; reflexivity|]. cbn. lia.
  - destruct IH as (r & Hr & E); [discriminate|].
    cbn [map fold_right] in *.
    destruct (Nat.le_ge_cases (length x) (Nat.max (length y) (fold_right Nat.max 0 (map (@length Z) rows)))) as [L|L].
    + exists r. split; [right; exact Hr|]. rewrite E. lia.
    + exists x. split; [left; reflexivity|]. lia.
Qed.

Lemma mapM_nth {A B} (f : A -> option B) l ys i x :
  mapM f l = Some ys -> nth_error l i = Some x -> exists y, f x = Some y /\ nth_error ys i = Some y.
Proof.
  revert ys i; induction l as [|a l IH]; intros ys i H Hi; [destruct i; discriminate|].
  cbn in H. destruct (f a) as [y|] eqn:E; [|discriminate].
  destruct (mapM f l) as [ys'|] eqn:E'; [|discriminate]. inversion H; subst.
  destruct i as [|i]; cbn in *.
  - inversion Hi; subst. exists y. split; [exact E|reflexivity].
  - apply (IH ys' i eq_refl Hi).
Qed.

Lemma mapM_length {A B} (f : A -> option B) l ys : mapM f l = Some ys -> length ys = length l.
Proof.
  revert ys; induction l as [|a l IH]; intros ys H; cbn in H.
  - inversion H; reflexivity.
  - destruct (f a); [|discriminate]. destruct (mapM f l) as [ys'|]; [|discriminate].
    inversion H; subst. cbn. f_equal. apply IH. reflexivity.
Qed.

(* THE PROPERTY, row by row *)
Theorem readspec_row_i sv w reqs out :
  (forall r, In r reqs -> valid_req r) -> uniform sv w ->
  readspec_core sv w reqs = Some out ->
  exists rows,
    mapM (spec_row sv w) reqs = Some rows /\
    length out = length reqs /\
    forall i r, nth_error reqs i = Some r ->
      exists f row,
        find_file sv (r_plate r) (r_mjd r) = Some f /\
        ext1 w f (r_fiber r) = Some row /\
        nth_error rows i = Some row /\
        length row <= npixmax rows /\
        nth_error out i = Some (if padded w then pad (npixmax rows) row else row).
Proof.
  intros Hv Hu H.
  destruct (readspec_core_Some_rows sv w reqs out Hv H) as [rows Hrows].
  exists rows. split; [exact Hrows|].
  assert (reqs <> []) as Hne.
  { intros ->. cbn in H. discriminate. }
  rewrite (readspec_core_correct sv w reqs rows Hv Hu Hne Hrows) in H. inversion H as [Hout]. clear H.
  pose proof (mapM_length _ _ _ Hrows) as Hlen.
  split.
  - destruct (padded w); rewrite ?map_length; exact Hlen.
  - intros i r Hi. destruct (mapM_nth _ _ _ _ _ Hrows Hi) as (row & Hrow & Hnth).
    unfold spec_row in Hrow.
    destruct (find_file sv (r_plate r) (r_mjd r)) as [f|] eqn:Ef; [|discriminate].
    exists f, row. split; [reflexivity|]. split; [exact Hrow|]. split; [exact Hnth|].
    split; [apply npixmax_bound; eapply nth_error_In; exact Hnth|].
    destruct (padded w); [rewrite nth_error_map, Hnth; reflexivity|exact Hnth].
Qed.

(* ---------- wavelengths *)

Lemma loglam_row f p : p < f_npix f ->
  nth_error (loglam0 f) p = Some (f_c0 f + f_c1 f * Z.of_nat p)%Z.
Proof.
  intros H. unfold loglam0. rewrite nth_error_map, nth_error_seq by exact H. reflexivity.
Qed.

Lemma loglam_length f : length (loglam0 f) = f_npix f.
Proof. unfold loglam0. rewrite map_length, seq_length. reflexivity. Qed.

(* ---------- well-formed surveys give rectangular HDUs *)

Definition rect_b (a : img) : bool := forallb (fun r => length r =? width a) a.
Definition wf_file (f : file) : bool :=
  forallb rect_b (f_imgs f) && forallb rect_b (f_tabs f) && forallb rect_b (f_zbest f) && forallb rect_b (f_zall f).
Definition wf_survey (sv : survey) : bool := forallb wf_file sv.

Lemma row1_in rows n r : row1 rows n = Some r -> In r rows.
Proof. unfold row1. destruct (n <? 1)%Z; [discriminate|]. apply nth_error_In. Qed.

Lemma rect_b_nth (l : list img) c r fb : forallb rect_b l = true -> row1 (nth c l []) fb = Some r ->
  length r = width (nth c l []).
Proof.
  intros H Hr. apply row1_in in Hr.
  destruct (Nat.lt_ge_cases c (length l)) as [Hc|Hc].
  - rewrite forallb_forall in H. specialize (H (nth c l []) (nth_In _ _ Hc)).
    unfold rect_b in H. rewrite forallb_forall in H. apply Nat.eqb_eq. apply H. exact Hr.
  - rewrite nth_overflow in Hr by exact Hc. destruct Hr.
Qed.

Lemma wf_survey_uniform sv w : wf_survey sv = true -> uniform sv w.
Proof.
  intros H f fb fb' r r' Hf E E'.
  unfold wf_survey in H. rewrite forallb_forall in H. specialize (H f Hf).
  unfold wf_file in H. rewrite !andb_true_iff in H. destruct H as [[[H1 H2] H3] H4].
  destruct w as [h| |c|c|c z]; cbn [ext1] in E, E'.
  - rewrite (rect_b_nth _ _ _ _ H1 E), (rect_b_nth _ _ _ _ H1 E'). reflexivity.
  - congruence.
  - rewrite (rect_b_nth _ _ _ _ H2 E), (rect_b_nth _ _ _ _ H2 E'). reflexivity.
  - rewrite (rect_b_nth _ _ _ _ H3 E), (rect_b_nth _ _ _ _ H3 E'). reflexivity.
  - rewrite (rect_b_nth _ _ _ _ H4 E), (rect_b_nth _ _ _ _ H4 E'). reflexivity.
Qed.

(* ---------- whole calls: every output of the model equals the specification *)

Lemma sequenceM_map_ext {A B} (f g : A -> option B) l :
  (forall x, In x l -> f x = g x) -> sequenceM (map f l) = sequenceM (map g l).
Proof. intros H. rewrite (map_ext_in f g l H). reflexivity. Qed.

Theorem readspec_model_eq_S sv plate mjd fiber znum reqs :
  wf_survey sv = true ->
  request_vectors sv plate mjd fiber = Some reqs ->
  (forall r, In r reqs -> valid_req r) ->
  readspec_model sv plate mjd fiber znum = readspec_S sv reqs znum.
Proof.
  intros Hwf Hreq Hv. unfold readspec_model, readspec_S. rewrite Hreq.
  apply sequenceM_map_ext. intros w _. apply readspec_core_eq_spec; [exact Hv|].
  apply wf_survey_uniform. exact Hwf.
Qed.

(* ---------- calling conventions produce the request list one expects *)

Lemma zip3_nth a b c i x y z :
  nth_error a i = Some x -> nth_error b i = Some y -> nth_error c i = Some z ->
  nth_error (zip3 a b c) i = Some (x, y, z).
Proof.
  revert b c i; induction a as [|x0 a IH]; intros b c i Ha Hb Hc; [destruct i; discriminate|].
  destruct b as [|y0 b]; [destruct i; discriminate|]. destruct c as [|z0 c]; [destruct i; discriminate|].
  destruct i as [|i]; cbn [nth_error zip3] in *.
  - inversion Ha; inversion Hb; inversion Hc; subst. reflexivity.
  - apply IH; assumption.
Qed.

Lemma zip3_length a b c : length b = length a -> length c = length a -> length (zip3 a b c) = length a.
Proof.
  revert b c; induction a as [|x a IH]; intros b c Hb Hc; [reflexivity|].
  destruct b; [discriminate|]. destruct c; [discriminate|]. cbn in *. f_equal. apply IH; lia.
Qed.

(* vector plate, vector mjd, vector fiber of the same length (>= 2): request i = (plate_i, mjd_i, fiber_i) *)
Lemma request_vectors_vector sv ps ms fs :
  1 < length ps -> length ms = length ps -> length fs = length ps ->
  request_vectors sv (Ar ps) (Some (Ar ms)) (Ar fs) = Some (zip3 ps ms fs).
Proof.
  intros H1 Hm Hf. unfold request_vectors. cbn [alen avals]. rewrite Hf, Hm.
  assert ((1 <? length ps) = true) as -> by (apply Nat.ltb_lt; exact H1).
  rewrite Nat.eqb_refl. cbn [negb andb].
  assert ((length ps =? 0) = false) as -> by (apply Nat.eqb_neq; lia). cbn [orb]. reflexivity.
Qed.

(* scalar plate and mjd, vector of fibers: every request is for that plate and mjd *)
Lemma request_vectors_scalar_plate sv p m fs :
  1 < length fs ->
  request_vectors sv (Sc p) (Some (Sc m)) (Ar fs) = Some (zip3 (repeat p (length fs)) (repeat m (length fs)) fs).
Proof.
  intros H. unfold request_vectors. cbn [alen avals hd].
  change (1 <? 1)%nat with false. change (1 =? 1)%nat with true. change (1 =? 0)%nat with false.
  cbn [andb negb orb].
  assert ((length fs =? 0)%nat = false) as -> by (apply Nat.eqb_neq; lia).
  rewrite repeat_length.
  assert ((1 <? length fs)%nat = true) as -> by (apply Nat.ltb_lt; exact H). reflexivity.
Qed.

(* all scalars: one request *)
Lemma request_vectors_scalar sv p m fb :
  request_vectors sv (Sc p) (Some (Sc m)) (Sc fb) = Some [(p, m, fb)].
Proof. reflexivity. Qed.

(* mjd omitted: the latest MJD of each plate is used *)
Lemma request_vectors_latest sv ps fs :
  1 < length ps -> length fs = length ps ->
  request_vectors sv (Ar ps) None (Ar fs) = Some (zip3 ps (map (latest_mjd sv) ps) fs).
Proof.
  intros H1 Hf. unfold request_vectors. cbn [alen avals]. rewrite Hf.
  assert ((1 <? length ps) = true) as -> by (apply Nat.ltb_lt; exact H1).
  rewrite Nat.eqb_refl. cbn [negb andb].
  assert ((length ps =? 0) = false) as -> by (apply Nat.eqb_neq; lia). reflexivity.
Qed.

(* latest_mjd is the largest MJD of the plate's files *)
Open Scope Z_scope.

Lemma latest_mjd_fold sv p a :
  let r := fold_left (fun acc f => if (f_plate f =? p) && (acc <? f_mjd f) then f_mjd f else acc) sv a in
  a <= r /\ (forall f, In f sv -> f_plate f = p -> f_mjd f <= r) /\
  (r = a \/ exists f, In f sv /\ f_plate f = p /\ f_mjd f = r).
Proof.
  revert a; induction sv as [|g sv IH]; intros a; cbn [fold_left].
  - cbv zeta. split; [lia|]. split; [intros f []|left; reflexivity].
  - cbv zeta. set (a' := if (f_plate g =? p) && (a <? f_mjd g) then f_mjd g else a).
    destruct (IH a') as (H1 & H2 & H3).
    assert (a <= a') as Ha.
    { unfold a'. destruct (f_plate g =? p); cbn [andb]; [|lia]. destruct (a <? f_mjd g) eqn:E; [|lia].
      apply Z.ltb_lt in E. lia. }
    split; [lia|]. split.
    + intros f [<-|Hf] Hp; [|apply H2; assumption].
      assert (f_mjd g <= a'); [|lia]. unfold a'. rewrite Hp, Z.eqb_refl. cbn [andb].
      destruct (a <? f_mjd g) eqn:E; [lia|]. apply Z.ltb_ge in E. exact E.
    + destruct H3 as [H3|(f & Hf & Hp & Hm)].
      * unfold a' in H3 at 2.
        destruct (f_plate g =? p) eqn:Ep; cbn [andb] in H3; [|left; exact H3].
        destruct (a <? f_mjd g) eqn:E; [|left; exact H3].
        right. exists g. split; [left; reflexivity|]. apply Z.eqb_eq in Ep. split; [exact Ep|]. symmetry. exact H3.
      * right. exists f. split; [right; exact Hf|]. split; assumption.
Qed.

Lemma latest_mjd_spec sv p :
  (forall f, In f sv -> f_plate f = p -> f_mjd f <= latest_mjd sv p) /\
  (latest_mjd sv p = 0 \/ exists f, In f sv /\ f_plate f = p /\ f_mjd f = latest_mjd sv p).
Proof.
  unfold latest_mjd. destruct (latest_mjd_fold sv p 0) as (_ & H2 & H3). split; assumption.
Qed.

(* ---------- "row fiber-1" *)

Lemma row1_spec rows n row : row1 rows n = Some row -> 1 <= n /\ nth_error rows (Z.to_nat (n - 1)) = Some row.
Proof.
  unfold row1. destruct (n <? 1) eqn:E; [discriminate|]. apply Z.ltb_ge in E. intros H. split; [exact E|exact H].
Qed.

Lemma row_is_fiber_minus_1 f fiber row :
  (forall h, ext1 (WImg h) f fiber = Some row ->
     1 <= fiber /\ nth_error (nth h (f_imgs f) []) (Z.to_nat (fiber - 1)) = Some row) /\
  (forall c, ext1 (WTab c) f fiber = Some row ->
     1 <= fiber /\ nth_error (nth c (f_tabs f) []) (Z.to_nat (fiber - 1)) = Some row) /\
  (forall c, ext1 (WZbest c) f fiber = Some row ->
     1 <= fiber /\ nth_error (nth c (f_zbest f) []) (Z.to_nat (fiber - 1)) = Some row) /\
  (forall c z, ext1 (WZall c z) f fiber = Some row ->
     nth_error (nth c (f_zall f) []) (Z.to_nat ((fiber - 1) * f_nper f + z - 1)) = Some row).
Proof.
  repeat split; intros; cbn [ext1] in *;
    match goal with H : row1 _ _ = Some _ |- _ => apply row1_spec in H; destruct H end; assumption.
Qed.
