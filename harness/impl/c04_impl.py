"""Runs pydl.pydlutils.spheregroup.spherematch of the repository under test on a list of calls
(JSON on stdin -> JSON on stdout) and records, by wrapping `chunks` and the module's `np` from this
process (no change to pydl), the discrete data the Coq model needs: nRa, every getbounds() result
(None when it raised), every get() result, the argsort permutation, the final chunkList.
The full brute-force separation table is computed with the implementation's own gcirc, called exactly
as spherematch calls it (scalar arguments, units=2, /3600.0)."""
import json
import sys
import warnings

import numpy as np

import pydl
import pydl.pydlutils.spheregroup as SG
from pydl.pydlutils import PydlutilsException

_orig_chunks = SG.chunks
_orig_np = SG.np
REC = {}


def _ramargin_test():
    """the test under which getbounds uses the arcsine margin, taken from the source of the repository under test
    (names: marginSize, sinMargin, cosDec, dec, ra); falls back to `sinMargin < cosDec`"""
    import ast
    import inspect
    import textwrap
    try:
        tree = ast.parse(textwrap.dedent(inspect.getsource(_orig_chunks.getbounds)))
        for n in ast.walk(tree):
            if isinstance(n, ast.If) and len(n.body) == 1 and isinstance(n.body[0], ast.Assign) and \
                    isinstance(n.body[0].targets[0], ast.Name) and n.body[0].targets[0].id == 'raMargin':
                return compile(ast.Expression(n.test), '<getbounds raMargin test>', 'eval'), ast.unparse(n.test)
    except Exception:  # noqa: BLE001
        pass
    return compile('sinMargin < cosDec', '<default>', 'eval'), 'sinMargin < cosDec (default)'


_RM_TEST, _RM_TEXT = _ramargin_test()


class RecChunks(_orig_chunks):
    def __init__(self, ra, dec, minSize):
        REC.clear()
        REC.update({'bounds': [], 'cells': [], 'perm': None, 'minSize': float(minSize)})
        super().__init__(ra, dec, minSize)
        REC['nRa'] = [int(x) for x in self.nRa]
        REC['nDec'] = int(self.nDec)
        REC['decBounds'] = [float(x) for x in self.decBounds]
        REC['raBounds'] = [[float(x) for x in rb] for rb in self.raBounds]
        REC['raOffset'] = float(self.raOffset)
        # what decides the grid (round 5): list-1 RA extremes after the rotation, the cosines chunks.__init__ used
        # (recomputed with the same numpy expressions; cos is an input of the exact-rational grid model)
        REC['raMin'] = float(self.raMin)
        REC['raMax'] = float(self.raMax)
        REC['cos'] = [float(self.cosDecMin(i)) for i in range(self.nDec)]
        if abs(self.decBounds[self.nDec]) > abs(self.decBounds[0]):
            REC['cos0'] = float(np.cos(np.deg2rad(self.decBounds[self.nDec])))
        else:
            REC['cos0'] = float(np.cos(np.deg2rad(self.decBounds[0])))
        REC['obj'] = self

    def getbounds(self, ra, dec, marginSize):
        # arguments of the call, and raMargin recomputed with the same numpy expressions as the (repaired) getbounds
        sinMargin = np.sin(np.deg2rad(marginSize))
        cosDec = np.cos(np.deg2rad(dec))
        try:
            clear = bool(eval(_RM_TEST, {'np': np}, {'marginSize': marginSize, 'sinMargin': sinMargin, 'cosDec': cosDec, 'dec': dec, 'ra': ra}))
        except Exception:  # noqa: BLE001
            clear = bool(sinMargin < cosDec)
        raMargin = float(np.rad2deg(np.arcsin(sinMargin / cosDec))) if clear else 360.0
        REC.setdefault('gbargs', []).append([float(ra), float(dec), float(marginSize), raMargin])
        try:
            r = super().getbounds(ra, dec, marginSize)
        except PydlutilsException as e:
            REC['bounds'].append(None)
            REC.setdefault('getbounds_errors', []).append(str(e)[:60])
            raise
        raMin, raMax, dMin, dMax = r
        REC['bounds'].append([int(dMin), [[int(a), int(b)] for a, b in zip(raMin, raMax)], int(dMax)])
        return r

    def get(self, ra, dec):
        REC.setdefault('getargs', []).append([float(ra), float(dec)])
        r = super().get(ra, dec)
        REC['cells'].append([int(r[1]), int(r[0])])   # (decChunk, raChunk)
        return r


class RecArray(np.ndarray):
    def argsort(self, *a, **k):
        s = np.asarray(self).argsort(*a, **k)
        REC['perm'] = [int(x) for x in s]
        return s


class NPProxy(object):
    """stands for the numpy module inside spheregroup.py; np.array(...) returns an array whose argsort is recorded"""

    def __getattr__(self, name):
        return getattr(_orig_np, name)

    def array(self, *a, **k):
        r = _orig_np.array(*a, **k)
        if r.ndim == 1:
            return r.view(RecArray)
        return r


def sep_table(ra1, dec1, ra2, dec2):
    return [[float(SG.gcirc(ra1[i], dec1[i], ra2[k], dec2[k], units=2) / 3600.0) for k in range(ra2.size)]
            for i in range(ra1.size)]


def laid(values, dtype, layout):
    """a 1-D coordinate array holding `values` with the requested memory layout / byte order (round 6, class B)"""
    dt = np.dtype(dtype)
    n = len(values)
    if layout in (None, 'contig'):
        return np.array(values, dtype=dt)
    if layout == 'strided':                      # every other element of a buffer whose other elements are junk
        buf = np.full(2 * n + 1, 77, dtype=dt)
        buf[1::2] = values
        return buf[1::2]
    if layout == 'reversed':                     # negative stride
        return np.array(list(values)[::-1], dtype=dt)[::-1]
    if layout == 'col2d':                        # a column of a C-ordered 2-D table (catalogue[:, k])
        m = np.full((n, 3), 55, dtype=dt)
        m[:, 1] = values
        return m[:, 1]
    if layout == 'fortran-row':                  # a row of a Fortran-ordered table
        m = np.asfortranarray(np.full((2, n), 33, dtype=dt))
        m[1, :] = values
        return m[1, :]
    if layout == 'bigendian':
        return np.array(values, dtype=dt.newbyteorder('>'))
    if layout == 'readonly':
        a = np.array(values, dtype=dt)
        a.flags.writeable = False
        return a
    raise ValueError('unknown layout %r' % (layout,))


def scalar(v, kind):
    """the scalar arguments (matchlength, chunksize, maxmatch) in the Python / NumPy type the case asks for (class E)"""
    if kind in (None, 'float', 'explicit-None'):     # (explicit-None: limit_cost replaced the None by a number)
        return float(v)
    if kind == 'int':
        return int(v)
    if kind == 'bool':
        return bool(v)
    if kind == '0-d':
        return np.array(v)
    if kind == '0-d-float':
        return np.array(float(v))
    if kind == '1-elem':
        return np.array([float(v)])
    return getattr(np, kind)(v)                  # float64, float32, int64, int32, int8, uint8, int16 ...


def arrays(c):
    dt = c.get('dtype') or {}
    lay = c.get('layout') or {}
    mk = lambda k: laid(c[k], dt.get(k, 'd'), lay.get(k))     # noqa: E731
    ra1, dec1 = mk('ra1'), mk('dec1')
    if c.get('second') == 'same-object':        # the caller passes the very same arrays twice
        return ra1, dec1, ra1, dec1
    return (ra1, dec1, mk('ra2'), mk('dec2'))


def call_kw(c):
    at = c.get('argtypes') or {}
    kw = {'maxmatch': scalar(c['maxmatch'], at.get('maxmatch', 'int'))}
    if c.get('chunksize') is not None:
        kw['chunksize'] = scalar(c['chunksize'], at.get('chunksize'))
    elif at.get('chunksize') == 'explicit-None':
        kw['chunksize'] = None
    return scalar(c['L'], at.get('L')), kw


def one(c):
    ra1, dec1, ra2, dec2 = arrays(c)   # dtypes per case (default float64); `second: same-object` passes list 1 twice
    out = {'sep': sep_table(ra1, dec1, ra2, dec2)}
    L, kw = call_kw(c)
    record = c.get('record', True)
    REC.clear()
    if record:
        SG.chunks = RecChunks
        SG.np = NPProxy()
    try:
        with warnings.catch_warnings(record=True) as w:
            warnings.simplefilter('always')
            m1, m2, d12 = SG.spherematch(ra1, dec1, ra2, dec2, L, **kw)
        out['ok'] = {'m1': [int(x) for x in m1], 'm2': [int(x) for x in m2], 'd': [float(x) for x in d12]}
        out['warnings'] = [str(x.message)[:80] for x in w]
    except Exception as e:  # noqa: BLE001 -- the error class is the observation
        out['err'] = type(e).__name__
        out['msg'] = str(e)[:160]
    finally:
        SG.chunks = _orig_chunks
        SG.np = _orig_np
    if record and 'nRa' in REC:
        obj = REC.pop('obj', None)
        rec = {k: REC.get(k) for k in ('nRa', 'nDec', 'decBounds', 'raBounds', 'raOffset', 'bounds', 'cells', 'perm',
                                       'minSize', 'getbounds_errors', 'gbargs', 'getargs', 'raMin', 'raMax', 'cos', 'cos0')}
        if obj is not None:
            rec['chunklist'] = [[i, j, [int(x) for x in obj.chunkList[i][j]]]
                                for i in range(obj.nDec) for j in range(obj.nRa[i]) if len(obj.chunkList[i][j]) > 0]
        out['rec'] = rec
    return out


def plain_call(c, ra1, dec1, ra2, dec2):
    L, kw = call_kw(c)
    with warnings.catch_warnings():
        warnings.simplefilter('ignore')
        return SG.spherematch(ra1, dec1, ra2, dec2, L, **kw)


def screen(c):
    """uncertified screening (maxmatch = 0 cases): is the returned pair set the brute-force one?  -> True = suspicious"""
    ra1, dec1, ra2, dec2 = arrays(c)
    try:
        m1, m2, d12 = plain_call(c, ra1, dec1, ra2, dec2)
    except Exception:  # noqa: BLE001
        return True
    got = sorted(zip([int(x) for x in m1], [int(x) for x in m2]))
    if int(c['maxmatch']) != 0:
        return len(set(got)) != len(got)
    L = float(c['L'])
    want = []
    for i in range(ra1.size):
        s = SG.gcirc(ra1[i], dec1[i], ra2, dec2, units=2) / 3600.0
        want += [(i, int(k)) for k in np.nonzero(s < L)[0]]
    return got != sorted(want)


def history(calls):
    """several calls in THIS process, one after the other, with the unwrapped module: every returned object is kept and
    only read after the last call (so a result that a later call overwrites shows up); caller-owned input arrays are
    compared with copies taken before each call"""
    held = []
    out = []
    prev = None
    for c in calls:
        arrs = arrays(c)
        reused = None
        if c.get('reuse') and prev is not None:
            # class A (round 6): the caller refills the coordinate arrays of the PREVIOUS call in place and passes the same
            # objects again ('first': ra1/dec1, 'second': ra2/dec2, 'both')
            idxs = {'first': (0, 1), 'second': (2, 3), 'both': (0, 1, 2, 3)}[c['reuse']]
            reused = all(prev[k].shape == arrs[k].shape and prev[k].dtype == arrs[k].dtype and prev[k].flags.writeable for k in idxs)
            if reused:
                arrs = list(arrs)
                for k in idxs:
                    prev[k][...] = arrs[k]
                    arrs[k] = prev[k]
                arrs = tuple(arrs)
        prev = arrs
        before = [a.copy() for a in arrs]
        r = {'sep': sep_table(*arrs), 'reused': reused}
        try:
            res = plain_call(c, *arrs)
            r['immediate'] = {'m1': [int(x) for x in res[0]], 'm2': [int(x) for x in res[1]], 'd': [float(x) for x in res[2]]}
            held.append(res)
        except Exception as e:  # noqa: BLE001
            r['err'] = type(e).__name__
            r['msg'] = str(e)[:160]
            held.append(None)
        r['inputs_unchanged'] = all(a.dtype == b.dtype and a.tobytes() == b.tobytes() for a, b in zip(arrs, before))
        out.append(r)
    for r, res in zip(out, held):
        if res is not None:
            r['ok'] = {'m1': [int(x) for x in res[0]], 'm2': [int(x) for x in res[1]], 'd': [float(x) for x in res[2]]}
    return out


def main():
    calls = json.load(sys.stdin)
    if isinstance(calls, dict) and calls.get('mode') == 'screen':
        json.dump({'pydl_file': pydl.__file__, 'suspicious': [k for k, c in enumerate(calls['cases']) if screen(c)]}, sys.stdout)
        return
    if isinstance(calls, dict) and calls.get('mode') == 'history':
        json.dump({'pydl_file': pydl.__file__, 'histories': [history(h) for h in calls['histories']]}, sys.stdout)
        return
    json.dump({'pydl_file': pydl.__file__, 'numpy': np.__version__, 'ramargin_test': _RM_TEXT, 'results': [one(c) for c in calls]}, sys.stdout)


if __name__ == '__main__':
    main()
