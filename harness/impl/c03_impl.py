"""Runs write/append histories on the REAL pydl.pydlutils.yanny.yanny class (C03).

stdin : JSON {'workdir': path, 'jobs': [{'id': str, 'doc': DOC, 'raw': bool, 'ops': [OP, ...]}]}
stdout: JSON {'pydl_file': ..., 'results': [{'id', 'init': {...}, 'steps': [STEP, ...]}]}

DOC as in c01_impl.  The history starts from write_ndarray_to_yanny(<dir>/f0.par, ...) (raw: the file is then
opened with yanny(path, raw=True)); a job with a 'text' field starts from that text written to f0.par and read with
yanny(path, raw=raw) (hand-written files: char columns of undeclared length).  The clock used by yanny.append() is patched: every op carries its own
'clock' text, so the '# Appended by yanny.py at <clock>.' line is deterministic.

OP  {'op': 'write', 'path': name|None, 'comments': [str] | str | None, 'cform': 'list'|'tuple'|'str'|'none'|'absent', 'clock': str}
    {'op': 'append', 'entries': [ENTRY], 'clock': str}
    {'op': 'append_missing', 'path': name, 'entries': [ENTRY], 'clock': str}   (filename temporarily set to a missing file)
    {'op': 'reread'}
ENTRY {'k': key, 'text': value} | {'k': key, 'table': index of the table in DOC, 'rows': [[cell]], 'form': 'lists'|'recarray'}
STEP  outcome class, file name of the object, [sha1, size, mtime_ns] of every file in the directory ('DIR' for a directory),
      dump of the object, dump of a fresh yanny(filename) re-read, caller_data_changed (the dict / record arrays / comment
      list handed to the call differ afterwards), bystander_changed (a second live object's dump changed).
A job may carry 'plant': [{'name', 'cls', 'hex'}] -- files (or a directory) that are already there when the history starts:
zero bytes, a lone newline, blanks only, another yanny file, garbage, a directory, a read-only file.
"""
import hashlib
import json
import os
import shutil
import sys
import warnings
from collections import OrderedDict

import numpy as np

sys.path.insert(0, os.path.dirname(os.path.abspath(__file__)))
from c01_impl import build_array, bits_to_float, dump_yanny, guarded  # noqa: E402

import pydl
import pydl.pydlutils.yanny as ymod
from pydl.pydlutils.yanny import yanny, write_ndarray_to_yanny
from pydl.pydlutils import PydlutilsException, PydlutilsUserWarning


class _FakeNow(object):
    def __init__(self, text):
        self.text = text

    def strftime(self, fmt):
        return self.text


class _FakeDatetimeClass(object):
    current = 'CLOCK-NOT-SET'

    @classmethod
    def utcnow(cls):
        return _FakeNow(cls.current)

    @classmethod
    def now(cls, tz=None):
        return _FakeNow(cls.current)


class _FakeDatetimeModule(object):
    datetime = _FakeDatetimeClass
    UTC = None
    timezone = None


def list_value(code, v):
    if isinstance(v, dict):
        return bits_to_float(code, v['f'])     # numpy scalar of the column's width
    return v                                    # python int / str


def entry_value(doc, e):
    t = doc['tables'][e['table']]
    if e['form'] == 'recarray':
        return build_array({'cols': t['cols'], 'rows': e['rows']})
    cols = OrderedDict()
    for j, c in enumerate(t['cols']):
        col = []
        for r in e['rows']:
            v = r[j]
            col.append([list_value(c['code'], x) for x in v] if isinstance(v, list) else list_value(c['code'], v))
        cols[c['name']] = col
    return cols


def build_dict(doc, entries):
    d = OrderedDict()
    for e in entries:
        d[e['k']] = e['text'] if 'text' in e else entry_value(doc, e)
    return d


def snapshot(dirname):
    """every entry of the directory: a file as [sha1, size, mtime_ns], a directory as 'DIR'"""
    out = {}
    for f in sorted(os.listdir(dirname)):
        p = os.path.join(dirname, f)
        if os.path.isdir(p):
            out[f] = 'DIR'
            continue
        with open(p, 'rb') as fh:
            data = fh.read()
        st = os.stat(p)
        out[f] = [hashlib.sha1(data).hexdigest(), st.st_size, st.st_mtime_ns]
    return out


def plant(dirname, item):
    """a file that is already there when the history starts"""
    p = os.path.join(dirname, item['name'])
    if item['cls'] == 'dir':
        os.mkdir(p)
        return
    with open(p, 'wb') as fh:
        fh.write(bytes.fromhex(item['hex']))
    if item['cls'] == 'readonly':
        os.chmod(p, 0o444)


def fingerprint(v):
    """the caller's data, bit for bit"""
    if isinstance(v, np.ndarray):
        return ['ndarray', str(v.dtype.descr), list(v.shape), v.tobytes().hex()]
    if isinstance(v, dict):
        return ['dict', [[k, fingerprint(x)] for k, x in v.items()]]
    if isinstance(v, (list, tuple)):
        return [type(v).__name__, [fingerprint(x) for x in v]]
    if isinstance(v, np.generic):
        return ['scalar', str(v.dtype), v.tobytes().hex()]
    return [type(v).__name__, repr(v)]


def classify(exc):
    if exc is None:
        return 'ok'
    if isinstance(exc, PydlutilsException):
        return 'PydlutilsException'
    return type(exc).__name__


def observe(par, dirname, raw):
    ob = {'filename': os.path.basename(par.filename) if par.filename else '', 'files': snapshot(dirname), 'bytes_hex': None}
    if par.filename and os.path.isfile(par.filename):
        with open(par.filename, 'rb') as fh:
            ob['bytes_hex'] = fh.read().hex()
    ob['object'] = guarded(lambda: dump_yanny(par, raw=raw))
    if par.filename and os.path.isfile(par.filename):
        ob['reread'] = guarded(lambda: dump_yanny(yanny(par.filename, raw=raw), raw=raw))
    else:
        ob['reread'] = None
    return ob


def run_history(job, workdir):
    doc = job['doc']
    raw = bool(job.get('raw'))
    dirname = os.path.join(workdir, job['id'])
    if os.path.isdir(dirname):
        shutil.rmtree(dirname)
    os.makedirs(dirname, exist_ok=True)
    for item in job.get('plant') or []:
        plant(dirname, item)
    res = {'id': job['id'], 'steps': []}
    arrays = [build_array(t) for t in doc['tables']] if job.get('text') is None else []
    names = [t['name'] for t in doc['tables']]
    hdr = OrderedDict((k, v) for k, v in doc['hdr']) if doc.get('hdr') is not None else None
    enums = OrderedDict((e[0], (e[1], list(e[2]))) for e in doc['enums']) if doc.get('enums') is not None else None
    p0 = os.path.join(dirname, 'f0.par')
    try:
        if job.get('text') is not None:
            # a hand-written file (e.g. char columns of undeclared length): the history starts from a READ
            with open(p0, 'wb') as fh:
                fh.write(job['text'].encode('latin-1'))
            par = yanny(p0, raw=raw)
        else:
            par = write_ndarray_to_yanny(p0, tuple(arrays), structnames=tuple(names), enums=enums, hdr=hdr,
                                         comments=list(doc['comments']))
            if raw:
                par = yanny(p0, raw=True)
    except Exception as e:  # noqa: BLE001
        res['init'] = {'exc': type(e).__name__, 'msg': str(e)[:200]}
        return res
    res['init'] = observe(par, dirname, raw)
    # a second object alive in the same process: read from a planted yanny file with the same table names if there is one,
    # else a second read of the object's own file; it must never change, whatever happens to the first object
    other = None
    try:
        twin = [it['name'] for it in (job.get('plant') or []) if it['cls'] == 'yanny']
        other = yanny(os.path.join(dirname, twin[0]) if twin else p0, raw=raw)
        other_dump = json.dumps(guarded(lambda: dump_yanny(other, raw=raw)), sort_keys=True)
    except Exception:  # noqa: BLE001
        other = None
    for op in job['ops']:
        exc = None
        warned = False
        _FakeDatetimeClass.current = op.get('clock', 'CLOCK-NOT-SET')
        with warnings.catch_warnings(record=True) as wl:
            warnings.simplefilter('always')
            try:
                handed = None
                if op['op'] == 'write':
                    target = os.path.join(dirname, op['path']) if op['path'] is not None else None
                    # round 6: the comments option in every form the docstring allows -- a list (default here), a tuple,
                    # ONE string (op['comments'] is then a str), None (the time-stamped default header), or not given
                    cform = op.get('cform', 'list')
                    handed = {'list': list, 'tuple': tuple, 'str': str}.get(cform, lambda x: None)(op.get('comments'))
                    fp0 = fingerprint(handed)
                    if cform == 'absent':
                        par.write(target)
                    else:
                        par.write(target, comments=handed)
                elif op['op'] == 'append':
                    handed = build_dict(doc, op['entries'])
                    fp0 = fingerprint(handed)
                    par.append(handed)
                elif op['op'] == 'append_missing':
                    saved = par.filename
                    par.filename = os.path.join(dirname, op['path'])
                    handed = build_dict(doc, op['entries'])
                    fp0 = fingerprint(handed)
                    try:
                        par.append(handed)
                    finally:
                        par.filename = saved
                elif op['op'] == 'reread':
                    par = yanny(par.filename, raw=raw)
                else:
                    raise RuntimeError('bad op')
            except Exception as e:  # noqa: BLE001 - the class of the exception is the observation
                exc = e
            warned = any(issubclass(w.category, PydlutilsUserWarning) for w in wl)
        st = observe(par, dirname, raw)
        st['caller_data_changed'] = bool(handed is not None and fingerprint(handed) != fp0)
        st['bystander_changed'] = bool(other is not None and
                                       json.dumps(guarded(lambda: dump_yanny(other, raw=raw)), sort_keys=True) != other_dump)
        st['outcome'] = classify(exc) if exc is not None else ('warning' if warned else 'ok')
        st['msg'] = str(exc)[:160] if exc is not None else ''
        res['steps'].append(st)
        if st['outcome'] not in ('ok', 'warning', 'PydlutilsException'):
            break
    return res


def main():
    req = json.load(sys.stdin)
    workdir = req['workdir']
    os.makedirs(workdir, exist_ok=True)
    ymod.datetime = _FakeDatetimeModule
    results = [run_history(job, workdir) for job in req['jobs']]
    json.dump({'pydl_file': pydl.__file__, 'results': results}, sys.stdout)


if __name__ == '__main__':
    warnings.simplefilter('ignore')
    main()
