"""Runs the real pydl.pydlutils.yanny code for C01/C02 (also usable by C03).

stdin : JSON {'workdir': path, 'jobs': [job, ...]}
stdout: JSON {'pydl_file': ..., 'results': [result, ...]}

job kinds
  {'kind': 'write', 'id': str, 'entry': 'ndarray'|'table_func'|'table_write', 'doc': DOC}
      build numpy record arrays / astropy Tables from DOC, write them with the real writer to
      <workdir>/<id>.par, read the file back in every supported way, dump everything.
  {'kind': 'read', 'id': str, 'text_hex': hex}        (C02)
      write the bytes to <workdir>/<id>.par and read them with yanny(path), yanny(text file object),
      yanny(binary file object), raw and non-raw.

DOC = {'comments': [str], 'hdr': [[key, value]] | None, 'enums': [[col, tname, [labels]]] | None,
       'tables': [{'name': str, 'cols': [{'name': str, 'code': 'i4'|'f8'|'S5'|'U3'|..., 'arr': n|None}],
                   'rows': [[cell]]}]}
cell: int | str | {'f': bits(int)} | list of those.  Floats travel as raw bit patterns of the column's width.
"""
import json
import os
import struct
import sys
import traceback
from collections import OrderedDict

import numpy as np
from astropy.table import Table
from astropy.io.registry import register_identifier, register_reader, register_writer

import pydl
from pydl.pydlutils.yanny import (yanny, write_ndarray_to_yanny, write_table_yanny, read_table_yanny, is_yanny)

try:
    register_identifier('yanny', Table, is_yanny)
    register_reader('yanny', Table, read_table_yanny)
    register_writer('yanny', Table, write_table_yanny)
except Exception:  # already registered
    pass


def bits_to_float(code, bits):
    if code == 'f4':
        return np.frombuffer(struct.pack('<I', bits), dtype='<f4')[0]
    return np.frombuffer(struct.pack('<Q', bits), dtype='<f8')[0]


def float_to_bits(x, width):
    if width == 4:
        return int(np.array([x], dtype='<f4').view('<u4')[0])
    return int(np.array([x], dtype='<f8').view('<u8')[0])


def conv_in(code, v):
    if isinstance(v, dict):
        return bits_to_float(code, v['f'])
    if isinstance(v, str):
        return v if code[0] == 'U' else v.encode('latin-1')
    return v


def build_array(t):
    dt = []
    for c in t['cols']:
        if c.get('arr') is not None:
            dt.append((c['name'], c['code'], (c['arr'],)))
        else:
            dt.append((c['name'], c['code']))
    a = np.zeros((len(t['rows']),), dtype=np.dtype(dt))
    for j, c in enumerate(t['cols']):
        col = []
        for r in t['rows']:
            v = r[j]
            if isinstance(v, list):
                col.append([conv_in(c['code'], x) for x in v])
            else:
                col.append(conv_in(c['code'], v))
        if len(col):
            a[c['name']] = np.array(col, dtype=c['code'])
    return a


LAYOUTS = ('packed', 'aligned', 'offsets', 'wide_view', 'reordered_view', 'strided_view', 'reversed_view', 'bigendian', 'recarray')
_JUNK = [('junk_a', 'u1'), ('junk_b', 'c16'), ('junk_c', 'u2'), ('junk_d', 'b1'), ('junk_e', 'f2', (3,))]


def relayout(a, layout, salt=0):
    """The same rows and columns (names, order, types, values) held in another memory layout (round 6, classes B / G):
    an aligned dtype, explicit offsets with gaps, a multi-field selection of a WIDER record array (a view that keeps the
    offsets of the wide record; the fields left out may be of any type), a selection that reorders the fields, every
    second row / the rows backwards of a longer array (non-contiguous), big-endian fields, a recarray view."""
    if layout in (None, 'packed'):
        return a
    names = list(a.dtype.names)
    spec = [(n, a.dtype[n]) for n in names]

    def filled(b):
        for n in names:
            b[n] = a[n]
        return b
    if layout == 'recarray':
        return a.view(np.recarray)
    if layout == 'aligned':
        return filled(np.zeros(a.shape, dtype=np.dtype(spec, align=True)))
    if layout == 'bigendian':
        return filled(np.zeros(a.shape, dtype=np.dtype([(n, d.newbyteorder('>')) for n, d in spec])))
    if layout == 'offsets':
        offs = []
        off = 1 + salt % 3
        for k, (n, d) in enumerate(spec):
            offs.append(off)
            off += d.itemsize + (salt + 3 * k) % 6
        return filled(np.zeros(a.shape, dtype=np.dtype({'names': names, 'formats': [d for _, d in spec], 'offsets': offs,
                                                        'itemsize': off + salt % 4})))
    # views of a wider record array
    wide = []
    for k, f in enumerate(spec):
        if (salt + k) % 2 == 0:
            j = _JUNK[(salt + k) % len(_JUNK)]
            wide.append((j[0] + str(k),) + tuple(j[1:]))
        wide.append(f)
    wide.append(('junk_tail', 'i8'))
    if layout == 'reordered_view':
        wide = list(reversed(wide))
    n = a.shape[0]
    if layout == 'strided_view':
        big = np.zeros((2 * n + 1,), dtype=np.dtype(wide))
        big.view('u1')[...] = 0xA5                       # junk everywhere, then the rows at the even places
        sel = big[names][::2][:n]
        for nm in names:
            big[nm][0:2 * n:2] = a[nm]
        return sel
    if layout == 'reversed_view':
        big = np.zeros((n,), dtype=np.dtype(wide))
        for nm in names:
            big[nm] = a[nm][::-1]
        return big[names][::-1]
    big = np.zeros((n,), dtype=np.dtype(wide))
    for nm in names:
        big[nm] = a[nm]
    return big[names]


def hdr_value(v):
    """a header value as the caller's Python object: str, or {'py': type tag, 'v': value} (round 6, class E)"""
    if isinstance(v, dict):
        t, x = v['py'], v['v']
        return {'int': int, 'float': float, 'bool': bool, 'npint': np.int64, 'npint32': np.int32, 'npfloat': np.float64,
                'npfloat32': np.float32, 'npbool': np.bool_, 'npstr': np.str_}[t](x)
    return v


def dump_cell(x):
    if isinstance(x, (np.ndarray, list, tuple)):
        return [dump_cell(y) for y in x]
    if isinstance(x, (bytes, np.bytes_)):
        return {'s': bytes(x).decode('latin-1')}
    if isinstance(x, (str, np.str_)):
        return {'s': str(x)}
    if isinstance(x, np.float32):
        return {'f': float_to_bits(x, 4), 'w': 4}
    if isinstance(x, (float, np.floating)):
        return {'f': float_to_bits(float(x), 8), 'w': 8}
    if isinstance(x, (int, np.integer)):
        return int(x)
    return {'other': repr(x)}


def dump_yanny(par, raw=False):
    """Everything observable of a yanny object, JSON-able."""
    out = {'pairs': [[k, par[k] if isinstance(par[k], str) else {'nonstr': repr(par[k])}] for k in par.pairs()],
           'enums': list(par._symbols.get('enum', [])), 'structs': list(par._symbols.get('struct', [])),
           'tables': []}
    for t in par.tables():
        cols = par.columns(t)
        tab = {'name': t, 'cols': [], 'rows': []}
        if not raw:
            dt = par.dtype(t)
            rec = par[t]
            tab['rec_dtype_equal'] = bool(rec.dtype == dt)
            for c in cols:
                f = dt.fields[c][0]
                if f.subdtype is not None:
                    base, shape = f.subdtype
                    tab['cols'].append({'name': c, 'type': par.type(t, c), 'np': base.str, 'arr': int(shape[0]),
                                        'ndim': len(shape)})
                else:
                    tab['cols'].append({'name': c, 'type': par.type(t, c), 'np': f.str, 'arr': None})
            tab['size'] = int(par.size(t))
            for k in range(len(rec)):
                tab['rows'].append([dump_cell(rec[c][k]) for c in cols])
        else:
            for c in cols:
                try:
                    ty = par.type(t, c)
                except Exception as e:  # noqa: BLE001
                    ty = None
                tab['cols'].append({'name': c, 'type': ty})
            n = max([len(par[t][c]) for c in cols]) if cols else 0
            tab['col_lengths'] = [len(par[t][c]) for c in cols]
            for k in range(n):
                tab['rows'].append([dump_cell(par[t][c][k]) for c in cols if k < len(par[t][c])])
        out['tables'].append(tab)
    return out


def dump_table(tb):
    out = {'meta': [[k, tb.meta[k] if isinstance(tb.meta[k], str) else {'nonstr': repr(tb.meta[k])}] for k in tb.meta],
           'cols': [], 'rows': []}
    for c in tb.colnames:
        f = tb[c].dtype
        shape = tb[c].shape[1:]
        out['cols'].append({'name': c, 'np': f.str, 'arr': int(shape[0]) if shape else None})
    for k in range(len(tb)):
        out['rows'].append([dump_cell(tb[c][k]) for c in tb.colnames])
    return out


def guarded(f):
    try:
        return {'ok': f()}
    except BaseException as e:  # noqa: BLE001 - the error class is the observation
        tb = traceback.extract_tb(e.__traceback__)
        where = '%s:%s' % (os.path.basename(tb[-1].filename), tb[-1].name) if tb else ''
        return {'exc': type(e).__name__, 'msg': str(e)[:200], 'where': where}


_SLOT = [0]
_BYSTANDER = {}


def slot_path(workdir, job):
    """Jobs of one process share a few file names, each rewritten again and again with other content: a reader state
    remembered per path (or per process) from an earlier file shows up as a wrong re-read of a later one."""
    if job.get('keep'):
        return os.path.join(workdir, job['id'] + '.par')
    _SLOT[0] += 1
    return os.path.join(workdir, 'slot%d.par' % (_SLOT[0] % 2))


def fingerprint(arrays, hdr, enums):
    """the caller's data, bit for bit: record arrays (dtype + bytes), header and enum dictionaries (order included)"""
    return ([(repr(a.dtype), tuple((n, a.dtype.fields[n][1]) for n in a.dtype.names), type(a).__name__, a.shape, a.strides,
              [np.ascontiguousarray(a[n]).tobytes().hex() for n in a.dtype.names])      # per field: padding bytes are not content
             for a in arrays],
            None if hdr is None else [(k, repr(v)) for k, v in hdr.items()],
            None if enums is None else [(k, repr(v)) for k, v in enums.items()])


def bystander_check():
    """a second object alive in the process must not be influenced by later reads and writes"""
    b = _BYSTANDER.get('obj')
    if b is None:
        return None
    now = json.dumps(guarded(lambda: dump_yanny(b)), sort_keys=True)
    return None if now == _BYSTANDER['dump'] else 'the dump of an earlier, still alive yanny object changed'


def bystander_adopt(par):
    if _BYSTANDER.get('obj') is None and par is not None:
        d = guarded(lambda: dump_yanny(par))
        if 'ok' in d and d['ok'].get('tables'):
            _BYSTANDER['obj'] = par
            _BYSTANDER['dump'] = json.dumps(d, sort_keys=True)


def job_write(job, workdir):
    doc = job['doc']
    path = slot_path(workdir, job)
    if os.path.exists(path):
        os.remove(path)
    res = {'id': job['id']}
    layouts = job.get('layouts') or []
    arrays = [relayout(build_array(t), layouts[i] if i < len(layouts) else None, salt=i + len(t['cols']) + len(t['rows']))
              for i, t in enumerate(doc['tables'])]
    names = [t['name'] for t in doc['tables']]
    hdr = None
    if doc.get('hdr') is not None:
        typed = job.get('hdr_py') or {}
        hdr = OrderedDict((k, hdr_value(typed.get(k, v))) for k, v in doc['hdr'])
    enums = None
    if doc.get('enums') is not None:
        enums = OrderedDict((e[0], (e[1], list(e[2]))) for e in doc['enums'])
    entry = job['entry']
    overwrite = job.get('overwrite')          # None: the keyword is not passed; False / True: passed explicitly
    held = {}

    def do_write(target=None):
        target = target or path
        if entry == 'ndarray':
            data = arrays[0] if (len(arrays) == 1 and job.get('single')) else (list(arrays) if job.get('as_list') else tuple(arrays))
            sn = names[0] if (len(arrays) == 1 and job.get('single')) else (list(names) if job.get('as_list') else tuple(names))
            if job.get('default_names'):
                sn = None           # structnames=None: the writer names the tables itself
            par = write_ndarray_to_yanny(target, data, structnames=sn, enums=enums, hdr=hdr, comments=list(doc['comments']))
            held['par'] = par
            return dump_yanny(par)
        tb = Table(arrays[0])
        if hdr:
            tb.meta = hdr
        kw = {} if overwrite is None else {'overwrite': overwrite}
        if entry == 'table_func':
            write_table_yanny(tb, target, tablename=names[0], **kw)
        else:
            tb.write(target, format='yanny', tablename=names[0], **kw)
        return None
    if job.get('over') is not None:
        # round 6: the target exists already and holds OTHER tables / pairs; overwrite=True must replace it entirely
        od = job['over']
        seed = guarded(lambda: (write_ndarray_to_yanny(
            path, tuple(build_array(t) for t in od['tables']), structnames=tuple(t['name'] for t in od['tables']),
            hdr=(OrderedDict((k, v) for k, v in od['hdr']) if od.get('hdr') else None),
            enums=(OrderedDict((e[0], (e[1], list(e[2]))) for e in od['enums']) if od.get('enums') else None),
            comments=['older file']), None)[1])
        if 'exc' in seed:
            # the older document is a valid document too: a writer that raises on it is judged like any failed write
            # (the replay holds the whole job, 'over' included); never let the exception end the runner
            res['write'] = seed
            res['over_seed_failed'] = True
            res['caller_data_changed'] = None
            res['bystander_changed'] = None
            res['file_hex'] = None
            if os.path.exists(path):
                os.remove(path)
            return res
    if job.get('reuse'):
        # round 6 (class A): the SAME array objects and header dictionary were written before with other content and then
        # edited in place; the second write must show the content as it is now
        final = [a.copy() for a in arrays]
        fhdr = None if hdr is None else list(hdr.items())
        for a in arrays:
            if a.shape[0] > 1:
                a[...] = a[::-1].copy()
        if hdr is not None:
            for k in hdr:
                hdr[k] = 'earlier value'
        first = path + '.first'
        if os.path.exists(first):
            os.remove(first)
        res['first_write'] = guarded(lambda: (do_write(first), None)[1])
        if os.path.exists(first):
            os.remove(first)
        for a, f in zip(arrays, final):
            a[...] = f
        if hdr is not None:
            for k, v in fhdr:
                hdr[k] = v
    before = fingerprint(arrays, hdr, enums)
    res['write'] = guarded(do_write)
    after = fingerprint(arrays, hdr, enums)
    res['caller_data_changed'] = None if before == after else 'arrays / hdr / enums handed to the writer differ after the call'
    res['bystander_changed'] = bystander_check()
    if held.get('par') is not None and 'ok' in res['write']:
        # round 6 (class A): the returned object must not alias the caller's arrays -- edit them, look at the object again
        saved = [a.copy() for a in arrays]
        for a in arrays:
            for n in a.dtype.names:
                a[n] = np.zeros_like(a[n])
        again = guarded(lambda: dump_yanny(held['par']))
        for a, f in zip(arrays, saved):
            a[...] = f
        if json.dumps(again, sort_keys=True) != json.dumps(res['write'], sort_keys=True):
            res['alias_changed'] = 'the returned yanny object changed when the caller edited its own arrays after the call'
    if os.path.exists(path):
        with open(path, 'rb') as f:
            res['file_hex'] = f.read().hex()
        keep = {}

        def reread():
            keep['par'] = yanny(path)
            return dump_yanny(keep['par'])
        res['reread'] = guarded(reread)
        bystander_adopt(keep.get('par'))
        if entry != 'ndarray':
            res['table_func'] = guarded(lambda: dump_table(read_table_yanny(path, names[0])))
            res['table_read'] = guarded(lambda: dump_table(Table.read(path, format='yanny', tablename=names[0])))
    else:
        res['file_hex'] = None
    return res


def job_read(job, workdir):
    path = slot_path(workdir, job)
    data = bytes.fromhex(job['text_hex'])
    with open(path, 'wb') as f:
        f.write(data)
    res = {'id': job['id']}
    res['path'] = guarded(lambda: dump_yanny(yanny(path)))
    res['path_raw'] = guarded(lambda: dump_yanny(yanny(path, raw=True), raw=True))

    def textobj(raw):
        with open(path, 'r') as f:
            return dump_yanny(yanny(f, raw=raw), raw=raw)

    def binobj(raw):
        with open(path, 'rb') as f:
            return dump_yanny(yanny(f, raw=raw), raw=raw)
    res['text'] = guarded(lambda: textobj(False))
    res['text_raw'] = guarded(lambda: textobj(True))
    res['bin'] = guarded(lambda: binobj(False))
    res['bin_raw'] = guarded(lambda: binobj(True))
    res['bystander_changed'] = bystander_check()
    if _BYSTANDER.get('obj') is None:
        try:
            bystander_adopt(yanny(path))
        except Exception:  # noqa: BLE001 - a text the reader refuses cannot be the bystander
            pass
    if not job.get('keep'):
        os.remove(path)
    return res


def job_floattext(job, workdir):
    """str(np.float32/64(x)) and float(text) for raw bit patterns (the two float-text oracles, observed)."""
    out = []
    for code, bits in job['values']:
        x = bits_to_float(code, bits)
        t = str(x)
        y = float(t)
        y = np.float32(y) if code == 'f4' else np.float64(y)
        out.append({'text': t, 'back_bits': float_to_bits(y, 4 if code == 'f4' else 8)})
    return {'id': job['id'], 'values': out}


def job_glue(job, workdir):
    """Entry-point glue of write_ndarray_to_yanny / write_table_yanny / read_table_yanny: refusals and options."""
    from pydl.pydlutils import PydlutilsException
    res = {'id': job['id'], 'obs': {}}
    a = np.zeros((2,), dtype=[('x', 'i4'), ('s', 'S3')])
    a['x'] = [1, -2]
    a['s'] = [b'ab', b'c d']
    o = res['obs']

    def path(n):
        p = os.path.join(workdir, 'glue_%s.par' % n)
        if os.path.exists(p):
            os.remove(p)
        return p

    def exc_of(f):
        try:
            f()
            return None
        except BaseException as e:  # noqa: BLE001
            return type(e).__name__
    # 1. more tables than names
    p = path('mismatch')
    o['names_mismatch'] = {'exc': exc_of(lambda: write_ndarray_to_yanny(p, (a, a), structnames=('ONE',))), 'file': os.path.exists(p)}
    # 2. the file exists already: refused, content untouched
    p = path('exists')
    write_ndarray_to_yanny(p, a, structnames='T')
    before = open(p, 'rb').read()
    o['file_exists'] = {'exc': exc_of(lambda: write_ndarray_to_yanny(p, a, structnames='OTHER')), 'same': open(p, 'rb').read() == before}
    o['table_exists'] = {'exc': exc_of(lambda: write_table_yanny(Table(a), p, tablename='OTHER')), 'same': open(p, 'rb').read() == before}
    # 3. overwrite=True replaces the file and the new one reads back
    b = a.copy()
    b['x'] = [7, 8]
    o['overwrite'] = {'exc': exc_of(lambda: write_table_yanny(Table(b), p, tablename='NEW', overwrite=True))}
    try:
        par = yanny(p)
        o['overwrite']['tables'] = par.tables()
        o['overwrite']['x'] = [int(v) for v in par['NEW']['x']]
    except BaseException as e:  # noqa: BLE001
        o['overwrite']['reread_exc'] = type(e).__name__
    # 4. read_table_yanny: the table name is required, an unknown one is a KeyError
    o['read_noname'] = {'exc': exc_of(lambda: read_table_yanny(p))}
    o['read_unknown'] = {'exc': exc_of(lambda: read_table_yanny(p, 'NOSUCH'))}
    o['read_lowercase'] = {'exc': exc_of(lambda: read_table_yanny(p, 'new'))}
    # 5. unsupported column types through the Table route: refused, nothing written
    for code in ('b1', 'u2', 'i1', 'f2', 'c8'):
        p = path('unsup_' + code)
        t = Table(np.zeros((1,), dtype=[('x', 'i4'), ('q', code)]))
        o['table_unsupported_' + code] = {'exc': exc_of(lambda: write_table_yanny(t, p, tablename='U')), 'file': os.path.exists(p)}
        p = path('unsupw_' + code)
        o['tablewrite_unsupported_' + code] = {'exc': exc_of(lambda: t.write(p, format='yanny', tablename='U')), 'file': os.path.exists(p)}
    o['exception_class'] = PydlutilsException.__name__
    # 6. round 6 (class C): importing the package the way a user does and one write / read / maskbits load, in a FRESH
    #    interpreter, leave the process-global settings of numpy / warnings / astropy.io.fits / os.environ as they were
    import subprocess
    script = r'''
import json, os, sys, warnings
import numpy as np
import astropy.io.fits as fits
for _m in ('astropy.table', 'astropy.io.registry', 'astropy.units', 'astropy.utils.data', 'astropy.tests.runner', 'astropy.wcs', 'astropy.time',
           'scipy', 'scipy.special', 'scipy.linalg', 'scipy.optimize', 'scipy.signal', 'scipy.interpolate', 'scipy.sparse'):
    try:
        __import__(_m)          # third-party imports (astropy.table installs a warnings filter of its own) come first
    except Exception:
        pass
def snap():
    return {'np.geterr': dict(np.geterr()), 'np.printoptions': {k: repr(v) for k, v in np.get_printoptions().items()},
            'warnings.filters': [repr(f) for f in warnings.filters],
            'fits.conf': {k: repr(getattr(fits.conf, k)) for k in ('enable_uint', 'use_memmap', 'lazy_load_hdus', 'strip_header_whitespace',
                                                                   'extension_name_case_sensitive', 'enable_record_valued_keyword_cards')},
            'os.environ': dict(os.environ), 'sys.path': list(sys.path), 'float_repr': [repr(0.1), str(np.float32(0.1)), str(np.float64(1e22))]}
s0 = snap()
import pydl
from pydl.pydlutils.yanny import yanny, write_ndarray_to_yanny
from pydl.pydlutils.sdss import sdss_flagval, set_maskbits
import pydl.pydlutils.sdss as S
s1 = snap()
a = np.zeros((2,), dtype=[('x', 'f8'), ('s', 'S3')])
p = sys.argv[1]
write_ndarray_to_yanny(p, a, structnames='T', hdr={'k': 1.5})
yanny(p)['T']
with open(p + '.mask', 'w') as f:
    f.write('typedef struct {\n char flag[20];\n short bit;\n char label[30];\n char description[100];\n} maskbits;\nmaskbits G 0 A "a"\n')
S.maskbits = set_maskbits(maskbits_file=p + '.mask')
sdss_flagval('G', 'A')
s2 = snap()
def diff(a, b):
    return sorted(k for k in a if json.dumps(a[k], sort_keys=True) != json.dumps(b[k], sort_keys=True))
json.dump({'import': diff(s0, s1), 'use': diff(s1, s2)}, sys.stdout)
'''
    p = path('globals')
    env = dict(os.environ)
    try:
        cp = subprocess.run([sys.executable, '-W', 'default', '-c', script, p], capture_output=True, text=True, env=env, timeout=300)
        o['process_globals'] = json.loads(cp.stdout) if cp.returncode == 0 else {'exc': 'exit %d' % cp.returncode, 'msg': cp.stderr[-300:]}
    except Exception as e:  # noqa: BLE001
        o['process_globals'] = {'exc': type(e).__name__, 'msg': str(e)[:200]}
    return res


def main():
    req = json.load(sys.stdin)
    workdir = req['workdir']
    os.makedirs(workdir, exist_ok=True)
    results = []
    for job in req['jobs']:
        if job['kind'] == 'write':
            results.append(job_write(job, workdir))
        elif job['kind'] == 'read':
            results.append(job_read(job, workdir))
        elif job['kind'] == 'floattext':
            results.append(job_floattext(job, workdir))
        elif job['kind'] == 'glue':
            results.append(job_glue(job, workdir))
        else:
            results.append({'id': job.get('id'), 'error': 'bad job'})
    json.dump({'pydl_file': pydl.__file__, 'numpy': np.__version__, 'results': results}, sys.stdout)


if __name__ == '__main__':
    import warnings
    warnings.simplefilter('ignore')
    main()
