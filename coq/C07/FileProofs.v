(* C07 proofs, round 2: (a) the parametrised model at std_cfg is the model the theorems are about,
   (b) the theorems at file level (from the bytes, through Yanny.Parse.parse_raw), (c) repeated labels. *)
From Coq Require Import NArith ZArith List Bool Lia Sorting.Permutation Sorting.Sorted.
Import ListNotations.
From PV Require Import Yanny.Bytes Yanny.Types Yanny.Parse C07.Model C07.Dict C07.Group C07.Proofs C07.FileModel.
Open Scope Z_scope.

(* ------------------------------------------------------------------ (a) std_cfg *)

Lemma flagval_loop_c_std grp ls : forall acc, flagval_loop_c std_cfg grp ls acc = flagval_loop grp ls acc.
Proof.
  induction ls as [|l ls IH]; intros acc; cbn [flagval_loop_c flagval_loop]; [reflexivity|].
  destruct grp as [g|]; [|reflexivity]. destruct (dget l g) as [b|]; [|reflexivity].
  destruct (b <? 0); [reflexivity|]. rewrite IH. reflexivity.
Qed.

Lemma flagval_c_std m g ls : flagval_c std_cfg m g ls = flagval m g ls.
Proof. unfold flagval_c. rewrite flagval_loop_c_std. reflexivity. Qed.

Lemma flagname_loop_c_std grp bits : forall acc, flagname_loop_c std_cfg grp bits acc = flagname_loop grp bits acc.
Proof.
  induction bits as [|b bits IH]; intros acc; cbn [flagname_loop_c flagname_loop]; [reflexivity|].
  destruct grp as [g|]; [|reflexivity]. rewrite IH. reflexivity.
Qed.

(* never let conversion unfold [set_bits v] for a variable v: compare the two scans as constants applied to v *)
Lemma set_bits_c_std v : set_bits_c std_cfg v = set_bits v.
Proof. unfold set_bits_c, set_bits. f_equal. Qed.

Lemma flagname_c_std m g v : flagname_c std_cfg m g v = flagname m g v.
Proof.
  unfold flagname_c, flagname. rewrite flagname_loop_c_std, set_bits_c_std.
  generalize (set_bits v). intros bits. reflexivity.
Qed.

Lemma assemble_std l f which fe we :
  assemble l f which (ret4_get std_ret4 fe we) = l :: (if fe then [f] else []) ++ (if we then which else []).
Proof. destruct fe, we; cbn; rewrite ?app_nil_r; reflexivity. Qed.

Lemma flagexist_c_std m g ls fe we : flagexist_c std_cfg m g ls fe we = flagexist m g ls fe we.
Proof. unfold flagexist_c, flagexist. cbn [c_exist_ret c_exist_all c_upper_group c_upper_labels std_cfg norm]. rewrite assemble_std. reflexivity. Qed.

Lemma model_call_c_std m k : model_call_c std_cfg m k = model_call m k.
Proof.
  destruct k; cbn [model_call_c model_call];
    rewrite ?flagval_c_std, ?flagname_c_std, ?flagexist_c_std; try reflexivity.
  - destruct (flagname m g v); try reflexivity. apply flagval_c_std.
  - destruct (flagval m g labels); try reflexivity. apply flagname_c_std.
Qed.

(* a configuration with the standard values is the standard model *)
Theorem cfg_std (c : cfg) : c = std_cfg ->
  (forall rows aliases, load_c c rows aliases = load true rows aliases) /\
  (forall m k, model_call_c c m k = model_call m k).
Proof. intros ->. split; [reflexivity|apply model_call_c_std]. Qed.

(* ------------------------------------------------------------------ (b) file level *)

Lemma from_file_load up b r rows aliases :
  parse_raw b = Some r -> file_tables r = Some (rows, aliases) -> from_file up b = load up rows aliases.
Proof. intros Hp Ht. unfold from_file, file_rows. rewrite Hp. cbn [obind]. rewrite Ht. reflexivity. Qed.

Section FromFile.
Variables (b : bytes) (r : rdoc) (rows : list row) (aliases : list arow) (m : table).
Hypothesis Hparse : parse_raw b = Some r.
Hypothesis Htab : file_tables r = Some (rows, aliases).
Hypothesis Hwf : wf_file rows aliases = true.

Lemma file_load_total : exists m0, from_file true b = Some m0.
Proof. rewrite (from_file_load true b r rows aliases Hparse Htab). apply load_total. exact Hwf. Qed.

Hypothesis Hfile : from_file true b = Some m.

Lemma file_is_load : load true rows aliases = Some m.
Proof. rewrite <- (from_file_load true b r rows aliases Hparse Htab). exact Hfile. Qed.

Theorem file_model_refines_spec k s : spec_call rows aliases k = Some s -> model_call_c std_cfg m k = s.
Proof. intros H. rewrite model_call_c_std. apply (model_refines_spec rows aliases m Hwf file_is_load k s H). Qed.

Theorem file_flagval_is_or g ls bs : known rows aliases g = true -> distinct_labels ls = true ->
  bits_of (defs rows aliases g) (map upper ls) = Some bs ->
  flagval m g ls = RVal (or_bits bs) /\ 0 <= or_bits bs < 2 ^ 64 /\
  (forall n, Z.testbit (or_bits bs) n = true <-> In n bs).
Proof. apply (flagval_is_or rows aliases m Hwf file_is_load). Qed.

Theorem file_flagname_spec g v : known rows aliases g = true -> in_u64 v = true ->
  exists pairs, flagname m g v = RNames (map fst pairs) /\
    StronglySorted lt_snd pairs /\
    (forall l b0, In (l, b0) pairs <-> In (l, b0) (defs rows aliases g) /\ Z.testbit v b0 = true).
Proof. apply (flagname_spec rows aliases m Hwf file_is_load). Qed.

Theorem file_val_names_val g v : known rows aliases g = true -> in_u64 v = true ->
  match flagname m g v with RNames ns => flagval m g ns | r0 => r0 end
  = RVal (Z.land v (defined_mask (defs rows aliases g))).
Proof. apply (val_names_val rows aliases m Hwf file_is_load). Qed.

Theorem file_names_val_names g ls bs : known rows aliases g = true -> distinct_labels ls = true ->
  bits_of (defs rows aliases g) (map upper ls) = Some bs ->
  exists ns, match flagval m g ls with RVal v => flagname m g v | r0 => r0 end = RNames ns /\
             Permutation ns (map upper ls) /\ ns = spec_names (defs rows aliases g) (or_bits bs).
Proof. apply (names_val_names rows aliases m Hwf file_is_load). Qed.

Theorem file_alias_same f a : In (f, a) aliases ->
  (forall ls, flagval m a ls = flagval m f ls) /\
  (forall v, flagname m a v = flagname m f v) /\
  (forall ls fe we, flagexist m a ls fe we = flagexist m f ls fe we).
Proof. apply (alias_same rows aliases m Hwf file_is_load). Qed.

Theorem file_unknown_keyerror g : known rows aliases g = false ->
  (forall ls, ls <> [] -> flagval m g ls = RKeyError) /\
  (forall v, in_u64 v = true -> v <> 0 -> flagname m g v = RKeyError).
Proof. apply (unknown_group_keyerror rows aliases m Hwf file_is_load). Qed.

End FromFile.

(* ------------------------------------------------------------------ (c) repeated labels: `+=` counts them twice *)

Definition pow_sum (bs : list Z) : Z := fold_right (fun b acc => 2 ^ b + acc) 0 bs.

Lemma sum_mod_sum bs : forall acc, 0 <= acc < two64 -> sum_mod bs acc = (acc + pow_sum bs) mod two64.
Proof.
  assert (0 < two64) as Hpos by (unfold two64; lia).
  induction bs as [|b bs IH]; intros acc Hacc.
  - cbn [pow_sum fold_right]. unfold sum_mod. cbn [fold_left]. rewrite Z.add_0_r. symmetry. apply Z.mod_small. exact Hacc.
  - rewrite sum_mod_cons. rewrite IH by (apply Z.mod_pos_bound; exact Hpos).
    cbn [pow_sum fold_right]. fold (pow_sum bs).
    rewrite Zplus_mod_idemp_l.
    replace (acc + 2 ^ b mod two64 + pow_sum bs) with (2 ^ b mod two64 + (acc + pow_sum bs)) by lia.
    rewrite Zplus_mod_idemp_l. f_equal. lia.
Qed.

(* any list of defined labels, repeated or not: the value is the SUM of 2^bit with multiplicity, reduced mod 2^64 *)
Theorem repeated_labels_group d ls bs : Forall (fun lb => 0 <= snd lb < 64) d -> bits_of d ls = Some bs ->
  flagval_loop (Some d) ls 0 = RVal (pow_sum bs mod two64).
Proof.
  intros Hr Hb. rewrite (flagval_loop_ok d Hr ls bs 0 Hb). f_equal.
  rewrite sum_mod_sum by (unfold two64; lia). reflexivity.
Qed.

Theorem repeated_labels_behaviour rows aliases m :
  wf_file rows aliases = true -> load true rows aliases = Some m ->
  forall g ls bs, known rows aliases g = true -> bits_of (defs rows aliases g) (map upper ls) = Some bs ->
  flagval m g ls = RVal (pow_sum bs mod two64).
Proof.
  intros Hwf Hload g ls bs K Hb. unfold flagval. rewrite (table_get rows aliases m Hwf Hload), K.
  destruct (defs_wf rows aliases Hwf g) as (_ & _ & Hr). apply repeated_labels_group; assumption.
Qed.

(* in particular: a label given twice counts twice -- bit b < 63 gives 2^(b+1) (the next bit!), bit 63 gives 0 *)
Corollary label_twice rows aliases m :
  wf_file rows aliases = true -> load true rows aliases = Some m ->
  forall g l l' b0, known rows aliases g = true -> upper l = upper l' ->
  dget (upper l) (defs rows aliases g) = Some b0 ->
  flagval m g [l; l'] = RVal (if b0 =? 63 then 0 else 2 ^ (b0 + 1)).
Proof.
  intros Hwf Hload g l l' b0 K El Hg.
  rewrite (repeated_labels_behaviour rows aliases m Hwf Hload g [l; l'] [b0; b0] K).
  - destruct (defs_wf rows aliases Hwf g) as (_ & _ & Hr).
    assert (0 <= b0 < 64) as Hb.
    { apply dget_In in Hg. rewrite Forall_forall in Hr. apply (Hr (upper l, b0) Hg). }
    f_equal. cbn [pow_sum fold_right]. rewrite Z.add_0_r. unfold two64.
    destruct (Z.eqb_spec b0 63) as [->|Hne].
    + reflexivity.
    + replace (2 ^ b0 + 2 ^ b0) with (2 ^ (b0 + 1)) by (rewrite Z.pow_add_r by lia; lia).
      apply Z.mod_small. split; [apply Z.pow_nonneg; lia|apply Z.pow_lt_mono_r; lia].
  - cbn [map]. rewrite !bits_of_cons. unfold bit_of. rewrite <- El, Hg. reflexivity.
Qed.
