(* C12 -- real-number meaning of the numpy functions used by cap_distance (np.degrees, np.clip) and the
   monotonicity of acos.  Hand-written; Generated/MangleR.v (the formula extracted from the source) uses it. *)
From Coq Require Import Reals Lra.
Open Scope R_scope.

Lemma acos_le_iff a b : -1 <= a <= 1 -> -1 <= b <= 1 -> (acos a <= acos b <-> b <= a).
Proof.
  intros Ha Hb.
  pose proof (acos_bound a) as Ba. pose proof (acos_bound b) as Bb.
  split; intro H.
  - rewrite <- (cos_acos a Ha), <- (cos_acos b Hb).
    apply cos_decr_1; lra.
  - apply cos_decr_0; try lra.
    rewrite (cos_acos a Ha), (cos_acos b Hb). exact H.
Qed.

(* np.degrees multiplies by the positive constant 180/PI: it does not change a sign test *)
Definition degrees (r : R) : R := r * (180 / PI).

Lemma degrees_nonneg r : 0 <= degrees r <-> 0 <= r.
Proof.
  unfold degrees. assert (0 < 180 / PI) as K.
  { apply Rdiv_lt_0_compat; [lra | apply PI_RGT_0]. }
  split; intro H.
  - apply (Rmult_le_reg_r (180 / PI)); [exact K|]. lra.
  - apply Rmult_le_pos; lra.
Qed.

(* np.radians *)
Definition radians (r : R) : R := r * (PI / 180).

(* np.clip(d, lo, hi) *)
Definition clipR (lo hi d : R) : R := Rmax lo (Rmin hi d).
Definition clip (d : R) : R := clipR (-1) 1 d.

Lemma clip_bounds d : -1 <= clip d <= 1.
Proof.
  unfold clip, clipR. split; [apply Rmax_l|].
  apply Rmax_lub; [lra | apply Rmin_l].
Qed.

Lemma clip_id d : -1 <= d <= 1 -> clip d = d.
Proof. intros H. unfold clip, clipR. rewrite Rmin_right by lra. rewrite Rmax_right by lra. reflexivity. Qed.

Lemma clip_above d : 1 <= d -> clip d = 1.
Proof. intros H. unfold clip, clipR. rewrite Rmin_left by lra. rewrite Rmax_right by lra. reflexivity. Qed.
