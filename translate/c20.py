"""C20 extractor: control skeleton of the functions that touch os.environ -> coq/Generated/EnvSkeletons.v

Two parts.

1. `Graph`: a conservative call graph over every module of <repo>/pydl (tests excluded).  For every function,
   method and module body it records the environment operations it performs directly (reads with their
   variable names, writes, and uses that cannot be classified -- counted as writes) and the pydl functions it may
   reach: names resolved through the module's own definitions and its (absolute or relative, module- or
   function-level) imports, attributes of imported pydl modules, every method of an instantiated/mentioned class,
   and -- for `x.attr` with an unknown `x` -- every method of that name in any pydl class.  From it:
     * may_write(f): f, or anything reachable from f, contains an os.environ write
       (item assignment, del, pop, setdefault, update, clear, popitem, putenv/unsetenv, or an unclassified use);
     * reads(f): the environment variables read by anything reachable from f.

2. `Tr`: the skeleton translator.  A statement of an entry point "touches" the environment when it mentions
   os.environ directly or references a function with may_write.  A call `g(...)` by plain name that resolves
   to exactly one pydl function (in whatever module) with may_write(g) is inlined under `Scope`; every other
   reference to a may_write function (inside a loop, a comprehension, through an attribute, as a value ...) cannot
   be placed in the skeleton and is recorded in `uninlined_writers` with the route to the write.  The generated
   file states `uninlined_writers`, and Props.v has the obligation `uninlined_writers = []`: "collaborators do
   not write the environment" is therefore re-checked from the source on every run.

Fail-closed: any use of os.environ (or os.putenv/unsetenv) in an entry point / inlined helper that is not one of the
recognised idioms raises Unrecognised.  Statements that do not touch the environment collapse to `Call` (they may
raise) or `Skip` (trivially safe).
"""
import ast
import os


class Unrecognised(Exception):
    pass


ENV_WRITE_METHODS = ('pop', 'setdefault', 'update', 'clear', 'popitem', '__setitem__', '__delitem__', '__ior__')
ENV_READ_METHODS = ('get', '__getitem__', '__contains__')
ENV_READALL_METHODS = ('keys', 'values', 'items', 'copy', '__iter__', '__len__')
OS_ENV_FUNCS = {'getenv': 'read', 'getenvb': 'read', 'putenv': 'write', 'unsetenv': 'write'}
DYNAMIC_NAMES = ('eval', 'exec', '__import__', 'compile')


def is_environ(node):
    return (isinstance(node, ast.Attribute) and node.attr == 'environ'
            and isinstance(node.value, ast.Name) and node.value.id == 'os')


def const_key(node):
    if isinstance(node, ast.Constant) and isinstance(node.value, str):
        return node.value
    return '*'


def parents_of(root, skip_function_bodies=False):
    """(node, parent) for every node below root.  With skip_function_bodies the bodies of function definitions are
    not entered (module-level code: a def only evaluates its decorators and defaults)."""
    stack = [(root, None)]
    while stack:
        node, parent = stack.pop()
        yield node, parent
        if skip_function_bodies and isinstance(node, (ast.FunctionDef, ast.AsyncFunctionDef, ast.Lambda)) and parent is not None:
            kids = list(getattr(node, 'decorator_list', [])) + list(node.args.defaults) + [d for d in node.args.kw_defaults if d is not None]
        else:
            kids = list(ast.iter_child_nodes(node))
        for k in kids:
            stack.append((k, node))


class ModInfo(object):
    def __init__(self, rel, dotted, tree):
        self.rel = rel
        self.dotted = dotted
        self.is_pkg = rel.endswith('__init__.py')
        self.pkg = dotted if self.is_pkg else dotted.rsplit('.', 1)[0]
        self.tree = tree
        self.funcs = {}       # qualname -> FunctionDef   ('f' or 'Class.m')
        self.classes = {}     # name -> ClassDef
        self.imports = {}     # local name -> ('mod', dotted) | ('obj', dotted module, name)
        self.envnames = set()     # local names bound to os.environ by `from os import environ [as x]`
        self.osfuncs = {}         # local name -> getenv/putenv/unsetenv imported from os
        for n in tree.body:
            if isinstance(n, (ast.FunctionDef, ast.AsyncFunctionDef)):
                self.funcs[n.name] = n
            elif isinstance(n, ast.ClassDef):
                self.classes[n.name] = n
                for m in n.body:
                    if isinstance(m, (ast.FunctionDef, ast.AsyncFunctionDef)):
                        self.funcs['%s.%s' % (n.name, m.name)] = m
        for n in ast.walk(tree):
            if isinstance(n, ast.Import):
                for a in n.names:
                    if a.name == 'pydl' or a.name.startswith('pydl.'):
                        if a.asname:
                            self.imports[a.asname] = ('mod', a.name)
                        else:
                            self.imports['pydl'] = ('mod', 'pydl')
            elif isinstance(n, ast.ImportFrom):
                base = self.resolve_from(n)
                for a in n.names:
                    local = a.asname or a.name
                    if base == 'os':
                        if a.name in ('environ', 'environb'):
                            self.envnames.add(local)
                        elif a.name in OS_ENV_FUNCS:
                            self.osfuncs[local] = a.name
                    elif base is not None and (base == 'pydl' or base.startswith('pydl.')):
                        self.imports[local] = ('obj', base, a.name)

    def resolve_from(self, n):
        if n.level == 0:
            return n.module
        parts = self.pkg.split('.')
        if n.level - 1 > 0:
            parts = parts[:len(parts) - (n.level - 1)]
        if not parts:
            return None
        return '.'.join(parts + ([n.module] if n.module else []))


class Graph(object):
    def __init__(self, repo):
        self.repo = repo
        self.mods = {}
        self.by_dotted = {}
        top = os.path.join(repo, 'pydl')
        for root, dirs, files in os.walk(top):
            dirs[:] = sorted(d for d in dirs if d not in ('tests', '__pycache__'))
            for fn in sorted(files):
                if not fn.endswith('.py'):
                    continue
                path = os.path.join(root, fn)
                rel = os.path.relpath(path, repo)
                dotted = rel[:-3].replace(os.sep, '.')
                if dotted.endswith('.__init__'):
                    dotted = dotted[:-9]
                try:
                    tree = ast.parse(open(path).read())
                except SyntaxError as e:
                    raise Unrecognised('cannot parse %s: %s' % (rel, e))
                m = ModInfo(rel, dotted, tree)
                self.mods[rel] = m
                self.by_dotted[dotted] = m
        self.methods_by_name = {}
        for m in self.mods.values():
            for q in m.funcs:
                if '.' in q:
                    self.methods_by_name.setdefault(q.split('.', 1)[1], set()).add((m.rel, q))
        self.all_methods = set(f for s in self.methods_by_name.values() for f in s)
        # per unit: direct environment operations and references
        self.ops = {}      # funcid -> {'reads': set, 'writes': [(what, line)], 'dynamic': [(what, line)]}
        self.refs = {}     # funcid -> set(funcid)
        for m in self.mods.values():
            self.ops[(m.rel, '<module>')], self.refs[(m.rel, '<module>')] = self.analyse(m, m.tree, True)
            for q, node in m.funcs.items():
                self.ops[(m.rel, q)], self.refs[(m.rel, q)] = self.analyse(m, node, False)
        # may_write with a witness route
        self.route = {}    # funcid -> list of funcids ending at a direct writer
        for f, o in self.ops.items():
            if o['writes']:
                self.route[f] = [f]
        changed = True
        while changed:
            changed = False
            for f, rs in self.refs.items():
                if f in self.route:
                    continue
                for g in sorted(rs):
                    if g in self.route:
                        self.route[f] = [f] + self.route[g]
                        changed = True
                        break

    # ---------- environment mentions
    def env_object(self, m, node):
        if isinstance(node, ast.Attribute) and node.attr in ('environ', 'environb'):
            return True
        return isinstance(node, ast.Name) and node.id in m.envnames

    def os_env_func(self, m, node):
        if isinstance(node, ast.Attribute) and node.attr in OS_ENV_FUNCS:
            return node.attr
        if isinstance(node, ast.Name) and node.id in m.osfuncs:
            return m.osfuncs[node.id]
        return None

    def env_ops_in(self, m, root, module_level=False):
        """direct environment operations below root: (kind, variable-or-'*', what, line), kind in read/write"""
        out0 = []
        out = out0
        pm = {}
        nodes = []
        assigned = {}     # local name -> values assigned to it (a string constant, or None for anything else)
        for node, parent in parents_of(root, module_level):
            pm[id(node)] = parent
            nodes.append(node)
            if isinstance(node, ast.Name) and isinstance(node.ctx, (ast.Store, ast.Del)):
                v = parent.value if isinstance(parent, ast.Assign) and len(parent.targets) == 1 and parent.targets[0] is node else None
                assigned.setdefault(node.id, []).append(v.value if isinstance(v, ast.Constant) and isinstance(v.value, str) else None)
            elif isinstance(node, ast.arg):
                assigned.setdefault(node.arg, []).append(None)

        def const_key(k):
            # a key held in a local name that is only ever assigned string constants: every one of them
            if isinstance(k, ast.Constant) and isinstance(k.value, str):
                return k.value
            if isinstance(k, ast.Name) and assigned.get(k.id) and all(v is not None for v in assigned[k.id]):
                return tuple(sorted(set(assigned[k.id])))
            return '*'
        for node in nodes:
            parent = pm[id(node)]
            fn = self.os_env_func(m, node)
            if fn is not None:
                if isinstance(parent, ast.Call) and parent.func is node:
                    key = const_key(parent.args[0]) if parent.args else '*'
                    out.append((OS_ENV_FUNCS[fn], key, 'os.%s' % fn, node.lineno))
                else:
                    out.append(('write', '*', 'os.%s used as a value' % fn, node.lineno))
                continue
            if not self.env_object(m, node):
                continue
            line = node.lineno
            if isinstance(parent, ast.Subscript) and parent.value is node:
                key = const_key(parent.slice)
                if isinstance(parent.ctx, ast.Load):
                    out.append(('read', key, 'environ[...]', line))
                elif isinstance(parent.ctx, ast.Del):
                    out.append(('write', key, 'del environ[...]', line))
                else:
                    out.append(('write', key, 'environ[...] = ...', line))
            elif isinstance(parent, ast.Attribute) and parent.value is node:
                gp = pm[id(parent)]
                meth = parent.attr
                if isinstance(gp, ast.Call) and gp.func is parent:
                    key = const_key(gp.args[0]) if gp.args else '*'
                    if meth in ENV_READ_METHODS:
                        out.append(('read', key, 'environ.%s' % meth, line))
                    elif meth in ENV_READALL_METHODS:
                        out.append(('read', '*', 'environ.%s' % meth, line))
                    elif meth in ENV_WRITE_METHODS:
                        out.append(('write', key if meth in ('pop', 'setdefault', '__setitem__', '__delitem__') else '*',
                                    'environ.%s' % meth, line))
                    else:
                        out.append(('write', '*', 'environ.%s (unclassified)' % meth, line))
                else:
                    out.append(('write', '*', 'environ.%s taken as a value' % meth, line))
            elif isinstance(parent, ast.Compare) and any(c is node for c in parent.comparators) \
                    and all(isinstance(op, (ast.In, ast.NotIn)) for op in parent.ops):
                out.append(('read', const_key(parent.left), 'in environ', line))
            elif isinstance(parent, (ast.For, ast.comprehension)) and parent.iter is node:
                out.append(('read', '*', 'iteration over environ', line))
            else:
                out.append(('write', '*', 'environ used as an object (%s)' % type(parent).__name__, line))
        out = []
        for kind, key, what, line in out0:
            for k in (key if isinstance(key, tuple) else (key,)):
                out.append((kind, k, what, line))
        return out

    # ---------- references
    def module_units(self, dotted):
        """module body of `dotted` and of its parent packages (importing a.b.c runs a, a.b, a.b.c)"""
        out = set()
        parts = dotted.split('.')
        for i in range(1, len(parts) + 1):
            m = self.by_dotted.get('.'.join(parts[:i]))
            if m is not None:
                out.add((m.rel, '<module>'))
        return out

    def class_methods(self, m, cname, depth=0):
        out = set()
        c = m.classes.get(cname)
        if c is None or depth > 8:
            return out
        for q in m.funcs:
            if q.startswith(cname + '.'):
                out.add((m.rel, q))
        for b in c.bases:
            if isinstance(b, ast.Name):
                out |= self.resolve_name(m, b.id, depth + 1)
        return out

    def resolve_name(self, m, name, depth=0):
        if depth > 8:
            return set()
        if name in m.funcs:
            return {(m.rel, name)}
        if name in m.classes:
            return self.class_methods(m, name, depth)
        imp = m.imports.get(name)
        if imp is not None and imp[0] == 'obj':
            m2 = self.by_dotted.get(imp[1])
            if m2 is not None and m2 is not m:
                return self.resolve_name(m2, imp[2], depth + 1)
        return set()

    def module_of_expr(self, m, node):
        """the pydl module an expression denotes (imported name or dotted chain), or None"""
        if isinstance(node, ast.Name):
            imp = m.imports.get(node.id)
            if imp is None:
                return None
            if imp[0] == 'mod':
                return self.by_dotted.get(imp[1])
            return self.by_dotted.get(imp[1] + '.' + imp[2])
        if isinstance(node, ast.Attribute):
            base = self.module_of_expr(m, node.value)
            if base is not None:
                return self.by_dotted.get(base.dotted + '.' + node.attr)
        return None

    def refs_in(self, m, root, module_level=False):
        """(funcid, node, inlinable): pydl functions referenced below root.  inlinable: a call by plain name that
        resolves to exactly one module-level function."""
        out = []
        pm = {}
        nodes = []
        for node, parent in parents_of(root, module_level):
            pm[id(node)] = parent
            nodes.append(node)
        for node in nodes:
            parent = pm[id(node)]
            if isinstance(node, ast.Name) and isinstance(node.ctx, ast.Load):
                targets = self.resolve_name(m, node.id)
                called = isinstance(parent, ast.Call) and parent.func is node
                inl = called and len(targets) == 1 and '.' not in next(iter(targets))[1]
                for t in sorted(targets):
                    out.append((t, node, inl))
                if node.id in DYNAMIC_NAMES and called:
                    out.append((('<dynamic>', node.id), node, False))
                if node.id == 'getattr' and called and not (len(parent.args) >= 2 and isinstance(parent.args[1], ast.Constant)):
                    for t in sorted(self.all_methods):
                        out.append((t, node, False))
            elif isinstance(node, ast.Attribute) and isinstance(node.ctx, ast.Load):
                mod = self.module_of_expr(m, node.value)
                if mod is not None:
                    for t in sorted(self.resolve_name(mod, node.attr)):
                        out.append((t, node, False))
                else:
                    for t in sorted(self.methods_by_name.get(node.attr, ())):
                        out.append((t, node, False))
                if node.attr == 'import_module':
                    out.append((('<dynamic>', 'import_module'), node, False))
            elif isinstance(node, ast.Import):
                for a in node.names:
                    for u in sorted(self.module_units(a.name)):
                        if u[0] != m.rel:
                            out.append((u, node, False))
            elif isinstance(node, ast.ImportFrom):
                base = m.resolve_from(node)
                if base is not None:
                    for u in sorted(self.module_units(base)):
                        if u[0] != m.rel:
                            out.append((u, node, False))
                    for a in node.names:
                        for u in sorted(self.module_units(base + '.' + a.name)):
                            if u[0] != m.rel:
                                out.append((u, node, False))
        return out

    def analyse(self, m, root, module_level):
        ops = {'reads': set(), 'writes': [], 'dynamic': [], 'write_vars': set()}
        for kind, key, what, line in self.env_ops_in(m, root, module_level):
            if kind == 'read':
                ops['reads'].add(key)
            else:
                ops['writes'].append(('%s %s' % (what, key), line))
                ops['write_vars'].add(key)
        refs = set()
        for t, node, _ in self.refs_in(m, root, module_level):
            if t[0] == '<dynamic>':
                ops['dynamic'].append((t[1], node.lineno))
                ops['writes'].append(('dynamic code (%s)' % t[1], node.lineno))
            else:
                refs.add(t)
        return ops, refs

    # ---------- queries
    def may_write(self, f):
        return f in self.route

    def describe_route(self, f):
        r = self.route.get(f)
        if not r:
            return ''
        last = r[-1]
        what, line = self.ops[last]['writes'][0]
        return ' -> '.join('%s:%s' % (os.path.basename(x[0]), x[1]) for x in r) + ' [%s, %s line %d]' % (what, last[0], line)

    def reach(self, f):
        seen = set()
        todo = [f]
        while todo:
            x = todo.pop()
            if x in seen or x not in self.refs:
                continue
            seen.add(x)
            todo.extend(self.refs[x])
        return seen

    def reads(self, f):
        out = set()
        for x in self.reach(f):
            out |= self.ops[x]['reads']
        return out

    def writers(self, f):
        return sorted(x for x in self.reach(f) if self.ops[x]['writes'])


def fid(f):
    return '%s:%s' % f


class Tr(object):
    def __init__(self, graph, rel):
        self.graph = graph
        self.modstack = [graph.mods[rel]]
        self.vars = {}      # env var name -> index
        self.slots = {}     # slot key -> index
        self.ncall = 0
        self.nset = 0
        self.inlined = []       # funcids
        self.uninlined = []     # strings
        self.stack = []         # funcids being inlined (recursion guard)
        self.scope = [0]
        self.nscope = 0

    # ---------- helpers
    @property
    def mod(self):
        return self.modstack[-1]

    def var(self, name):
        return self.vars.setdefault(name, len(self.vars))

    def slot(self, key):
        return self.slots.setdefault(key, len(self.slots))

    def const_str(self, node, bind):
        """Evaluate an expression to a constant string under the loop bindings."""
        if isinstance(node, ast.Constant) and isinstance(node.value, str):
            return node.value
        if isinstance(node, ast.Name) and node.id in bind and isinstance(bind[node.id], str):
            return bind[node.id]
        if isinstance(node, ast.BinOp) and isinstance(node.op, ast.Add):
            return self.const_str(node.left, bind) + self.const_str(node.right, bind)
        if isinstance(node, ast.Call) and isinstance(node.func, ast.Attribute) and not node.args \
                and node.func.attr in ('upper', 'lower'):
            s = self.const_str(node.func.value, bind)
            return s.upper() if node.func.attr == 'upper' else s.lower()
        raise Unrecognised('not a constant string: %s' % ast.dump(node)[:80])

    def slot_key(self, node, bind):
        """A saved-value location: a plain local name (scoped per inlined function), or dict[constant key]
        (the dict travels between functions, so its name is ignored)."""
        if isinstance(node, ast.Name):
            if node.id in bind and isinstance(bind[node.id], tuple) and bind[node.id][0] == 'slot':
                return bind[node.id][1]
            return node.id if self.scope[-1] == 0 else '%s#%d' % (node.id, self.scope[-1])
        if isinstance(node, ast.Subscript):
            try:
                return "['%s']" % self.const_str(node.slice, bind)
            except Unrecognised:
                return None
        return None

    def direct(self, node):
        """does the code mention the environment itself (any form the graph scanner knows)?"""
        return bool(self.graph.env_ops_in(self.mod, node))

    def deep(self, node):
        """references below node to functions that may write the environment: [(funcid, node, inlinable)]"""
        return [(t, n, i) for t, n, i in self.graph.refs_in(self.mod, node) if t[0] != '<dynamic>' and self.graph.may_write(t)] + \
               [(t, n, False) for t, n, i in self.graph.refs_in(self.mod, node) if t[0] == '<dynamic>']

    def touches(self, node):
        return self.direct(node) or bool(self.deep(node))

    def record_uninlined(self, node, why):
        """every may-write reference below node is given up (reported; the obligation uninlined_writers = [] fails)"""
        for t, n, _ in self.deep(node):
            if t[0] == '<dynamic>':
                msg = 'dynamic code (%s) at %s line %d' % (t[1], self.mod.rel, n.lineno)
            else:
                msg = '%s referenced at %s line %d %s; route: %s' % (fid(t), self.mod.rel, n.lineno, why, self.graph.describe_route(t))
            if msg not in self.uninlined:
                self.uninlined.append(msg)

    def check_strict(self, st):
        """the idiom recognisers below know `os.environ` and `os.getenv` only: any other spelling fails closed"""
        n_graph = len(self.graph.env_ops_in(self.mod, st))
        n_strict = 0
        for n in ast.walk(st):
            if is_environ(n):
                n_strict += 1
            elif isinstance(n, ast.Attribute) and isinstance(n.value, ast.Name) and n.value.id == 'os' and n.attr in OS_ENV_FUNCS:
                n_strict += 1
        if n_graph != n_strict:
            raise Unrecognised('environment reached through an alias or an unusual spelling at %s line %d' % (self.mod.rel, st.lineno))

    def call(self):
        self.ncall += 1
        return '(I (Call %d))' % self.ncall

    @staticmethod
    def seq(items):
        items = [i for i in items if i != 'Skip']
        if not items:
            return 'Skip'
        out = items[-1]
        for i in reversed(items[:-1]):
            out = '(Seq %s %s)' % (i, out)
        return out

    @staticmethod
    def trivially_safe(st):
        if isinstance(st, ast.Pass):
            return True
        if isinstance(st, ast.Expr) and isinstance(st.value, ast.Constant):
            return True     # docstring
        if isinstance(st, ast.Assign) and all(isinstance(t, ast.Name) for t in st.targets):
            v = st.value
            if isinstance(v, (ast.Constant, ast.Name)):
                return True
            if isinstance(v, (ast.List, ast.Tuple, ast.Dict)) and all(isinstance(e, ast.Constant) for e in ast.walk(v) if isinstance(e, ast.expr) and not isinstance(e, (ast.List, ast.Tuple, ast.Dict, ast.Load))):
                return True
        return False

    # ---------- environ idioms at statement level
    def env_subscript(self, node, bind):
        """os.environ[K] -> K or None"""
        if isinstance(node, ast.Subscript) and is_environ(node.value):
            return self.const_str(node.slice, bind)
        return None

    def env_method(self, node, bind, in_expr=False):
        """os.environ.get(K[, None]) / os.getenv(K[, None]) / .pop(K, None) -> (method, K)"""
        if isinstance(node, ast.Call) and isinstance(node.func, ast.Attribute) and isinstance(node.func.value, ast.Name) \
                and node.func.value.id == 'os' and node.func.attr == 'getenv':
            if not 1 <= len(node.args) <= 2 or node.keywords:
                raise Unrecognised('os.getenv with unusual arguments')
            if len(node.args) == 2 and not in_expr and not (isinstance(node.args[1], ast.Constant) and node.args[1].value is None):
                raise Unrecognised('os.getenv with a non-None default')
            return ('get', self.const_str(node.args[0], bind))
        if isinstance(node, ast.Call) and isinstance(node.func, ast.Attribute) and is_environ(node.func.value):
            m = node.func.attr
            if m == 'get' and 1 <= len(node.args) <= 2 and not node.keywords:
                if len(node.args) == 2 and not in_expr and not (isinstance(node.args[1], ast.Constant) and node.args[1].value is None):
                    raise Unrecognised('environ.get with a non-None default')
                return ('get', self.const_str(node.args[0], bind))
            if m == 'pop' and len(node.args) == 2 and isinstance(node.args[1], ast.Constant) and node.args[1].value is None:
                return ('pop', self.const_str(node.args[0], bind))
            raise Unrecognised('os.environ.%s(...)' % m)
        return None

    def plain(self, st, bind):
        """a statement without any environment effect of its own"""
        if isinstance(st, ast.Return):
            return self.seq([self.call() if st.value is not None and not isinstance(st.value, (ast.Constant, ast.Name)) else 'Skip', 'Ret'])
        if isinstance(st, ast.Raise):
            return 'Raise'
        if isinstance(st, ast.If):
            return self.seq([self.call() if not isinstance(st.test, (ast.Name, ast.Constant)) else 'Skip',
                             '(Choice %s %s)' % (self.block(st.body, bind), self.block(st.orelse, bind))])
        if isinstance(st, ast.Try):
            return self.try_(st, bind)
        if isinstance(st, ast.With):
            return self.seq([self.call(), self.block(st.body, bind)])
        if isinstance(st, (ast.For, ast.While)):
            # no environment effect inside: the loop as a whole may raise; return/raise inside it are kept
            inner = self.block(st.body + st.orelse, bind)
            return self.seq([self.call(), '(Choice %s Skip)' % inner]) if ('Ret' in inner or 'Raise' in inner) else self.call()
        if self.trivially_safe(st):
            return 'Skip'
        return self.call()

    def stmt(self, st, bind):
        if not self.touches(st):
            return self.plain(st, bind)
        # --- statements that touch the environment
        self.check_strict(st)
        if isinstance(st, ast.Try) and len(st.body) == 1 and isinstance(st.body[0], ast.Assign) \
                and len(st.handlers) == 1 and not st.finalbody and not st.orelse:
            a = st.body[0]
            k = self.env_subscript(a.value, bind)
            key = self.slot_key(a.targets[0], bind) if len(a.targets) == 1 else None
            h = st.handlers[0]
            hname = h.type.id if isinstance(h.type, ast.Name) else None
            if k is not None and key is not None and hname == 'KeyError' and len(h.body) == 1 and not self.touches(h.body[0]):
                hb = h.body[0]
                if isinstance(hb, ast.Raise):
                    return '(I (SaveStrict %d %d))' % (self.var(k), self.slot(key))
                if isinstance(hb, ast.Assign) and len(hb.targets) == 1 and self.slot_key(hb.targets[0], bind) == key \
                        and isinstance(hb.value, ast.Constant) and hb.value.value is None:
                    return '(I (SaveOpt %d %d))' % (self.var(k), self.slot(key))
        if isinstance(st, ast.Assign) and len(st.targets) == 1:
            t = st.targets[0]
            # environ[K] = value
            k = self.env_subscript(t, bind)
            if k is not None:
                if self.touches(st.value):
                    raise Unrecognised('environ on both sides of an assignment')
                key = self.slot_key(st.value, bind)
                if key is not None and key in self.slots:
                    return '(I (Restore %d %d))' % (self.var(k), self.slots[key])
                self.nset += 1
                pre = 'Skip' if isinstance(st.value, (ast.Name, ast.Constant, ast.Subscript)) else self.call()
                return self.seq([pre, '(I (SetC %d %d))' % (self.var(k), self.nset)])
            # slot = environ.get(K) / slot = environ[K]
            key = self.slot_key(t, bind)
            m = self.env_method(st.value, bind)
            if m is not None and m[0] == 'get' and key is not None:
                return '(I (SaveOpt %d %d))' % (self.var(m[1]), self.slot(key))
            k = self.env_subscript(st.value, bind)
            if k is not None and key is not None:
                return '(I (SaveStrict %d %d))' % (self.var(k), self.slot(key))
        if isinstance(st, ast.Delete) and len(st.targets) == 1:
            k = self.env_subscript(st.targets[0], bind)
            if k is not None:
                return '(I (Del %d))' % self.var(k)
        if isinstance(st, ast.Expr):
            m = self.env_method(st.value, bind)
            if m is not None and m[0] == 'pop':
                return '(I (Pop %d))' % self.var(m[1])
        if isinstance(st, ast.If):
            # if slot is None: del environ[K] / environ.pop(K, None)  else: environ[K] = slot
            t = st.test
            if isinstance(t, ast.Compare) and len(t.ops) == 1 and isinstance(t.ops[0], ast.Is) \
                    and isinstance(t.comparators[0], ast.Constant) and t.comparators[0].value is None \
                    and len(st.body) == 1 and len(st.orelse) == 1:
                key = self.slot_key(t.left, bind)
                b, o = st.body[0], st.orelse[0]
                if key is not None and key in self.slots and isinstance(o, ast.Assign) and len(o.targets) == 1:
                    ko = self.env_subscript(o.targets[0], bind)
                    if ko is not None and self.slot_key(o.value, bind) == key:
                        if isinstance(b, ast.Delete) and len(b.targets) == 1 and self.env_subscript(b.targets[0], bind) == ko:
                            return '(I (RestoreOpt %d %d))' % (self.var(ko), self.slots[key])
                        if isinstance(b, ast.Expr) and self.env_method(b.value, bind) == ('pop', ko):
                            return '(I (RestoreOptPop %d %d))' % (self.var(ko), self.slots[key])
            # reads (`K in os.environ`, os.environ.get(K), os.environ[K]) and inlined calls in the test; anything else fails closed
            return self.seq([self.expr_effects(st.test, bind),
                             self.call() if not isinstance(st.test, (ast.Name, ast.Constant)) else 'Skip',
                             '(Choice %s %s)' % (self.block(st.body, bind), self.block(st.orelse, bind))])
        if isinstance(st, ast.For) and isinstance(st.iter, (ast.Tuple, ast.List)) and not st.orelse:
            # for r in ('a', 'b'):   /   for name, value in (('A', slot_a), ('B', slot_b)):
            out = []
            for el in st.iter.elts:
                b2 = dict(bind)
                self.bind_target(st.target, el, b2, bind)
                out.append(self.block(st.body, b2))
            return self.seq(out)
        if isinstance(st, (ast.For, ast.While, ast.AsyncFor)):
            if self.direct(st):
                raise Unrecognised('environment touched inside a loop that is not over a literal tuple')
            # only through callees: they cannot be placed in the skeleton (how often does the loop run?)
            self.record_uninlined(st, 'inside a loop')
            return self.call()
        if isinstance(st, ast.Try):
            return self.try_(st, bind)
        if isinstance(st, ast.With):
            pre = []
            for it in st.items:
                if self.direct(it.context_expr):
                    raise Unrecognised('environ in a with-item')
                pre.append(self.expr_effects(it.context_expr, bind))
            return self.seq(pre + [self.call(), self.block(st.body, bind)])
        if isinstance(st, ast.Return):
            return self.seq([self.expr_effects(st.value, bind), 'Ret'])
        if not isinstance(st, (ast.Assign, ast.AugAssign, ast.AnnAssign, ast.Expr, ast.Delete, ast.Raise, ast.Assert)):
            if self.direct(st):
                raise Unrecognised('environment touched inside a %s statement' % type(st).__name__)
            self.record_uninlined(st, 'inside a %s statement' % type(st).__name__)
            return self.call()
        # generic simple statement: environment reads / inlined calls inside an expression, then the rest may raise
        if isinstance(st, ast.Raise):
            return self.seq([self.expr_effects(st, bind), 'Raise'])
        return self.seq([self.expr_effects(st, bind), self.call()])

    def bind_target(self, target, el, b2, bind):
        if isinstance(target, ast.Name):
            if isinstance(el, ast.Constant) and isinstance(el.value, str):
                b2[target.id] = el.value
            else:
                key = self.slot_key(el, bind)
                if key is None or key not in self.slots:
                    raise Unrecognised('loop element is neither a string nor a saved slot')
                b2[target.id] = ('slot', key)
        elif isinstance(target, ast.Tuple) and isinstance(el, ast.Tuple) and len(target.elts) == len(el.elts):
            for t, e in zip(target.elts, el.elts):
                self.bind_target(t, e, b2, bind)
        else:
            raise Unrecognised('loop target shape')

    def inline(self, target, node):
        """(Scope body-of-target); the callee is translated in the context of its own module"""
        if target in self.stack:
            self.record_uninlined(node, '(recursive call)')
            return 'Skip'
        m2 = self.graph.mods[target[0]]
        fn = m2.funcs[target[1]]
        self.stack.append(target)
        self.modstack.append(m2)
        self.nscope += 1
        self.scope.append(self.nscope)
        try:
            body = self.block(fn.body, {})
        finally:
            self.scope.pop()
            self.modstack.pop()
            self.stack.pop()
        if target not in self.inlined:
            self.inlined.append(target)
        return '(Scope %s)' % body

    def expr_effects(self, node, bind):
        """Environment reads and inlined helper calls occurring inside an expression/statement, in source order."""
        tr = self

        class V(ast.NodeVisitor):
            def __init__(s):
                s.out = []

            def conditional(s, nodes):
                sub = V()
                for n in nodes:
                    sub.visit(n)
                body = tr.seq(sub.out)
                if body != 'Skip':
                    s.out.append('(Choice %s Skip)' % body)

            def visit_Subscript(s, n):
                if is_environ(n.value):
                    if not isinstance(n.ctx, ast.Load):
                        raise Unrecognised('environ store/del nested in a statement')
                    s.out.append('(I (ReadReq %d))' % tr.var(tr.const_str(n.slice, bind)))
                    return
                s.generic_visit(n)

            def visit_Compare(s, n):
                if len(n.ops) == 1 and isinstance(n.ops[0], (ast.In, ast.NotIn)) and is_environ(n.comparators[0]):
                    s.visit(n.left)
                    s.out.append('(I (SaveOpt %d %d))' % (tr.var(tr.const_str(n.left, bind)), tr.slot('<tmp>')))
                    return
                s.generic_visit(n)

            def visit_Call(s, n):
                m = tr.env_method(n, bind, in_expr=True)
                if m is not None:
                    for a in n.args[1:]:
                        s.visit(a)
                    if m[0] == 'get':
                        # value used in an expression: presence not required
                        s.out.append('(I (SaveOpt %d %d))' % (tr.var(m[1]), tr.slot('<tmp>')))
                        return
                    raise Unrecognised('environ.%s nested in an expression' % m[0])
                for a in list(n.args) + [k.value for k in n.keywords]:
                    s.visit(a)
                if isinstance(n.func, ast.Name):
                    resolved = sorted(tr.graph.resolve_name(tr.mod, n.func.id))
                    writers = [t for t in resolved if tr.graph.may_write(t)]
                    if writers and len(resolved) == 1 and '.' not in resolved[0][1]:
                        s.out.append(tr.inline(resolved[0], n.func))
                    elif writers or n.func.id in DYNAMIC_NAMES:
                        tr.record_uninlined(n, '(not a unique plain function)')
                else:
                    s.visit(n.func)

            def visit_Name(s, n):
                if tr.deep(n):
                    tr.record_uninlined(n, 'as a value')

            def visit_Attribute(s, n):
                if is_environ(n):
                    raise Unrecognised('os.environ used as a whole object')
                if isinstance(n.value, ast.Name) and n.value.id == 'os' and n.attr in ('putenv', 'unsetenv', 'environb'):
                    raise Unrecognised('os.%s' % n.attr)
                if any(nd is n for _, nd, _ in tr.deep(n)):
                    tr.record_uninlined(n, 'through an attribute')
                s.visit(n.value)

            def visit_IfExp(s, n):
                s.visit(n.test)
                s.conditional([n.body])
                s.conditional([n.orelse])

            def visit_BoolOp(s, n):
                s.visit(n.values[0])
                s.conditional(n.values[1:])

            def scoped(s, n):
                if tr.direct(n):
                    raise Unrecognised('environment touched inside a comprehension or lambda')
                tr.record_uninlined(n, 'inside a comprehension or lambda')

            visit_ListComp = visit_SetComp = visit_DictComp = visit_GeneratorExp = visit_Lambda = scoped

        v = V()
        v.visit(node)
        return self.seq(v.out)

    def try_(self, st, bind):
        body = self.block(st.body + st.orelse, bind)
        if st.handlers:
            hs = [self.block(h.body, bind) for h in st.handlers]
            h = hs[-1]
            for x in reversed(hs[:-1]):
                h = '(Choice %s %s)' % (x, h)
            body = '(TryExcept %s %s)' % (body, h)
        if st.finalbody:
            body = '(TryFinally %s %s)' % (body, self.block(st.finalbody, bind))
        return body

    def block(self, stmts, bind):
        return self.seq([self.stmt(s, bind) for s in stmts])


# the entry points named by the property, and the public pydl functions that reach them (nested routes)
TARGETS = [('window_score', 'pydl/photoop/window.py'), ('template_input', 'pydl/pydlspec2d/spec1d.py'),
           ('window_read', 'pydl/photoop/window.py'), ('template_input_main', 'pydl/pydlspec2d/spec1d.py')]
# helpers that change the variables by design and are restored by their caller (anchors: "overwritten by
# template_metadata, restored at the end of template_input"); not entry points of the property
HELPERS = ['pydl/pydlspec2d/spec1d.py:template_metadata', 'pydl/pydlspec2d/spec1d.py:_template_input']


def _literal(node):
    try:
        v = ast.literal_eval(node)
    except (ValueError, SyntaxError, TypeError):
        return '<expr>'
    return v if isinstance(v, (bool, int, float, str, type(None))) else '<expr>'


def _handler_classes(fnode):
    out = []
    for n in ast.walk(fnode):
        if isinstance(n, ast.ExceptHandler) and n.type is not None:
            for t in (n.type.elts if isinstance(n.type, ast.Tuple) else [n.type]):
                name = t.id if isinstance(t, ast.Name) else t.attr if isinstance(t, ast.Attribute) else None
                if name and name not in out:
                    out.append(name)
    return out


def run_matrix(graph, rel, fname, inlined=()):
    """What the real runs must vary, read off the source (independent of whether the skeleton is recognised):
    the keyword options of the entry point with their defaults; the exception classes its handlers (and those of the
    inlined helpers) name -- a fault of such a class takes the handler path; the environment variables that the module
    bodies of pydl modules reachable from the entry point read or write (import-time effects), and which of those
    modules are NOT imported by importing the entry point's own module (they are imported lazily, during the call)."""
    node = graph.mods[rel].funcs[fname]
    a = node.args
    pos = list(getattr(a, 'posonlyargs', [])) + list(a.args)
    defaults = [None] * (len(pos) - len(a.defaults)) + list(a.defaults)
    kws = [[x.arg, _literal(d)] for x, d in zip(pos, defaults) if d is not None]
    kws += [[x.arg, _literal(d)] for x, d in zip(a.kwonlyargs, a.kw_defaults) if d is not None]
    required = [x.arg for x, d in zip(pos, defaults) if d is None]
    handlers = _handler_classes(node)
    for spec in inlined:
        r2, q = spec.split(':', 1)
        f2 = graph.mods.get(r2) and graph.mods[r2].funcs.get(q)
        if f2 is not None:
            for h in _handler_classes(f2):
                if h not in handlers:
                    handlers.append(h)
    reach = graph.reach((rel, fname))
    mod_units = sorted(x for x in reach if x[1] == '<module>')
    # import closure of the entry point's own module: module bodies only, through module-level imports
    eager = set()
    todo = list(graph.module_units(graph.mods[rel].dotted))
    while todo:
        x = todo.pop()
        if x in eager:
            continue
        eager.add(x)
        todo.extend(y for y in graph.refs.get(x, ()) if y[1] == '<module>')
    ivars = set()
    wvars = set()
    for x in mod_units:
        ivars |= graph.ops[x]['reads'] | graph.ops[x]['write_vars']
        wvars |= graph.ops[x]['write_vars']
    return {'keywords': kws, 'required': required, 'handler_classes': handlers,
            'module': graph.mods[rel].dotted,
            'import_time_vars': sorted(v for v in ivars if v != '*'),
            'import_time_writes': sorted(wvars),
            'lazy_modules': sorted(x[0] for x in mod_units if x not in eager),
            'eager_modules': sorted(x[0] for x in eager)}


def coq_strings(items):
    return '[' + '; '.join('"%s"' % s.replace('"', "'") for s in items) + ']'


def generate(repo):
    info = {'recognised': True, 'functions': {}}
    out = ['(* GENERATED by translate/c20.py -- environment skeletons of the entry points of C20; do not edit *)',
           'From Coq Require Import List String.', 'Import ListNotations.', 'From PV Require Import C20.Model.',
           'Local Open Scope string_scope.', '']
    meta = {}
    try:
        graph = Graph(repo)
    except (Unrecognised, OSError) as e:
        info['recognised'] = False
        info['detail'] = 'call graph: %s' % e
        return None, info
    uninlined_all = []
    covered = set()
    reach_writers = set()
    info['matrix'] = {}
    for fname, rel in TARGETS:
        try:
            if rel not in graph.mods or fname not in graph.mods[rel].funcs:
                raise Unrecognised('function %s not found' % fname)
            info['matrix'][fname] = run_matrix(graph, rel, fname, [h for h in HELPERS if h.startswith(rel + ':')])
            tr = Tr(graph, rel)
            tr.stack.append((rel, fname))
            prog = tr.block(graph.mods[rel].funcs[fname].body, {})
            names = [n for n, _ in sorted(tr.vars.items(), key=lambda kv: kv[1])]
            inl = [fid(t) for t in tr.inlined]
            out.append('(* %s in %s, line %d; variables: %s; slots: %s; inlined: %s *)' % (
                fname, rel, graph.mods[rel].funcs[fname].lineno,
                ', '.join('%d=%s' % (i, n) for i, n in enumerate(names)),
                ', '.join('%d=%s' % (i, k.replace('*', '')) for k, i in sorted(tr.slots.items(), key=lambda kv: kv[1])),
                ', '.join(inl) or '-'))
            out.append('Definition %s_vars : list var := [%s].' % (fname, '; '.join(str(i) for i in range(len(names)))))
            out.append('Definition %s_skel : prog :=\n  %s.\n' % (fname, prog))
            info['matrix'][fname] = run_matrix(graph, rel, fname, inl)
            reads = graph.reads((rel, fname))
            writers = [fid(w) for w in graph.writers((rel, fname))]
            covered |= set(inl) | {fid((rel, fname))}
            reach_writers |= set(writers)
            for u in tr.uninlined:
                if u not in uninlined_all:
                    uninlined_all.append(u)
            meta[fname] = {'vars': names, 'calls': tr.ncall, 'inlined': inl, 'recognised': True,
                           'reads': sorted(r for r in reads if r != '*'), 'reads_unknown_key': '*' in reads,
                           'reachable_units': len(graph.reach((rel, fname))), 'reachable_writers': writers,
                           'uninlined': list(tr.uninlined)}
        except (Unrecognised, SyntaxError, OSError) as e:
            info['recognised'] = False
            meta[fname] = {'recognised': False, 'detail': '%s: %s' % (type(e).__name__, e)}
    info['functions'] = meta
    all_writers = sorted(fid(f) for f, o in graph.ops.items() if o['writes'])
    info['env_writers_in_package'] = all_writers
    info['uninlined_writers'] = uninlined_all
    if not info['recognised']:
        return None, info
    out.append('(* call graph over %d modules / %d functions of pydl: every unit reachable from an entry point that contains an\n'
               '   os.environ write must be the entry point itself or inlined in its skeleton *)' % (len(graph.mods), len(graph.ops)))
    out.append('Definition reachable_env_writers : list string :=\n  %s.' % coq_strings(sorted(reach_writers)))
    out.append('Definition covered_functions : list string :=\n  %s.' % coq_strings(sorted(covered)))
    out.append('(* references to environment-writing functions that could not be placed in a skeleton (with the route to the write) *)')
    out.append('Definition uninlined_writers : list string :=\n  %s.' % coq_strings(uninlined_all))
    out.append('(* every function of the package that writes the environment at all *)')
    out.append('Definition package_env_writers : list string :=\n  %s.\n' % coq_strings(all_writers))
    return '\n'.join(out) + '\n', info


if __name__ == '__main__':
    import sys
    text, info = generate(sys.argv[1] if len(sys.argv) > 1 else '/repo')
    import json
    print(json.dumps(info, indent=1))
    print(text)
