(* C04, round 5 -- `coverage` from the two margin facts, INCLUDING the 0/360 seam and the points getbounds drops,
   under decidable grid-level side conditions (scene_ok) that are evaluated in Coq on the recorded grid of every run.
   Exact rationals, bounds as data. *)
From Coq Require Import ZArith QArith Qround Qabs List Bool Arith Lia Lqa.
Import ListNotations.
From PV Require Import C04.Model C04.Proofs C04.Bounds C04.SceneModel.
Close Scope Z_scope. Close Scope Q_scope. Open Scope nat_scope.

Lemma monob_cons2 : forall a b r, monob (a :: b :: r) = (Qle_bool a b && monob (b :: r)).
Proof. reflexivity. Qed.

Lemma monob_head : forall r a, monob (a :: r) = true -> forall j, j < length r -> (a <= nth j r 0)%Q.
Proof.
  induction r as [|b r IH]; intros a H j Hj; [simpl in Hj; lia|].
  rewrite monob_cons2 in H. apply andb_true_iff in H. destruct H as [H1 H2]. apply Qle_bool_iff in H1.
  destruct j as [|j]; [exact H1|]. cbn [nth]. eapply Qle_trans; [exact H1|]. apply IH; [exact H2|simpl in Hj; lia].
Qed.

Lemma monob_tail : forall a r, monob (a :: r) = true -> monob r = true.
Proof.
  intros a [|b r] H; [reflexivity|]. rewrite monob_cons2 in H. apply andb_true_iff in H. tauto.
Qed.

Lemma monob_mono : forall B, monob B = true -> mono B (length B - 1).
Proof.
  unfold mono, qbnd. induction B as [|a B IH]; intros H i j Hij Hj.
  - simpl in Hj. assert (j = 0) by lia. assert (i = 0) by lia. subst. apply Qle_refl.
  - destruct i as [|i].
    + destruct j as [|j]; [apply Qle_refl|]. cbn [nth]. apply monob_head; [exact H|simpl in Hj; lia].
    + destruct j as [|j]; [lia|]. cbn [nth]. apply IH; [eapply monob_tail; exact H|lia|simpl in Hj; lia].
Qed.

Lemma circ_ltb_cases : forall a b mg, circ_ltb a b mg = true ->
  ((a - b < mg)%Q /\ (b - a < mg)%Q) \/ (a + 360 - b < mg)%Q \/ (b + 360 - a < mg)%Q.
Proof.
  intros a b mg H. unfold circ_ltb in H. apply orb_true_iff in H. destruct H as [H|H].
  - apply orb_true_iff in H. destruct H as [H|H].
    + apply andb_true_iff in H. destruct H as [H1 H2]. left. split; apply Qlt_bool_iff; assumption.
    + right. left. apply Qlt_bool_iff. exact H.
  - right. right. apply Qlt_bool_iff. exact H.
Qed.

(* floor binning, converse direction: a valid index means the point is inside the range *)
Lemma cell_index_inv : forall x lo hi n, (lo < hi)%Q -> 0 < n ->
  (0 <= cell_index x lo hi n < Z.of_nat n)%Z -> (lo <= x < hi)%Q.
Proof.
  intros x lo hi n Hlh Hn [H0 H1]. unfold cell_index in *.
  pose proof (inject_nat_pos n Hn) as Hnp.
  set (t := ((x - lo) * inject_Z (Z.of_nat n) / (hi - lo))%Q) in *.
  assert (Ht : (t * (hi - lo) == (x - lo) * inject_Z (Z.of_nat n))%Q) by (unfold t; field; lra).
  assert (Ht0 : (0 <= t)%Q).
  { destruct (Qlt_le_dec t 0) as [Hneg|Hpos]; [|exact Hpos]. exfalso.
    assert (Qfloor t < 0)%Z; [|lia].
    pose proof (Qfloor_le t) as Hf. rewrite Zlt_Qlt. change (inject_Z 0) with 0%Q. lra. }
  assert (Ht1 : (t < inject_Z (Z.of_nat n))%Q).
  { eapply Qlt_le_trans; [apply Qlt_floor|]. rewrite <- Zle_Qle. lia. }
  assert (Hd : (0 < hi - lo)%Q) by lra.
  assert (Hgoal : (0 <= x - lo /\ x - lo < hi - lo)%Q); [|lra].
  clearbody t. clear H0 H1. revert Ht Ht0 Ht1 Hd Hnp.
  generalize (x - lo)%Q (hi - lo)%Q (inject_Z (Z.of_nat n)) t. intros d D N t' Ht Ht0 Ht1 Hd Hnp.
  split; nra.
Qed.

Lemma gb_rows_length : forall raB ra mg k i rows, gb_rows raB ra mg i k = Some rows -> length rows = k.
Proof.
  induction k as [|k IH]; intros i rows H; cbn [gb_rows] in H.
  - inversion H. reflexivity.
  - destruct (_ || _); [discriminate|].
    destruct (gb_rows raB ra mg (S i) k) as [rest|] eqn:Er; [|discriminate].
    inversion H. cbn [length]. f_equal. eapply IH. exact Er.
Qed.

Lemma getbounds_model_inv : forall decB raB ra dec m mg b,
  getbounds_model decB raB ra dec m mg = Some b ->
  let nDec := length decB - 1 in
  exists c0 rows,
    (0 <= c0 <= Z.of_nat nDec - 1)%Z /\
    b = (Z.of_nat (dec_down decB dec m (Z.to_nat c0)), rows) /\
    gb_rows raB ra mg (dec_down decB dec m (Z.to_nat c0))
            (S (dec_up decB dec m nDec nDec (Z.to_nat c0)) - dec_down decB dec m (Z.to_nat c0)) = Some rows.
Proof.
  intros decB raB ra dec m mg b H nDec. unfold getbounds_model in H. fold nDec in H.
  set (c0 := cell_index dec (qbnd decB 0) (qbnd decB nDec) nDec) in *.
  destruct ((c0 <? 0)%Z || (Z.of_nat nDec - 1 <? c0)%Z) eqn:E; [discriminate|].
  apply orb_false_iff in E. destruct E as [E1 E2]. apply Z.ltb_ge in E1. apply Z.ltb_ge in E2.
  destruct (gb_rows raB ra mg _ _) as [rows|] eqn:Eg; [|discriminate].
  exists c0, rows. split; [lia|]. split; [inversion H; reflexivity|exact Eg].
Qed.

Lemma wrap_top : forall n, (1 <= n)%Z -> wrap n n = 0%Z.
Proof.
  intros n Hn. unfold wrap. destruct (n <? 0)%Z eqn:E1; [apply Z.ltb_lt in E1; lia|].
  destruct (n - 1 <? n)%Z eqn:E2; [|apply Z.ltb_ge in E2; lia].
  rewrite Z.sub_diag. apply Z.mod_0_l. lia.
Qed.

Lemma wrap_m1 : forall n, (1 <= n)%Z -> wrap n (-1) = (n - 1)%Z.
Proof.
  intros n Hn. unfold wrap. cbn [Z.ltb Z.compare]. replace (-1 + n)%Z with (n - 1)%Z by lia.
  apply Z.mod_small. lia.
Qed.

Lemma In_row_cells_wrapped : forall nRa d lo hi r c,
  (lo <= r <= hi)%Z -> wrap (nRa d) r = c -> (0 <= c <= nRa d - 1)%Z -> In (d, c) (row_cells nRa 0 d lo hi).
Proof.
  intros nRa d lo hi r c Hr Hw Hc. unfold row_cells. apply in_flat_map. exists r. split.
  - apply In_zrange. lia.
  - cbv zeta. rewrite Hw. unfold in_range.
    assert (E : ((0 <=? c)%Z && (c <=? nRa d - 1)%Z) = true) by (apply andb_true_iff; split; apply Z.leb_le; lia).
    rewrite E. left. reflexivity.
Qed.

(* the seam: a slice that spans 0..360 with end cells at least one margin wide *)
Lemma row_wrap_cover : forall nRa d B n ra mg r0 r ra1,
  nRa d = Z.of_nat n -> mono B n -> 1 <= n -> r0 < n -> r < n ->
  (qbnd B r <= ra1 <= qbnd B (S r))%Q ->
  (qbnd B 0 == 0)%Q -> (qbnd B n == 360)%Q ->
  (mg <= qbnd B 1 - qbnd B 0)%Q -> (mg <= qbnd B n - qbnd B (n - 1))%Q ->
  (0 <= ra < 360)%Q -> (0 <= ra1 < 360)%Q ->
  ((ra1 + 360 - ra < mg)%Q \/ (ra + 360 - ra1 < mg)%Q) ->
  In (d, Z.of_nat r) (row_cells nRa 0 d (ra_down B ra mg r0) (ra_up B ra mg n n r0)).
Proof.
  intros nRa d B n ra mg r0 r ra1 HnRa Hmono Hn Hr0 Hr [Hc1 Hc2] HB0 HBn Hw0 Hwn [Hra0 Hra1] [Hp0 Hp1] Hcase.
  destruct (ra_down_spec B ra mg r0) as [D1 D2].
  destruct (ra_up_spec B ra mg n n r0 ltac:(lia) ltac:(lia)) as [U1 U2]. cbv zeta in *.
  destruct Hcase as [Hc|Hc].
  - (* list-1 point just above 0, list-2 point just below 360: the walk leaves the slice at the top *)
    assert (Hhi : ra_up B ra mg n n r0 = Z.of_nat n).
    { destruct (Z.eq_dec (ra_up B ra mg n n r0) (Z.of_nat n)) as [E|E]; [exact E|]. exfalso.
      destruct U2 as [U2|U2]; [contradiction|].
      assert (qbnd B (S (Z.to_nat (ra_up B ra mg n n r0))) <= qbnd B n)%Q by (apply Hmono; lia). lra. }
    assert (Hr00 : r = 0).
    { destruct r as [|r]; [reflexivity|]. exfalso.
      assert (qbnd B 1 <= qbnd B (S r))%Q by (apply Hmono; lia). lra. }
    subst r. rewrite Hhi.
    apply (In_row_cells_wrapped nRa d _ _ (Z.of_nat n)); [lia|rewrite HnRa; apply wrap_top; lia|lia].
  - assert (Hlo : ra_down B ra mg r0 = (-1)%Z).
    { destruct D2 as [D2|D2]; [exact D2|]. exfalso.
      assert (qbnd B 0 <= qbnd B (Z.to_nat (ra_down B ra mg r0)))%Q by (apply Hmono; lia). lra. }
    assert (Hrn : r = n - 1).
    { destruct (Nat.eq_dec r (n - 1)) as [E|E]; [exact E|]. exfalso.
      assert (qbnd B (S r) <= qbnd B (n - 1))%Q by (apply Hmono; lia). lra. }
    subst r. rewrite Hlo.
    apply (In_row_cells_wrapped nRa d _ _ (-1)%Z); [lia|rewrite HnRa, wrap_m1 by lia; lia|lia].
Qed.

(* one pair, any position relative to the seam *)
Theorem coverage_exact : forall decB raB ra dec m mg b s r dec1 ra1,
  let nDec := length decB - 1 in
  let B := nth s raB [] in
  let n := length B - 1 in
  mono decB nDec -> mono B n -> (qbnd B 0 < qbnd B n)%Q ->
  getbounds_model decB raB ra dec m mg = Some b ->
  s < nDec -> (qbnd decB s <= dec1 <= qbnd decB (S s))%Q -> (dec - dec1 < m)%Q -> (dec1 - dec < m)%Q ->
  r < n -> (qbnd B r <= ra1 <= qbnd B (S r))%Q ->
  (0 <= ra < 360)%Q -> (0 <= ra1 < 360)%Q ->
  circ_ltb ra1 ra mg = true ->
  slice_ok B mg = true ->
  In (Z.of_nat s, Z.of_nat r) (fill_cells (nRa_of_bounds raB) b).
Proof.
  intros decB raB ra dec m mg b s r dec1 ra1 nDec B n Hmd Hmr HBlt Hgb Hs Hd1 Hd2 Hd3 Hr Hr1 Hra Hra1 Hcirc Hsl.
  assert (Hplain : (ra - ra1 < mg)%Q -> (ra1 - ra < mg)%Q ->
                   In (Z.of_nat s, Z.of_nat r) (fill_cells (nRa_of_bounds raB) b)).
  { intros H1 H2. apply (coverage_exact_nowrap decB raB ra dec m mg b s r dec1 ra1); auto. }
  apply circ_ltb_cases in Hcirc. destruct Hcirc as [[H1 H2]|Hwrap]; [apply Hplain; assumption|].
  unfold slice_ok in Hsl. fold n in Hsl.
  apply orb_true_iff in Hsl. destruct Hsl as [Hsl|Hgap].
  apply orb_true_iff in Hsl. destruct Hsl as [Hfull|Hspan].
  - (* the margin is the whole circle *)
    apply Qle_bool_iff in Hfull. apply Hplain; lra.
  - (* the slice spans 0..360 and its end cells are wide enough *)
    apply andb_true_iff in Hspan. destruct Hspan as [Hspan Hwn].
    apply andb_true_iff in Hspan. destruct Hspan as [Hspan Hw0].
    apply andb_true_iff in Hspan. destruct Hspan as [HB0 HBn].
    apply Qeq_bool_iff in HB0. apply Qeq_bool_iff in HBn.
    apply Qle_bool_iff in Hw0. apply Qle_bool_iff in Hwn.
    destruct (getbounds_model_inv _ _ _ _ _ _ _ Hgb) as [c0 [rows [Hc0 [Hb Hrows]]]]. fold nDec in Hc0, Hb, Hrows.
    set (dmin := dec_down decB dec m (Z.to_nat c0)) in *.
    set (dmax := dec_up decB dec m nDec nDec (Z.to_nat c0)) in *.
    assert (Hrange : dmin <= s <= dmax).
    { apply (dec_coverage decB nDec dec m (Z.to_nat c0) s dec1); auto. lia. }
    destruct (gb_rows_nth raB ra mg _ dmin rows Hrows (s - dmin) ltac:(lia)) as [Hr0 Hnth].
    replace (dmin + (s - dmin)) with s in * by lia. fold B n in Hr0, Hnth.
    set (r0 := cell_index ra (qbnd B 0) (qbnd B n) n) in *.
    subst b. unfold fill_cells. cbn [fst snd].
    apply (In_rows_cells (nRa_of_bounds raB) 0 rows (Z.of_nat dmin) (s - dmin) _ _ _ Hnth).
    replace (Z.of_nat dmin + Z.of_nat (s - dmin))%Z with (Z.of_nat s) by lia.
    apply (row_wrap_cover (nRa_of_bounds raB) (Z.of_nat s) B n ra mg (Z.to_nat r0) r ra1); auto; try lia.
    unfold nRa_of_bounds. rewrite Nat2Z.id. reflexivity.
  - (* the slice stays clear of 0/360: both points are inside it, so they cannot be neighbours through the seam *)
    exfalso. apply Qle_bool_iff in Hgap.
    destruct (getbounds_model_inv _ _ _ _ _ _ _ Hgb) as [c0 [rows [Hc0 [Hb Hrows]]]]. fold nDec in Hc0, Hb, Hrows.
    set (dmin := dec_down decB dec m (Z.to_nat c0)) in *.
    set (dmax := dec_up decB dec m nDec nDec (Z.to_nat c0)) in *.
    assert (Hrange : dmin <= s <= dmax).
    { apply (dec_coverage decB nDec dec m (Z.to_nat c0) s dec1); auto. lia. }
    destruct (gb_rows_nth raB ra mg _ dmin rows Hrows (s - dmin) ltac:(lia)) as [Hr0 _].
    replace (dmin + (s - dmin)) with s in * by lia. fold B n in Hr0.
    assert (Hin : (qbnd B 0 <= ra < qbnd B n)%Q).
    { apply (cell_index_inv ra (qbnd B 0) (qbnd B n) n HBlt); lia. }
    assert (qbnd B 0 <= qbnd B r)%Q by (apply Hmr; lia).
    assert (qbnd B (S r) <= qbnd B n)%Q by (apply Hmr; lia).
    destruct Hwrap as [H1|H1]; lra.
Qed.

(* ------------------------------------------------------------------ the whole scene *)
Lemma forallb_nth_error : forall {A} (f : A -> bool) l i x,
  forallb f l = true -> nth_error l i = Some x -> f x = true.
Proof. intros A f l i x H Hn. rewrite forallb_forall in H. apply H. eapply nth_error_In. exact Hn. Qed.

Theorem coverage_from_margins : forall sc sep L,
  scene_ok sc = true ->
  margins_sound sc sep L ->
  coverage (nRa_of_bounds (s_raB sc)) (scene_bounds sc) (length (s_p1 sc)) (scene_cell_of sc) sep L.
Proof.
  intros sc sep L Hok Hms i k Hi Hk Hsep.
  unfold scene_ok in Hok.
  repeat (apply andb_true_iff in Hok; let H := fresh "Hk" in destruct Hok as [Hok H]).
  rename Hk0 into Hp2. rename Hk1 into Hp1. rename Hk2 into HraB. rename Hk3 into Hlen. rename Hk4 into Hd2.
  rename Hok into HdB.
  unfold scene_bounds in *. rewrite map_length in Hk.
  destruct (nth_error (s_p1 sc) i) as [p|] eqn:Ep; [|apply nth_error_None in Ep; lia].
  destruct (nth_error (s_p2 sc) k) as [q|] eqn:Eq; [|apply nth_error_None in Eq; lia].
  pose proof (Hms i k p q Ep Eq Hsep) as Hw.
  pose proof (forallb_nth_error _ _ _ _ Hp2 Eq) as Hq2.
  pose proof (forallb_nth_error _ _ _ _ Hp1 Ep) as Hq1.
  unfold p2_ok in Hq2. apply andb_true_iff in Hq2. destruct Hq2 as [Hq2 Hq2b].
  apply andb_true_iff in Hq2. destruct Hq2 as [Hqa Hqb].
  apply Qle_bool_iff in Hqa. apply Qlt_bool_iff in Hqb.
  destruct (getbounds_model (s_decB sc) (s_raB sc) (fst (fst q)) (snd (fst q)) (s_m sc) (snd q)) as [b|] eqn:Egb.
  2:{ exfalso. pose proof (forallb_nth_error _ _ _ _ Hq2b Ep) as Hn. cbv beta in Hn. rewrite Hw in Hn. discriminate. }
  exists b. split.
  { rewrite nth_error_map, Eq. cbn [option_map]. rewrite Egb. reflexivity. }
  unfold scene_cell_of. rewrite Ep. unfold scene_cell.
  unfold p1_ok in Hq1. apply andb_true_iff in Hq1. destruct Hq1 as [Hq1 Hg].
  apply andb_true_iff in Hq1. destruct Hq1 as [Hpa Hpb].
  apply Qle_bool_iff in Hpa. apply Qlt_bool_iff in Hpb.
  destruct (get_model (s_decB sc) (s_raB sc) (fst p) (snd p)) as [[s r]|] eqn:Eg; [|discriminate].
  repeat (apply andb_true_iff in Hg; let H := fresh "Hg" in destruct Hg as [Hg H]).
  apply Z.leb_le in Hg. apply Z.ltb_lt in Hg6. apply Z.leb_le in Hg5. apply Z.ltb_lt in Hg4.
  apply Qle_bool_iff in Hg3. apply Qle_bool_iff in Hg2. apply Qle_bool_iff in Hg1. apply Qle_bool_iff in Hg0.
  unfold withinb in Hw. apply andb_true_iff in Hw. destruct Hw as [Hw Hwc].
  apply andb_true_iff in Hw. destruct Hw as [Hw1 Hw2].
  apply Qlt_bool_iff in Hw1. apply Qlt_bool_iff in Hw2.
  apply Nat.leb_le in Hd2. apply Nat.eqb_eq in Hlen.
  set (s' := Z.to_nat s) in *. set (r' := Z.to_nat r) in *.
  set (B := nth s' (s_raB sc) []) in *.
  assert (HBin : In B (s_raB sc)) by (apply nth_In; lia).
  rewrite forallb_forall in HraB. pose proof (HraB B HBin) as HB.
  apply andb_true_iff in HB. destruct HB as [HB HBlen].
  apply andb_true_iff in HB. destruct HB as [HBm HBlt].
  apply Nat.leb_le in HBlen. apply Qlt_bool_iff in HBlt.
  replace s with (Z.of_nat s') by (unfold s'; lia). replace r with (Z.of_nat r') by (unfold r'; lia).
  (* the slice of the list-1 point is among those the list-2 point visits: its slice_ok was checked *)
  assert (Hsl : slice_ok B (snd q) = true).
  { destruct (getbounds_model_inv _ _ _ _ _ _ _ Egb) as [c0 [rows [Hc0 [Hb Hrows]]]].
    set (nDec := length (s_decB sc) - 1) in *.
    set (dmin := dec_down (s_decB sc) (snd (fst q)) (s_m sc) (Z.to_nat c0)) in *.
    set (dmax := dec_up (s_decB sc) (snd (fst q)) (s_m sc) nDec nDec (Z.to_nat c0)) in *.
    assert (Hrange : dmin <= s' <= dmax).
    { apply (dec_coverage (s_decB sc) nDec (snd (fst q)) (s_m sc) (Z.to_nat c0) s' (snd p)); auto; try lia.
      apply monob_mono. exact HdB. }
    rewrite forallb_forall in Hq2b. apply (Hq2b s').
    subst b. cbn [fst snd]. rewrite Nat2Z.id. apply in_seq.
    rewrite (gb_rows_length _ _ _ _ _ _ Hrows). lia. }
  apply (coverage_exact (s_decB sc) (s_raB sc) (fst (fst q)) (snd (fst q)) (s_m sc) (snd q) b s' r' (snd p) (fst p));
    auto; try lia; try (split; assumption).
  - apply monob_mono. exact HdB.
  - fold B. apply monob_mono. exact HBm.
  - fold B. unfold r'. lia.
Qed.

(* the per-case decision of margins_sound is sound *)
Lemma margins_check_sound : forall sc sep L, margins_check sc sep L = true -> margins_sound sc sep L.
Proof.
  intros sc sep L H i k p q Ep Eq Hsep. unfold margins_check in H. rewrite forallb_forall in H.
  assert (Hi : i < length (s_p1 sc)) by (apply nth_error_Some; rewrite Ep; discriminate).
  assert (Hk : k < length (s_p2 sc)) by (apply nth_error_Some; rewrite Eq; discriminate).
  specialize (H i ltac:(apply in_seq; lia)). rewrite forallb_forall in H.
  specialize (H k ltac:(apply in_seq; lia)). rewrite Ep, Eq in H.
  apply Qlt_bool_iff in Hsep. rewrite Hsep in H. exact H.
Qed.

(* the property for a scene: grid conditions (decided) + margins (geometry) + argsort sorts *)
Theorem spherematch_spec_scene : forall maxmatch sc sep L s,
  let nRa := nRa_of_bounds (s_raB sc) in
  let bs := scene_bounds sc in
  let n1 := length (s_p1 sc) in
  scene_ok sc = true ->
  margins_sound sc sep L ->
  is_sorting_perm s (candidates n1 (scene_cell_of sc) (clist (assign_model nRa bs)) sep L) = true ->
  match_ok n1 (length (s_p2 sc)) sep L maxmatch (spherematch_model maxmatch nRa bs n1 (scene_cell_of sc) sep L s) = true.
Proof.
  intros maxmatch sc sep L s nRa bs n1 Hok Hms Hs.
  replace (length (s_p2 sc)) with (length bs) by (unfold bs, scene_bounds; apply map_length).
  apply spherematch_spec; [|exact Hs]. apply coverage_from_margins; assumption.
Qed.

(* non-vacuity: a pair across RA 0/360 -- list 1 at RA 1, list 2 at RA 359, margin 3, four cells of 90 degrees *)
Definition seam_scene : scene :=
  {| s_decB := [-(10); 0; 10; 20]%Q;
     s_raB := [[0; 90; 180; 270; 360]; [0; 90; 180; 270; 360]; [0; 90; 180; 270; 360]]%Q;
     s_m := 2%Q;
     s_p1 := [(1, 5); (200, 5)]%Q;
     s_p2 := [(359, 5, 3)]%Q |}.
Definition seam_sep (i k : nat) : Q := if Nat.eqb i 0 then (3 # 2)%Q else 100%Q.

Lemma seam_scene_example :
  scene_ok seam_scene = true /\ margins_check seam_scene seam_sep 2%Q = true /\
  scene_bounds seam_scene = [Some (1%Z, [(3%Z, 4%Z)])] /\ scene_cell_of seam_scene 0 = (1%Z, 0%Z) /\
  spherematch_model 0 (nRa_of_bounds (s_raB seam_scene)) (scene_bounds seam_scene) 2 (scene_cell_of seam_scene)
                    seam_sep 2%Q [0] = [(0, 0, (3 # 2)%Q)].
Proof. repeat split; vm_compute; reflexivity. Qed.
