"""Runs gcirc, the ICRS <-> SDSSMuNu frame transforms, stripe_to_eta/incl and angles_to_x / x_to_angles of the
repository under test on a list of jobs (stdin JSON) and returns the raw doubles (stdout JSON).
Floats travel as repr (exact round trip); NaN/inf as the strings 'nan', 'inf', '-inf'."""
import json
import math
import sys
import warnings

import numpy as np

warnings.simplefilter('ignore')

import pydl  # noqa: E402
from pydl.goddard.astro import gcirc  # noqa: E402
from pydl.pydlutils import coord as pc  # noqa: E402
from pydl.pydlutils.mangle import angles_to_x, x_to_angles  # noqa: E402
from astropy import units as u  # noqa: E402
from astropy.coordinates import ICRS  # noqa: E402


# truthy / falsy values a caller may pass for the `latitude` flag (the same object goes to both functions)
FLAGS = {
    'True': lambda: True, 'False': lambda: False,
    'np.True_': lambda: np.True_, 'np.False_': lambda: np.False_,
    '1': lambda: 1, '0': lambda: 0,
    'cmp-true': lambda: np.float64(2.0) > 1.0, 'cmp-false': lambda: np.float64(0.0) > 1.0,
    'np.bool-array-element': lambda: np.array([True, False])[0],
}


def fl(x):
    x = float(x)
    if x != x:
        return 'nan'
    if x in (math.inf, -math.inf):
        return 'inf' if x > 0 else '-inf'
    return x


def fls(a):
    return [fl(x) for x in np.asarray(a, dtype='d').ravel()]


def err(e):
    return {'err': type(e).__name__, 'msg': str(e)[:160]}


def stored(col, storage):
    """the 1-d float64 column `col` in another storage type; returns (object handed to pydl, float64 copy of the same numbers)"""
    col = np.asarray(col, dtype='d')
    if storage == 'noncontig':
        big = np.zeros(2 * col.size + 1, dtype='d')
        big[1::2] = col
        return big[1::2], col.copy()
    if storage == 'list':
        return [float(v) for v in col], col.copy()
    if storage == 'quantity':
        return col.copy() * u.deg, col.copy()
    a = col.astype(storage)
    return a, a.astype('d')


def same(a, b):
    return bool(np.array_equal(np.asarray(a), np.asarray(b)) and getattr(a, 'dtype', None) == getattr(b, 'dtype', None))


def scan_decl(rng, n):
    """declinations (deg): uniform in angle, uniform on the sphere, on a 1/8 degree grid, round values"""
    which = rng.integers(0, 4, n)
    dec = rng.uniform(-90, 90, n)
    dec = np.where(which == 1, np.degrees(np.arcsin(rng.uniform(-1, 1, n))), dec)
    dec = np.where(which == 2, np.round(dec * 8) / 8, dec)
    dec = np.where(which == 3, rng.choice([0.0, 30.0, -30.0, 45.0, -45.0, 60.0, -60.0, 89.0, -89.0, 1.0, -1.0], n), dec)
    return dec


def small_offsets(rng, n, lo=-16.0, hi=-1.0):
    """(d_ra, d_dec) in degrees: magnitude log-uniform over the decades 10^lo .. 10^hi, a third along RA only, a third along
    Dec only, a third in a random direction; a few exactly zero"""
    mag = 10.0 ** rng.uniform(lo, hi, n)
    ang = rng.uniform(0, 2 * np.pi, n)
    mode = rng.integers(0, 3, n)
    dra = np.where(mode == 1, 0.0, mag * np.cos(ang))
    ddec = np.where(mode == 0, 0.0, mag * np.sin(ang))
    return dra, ddec


def vector_reference_deg(a1, d1, a2, d2):
    """independent vector formula atan2(|p x q|, p . q) in degrees (float64; absolute error ~1e-14 deg)"""
    a1, d1, a2, d2 = [np.radians(v) for v in (a1, d1, a2, d2)]
    p = np.array([np.cos(d1) * np.cos(a1), np.cos(d1) * np.sin(a1), np.sin(d1)])
    q = np.array([np.cos(d2) * np.cos(a2), np.cos(d2) * np.sin(a2), np.sin(d2)])
    c = np.cross(p.T, q.T)
    return np.degrees(np.arctan2(np.sqrt((c * c).sum(1)), (p * q).sum(0)))


def near_scan(j):
    """Volume scan of gcirc around the places where the haversine argument is close to 0, 1/2 or 1 and where the RA difference is
    close to a multiple of half a turn; displacements from the special configuration over the decades 1e-16 .. 1e-1 deg.
    Checks on every pair: finite, within [0, 180 deg], symmetric, and equal to the vector formula (1e-6 relative + 1e-8 arcsec:
    the reference is float64)."""
    rng = np.random.default_rng(j['seed'])
    n, un, kind = j['n'], j['units'], j['kind']
    ra = rng.uniform(0, 360, n)
    ra = np.where(rng.random(n) < 0.25, np.round(ra * 8) / 8, ra)
    dec = scan_decl(rng, n)
    dra, ddec = small_offsets(rng, n)
    if kind == 'near-antipodal':
        ra2, dec2 = ra + 180.0 + dra, -dec + ddec
    elif kind == 'near-coincident':
        ra2, dec2 = ra + dra, dec + ddec
    elif kind == 'near-quadrature':
        # (ra + 180, 90 - dec) is exactly 90 degrees from (ra, dec) for dec >= 0 (over the pole)
        sg = np.where(dec < 0, -1.0, 1.0)
        ra2, dec2 = ra + 180.0 + dra, sg * (90.0 - np.abs(dec)) + ddec
    elif kind == 'ra-multiples':
        # RA difference close to m half turns, m = -4 .. 4: near coincident for even m, near antipodal for odd m
        m = rng.integers(-4, 5, n)
        ra2, dec2 = ra + 180.0 * m + dra, np.where(m % 2 == 0, dec, -dec) + ddec
    elif kind == 'near-pole':
        # both points within 10^-16 .. 1 deg of a pole (or exactly on it), the same pole or opposite poles
        e1 = np.where(rng.random(n) < 0.2, 0.0, 10.0 ** rng.uniform(-16, 0, n))
        e2 = np.where(rng.random(n) < 0.2, 0.0, 10.0 ** rng.uniform(-16, 0, n))
        s1 = rng.choice([1.0, -1.0], n)
        s2 = np.where(rng.random(n) < 0.5, s1, -s1)
        dec, dec2 = s1 * (90.0 - e1), s2 * (90.0 - e2)
        ra2 = np.where(rng.random(n) < 0.5, ra + 180.0 + dra, rng.uniform(0, 360, n))
    elif kind == 'near-equator':
        dec = np.where(rng.random(n) < 0.3, 0.0, rng.choice([1.0, -1.0], n) * 10.0 ** rng.uniform(-16, -1, n))
        m = rng.integers(0, 3, n)
        ra2, dec2 = ra + 180.0 * m + dra, np.where(m == 1, -dec, dec) + ddec
    else:
        return {'err': 'BadJob'}
    dec2 = np.clip(dec2, -90.0, 90.0)
    wrap = rng.random(n)
    ra2 = np.where((wrap < 0.3) & (ra2 >= 360.0), ra2 - 360.0, ra2)
    a = [ra, dec, ra2, dec2]
    if un == 0:
        a = [np.deg2rad(x) for x in a]
    elif un == 1:
        a = [a[0] / 15.0, a[1], a[2] / 15.0, a[3]]
    keep = [x.copy() for x in a]
    with np.errstate(all='ignore'):
        d = gcirc(*a, units=un)
        dswap = gcirc(a[2], a[3], a[0], a[1], units=un)
    unchanged = all(np.array_equal(x, y) for x, y in zip(a, keep))
    # reference from the numbers actually passed
    if un == 0:
        b = [np.degrees(x) for x in a]
    elif un == 1:
        b = [a[0] * 15.0, a[1], a[2] * 15.0, a[3]]
    else:
        b = a
    ref = vector_reference_deg(*b)
    top = math.pi if un == 0 else 648000.0
    to_deg = 180.0 / math.pi if un == 0 else 1.0 / 3600.0
    floor = 1e-8 / 3600.0                      # degrees (the reference is float64: radians of ~1000 deg carry ~4e-10 arcsec)
    ddeg = d * to_deg
    fin = np.isfinite(d) & np.isfinite(dswap)
    masks = {
        'nan': ~fin,
        'range': fin & ((d < 0) | (d > top * (1 + 1e-12))),
        'accuracy': fin & (np.abs(ddeg - ref) > 1e-6 * ref + floor),
        'symmetry': fin & (np.abs(d - dswap) * to_deg > 1e-6 * ref + floor),
    }
    # the same pairs through scalar calls (a sample, the failures of the array call first)
    idx = list(np.flatnonzero(masks['nan'])[:8]) + list(rng.integers(0, n, 48))
    scalar_bad = []
    with np.errstate(all='ignore'):
        for i in idx:
            s = float(gcirc(float(a[0][i]), float(a[1][i]), float(a[2][i]), float(a[3][i]), units=un))
            if not (math.isfinite(s) and 0 <= s <= top * (1 + 1e-12) and abs(s * to_deg - ref[i]) <= 1e-6 * ref[i] + floor):
                scalar_bad.append(int(i))
    out = {'n': int(n), 'scalar_calls': len(idx), 'input_unchanged': bool(unchanged), 'counts': {}, 'examples': {}}
    for what, mk in masks.items():
        bad = np.flatnonzero(mk)
        out['counts'][what] = int(bad.size)
        if bad.size:
            i = int(bad[0])
            out['examples'][what] = {'input': [float(x[i]) for x in a], 'gcirc': fl(d[i]), 'swapped': fl(dswap[i]),
                                     'reference_deg': float(ref[i])}
    out['counts']['scalar'] = len(scalar_bad)
    if scalar_bad:
        i = scalar_bad[0]
        with np.errstate(all='ignore'):
            s = gcirc(float(a[0][i]), float(a[1][i]), float(a[2][i]), float(a[3][i]), units=un)
        out['examples']['scalar'] = {'input': [float(x[i]) for x in a], 'gcirc': fl(s), 'array_call': fl(d[i]),
                                     'reference_deg': float(ref[i])}
    # how close to the special configuration the scan actually went (evidence)
    out['min_ref_deg'], out['max_ref_deg'] = float(ref.min()), float(ref.max())
    return out


def job(j):
    k = j['op']
    try:
        if k == 'history':
            # several calls in ONE process, in order; every answer is later compared with the answer of the same call alone
            return {'results': [job(c) for c in j['calls']]}
        if k == 'gcirc_storage':
            pts = np.array(j['pts'], dtype='d').reshape(-1, 4)
            un, st = j['units'], j['storage']
            if st in ('pyint', 'npint32', 'npuint16', 'npfloat32'):
                conv = {'pyint': int, 'npint32': np.int32, 'npuint16': np.uint16, 'npfloat32': np.float32}[st]
                out, ref = [], []
                with np.errstate(all='ignore'):
                    for p in pts:
                        a = [conv(v) for v in p]
                        out.append(fl(gcirc(*a, units=un)))
                        ref.append(fl(gcirc(*[float(v) for v in a], units=un)))
                return {'d': out, 'ref': ref, 'input_unchanged': True, 'aliases_input': False, 'dtype': None}
            cols, refs = zip(*[stored(pts[:, c], st) for c in range(4)])
            keep = [np.array(c, copy=True) if not isinstance(c, list) else list(c) for c in cols]
            with np.errstate(all='ignore'):
                d = gcirc(*cols, units=un)
                ref = gcirc(*refs, units=un)
            unchanged = all((c == kp) if isinstance(c, list) else same(c, kp) for c, kp in zip(cols, keep))
            alias = any(np.shares_memory(np.asarray(d), c) for c in cols if isinstance(c, np.ndarray))
            return {'d': fls(getattr(d, 'value', d)), 'ref': fls(ref), 'input_unchanged': bool(unchanged), 'aliases_input': bool(alias),
                    'dtype': str(getattr(d, 'dtype', type(d).__name__))}
        if k == 'angles_storage':
            pts = np.array(j['pts'], dtype='d').reshape(-1, 2)
            lat, st = bool(j['latitude']), j['storage']
            if st == 'noncontig':
                big = np.zeros((pts.shape[0], 5), dtype='d')
                big[:, 1::2] = pts
                a = big[:, 1::2]
            elif st == 'fortran':
                a = np.asfortranarray(pts)
            else:
                a = pts.astype(st)
            keep = a.copy()
            ref64 = a.astype('d')
            x = angles_to_x(a, latitude=lat)
            xkeep = np.array(x, copy=True)
            back = x_to_angles(x, latitude=lat)
            xr = angles_to_x(ref64, latitude=lat)
            br = x_to_angles(xr, latitude=lat)
            return {'x': [fls(r) for r in xkeep], 'back': [fls(r) for r in back], 'x_ref': [fls(r) for r in xr],
                    'back_ref': [fls(r) for r in br], 'input_unchanged': same(a, keep), 'x_unchanged': same(x, xkeep),
                    'aliases_input': bool(np.shares_memory(x, a) or np.shares_memory(back, x)),
                    'dtypes': [str(x.dtype), str(back.dtype)]}
        if k == 'gcirc':
            # pts: list of [ra1, dec1, ra2, dec2]; mode 'scalar' (one call per row) or 'array' (one call)
            pts = np.array(j['pts'], dtype='d').reshape(-1, 4)
            un = j['units']
            kw = {} if j.get('default_units') else {'units': un}
            with np.errstate(all='ignore'):
                if j.get('mode') == 'scalar':
                    out = [fl(gcirc(float(p[0]), float(p[1]), float(p[2]), float(p[3]), **kw)) for p in pts]
                else:
                    out = fls(gcirc(pts[:, 0].copy(), pts[:, 1].copy(), pts[:, 2].copy(), pts[:, 3].copy(), **kw))
            return {'d': out}
        if k == 'gcirc_nan_scan':
            # volume scan in the implementation's process: antipodal / coincident / near-antipodal pairs
            rng = np.random.default_rng(j['seed'])
            n = j['n']
            un = j['units']
            ra = rng.uniform(0, 360, n)
            dec = rng.uniform(-90, 90, n)
            if j['kind'] == 'antipodal-grid':
                ra = np.round(ra * 8) / 8
                dec = np.round(dec * 8) / 8
            if j['kind'].startswith('antipodal'):
                ra2, dec2 = ra + 180.0, -dec
                ra2 = np.where(rng.random(n) < 0.5, np.where(ra2 >= 360, ra2 - 360, ra2), ra2)
            elif j['kind'] == 'coincident':
                ra2, dec2 = ra.copy(), dec.copy()
            else:   # poles
                dec = np.where(rng.random(n) < 0.5, 90.0, -90.0)
                ra2, dec2 = rng.uniform(0, 360, n), np.where(rng.random(n) < 0.5, -dec, dec)
            a = [ra, dec, ra2, dec2]
            if un == 0:
                a = [np.deg2rad(x) for x in a]
            elif un == 1:
                a = [a[0] / 15.0, a[1], a[2] / 15.0, a[3]]
            with np.errstate(all='ignore'):
                d = gcirc(*a, units=un)
            bad = np.flatnonzero(~np.isfinite(d))
            top = math.pi if un == 0 else 648000.0
            oor = np.flatnonzero(np.isfinite(d) & ((d < 0) | (d > top * (1 + 1e-12))))
            nz = 0
            if j['kind'] == 'coincident':
                nz = int(np.count_nonzero(d[np.isfinite(d)] != 0.0))
            ex = None
            for idx in list(bad[:1]) + list(oor[:1]):
                ex = [float(x[idx]) for x in a] + [fl(d[idx])]
            return {'n': int(n), 'nonfinite': int(bad.size), 'out_of_range': int(oor.size), 'nonzero_coincident': nz,
                    'example': ex}
        if k == 'gcirc_near_scan':
            return near_scan(j)
        if k == 'gcirc_bad_units':
            try:
                gcirc(1.0, 2.0, 3.0, 4.0, units=j['units'])
                return {'raised': None}
            except Exception as e:  # noqa: BLE001
                return {'raised': type(e).__name__}
        if k in ('r2m', 'm2r', 'r2m2r', 'm2r2m'):
            st = j['stripe']
            lon = np.array(j['lon'], dtype='d')
            lat = np.array(j['lat'], dtype='d')
            if j.get('storage'):
                lon, lat = stored(lon, j['storage'])[0], stored(lat, j['storage'])[0]
                lon_keep, lat_keep = np.array(lon, copy=True), np.array(lat, copy=True)
            res = {}
            if k in ('r2m', 'r2m2r'):
                c = ICRS(ra=lon * u.deg, dec=lat * u.deg)
                m = c.transform_to(pc.SDSSMuNu(stripe=st))
                res['lon1'], res['lat1'] = fls(m.mu.to(u.deg).value), fls(m.nu.to(u.deg).value)
                res['stripe_out'] = m.stripe if isinstance(m.stripe, int) else int(m.stripe)
                res['incl'] = fl(m.incl.to(u.deg).value)
                res['node'] = fl(m.node.to(u.deg).value)
                if k == 'r2m2r':
                    b = m.transform_to(ICRS())
                    res['lon2'], res['lat2'] = fls(b.ra.to(u.deg).value), fls(b.dec.to(u.deg).value)
            else:
                m = pc.SDSSMuNu(mu=lon * u.deg, nu=lat * u.deg, stripe=st)
                c = m.transform_to(ICRS())
                res['lon1'], res['lat1'] = fls(c.ra.to(u.deg).value), fls(c.dec.to(u.deg).value)
                res['incl'] = fl(m.incl.to(u.deg).value)
                res['node'] = fl(m.node.to(u.deg).value)
                if k == 'm2r2m':
                    b = c.transform_to(pc.SDSSMuNu(stripe=st))
                    res['lon2'], res['lat2'] = fls(b.mu.to(u.deg).value), fls(b.nu.to(u.deg).value)
            if j.get('storage'):
                res['input_unchanged'] = bool(same(lon, lon_keep) and same(lat, lat_keep))
            return res
        if k == 'stripe':
            conv = {'int': int, 'int64': np.int64, 'int16': np.int16, 'uint8': np.uint8, 'uint16': np.uint16,
                    'float': float, 'float64': np.float64}[j.get('type', 'int')]
            with np.errstate(all='ignore'):
                res = {'eta': [fl(pc.stripe_to_eta(conv(s))) for s in j['stripes']],
                       'incl': [fl(pc.stripe_to_incl(conv(s))) for s in j['stripes']]}
            if j.get('frame'):
                # the frame attribute as the transforms see it
                res['frame_incl'] = [fl(pc.SDSSMuNu(stripe=conv(s)).incl.to(u.deg).value) for s in j['stripes'][:12]]
            return res
        if k == 'angles':
            pts = np.array(j['pts'], dtype='d').reshape(-1, 2)
            lat = FLAGS[j['flag']]() if 'flag' in j else bool(j['latitude'])
            keep = pts.copy()
            x = angles_to_x(pts, latitude=lat)
            xkeep = x.copy()
            back = x_to_angles(x, latitude=lat)
            x_unchanged = bool(np.array_equal(xkeep, x))
            back2 = x_to_angles(x, latitude=lat)     # same array again: must give the same answer
            return {'x': [fls(r) for r in xkeep], 'back': [fls(r) for r in back],
                    'input_unchanged': bool(np.array_equal(keep, pts)), 'x_unchanged': x_unchanged,
                    'x_after': [fls(r) for r in x[:2]],
                    'second_call_same': bool(np.array_equal(back, back2, equal_nan=True))}
        if k == 'x2a':
            x = np.array(j['x'], dtype='d').reshape(-1, 3)
            lat = FLAGS[j['flag']]() if 'flag' in j else bool(j['latitude'])
            xkeep = x.copy()
            a = x_to_angles(x, latitude=lat)
            x_unchanged = bool(np.array_equal(xkeep, x))
            a2 = x_to_angles(x, latitude=lat)        # same array again
            akeep = a.copy()
            xb = angles_to_x(a, latitude=lat)
            return {'a': [fls(r) for r in akeep], 'back': [fls(r) for r in xb], 'x_unchanged': x_unchanged,
                    'x_after': [fls(r) for r in x[:2]], 'angles_unchanged': bool(np.array_equal(akeep, a)),
                    'second_call_same': bool(np.array_equal(akeep, a2, equal_nan=True))}
        return {'err': 'BadJob'}
    except Exception as e:  # noqa: BLE001 - the error class is the observation
        return err(e)


def main():
    jobs = json.load(sys.stdin)
    json.dump({'pydl_file': pydl.__file__, 'results': [job(j) for j in jobs]}, sys.stdout)


if __name__ == '__main__':
    main()
