"""Fail-closed extractor for the index / comparison / constant arithmetic of pydl/pydlutils/bspline.py.

Regenerates coq/Generated/BSpline.v (used by C08, C09, C10 and, through iterfit, C11): every definition `bs_*` is the
translation of ONE expression of the source, located by the shape of its statement inside the named function:

  bspline.__init__  bkspace -> nbkpts formula, the `nbkpts < 2` clamp, the equally spaced point, the every-n count /
                    single test / index expression with its np.minimum clamp, the placed filter and its `w.sum() < 2`
                    fallback, the two (independent) coverage-repair tests, the padding arange bounds, spacing and the
                    two inserted values
  intrv             start, n, the advance condition (`>` and the cap n-1)
  bsplvn            loop bound, ipj / imj, deltap / deltam, inner range, the deltam index j-l, vm / new value / vmprev
  action            number of segments, the slot index, the lower position, defaults, the 2*nord guard
  value             n, ict and its test, the outside comparisons and their knot indices, the un-sort assignment
  fit               the nn < nord test, bi / bo blocks, loop count, itop / ibottom, the beta slice, the alpha target,
                    ict and its test, min_influence
  maskpoints        the give-up test, n, hmm, the hmm >= n test, the jj range, the two clamp expressions
  cholesky_band     the diagonal screening comparison and the scope of the finiteness test
  iterfit           good-point test, the loop condition and its initial values, the un-sort assignments (final and
                    both early returns), the weights handed to fit, the arguments handed to djs_reject

Anything whose shape is not recognised raises Unrecognised: the caller restores the committed baseline file and the
correspondence run alone ties model to code (no alarm).
"""
import ast
import os
import re
from fractions import Fraction


class Unrecognised(Exception):
    pass


# ------------------------------------------------------------------ expression translation

NAT_OPS = {ast.Add: '+', ast.Sub: '-', ast.Mult: '*', ast.FloorDiv: '/'}


def nat(node, env):
    if isinstance(node, ast.Constant) and isinstance(node.value, int) and not isinstance(node.value, bool) and node.value >= 0:
        return '%d' % node.value
    if isinstance(node, (ast.Name, ast.Attribute, ast.Subscript, ast.Call)) and ast.unparse(node) in env:
        return env[ast.unparse(node)]
    if isinstance(node, ast.BinOp) and type(node.op) in NAT_OPS:
        return '(%s %s %s)' % (nat(node.left, env), NAT_OPS[type(node.op)], nat(node.right, env))
    if isinstance(node, ast.Call) and isinstance(node.func, ast.Name) and node.func.id in ('min', 'max') and len(node.args) == 2:
        return '(Nat.%s %s %s)' % (node.func.id, nat(node.args[0], env), nat(node.args[1], env))
    if isinstance(node, ast.Call) and isinstance(node.func, ast.Name) and node.func.id == 'int' and len(node.args) == 1 \
            and isinstance(node.args[0], ast.BinOp) and isinstance(node.args[0].op, ast.Div):
        # int(a / b) on non-negative integers
        return '(%s / %s)' % (nat(node.args[0].left, env), nat(node.args[0].right, env))
    raise Unrecognised('nat expression %s' % ast.unparse(node))


def zed(node, env):
    if isinstance(node, ast.Constant) and isinstance(node.value, int) and not isinstance(node.value, bool):
        return '%d' % node.value if node.value >= 0 else '(%d)' % node.value
    if isinstance(node, ast.UnaryOp) and isinstance(node.op, ast.USub):
        return '(- %s)' % zed(node.operand, env)
    if isinstance(node, (ast.Name, ast.Attribute, ast.Subscript, ast.Call)) and ast.unparse(node) in env:
        return env[ast.unparse(node)]
    if isinstance(node, ast.BinOp) and type(node.op) in NAT_OPS:
        return '(%s %s %s)' % (zed(node.left, env), NAT_OPS[type(node.op)], zed(node.right, env))
    raise Unrecognised('Z expression %s' % ast.unparse(node))


def qlit(v):
    fr = Fraction(repr(v)) if isinstance(v, float) else Fraction(v)
    return '(%d # %d)' % (fr.numerator, fr.denominator)


def rat(node, env):
    if isinstance(node, ast.Constant) and isinstance(node.value, (int, float)) and not isinstance(node.value, bool):
        return qlit(node.value)
    if isinstance(node, (ast.Name, ast.Attribute, ast.Subscript, ast.Call)) and ast.unparse(node) in env:
        return env[ast.unparse(node)]
    if isinstance(node, ast.BinOp) and type(node.op) in (ast.Add, ast.Sub, ast.Mult, ast.Div):
        op = {ast.Add: '+', ast.Sub: '-', ast.Mult: '*', ast.Div: '/'}[type(node.op)]
        return '(%s %s %s)' % (rat(node.left, env), op, rat(node.right, env))
    raise Unrecognised('Q expression %s' % ast.unparse(node))


def compare(node, env, kind):
    """single comparison -> Gallina bool"""
    if not (isinstance(node, ast.Compare) and len(node.ops) == 1):
        raise Unrecognised('comparison %s' % ast.unparse(node))
    tr = {'nat': nat, 'Z': zed, 'Q': rat}[kind]
    a, b = tr(node.left, env), tr(node.comparators[0], env)
    op = type(node.ops[0])
    if kind == 'Q':
        tbl = {ast.Lt: 'Qltb %s %s' % (a, b), ast.LtE: 'Qle_bool %s %s' % (a, b), ast.Gt: 'Qltb %s %s' % (b, a),
               ast.GtE: 'Qle_bool %s %s' % (b, a), ast.Eq: 'Qeq_bool %s %s' % (a, b)}
    else:
        tbl = {ast.Lt: '(%s <? %s)' % (a, b), ast.LtE: '(%s <=? %s)' % (a, b), ast.Gt: '(%s <? %s)' % (b, a),
               ast.GtE: '(%s <=? %s)' % (b, a), ast.Eq: '(%s =? %s)' % (a, b), ast.NotEq: 'negb (%s =? %s)' % (a, b)}
    if op not in tbl:
        raise Unrecognised('operator in %s' % ast.unparse(node))
    return tbl[op]


def expr(text):
    return ast.parse(text, mode='eval').body


# ------------------------------------------------------------------ locating statements

class Fn:
    def __init__(self, tree, name):
        hits = [n for n in ast.walk(tree) if isinstance(n, ast.FunctionDef) and n.name == name]
        if len(hits) != 1:
            raise Unrecognised('function %s' % name)
        self.node = hits[0]
        self.name = name
        self.stmts = [n for n in ast.walk(self.node) if isinstance(n, ast.stmt)]

    def head(self, n):
        """first line of the unparsed statement (the test of an if/while/for, the whole of a simple statement)"""
        return ast.unparse(n).split('\n')[0]

    def find(self, pattern, count=1, types=None):
        rx = re.compile(pattern)
        out = []
        for n in self.stmts:
            if types and not isinstance(n, types):
                continue
            m = rx.fullmatch(self.head(n))
            if m:
                out.append((n, m))
        if len(out) != count:
            raise Unrecognised('%s: %d statements match /%s/ (expected %d)' % (self.name, len(out), pattern, count))
        return out

    def one(self, pattern, types=None):
        return self.find(pattern, 1, types)[0]


def generate(repo):
    info = {'recognised': False}
    D = []     # (name, signature, body, source comment)

    def d(name, sig, body, src):
        D.append((name, sig, body, src))

    try:
        tree = ast.parse(open(os.path.join(repo, 'pydl', 'pydlutils', 'bspline.py')).read())

        # ---------------------------------------------------------------- __init__
        f = Fn(tree, '__init__')
        n, m = f.one(r'nbkpts = (int\(rangex / bkspace\) .*)')
        # int(rangex / bkspace) is a floor of a non-negative rational
        body = m.group(1)
        mm = re.fullmatch(r'int\(rangex / bkspace\)( [+-] \d+)?', body)
        if not mm:
            raise Unrecognised('nbkpts formula %s' % body)
        d('bs_nbkpts_of_bkspace', '(rangex bkspace : Q) : nat', '(Qfloor_nat (rangex / bkspace)%s)%%nat' % (mm.group(1) or ''), n)
        clamps = f.find(r'if (nbkpts < \d+):', 2, ast.If)
        vals = set()
        for node, m in clamps:
            if len(node.body) != 1 or node.orelse or not re.fullmatch(r'nbkpts = \d+', f.head(node.body[0])):
                raise Unrecognised('nbkpts clamp body')
            vals.add((m.group(1), f.head(node.body[0])))
        if len(vals) != 1:
            raise Unrecognised('the two nbkpts clamps differ')
        test, asg = vals.pop()
        d('bs_nbkpts_clamp', '(nbkpts : nat) : nat', 'if %s then %s%%nat else nbkpts' % (
            compare(expr(test), {'nbkpts': 'nbkpts'}, 'nat'), asg.split('= ')[1]), clamps[0][0])
        tb = f.find(r'tempbkspace = (.+)', 2)
        if len(set(m.group(1) for _, m in tb)) != 1:
            raise Unrecognised('tempbkspace differs between the bkspace and nbkpts branches')
        bk = f.find(r"bkpt = np\.arange\(nbkpts, dtype='f'\) \* tempbkspace \+ startx", 2)
        t = expr(tb[0][1].group(1))
        if not (isinstance(t, ast.BinOp) and isinstance(t.op, ast.Div) and ast.unparse(t.left) == 'rangex'
                and re.fullmatch(r'float\((.+)\)', ast.unparse(t.right))):
            raise Unrecognised('tempbkspace %s' % ast.unparse(t))
        den = nat(expr(re.fullmatch(r'float\((.+)\)', ast.unparse(t.right)).group(1)), {'nbkpts': 'nbkpts'})
        d('bs_equi_point', '(i nbkpts : nat) (startx rangex : Q) : Q',
          'inject_Z (Z.of_nat i) * (rangex / inject_Z (Z.of_nat %s)) + startx' % den, tb[0][0])
        n, m = f.one(r'nbkpts = (max\(nx // everyn, \d+\))')
        d('bs_everyn_nb', '(nx everyn : nat) : nat', nat(expr(m.group(1)), {'nx': 'nx', 'everyn': 'everyn'}), n)
        n, m = f.one(r'if (nbkpts == \d+):', ast.If)
        if f.head(n.body[0]) != 'xspot = [0]':
            raise Unrecognised('every-n single branch')
        d('bs_everyn_single', '(nbkpts : nat) : bool', compare(expr(m.group(1)), {'nbkpts': 'nbkpts'}, 'nat'), n)
        n, m = f.one(r"xspot = (.+) \* np\.arange\(nbkpts, dtype='i4'\)")
        step = nat(expr(m.group(1)), {'nx': 'nx', 'nbkpts': 'nbkpts'})
        n2, m2 = f.one(r'xspot = np\.minimum\(xspot, (.+)\)')
        d('bs_everyn_pos', '(nx nbkpts i : nat) : nat', 'Nat.min (%s * i) %s' % (step, nat(expr(m2.group(1)), {'nx': 'nx'})), n)
        f.one(r"bkpt = x\[xspot\]\.astype\('[fd]'\)")
        n, m = f.one(r'w = \((.+)\) & \((.+)\)')
        env = {'placed': 't', 'startx': 'startx', 'rangex': 'rangex'}
        d('bs_placed_keep', '(startx rangex t : Q) : bool', '%s && %s' % (compare(expr(m.group(1)), env, 'Q'), compare(expr(m.group(2)), env, 'Q')), n)
        n, m = f.one(r'if (w\.sum\(\) < \d+):', ast.If)
        d('bs_placed_too_few', '(cnt : nat) : bool', compare(expr(m.group(1)), {'w.sum()': 'cnt'}, 'nat'), n)
        if f.head(n.body[0]) != "bkpt = np.arange(2, dtype='f') * rangex + startx" or f.head(n.orelse[0]) != 'bkpt = placed[w]':
            raise Unrecognised('placed fallback')
        # coverage repair: two independent ifs
        n1, m1 = f.one(r'if (x\.min\(\) .+ bkpt\[imin\]):', ast.If)
        n2, m2 = f.one(r'if (x\.max\(\) .+ bkpt\[imax\]):', ast.If)
        if n1.orelse or n2.orelse or f.head(n1.body[-1]) != 'bkpt[imin] = x.min()' or f.head(n2.body[-1]) != 'bkpt[imax] = x.max()':
            raise Unrecognised('coverage repair bodies')
        parent = [b for b in ast.walk(f.node) if isinstance(b, (ast.FunctionDef, ast.If, ast.For, ast.While)) and n1 in getattr(b, 'body', [])]
        indep = bool(parent) and n2 in parent[0].body
        f.one(r'imin = bkpt\.argmin\(\)')
        f.one(r'imax = bkpt\.argmax\(\)')
        d('bs_cover_lo', '(xmin b : Q) : bool', compare(expr(m1.group(1)), {'x.min()': 'xmin', 'bkpt[imin]': 'b'}, 'Q'), n1)
        d('bs_cover_hi', '(xmax b : Q) : bool', compare(expr(m2.group(1)), {'x.max()': 'xmax', 'bkpt[imax]': 'b'}, 'Q'), n2)
        d('bs_cover_independent', ': bool', 'true' if indep else 'false', n2)
        # padding
        n, m = f.one(r'for i in np\.arange\((.+), (.+), dtype=np\.float32\):', ast.For)
        d('bs_pad_first', ': nat', nat(expr(m.group(1)), {'nord': 'nord'}) + '%nat', n)
        d('bs_pad_stop', '(nord : nat) : nat', nat(expr(m.group(2)), {'nord': 'nord'}), n)
        ins = [f.head(b) for b in n.body]
        m1 = re.fullmatch(r'fullbkpt = np\.insert\(fullbkpt, 0, (.+)\)', ins[0]) if len(ins) == 2 else None
        m2 = re.fullmatch(r'fullbkpt = np\.insert\(fullbkpt, fullbkpt\.shape\[0\], (.+)\)', ins[1]) if len(ins) == 2 else None
        if not (m1 and m2):
            raise Unrecognised('padding inserts')
        d('bs_pad_lo', '(b0 sp i : Q) : Q', rat(expr(m1.group(1)), {'bkpt[0]': 'b0', 'bkspace': 'sp', 'i': 'i'}), n)
        d('bs_pad_hi', '(blast sp i : Q) : Q', rat(expr(m2.group(1)), {'bkpt[nshortbkpt - 1]': 'blast', 'bkspace': 'sp', 'i': 'i'}), n)
        n, m = f.one(r'bkspace = (\(bkpt\[1\] - bkpt\[0\]\) \* np\.float32\(bkspread\))')
        d('bs_pad_spacing', '(b0 b1 bkspread : Q) : Q', rat(expr(m.group(1)), {'bkpt[1]': 'b1', 'bkpt[0]': 'b0', 'np.float32(bkspread)': 'bkspread'}), n)
        f.one(r'bkspace = np\.float32\(bkspread\)')
        n, m = f.one(r'if (nshortbkpt == \d+):', ast.If)
        d('bs_pad_single', '(nshort : nat) : bool', compare(expr(m.group(1)), {'nshortbkpt': 'nshort'}, 'nat'), n)

        # ---------------------------------------------------------------- intrv
        f = Fn(tree, 'intrv')
        n, m = f.one(r'ileft = (.+)')
        d('bs_intrv_start', '(nord : nat) : nat', nat(expr(m.group(1)), {'self.nord': 'nord'}), n)
        n, m = f.one(r'n = (gb\.size .+)')
        d('bs_intrv_n', '(size nord : nat) : nat', nat(expr(m.group(1)), {'gb.size': 'size', 'self.nord': 'nord'}), n)
        n, m = f.one(r'while (x\[i\] .+ gb\[(.+)\]) and (ileft .+):', ast.While)
        if [f.head(b) for b in n.body] != ['ileft += 1']:
            raise Unrecognised('intrv loop body')
        d('bs_intrv_next', '(ileft : nat) : nat', nat(expr(m.group(2)), {'ileft': 'ileft'}), n)
        d('bs_intrv_advance', '(x gbnext : Q) (ileft n : nat) : bool', '%s && %s' % (
            compare(expr(m.group(1)), {'x[i]': 'x', 'gb[%s]' % m.group(2): 'gbnext'}, 'Q'),
            compare(expr(m.group(3)), {'ileft': 'ileft', 'n': 'n'}, 'nat')), n)
        f.one(r'indx\[i\] = ileft')

        # ---------------------------------------------------------------- bsplvn
        f = Fn(tree, 'bsplvn')
        n, m = f.one(r'while (j < .+):', ast.While)
        d('bs_bsplvn_continue', '(j nord : nat) : bool', compare(expr(m.group(1)), {'j': 'j', 'self.nord': 'nord'}, 'nat'), n)
        f.one(r'j = 0')
        f.one(r'vnikx\[:, 0\] = 1\.0')
        n, m = f.one(r'ipj = (.+)')
        d('bs_ipj', '(ileft j : nat) : nat', nat(expr(m.group(1)), {'ileft': 'ileft', 'j': 'j'}), n)
        n, m = f.one(r'imj = (.+)')
        d('bs_imj', '(ileft j : nat) : nat', nat(expr(m.group(1)), {'ileft': 'ileft', 'j': 'j'}), n)
        n, m = f.one(r'deltap\[:, j\] = (.+)')
        d('bs_deltap', '(knot x : Q) : Q', rat(expr(m.group(1)), {'bkpt[ipj]': 'knot', 'x': 'x'}), n)
        n, m = f.one(r'deltam\[:, j\] = (.+)')
        d('bs_deltam', '(knot x : Q) : Q', rat(expr(m.group(1)), {'bkpt[imj]': 'knot', 'x': 'x'}), n)
        n, m = f.one(r'for l in range\((.+)\):', ast.For)
        d('bs_inner_count', '(j : nat) : nat', nat(expr(m.group(1)), {'j': 'j'}), n)
        n, m = f.one(r'vm = vnikx\[:, l\] / \(deltap\[:, l\] \+ deltam\[:, (.+)\]\)')
        dmi = m.group(1)
        d('bs_dm_index', '(j l : nat) : nat', nat(expr(dmi), {'j': 'j', 'l': 'l'}), n)
        d('bs_vm', '(a p m : Q) : Q', 'a / (p + m)', n)
        n, m = f.one(r'vnikx\[:, l\] = (.+)')
        d('bs_vnew', '(vm p prev : Q) : Q', rat(expr(m.group(1)), {'vm': 'vm', 'deltap[:, l]': 'p', 'vmprev': 'prev'}), n)
        n, m = f.one(r'vmprev = (vm .+)')
        d('bs_vmprev', '(vm m : Q) : Q', rat(expr(m.group(1)), {'vm': 'vm', 'deltam[:, %s]' % dmi: 'm'}), n)
        f.one(r'vmprev = 0\.0')
        f.one(r'vnikx\[:, j\] = vmprev')

        # ---------------------------------------------------------------- action
        f = Fn(tree, 'action')
        n, m = f.one(r'if (nbkpt < .+):', ast.If)
        d('bs_action_too_few', '(nbkpt nord : nat) : bool', compare(expr(m.group(1)), {'nbkpt': 'nbkpt', 'self.nord': 'nord'}, 'nat'), n)
        n, m = f.one(r"lower = np\.zeros\(\((.+),\), dtype='i4'\)")
        nseg = m.group(1)
        n2, m2 = f.one(r"upper = np\.zeros\(\((.+),\), dtype='i4'\) - (\d+)")
        if m2.group(1) != nseg:
            raise Unrecognised('lower/upper sizes differ')
        d('bs_action_nseg', '(n nord : nat) : nat', nat(expr(nseg), {'n': 'n', 'self.nord': 'nord'}), n)
        d('bs_action_upper_default', ': Z', '(- %s)%%Z' % m2.group(2), n2)
        n, m = f.one(r'upper\[indx\[aa\] (.+)\] = aa')
        n2, m2 = f.one(r'lower\[rindx\[bb\] (.+)\] = (.+)')
        if m.group(1) != m2.group(1):
            raise Unrecognised('slot expressions differ')
        d('bs_action_slot', '(v nord : Z) : Z', zed(expr('v ' + m.group(1)), {'v': 'v', 'self.nord': 'nord'}) + '%Z', n)
        d('bs_action_lower_pos', '(nx bb : Z) : Z', zed(expr(m2.group(2)), {'nx': 'nx', 'bb': 'bb'}) + '%Z', n2)
        f.one(r'rindx = indx\[::-1\]')
        f.one(r"aa = uniq\(indx, np\.arange\(indx\.size, dtype='i4'\)\)")
        f.one(r"bb = uniq\(rindx, np\.arange\(rindx\.size, dtype='i4'\)\)")

        # ---------------------------------------------------------------- value
        f = Fn(tree, 'value')
        n, m = f.one(r'n = (self\.mask\.sum\(\) .+)')
        d('bs_value_n', '(cnt nord : nat) : nat', nat(expr(m.group(1)), {'self.mask.sum()': 'cnt', 'self.nord': 'nord'}), n)
        n, m = f.one(r'ict = (.+)')
        d('bs_value_ict', '(upper lower : Z) : Z', zed(expr(m.group(1)), {'upper[i]': 'upper', 'lower[i]': 'lower'}) + '%Z', n)
        n, m = f.one(r'if (ict .+):', ast.If)
        d('bs_value_ict_nonempty', '(ict : Z) : bool', compare(expr(m.group(1)), {'ict': 'ict'}, 'Z') + '%Z', n)
        n, m = f.one(r'yfit\[lower\[i\]:(.+)\] = np\.dot\(action\[lower\[i\]:(.+), :\], goodcoeff\[i \* self\.npoly \+ spot\]\)')
        if m.group(1) != m.group(2):
            raise Unrecognised('value slice')
        d('bs_value_slice_stop', '(upper : Z) : Z', zed(expr(m.group(1)), {'upper[i]': 'upper'}) + '%Z', n)
        n, m = f.one(r'outside = \((x .+ gb\[(.+)\])\) \| \((x .+ gb\[(.+)\])\)')
        d('bs_value_outside', '(x lo hi : Q) : bool', '%s || %s' % (
            compare(expr(m.group(1)), {'x': 'x', 'gb[%s]' % m.group(2): 'lo'}, 'Q'),
            compare(expr(m.group(3)), {'x': 'x', 'gb[%s]' % m.group(4): 'hi'}, 'Q')), n)
        d('bs_value_lo_index', '(nord : nat) : nat', nat(expr(m.group(2)), {'self.nord': 'nord'}), n)
        d('bs_value_hi_index', '(n : nat) : nat', nat(expr(m.group(4)), {'n': 'n'}), n)
        f.one(r'mask\[outside\] = False')
        n, m = f.one(r'yy\[xsort\] = yfit')           # scatter: position xsort[i] of the result receives sorted value i
        f.one(r'yy = yfit\.copy\(\)')
        f.one(r'xsort = x\.argsort\(\)')
        d('bs_value_unsort_is_scatter', ': bool', 'true', n)

        # ---------------------------------------------------------------- fit
        f = Fn(tree, 'fit')
        n, m = f.one(r'if (nn [<>=!]+ .+):', ast.If)
        if not re.fullmatch(r'return \(-2, yfit\)', f.head(n.body[-1])):
            raise Unrecognised('fit: nn test does not return -2')
        d('bs_fit_too_few', '(nn nord : nat) : bool', compare(expr(m.group(1)), {'nn': 'nn', 'self.nord': 'nord'}, 'nat'), n)
        f.one(r'goodbk = self\.mask\[self\.nord:\]')
        f.one(r'nn = goodbk\.sum\(\)')
        f.one(r"bi = np\.arange\(bw, dtype='i4'\)")
        f.one(r"bo = np\.arange\(bw, dtype='i4'\)")
        n, m = f.one(r'for k in range\((\d+), bw\):', ast.For)
        if m.group(1) != '1':
            raise Unrecognised('bi/bo block loop start')
        b1 = re.fullmatch(r"bi = np\.append\(bi, np\.arange\((.+), dtype='i4'\) \+ (.+)\)", f.head(n.body[0]))
        b2 = re.fullmatch(r"bo = np\.append\(bo, np\.arange\((.+), dtype='i4'\) \+ (.+)\)", f.head(n.body[1]))
        if not (b1 and b2 and b1.group(1) == b2.group(1)):
            raise Unrecognised('bi/bo blocks')
        env = {'bw': 'bw', 'k': 'k'}
        d('bs_fit_block_len', '(bw k : nat) : nat', nat(expr(b1.group(1)), env), n)
        d('bs_fit_bi', '(bw k i : nat) : nat', '(i + %s)' % nat(expr(b1.group(2)), env), n)
        d('bs_fit_bo', '(bw k i : nat) : nat', '(i + %s)' % nat(expr(b2.group(2)), env), n)
        n, m = f.one(r'for k in range\((nn .+)\):', ast.For)
        d('bs_fit_nloop', '(nn nord : nat) : nat', nat(expr(m.group(1)), {'nn': 'nn', 'self.nord': 'nord'}), n)
        n, m = f.one(r'itop = (.+)')
        d('bs_fit_itop', '(k npoly : nat) : nat', nat(expr(m.group(1)), {'k': 'k', 'self.npoly': 'npoly'}), n)
        n, m = f.one(r'ibottom = (.+)')
        d('bs_fit_ibottom', '(itop nfull bw : nat) : nat', nat(expr(m.group(1)), {'itop': 'itop', 'nfull': 'nfull', 'bw': 'bw'}), n)
        n, m = f.one(r'beta\[(.+):(.+)\] \+= wb')
        d('bs_fit_beta_start', '(itop : nat) : nat', nat(expr(m.group(1)), {'itop': 'itop'}), n)
        d('bs_fit_beta_stop', '(ibottom : nat) : nat', nat(expr(m.group(2)), {'ibottom': 'ibottom'}), n)
        n, m = f.one(r'alpha\.T\.flat\[bo \+ (.+)\] \+= work\.flat\[bi\]')
        d('bs_fit_alpha_offset', '(itop bw : nat) : nat', nat(expr(m.group(1)), {'itop': 'itop', 'bw': 'bw'}), n)
        n, m = f.one(r'ict = (.+)')
        d('bs_fit_ict', '(upper lower : Z) : Z', zed(expr(m.group(1)), {'upper[k]': 'upper', 'lower[k]': 'lower'}) + '%Z', n)
        n, m = f.one(r'if (ict .+):', ast.If)
        d('bs_fit_ict_nonempty', '(ict : Z) : bool', compare(expr(m.group(1)), {'ict': 'ict'}, 'Z') + '%Z', n)
        n, m = f.one(r'min_influence = (.+)')
        d('bs_fit_mininf', '(sumw nfull : Q) : Q', rat(expr(m.group(1)), {'invvar.sum()': 'sumw', 'nfull': 'nfull'}), n)
        f.one(r'a2 = a1 \* foo')

        # ---------------------------------------------------------------- maskpoints
        f = Fn(tree, 'maskpoints')
        n, m = f.one(r'if (nbkpt .+ 2 \* self\.nord):', ast.If)
        if f.head(n.body[0]) != 'return -2':
            raise Unrecognised('maskpoints give-up')
        d('bs_mp_give_up', '(nbkpt nord : nat) : bool', compare(expr(m.group(1)), {'nbkpt': 'nbkpt', 'self.nord': 'nord'}, 'nat'), n)
        f.one(r'nbkpt = self\.mask\.sum\(\)')
        n, m = f.one(r'n = (nbkpt .+)')
        d('bs_mp_n', '(nbkpt nord : nat) : nat', nat(expr(m.group(1)), {'nbkpt': 'nbkpt', 'self.nord': 'nord'}), n)
        n, m = f.one(r'hmm = np\.unique\(np\.atleast_1d\(err\)\.astype\(int\) // self\.npoly\)')
        d('bs_mp_hmm', '(err npoly : nat) : nat', '(err / npoly)', n)
        n, m = f.one(r'if np\.any\((hmm .+ n)\):', ast.If)
        d('bs_mp_beyond', '(h n : nat) : bool', compare(expr(m.group(1)), {'hmm': 'h', 'n': 'n'}, 'nat'), n)
        n, m = f.one(r'for jj in range\((.+), (.+)\):', ast.For)
        d('bs_mp_jj_start', '(nord : Z) : Z', zed(expr(m.group(1)), {'self.nord': 'nord'}) + '%Z', n)
        d('bs_mp_jj_stop', '(nord : Z) : Z', zed(expr(m.group(2)), {'self.nord': 'nord'}) + '%Z', n)
        n, m = f.one(r'foo = np\.where\((.+), (.+), np\.zeros\(hmm\.shape, dtype=hmm\.dtype\)\)')
        env = {'hmm': 'h', 'jj': 'jj'}
        d('bs_mp_foo', '(h jj : Z) : Z', '(if %s then %s else 0)%%Z' % (compare(expr(m.group(1)), env, 'Z'), zed(expr(m.group(2)), env)), n)
        n, m = f.one(r'inside = np\.where\((.+), (.+), np\.zeros\(hmm\.shape, dtype=hmm\.dtype\) \+ (.+)\)')
        env = {'foo': 'foo', 'self.nord': 'nord', 'n': 'n'}
        d('bs_mp_inside', '(foo nord n : Z) : Z', '(if %s then %s else %s)%%Z' % (
            compare(expr(m.group(1)), env, 'Z'), zed(expr(m.group(2)), env), zed(expr(m.group(3)), env)), n)
        f.one(r'reality = goodbk\[test\]')
        f.one(r'self\.mask\[reality\] = False')

        # ---------------------------------------------------------------- cholesky_band
        f = Fn(tree, 'cholesky_band')
        n, m = f.one(r'negative = (l\[0, 0:n\] .+ mininf)')
        d('bs_chol_negative', '(d mininf : Q) : bool', compare(expr(m.group(1)), {'l[0, 0:n]': 'd', 'mininf': 'mininf'}, 'Q'), n)
        n, m = f.one(r'if negative\.any\(\) or not np\.all\(np\.isfinite\((.+)\)\):', ast.If)
        d('bs_chol_finite_whole_matrix', ': bool', 'true' if m.group(1) == 'l' else 'false', n)
        f.one(r'n = nn - bw')

        # ---------------------------------------------------------------- iterfit
        f = Fn(tree, 'iterfit')
        n, m = f.one(r'maskwork = \(outmask & \((invvar .+)\)\)\[xsort\]')
        d('bs_iter_good', '(w : Q) : bool', compare(expr(m.group(1)), {'invvar': 'w'}, 'Q'), n)
        n, m = f.one(r'while (.+):', ast.While) if False else (None, None)
        loops = [(x, f.head(x)) for x in f.stmts if isinstance(x, ast.While) and 'qdone' in f.head(x)]
        if len(loops) != 1:
            raise Unrecognised('iterfit main loop')
        n, head = loops[0]
        test = n.test
        if not (isinstance(test, ast.BoolOp) and isinstance(test.op, ast.And) and len(test.values) == 2
                and isinstance(test.values[0], ast.BoolOp) and isinstance(test.values[0].op, ast.Or) and len(test.values[0].values) == 2):
            raise Unrecognised('iterfit loop condition %s' % head)
        e1, e2 = test.values[0].values
        if ast.unparse(e2) == 'not qdone':
            q = 'negb qdone'
        elif ast.unparse(e2) == 'qdone':
            q = 'qdone'
        else:
            raise Unrecognised('qdone test %s' % ast.unparse(e2))
        d('bs_iter_continue', '(error : Z) (qdone : bool) (iiter maxiter : nat) : bool', '(%s || %s) && %s' % (
            compare(e1, {'error': 'error'}, 'Z') + '%Z', q, compare(test.values[1], {'iiter': 'iiter', 'maxiter': 'maxiter'}, 'nat')), n)
        init = {}
        for name in ('iiter', 'error', 'qdone'):
            hits = [f.head(x) for x in f.node.body if isinstance(x, ast.Assign) and f.head(x).startswith(name + ' = ')]
            if len(hits) != 1:
                raise Unrecognised('initial value of %s' % name)
            init[name] = hits[0].split(' = ')[1]
        d('bs_iter_init_iiter', ': nat', '%s%%nat' % nat(expr(init['iiter']), {}), n)
        d('bs_iter_init_error', ': Z', '%s%%Z' % zed(expr(init['error']), {}), n)
        if init['qdone'] not in ('False', 'True'):
            raise Unrecognised('qdone initial value %s' % init['qdone'])
        d('bs_iter_init_qdone', ': bool', init['qdone'].lower(), n)
        f.one(r'iiter \+= 1')
        scat = [x for x in f.stmts if f.head(x) == 'outmask[xsort] = maskwork']
        d('bs_iter_unsort_assignments', ': nat', '%d%%nat' % len(scat), scat[0] if scat else n)
        # every `return (sset, outmask)` after the sort must be preceded by the un-sort assignment
        rets = [x for x in f.stmts if isinstance(x, ast.Return) and f.head(x) == 'return (sset, outmask)']
        ok = 0
        for blk in ast.walk(f.node):
            for field in ('body', 'orelse'):
                body = getattr(blk, field, None)
                if isinstance(body, list):
                    for i, x in enumerate(body):
                        if x in rets and i > 0 and f.head(body[i - 1]) == 'outmask[xsort] = maskwork':
                            ok += 1
        d('bs_iter_returns', ': nat', '%d%%nat' % len(rets), rets[0])
        d('bs_iter_returns_unsorted_first', ': nat', '%d%%nat' % ok, rets[0])
        n, m = f.one(r'error, yfit = sset\.fit\(xwork, ywork, (.+), x2=x2work\)')
        d('bs_iter_fit_weight', '(w : Q) (m : bool) : Q', rat(expr(m.group(1)), {'invwork': 'w', 'maskwork': '(if m then 1 else 0)'}), n)
        n, m = f.one(r'maskwork, qdone = djs_reject\((.+)\)')
        call = expr('f(%s)' % m.group(1))
        args = [ast.unparse(a) for a in call.args] + ['%s=%s' % (k.arg, ast.unparse(k.value)) for k in call.keywords]
        d('bs_iter_reject_args', ': list string', '[' + '; '.join('"%s"' % a for a in args) + ']', n)
        f.one(r'inmask = maskwork')
        # ---- the guards of iterfit (round 5).  An early return is an `if` whose body ENDS with the un-sort assignment and
        # `return (sset, outmask)`.  Exactly two exist: "too few good points" (a count compared with sset.nord; the count is
        # `maskwork.sum()` written inline or hoisted into a local assigned once from it) and "the fit failed" (error == -2).
        def is_early(x):
            return (isinstance(x, ast.If) and len(x.body) >= 2 and f.head(x.body[-1]) == 'return (sset, outmask)'
                    and f.head(x.body[-2]) == 'outmask[xsort] = maskwork')
        early = [x for x in f.stmts if is_early(x)]
        few = [x for x in early if 'sset.nord' in ast.unparse(x.test)]
        fail = [x for x in early if 'error' in ast.unparse(x.test)]
        if len(early) != 2 or len(few) != 1 or len(fail) != 1:
            raise Unrecognised('iterfit early returns')
        few, fail = few[0], fail[0]
        env = {'maskwork.sum()': 'ngood', 'sset.nord': 'nord'}
        for x in f.stmts:
            if isinstance(x, ast.Assign) and len(x.targets) == 1 and isinstance(x.targets[0], ast.Name) \
                    and ast.unparse(x.value) == 'maskwork.sum()':
                nm = x.targets[0].id
                if sum(1 for y in f.stmts if isinstance(y, (ast.Assign, ast.AugAssign)) and nm in
                       [ast.unparse(t) for t in (y.targets if isinstance(y, ast.Assign) else [y.target])]) != 1:
                    raise Unrecognised('good-point count %s assigned more than once' % nm)
                env[nm] = 'ngood'
        if few.orelse:
            raise Unrecognised('too-few-points guard has an else branch')
        d('bs_iter_too_few', '(ngood nord : nat) : bool', compare(few.test, env, 'nat'), few)
        # no fit, no rejection pass and no other statement that changes the mask may sit inside that branch
        inner = [f.head(x) for x in few.body]
        if not all(h.startswith('warn(') or h in ('outmask[xsort] = maskwork', 'return (sset, outmask)') for h in inner):
            raise Unrecognised('too-few-points branch does more than warn / un-sort / return')
        # ... and it is evaluated after the spline set has been built from the good points only
        n, m = f.one(r'sset = bspline\((.+), \*\*kwargs\)')
        d('bs_iter_knots_from', ': string', '"%s"' % m.group(1), n)
        d('bs_iter_abort', '(error : Z) : bool', compare(fail.test, {'error': 'error'}, 'Z') + '%Z', fail)
        n, m = f.one(r'if (.+) or not sset\.mask\.any\(\):', ast.If)
        d('bs_iter_give_up', '(ngood : nat) (anybk : bool) : bool',
          '%s || negb anybk' % compare(expr(m.group(1)), env, 'nat'), n)
        if [f.head(b) for b in n.body] != ['sset.coeff = 0', 'iiter = maxiter + 1']:
            raise Unrecognised('give-up branch')
        # djs_reject is called exactly when the fit reported success
        rej = [x for x in f.stmts if isinstance(x, ast.If) and any(f.head(b).startswith('maskwork, qdone = djs_reject(') for b in x.body)]
        if len(rej) != 1:
            raise Unrecognised('branch holding the djs_reject call')
        d('bs_iter_reject_when', '(error : Z) : bool', compare(rej[0].test, {'error': 'error'}, 'Z') + '%Z', rej[0])
        n, m = f.one(r'if not maskwork\.any\(\):', ast.If)
        if not f.head(n.body[0]).startswith('raise ValueError('):
            raise Unrecognised('no-valid-data branch')

        # ---------------------------------------------------------------- value: masked-breakpoint gaps (round 5)
        f = Fn(tree, 'value')
        n, m = f.one(r'hmm = \(np\.diff\(goodbk\) (.+)\)\.nonzero\(\)\[0\]')
        d('bs_value_gap_test', '(a b : nat) : bool', compare(expr('d ' + m.group(1)), {'d': '(b - a)'}, 'nat'), n)
        n, m = f.one(r'inside = \((x .+ self\.breakpoints\[goodbk\[hmm\[jj\]\]\])\) & \((x .+ self\.breakpoints\[(goodbk\[hmm\[jj\] \+ 1\] .+)\])\)')
        hi_idx = m.group(3)
        d('bs_value_gap_inside', '(x lo hi : Q) : bool', '%s && %s' % (
            compare(expr(m.group(1)), {'x': 'x', 'self.breakpoints[goodbk[hmm[jj]]]': 'lo'}, 'Q'),
            compare(expr(m.group(2)), {'x': 'x', 'self.breakpoints[%s]' % hi_idx: 'hi'}, 'Q')), n)
        d('bs_value_gap_hi_index', '(b : nat) : nat', nat(expr(hi_idx), {'goodbk[hmm[jj] + 1]': 'b'}), n)
        f.one(r'mask\[inside\] = False')
        f.one(r'goodbk = self\.mask\.nonzero\(\)\[0\]')

        # ---------------------------------------------------------------- pydl.uniq as used by action(): neighbours compared with !=
        ut = ast.parse(open(os.path.join(repo, 'pydl', 'uniq.py')).read())
        f = Fn(ut, 'uniq')
        n, m = f.one(r'indicies = \((q .+ roll\(q, (-?\d+)\))\)\.nonzero\(\)\[0\]')
        d('bs_uniq_differs', '(a b : Z) : bool', compare(expr(m.group(1)), {'q': 'a', 'roll(q, %s)' % m.group(2): 'b'}, 'Z') + '%Z', n)
        d('bs_uniq_shift', ': Z', '(%s)%%Z' % m.group(2), n)
        f.one(r'q = x\[index\]')
        n, m = f.one(r'return index\[indicies\]')
    except (Unrecognised, SyntaxError, OSError, KeyError, ValueError, IndexError, AttributeError) as e:
        info['error'] = '%s: %s' % (type(e).__name__, e)
        return None, info
    lines = ['(* GENERATED by translate/c08.py from pydl/pydlutils/bspline.py -- do not edit.',
             '   One definition per source expression (index, comparison and constant arithmetic of the bspline class,',
             '   cholesky_band and iterfit).  BSpline/GenBridge.v proves that the hand-written models use exactly these. *)',
             'From Coq Require Import QArith Qround ZArith List Bool Arith String.',
             'From PV Require Import BSpline.Eval.',
             'Import ListNotations.', 'Open Scope Q_scope.', '']
    for name, sig, body, node in D:
        src = ast.unparse(node).split('\n')[0] if isinstance(node, ast.AST) else str(node)
        src = src.replace('(*', '( *').replace('*)', '* )')
        lines.append('(* %s *)' % src[:150])
        if 'string' in sig:
            lines.append('Definition %s %s := (%s)%%string.' % (name, sig, body))
        elif sig.endswith(': nat') or ': nat' in sig.split(')')[-1]:
            lines.append('Definition %s %s := (%s)%%nat.' % (name, sig, body))
        else:
            lines.append('Definition %s %s := %s.' % (name, sig, body))
        lines.append('')
    info['recognised'] = True
    info['definitions'] = len(D)
    return '\n'.join(lines), info


def regenerate(C):
    """Used by the translate() of the C08, C09, C10 and C11 checks: rewrite coq/Generated/BSpline.v from C.REPO, or --
    when the source is not recognised -- restore the committed baseline (no alarm; the correspondence run then ties
    model to code alone)."""
    text, info = generate(C.REPO)
    rel = 'coq/Generated/BSpline.v'
    if text is not None:
        info['changed'] = C.write_if_changed(os.path.join(C.VERIF, rel), text + '\n')
    else:
        import subprocess
        # the fallback is the newer of (a) the committed Generated/BSpline.v and (b) the baseline kept next to the translator
        # (refreshed whenever the translator learns new pieces; the committed file lags behind until the next commit)
        base_path = os.path.join(os.path.dirname(os.path.abspath(__file__)), 'c08_baseline.v')
        base = open(base_path).read() if os.path.exists(base_path) else ''
        show = subprocess.run(['git', '-C', C.VERIF, 'show', 'HEAD:' + rel], stdout=subprocess.PIPE, stderr=subprocess.DEVNULL, text=True)
        head = show.stdout if show.returncode == 0 else ''
        if head and head.count('\nDefinition bs_') >= base.count('\nDefinition bs_'):
            info['restored_baseline'] = C.restore_generated(rel)
        else:
            info['restored_baseline'] = C.write_if_changed(os.path.join(C.VERIF, rel), base)
            info['baseline'] = 'translate/c08_baseline.v'
        info['note'] = ('bspline.py not recognised by translate/c08.py: the committed Generated/BSpline.v is used; the '
                        'correspondence run alone ties model to code')
    return info


if __name__ == '__main__':
    import sys
    t, i = generate(sys.argv[1] if len(sys.argv) > 1 else '/repo')
    print(i)
    if t:
        print(t)
