(* C20: statements about the GENERATED skeletons that are not plain evaluations of restores_check:
   the shape of template_input (a guard around its callees), and reachability of the return and of the failing
   paths (so that the `restored on return / on failure` theorems are not vacuous on the real skeletons). *)
From Coq Require Import List Bool Arith.
Import ListNotations.
From PV Require Import C20.Model C20.Proofs C20.Nested C20.Regress Generated.EnvSkeletons.

(* template_input is literally: snapshot RUN2D, RUN1D into two locals; try: <callees> finally: put them back --
   and the callees (with _template_input and template_metadata inlined) do not assign those two locals *)
Lemma template_input_is_guard :
  exists body, template_input_skel = guard [(0, 0); (1, 1)] body
               /\ nodupb (map snd [(0, 0); (1, 1)]) = true /\ slots_free [(0, 0); (1, 1)] body = true.
Proof. eexists. split; [reflexivity|]. split; vm_compute; reflexivity. Qed.

(* hence, independently of the abstract interpreter: whatever the inlined callees do, RUN2D and RUN1D are restored *)
Lemma template_input_restores_by_guard :
  forall env0 sl sc st' o sc', exec template_input_skel sc (env0, sl) = (st', o, sc') ->
  forall v, In v [0; 1] -> fst st' v = env0 v.
Proof.
  destruct template_input_is_guard as [body [Hs [Hn Hf]]]. rewrite Hs.
  intros env0 sl sc st' o sc' H v Hv.
  exact (guard_restores_b _ _ Hn Hf env0 sl sc st' o sc' H v Hv).
Qed.

(* reachability, by search over a family of schedules: some schedule returns, some schedule fails after the
   environment has been modified.  Families: the all-false schedule and false^k :: true (one fault, every Choice to
   the right), and -- for the small skeletons -- every schedule of length <= n *)
Definition outcome_under (p : prog) (sc : sched) : outcome :=
  snd (fst (exec p sc (fun _ => Some 7, fun _ => None))).
Definition writes_before_failure (p : prog) (sc : sched) : bool :=
  match outcome_under p sc with
  | E => existsb (fun e => match e with EvGet _ _ => false | _ => true end)
                 (exec_ev p sc (fun _ => Some 7, fun _ => None))
  | _ => false
  end.
Definition single_faults (bound : nat) : list sched := [] :: map single_fault (seq 0 bound).
Fixpoint all_scheds (n : nat) : list sched :=
  match n with
  | O => [[]]
  | S n' => let r := all_scheds n' in map (cons false) r ++ map (cons true) r
  end.
Definition returns_somehow (p : prog) (fam : list sched) : bool :=
  existsb (fun sc => match outcome_under p sc with E => false | _ => true end) fam.
Definition fails_after_write (p : prog) (fam : list sched) : bool := existsb (writes_before_failure p) fam.

Lemma entry_points_paths_reachable :
  returns_somehow window_score_skel (single_faults 64) = true /\ fails_after_write window_score_skel (single_faults 64) = true /\
  returns_somehow template_input_skel (single_faults 400) = true /\ fails_after_write template_input_skel (single_faults 400) = true /\
  returns_somehow window_read_skel (single_faults 64) = true /\ fails_after_write window_read_skel (all_scheds 10) = true.
Proof. vm_compute. repeat split; reflexivity. Qed.
