(* Yanny/DocFacts.v -- from the boolean domain predicate doc_ok (Render.v) to the hypotheses of the
   token / row level lemmas. *)
From Coq Require Import NArith ZArith List Bool Lia.
Import ListNotations.
From PV Require Import Yanny.Bytes Yanny.BytesFacts Yanny.Types Yanny.Parse Yanny.Render Yanny.TokenFacts Yanny.RowFacts Yanny.TypeFacts.
Open Scope N_scope.

(* the columns of a table as the parser's symbol table holds them *)
Definition tcols_of (es : list enumdecl) (cols : list column) : tcols :=
  map (fun c => (c_name c, Some (typ_of es c))) cols.

Lemma enums_ok_names es : forallb enum_ok es = true -> col_names_ok es.
Proof.
  intros H e He. rewrite forallb_forall in H. specialize (H e He). unfold enum_ok in H.
  apply andb_true_iff in H as [H _]. apply andb_true_iff in H as [H _]. apply andb_true_iff in H as [_ H].
  now destruct (ident_word _ H).
Qed.

Lemma col_ok_wkind es c : col_ok c = true -> wkind es c <> None.
Proof.
  unfold col_ok, wkind. intros H. apply andb_true_iff in H as [_ H].
  destruct (c_type c); try discriminate. destruct (enum_for (c_name c) es); discriminate.
Qed.

Lemma bare_ok_str t : bare_ok t = true -> str_ok t = true /\ mem RBRACE t = false.
Proof.
  unfold bare_ok. intros H. apply andb_true_iff in H as [H _]. apply andb_true_iff in H as [H H2].
  apply andb_true_iff in H as [_ H1]. split; auto. now apply negb_true_iff.
Qed.

Lemma sval_ok_fits es c inarr v : sval_ok es c inarr v = true ->
  kind_matches (kind_of (c_type c)) v = true /\ sval_tok_ok inarr v = true.
Proof.
  unfold sval_ok. destruct (c_type c) eqn:Et, v as [z|t]; try discriminate; intros H; cbn [kind_of kind_matches sval_tok_ok]; split; auto.
  - destruct (bare_ok_str t H) as [A B]. destruct inarr; [unfold etok_ok; now rewrite str_ok_tok_ok, B|now apply str_ok_tok_ok].
  - destruct (bare_ok_str t H) as [A B]. destruct inarr; [unfold etok_ok; now rewrite str_ok_tok_ok, B|now apply str_ok_tok_ok].
  - apply andb_true_iff in H as [H _]. destruct inarr; [now apply elt_ok_etok_ok|now apply str_ok_tok_ok].
Qed.

Lemma cell_ok_fits es c x : col_names_ok es -> col_ok c = true -> cell_ok es c x = true ->
  cell_fits (classify (typ_of es c)) (isarray (typ_of es c)) x = true.
Proof.
  intros Hes Hc Hx. destruct (typ_of_facts es c Hes (col_ok_wkind es c Hc)) as [-> ->].
  unfold cell_ok in Hx. unfold is_arr. destruct (c_arr c) as [n|], x as [v|l]; try discriminate; cbn [cell_fits].
  - apply andb_true_iff in Hx as [Hx Hl]. apply andb_true_iff in Hx as [Hn _]. rewrite Hn. cbn [andb].
    apply andb_true_iff. split.
    + eapply forallb_impl; [|exact Hl]. intros v Hv. now destruct (sval_ok_fits es c true v Hv).
    + eapply forallb_impl; [|exact Hl]. intros v Hv. now destruct (sval_ok_fits es c true v Hv).
  - destruct (sval_ok_fits es c false v Hx) as [-> ->]. reflexivity.
Qed.

Lemma row_ok_fits es cols : col_names_ok es -> forallb col_ok cols = true ->
  forall r, row_ok es cols r = true -> row_fits (tcols_of es cols) r = true.
Proof.
  intros Hes. induction cols as [|c cols IH]; intros Hc [|x r] Hr; try discriminate; auto.
  cbn [forallb] in Hc. apply andb_true_iff in Hc as [Hc1 Hc2]. cbn [row_ok] in Hr. apply andb_true_iff in Hr as [Hx Hr].
  cbn [tcols_of map row_fits]. rewrite cell_ok_fits; auto. now apply IH.
Qed.

(* pieces of table_ok *)
Lemma table_ok_parts es t : table_ok es t = true ->
  ident (t_name t) = true /\ t_cols t <> [] /\ forallb col_ok (t_cols t) = true /\ distinct (map c_name (t_cols t)) = true /\
  forallb (fun r => row_ok es (t_cols t) r && row_end_ok r) (t_rows t) = true.
Proof.
  unfold table_ok. intros H. apply andb_true_iff in H as [H H5]. apply andb_true_iff in H as [H H4].
  apply andb_true_iff in H as [H H3]. apply andb_true_iff in H as [H1 H2].
  repeat split; auto. destruct (t_cols t); [discriminate|discriminate].
Qed.

(* a data row of a well-formed table is parsed back to its cells and appended to its own table *)
Theorem row_roundtrip es t r sy st :
  forallb enum_ok es = true -> table_ok es t = true -> In r (t_rows t) ->
  assoc (upper (t_name t)) sy = Some (tcols_of es (t_cols t)) ->
  process_line sy st (render_row_line (upper (t_name t)) r)
  = Some (mkst (st_pairs st) (assoc_app (upper (t_name t)) r (st_rows st))).
Proof.
  intros Hes Ht Hr Hsy. destruct (table_ok_parts es t Ht) as [Hn [_ [Hc [_ Hrows]]]].
  destruct (ident_word _ Hn) as [Hne Hw].
  rewrite forallb_forall in Hrows. specialize (Hrows r Hr). apply andb_true_iff in Hrows as [Hrow _].
  pose proof (row_line_roundtrip sy st (upper (t_name t)) (tcols_of es (t_cols t)) r) as G.
  rewrite upper_idem in G. apply G; auto.
  - destruct (t_name t); [congruence|discriminate].
  - now apply upper_word.
  - apply row_ok_fits; auto. now apply enums_ok_names.
Qed.
