(* C14 proofs, part 4: median (plain and running). *)
From Coq Require Import ZArith QArith Qround Qabs List Bool Lia Lqa ZifyBool Sorted Permutation.
Import ListNotations.
From PV Require Import Generated.Median C14.Model C14.Proofs.
Open Scope Z_scope.
Ltac Zify.zify_post_hook ::= Z.to_euclidean_division_equations.

(* ------------------------------------------------------------------ sortQ sorts *)

Lemma insertQ_perm x l : Permutation (insertQ x l) (x :: l).
Proof.
  induction l as [|y t IH]; cbn; [reflexivity|].
  destruct (Qle_bool x y); [reflexivity|]. rewrite IH. apply perm_swap.
Qed.

Theorem sortQ_perm l : Permutation (sortQ l) l.
Proof.
  induction l as [|x t IH]; cbn; [reflexivity|]. rewrite insertQ_perm. constructor. exact IH.
Qed.

Lemma sortQ_length l : length (sortQ l) = length l.
Proof. apply Permutation_length, sortQ_perm. Qed.

Lemma insertQ_sorted x l : StronglySorted Qle l -> StronglySorted Qle (insertQ x l).
Proof.
  induction 1 as [|y t S IH F]; cbn; [repeat constructor|].
  destruct (Qle_bool x y) eqn:E.
  - apply Qle_bool_iff in E. constructor; [constructor; assumption|].
    constructor; [exact E|]. eapply Forall_impl; [|exact F]. intros z Hz. cbn in Hz. lra.
  - assert (Hyx : (y <= x)%Q).
    { destruct (Qlt_le_dec x y) as [L|L]; [|exact L]. exfalso.
      assert (Qle_bool x y = true) by (apply Qle_bool_iff; lra). congruence. }
    constructor; [exact IH|].
    eapply Permutation_Forall; [symmetry; apply insertQ_perm|].
    constructor; assumption.
Qed.

Theorem sortQ_sorted l : StronglySorted Qle (sortQ l).
Proof. induction l; cbn; [constructor|]. apply insertQ_sorted. assumption. Qed.

(* ------------------------------------------------------------------ median without width *)

(* M = S: np.median for odd counts or /EVEN, argsort pick otherwise, is "upper middle unless even" *)
Lemma odd_of_nat_mod2 n : (Z.of_nat n mod 2 =? 1) = Nat.odd n.
Proof.
  destruct (Nat.odd n) eqn:E.
  - apply Nat.odd_spec in E. destruct E as [m ->]. apply Z.eqb_eq. lia.
  - rewrite <- Nat.negb_even in E. apply negb_false_iff in E. apply Nat.even_spec in E. destruct E as [m ->].
    apply Z.eqb_neq. lia.
Qed.

Theorem median_plain_refines_spec xs even : median_plain xs even = median_spec xs even.
Proof.
  unfold median_plain, median_spec, np_median, median_uses_npmedian, median_pick_rank, lenZ. rewrite sortQ_length.
  rewrite odd_of_nat_mod2.
  replace (Z.to_nat (Z.of_nat (length xs) / 2)) with (Nat.div (length xs) 2)
    by (rewrite <- (Nat2Z.id (Nat.div (length xs) 2)), Nat2Z.inj_div; reflexivity).
  rewrite <- Nat.negb_odd. destruct (Nat.odd (length xs)); destruct even; reflexivity.
Qed.

(* median_plain: the value is read from the sorted permutation of the data at position n/2 (the upper
   middle for even n), or is the mean of positions n/2-1 and n/2 with /EVEN on an even count *)
Theorem median_spec_meaning xs even :
  exists s, Permutation s xs /\ StronglySorted Qle s /\
    median_spec xs even =
      (if Nat.even (length xs) && even
       then ((nth (Nat.div (length xs) 2 - 1) s 0%Q + nth (Nat.div (length xs) 2) s 0%Q) / 2)%Q
       else nth (Nat.div (length xs) 2) s 0%Q).
Proof. exists (sortQ xs). split; [apply sortQ_perm|]. split; [apply sortQ_sorted|reflexivity]. Qed.

(* ------------------------------------------------------------------ running median, 1-D *)

(* median_filter_interior + median_filter_edges_untouched, and the zero padding of medfilt is never
   visible: for odd 1 <= width <= n the transliteration equals the specification *)
Theorem median_filter1_refines_spec xs width :
  Z.odd width = true -> 1 <= width <= lenZ xs ->
  median_filter1 xs width = F1Ok (median_filter1_spec xs width).
Proof.
  intros Ho Hw. unfold median_filter1, median_filter1_spec.
  unfold medfilt1_kernel, medfilt1_istart, medfilt1_iend, medfilt1_edge.
  rewrite Z.min_l by lia.
  assert (E : Z.even width || (width <? 1) = false).
  { rewrite <- Z.negb_odd, Ho. cbn. lia. }
  rewrite E. f_equal. apply map_seq_ext. intros k Hk. cbv zeta.
  assert (Hodd : width mod 2 = 1) by (rewrite Zmod_odd, Ho; reflexivity).
  set (h := width / 2). assert (W : width = 2 * h + 1) by lia.
  set (i := Z.of_nat k). unfold interior.
  destruct ((i <? Z.quot (width - 1) 2) || (i >? lenZ xs - Z.quot (width + 1) 2)) eqn:Ee.
  - replace ((h <=? i) && (i <=? lenZ xs - 1 - h)) with false by lia. reflexivity.
  - replace ((h <=? i) && (i <=? lenZ xs - 1 - h)) with true by lia.
    unfold medfilt_at, window_median, window. fold h.
    replace (Z.to_nat (2 * h + 1)) with (Z.to_nat width) by lia.
    do 2 f_equal. apply map_seq_ext. intros t Ht. unfold padded.
    replace ((0 <=? i - h + Z.of_nat t) && (i - h + Z.of_nat t <? lenZ xs)) with true by lia.
    reflexivity.
Qed.

Theorem median_filter1_interior xs width k :
  let h := width / 2 in
  Z.odd width = true -> 1 <= width <= lenZ xs -> h <= Z.of_nat k <= lenZ xs - 1 - h ->
  exists out, median_filter1 xs width = F1Ok out /\
              nth_error out k = Some (window_median xs h (Z.of_nat k)).
Proof.
  intros h Ho Hw Hi. eexists. split; [apply median_filter1_refines_spec; assumption|].
  unfold median_filter1_spec. rewrite nth_error_map_seq by (unfold lenZ in *; lia). cbv zeta. fold h.
  unfold interior. replace ((h <=? Z.of_nat k) && (Z.of_nat k <=? lenZ xs - 1 - h)) with true by lia. reflexivity.
Qed.

Theorem median_filter1_edges_untouched xs width k :
  let h := width / 2 in
  Z.odd width = true -> 1 <= width <= lenZ xs -> (k < length xs)%nat ->
  (Z.of_nat k < h \/ lenZ xs - 1 - h < Z.of_nat k) ->
  exists out, median_filter1 xs width = F1Ok out /\ nth_error out k = nth_error xs k.
Proof.
  intros h Ho Hw Hk He. eexists. split; [apply median_filter1_refines_spec; assumption|].
  unfold median_filter1_spec. rewrite nth_error_map_seq by exact Hk. cbv zeta. fold h.
  unfold interior. replace ((h <=? Z.of_nat k) && (Z.of_nat k <=? lenZ xs - 1 - h)) with false by lia.
  symmetry. rewrite <- (Nat2Z.id k) at 1. apply getQ_nth_error. unfold lenZ. lia.
Qed.

(* the window median is the middle element of the sorted window of 2h+1 genuine samples *)
Theorem window_median_meaning xs h i : 0 <= h -> h <= i <= lenZ xs - 1 - h ->
  exists s, Permutation s (window xs (i - h) (Z.to_nat (2 * h + 1))) /\ StronglySorted Qle s /\
            length s = Z.to_nat (2 * h + 1) /\ nth_error s (Z.to_nat h) = Some (window_median xs h i).
Proof.
  intros Hh Hi. exists (sortQ (window xs (i - h) (Z.to_nat (2 * h + 1)))).
  split; [apply sortQ_perm|]. split; [apply sortQ_sorted|].
  assert (L : length (sortQ (window xs (i - h) (Z.to_nat (2 * h + 1)))) = Z.to_nat (2 * h + 1)).
  { rewrite sortQ_length. unfold window. rewrite map_length, seq_length. reflexivity. }
  split; [exact L|]. unfold window_median. apply nth_error_nth'. lia.
Qed.

(* ------------------------------------------------------------------ running median, 2-D *)

Lemma flat_map_seq_ext {A} (f g : nat -> list A) n :
  (forall k, (k < n)%nat -> f k = g k) -> flat_map f (seq 0 n) = flat_map g (seq 0 n).
Proof.
  intros H. rewrite !flat_map_concat_map. f_equal. apply map_seq_ext. exact H.
Qed.

Theorem median_filter2_refines_spec x width :
  Z.odd width = true -> 1 <= width -> width <= lenZ x -> width <= Z.of_nat (ncols x) ->
  median_filter2 x width = F2Ok (median_filter2_spec x width).
Proof.
  intros Ho H1 H2 H3. unfold median_filter2, median_filter2_spec.
  unfold medfilt2_kernel, medfilt2_istart, medfilt2_iend0, medfilt2_iend1, medfilt2_edge_row, medfilt2_edge_col.
  rewrite Z.min_l by nia.
  assert (E : Z.even width || (width <? 1) = false).
  { rewrite <- Z.negb_odd, Ho. cbn. lia. }
  rewrite E. f_equal.
  assert (Hodd : width mod 2 = 1) by (rewrite Zmod_odd, Ho; reflexivity).
  set (h := width / 2). assert (W : width = 2 * h + 1) by lia.
  apply map_seq_ext. intros a Ha. cbv zeta. apply map_seq_ext. intros b Hb.
  set (i := Z.of_nat a). set (j := Z.of_nat b). unfold interior.
  destruct ((i <? Z.quot (width - 1) 2) || (i >? lenZ x - Z.quot (width + 1) 2)
            || ((j <? Z.quot (width - 1) 2) || (j >? Z.of_nat (ncols x) - Z.quot (width + 1) 2))) eqn:Ee.
  - replace ((h <=? i) && (i <=? lenZ x - 1 - h) && ((h <=? j) && (j <=? Z.of_nat (ncols x) - 1 - h))) with false by lia.
    reflexivity.
  - replace ((h <=? i) && (i <=? lenZ x - 1 - h) && ((h <=? j) && (j <=? Z.of_nat (ncols x) - 1 - h))) with true by lia.
    unfold medfilt2_at, window2_median, window2. fold h.
    replace (Z.to_nat (2 * h + 1)) with (Z.to_nat width) by lia.
    replace ((2 * h + 1) * (2 * h + 1)) with (width * width) by (rewrite W; reflexivity).
    do 2 f_equal. apply flat_map_seq_ext. intros t Ht. apply map_seq_ext. intros u Hu. unfold padded2.
    replace ((0 <=? i - h + Z.of_nat t) && (i - h + Z.of_nat t <? lenZ x) && (0 <=? j - h + Z.of_nat u)
             && (j - h + Z.of_nat u <? Z.of_nat (ncols x))) with true by lia.
    reflexivity.
Qed.

Theorem median_filter2_edges_untouched x width a b :
  let h := width / 2 in
  Z.odd width = true -> 1 <= width -> width <= lenZ x -> width <= Z.of_nat (ncols x) ->
  (a < length x)%nat -> (b < ncols x)%nat ->
  (Z.of_nat a < h \/ lenZ x - 1 - h < Z.of_nat a \/ Z.of_nat b < h \/ Z.of_nat (ncols x) - 1 - h < Z.of_nat b) ->
  exists out row, median_filter2 x width = F2Ok out /\ nth_error out a = Some row /\
                  nth_error row b = Some (get2 x (Z.of_nat a) (Z.of_nat b)).
Proof.
  intros h Ho H1 H2 H3 Ha Hb He. eexists. eexists.
  split; [apply median_filter2_refines_spec; assumption|].
  unfold median_filter2_spec. split; [apply nth_error_map_seq; exact Ha|].
  rewrite nth_error_map_seq by exact Hb. cbv zeta. fold h. unfold interior.
  replace ((h <=? Z.of_nat a) && (Z.of_nat a <=? lenZ x - 1 - h)
           && ((h <=? Z.of_nat b) && (Z.of_nat b <=? Z.of_nat (ncols x) - 1 - h))) with false by lia.
  reflexivity.
Qed.

Theorem median_filter2_interior x width a b :
  let h := width / 2 in
  Z.odd width = true -> 1 <= width -> width <= lenZ x -> width <= Z.of_nat (ncols x) ->
  h <= Z.of_nat a <= lenZ x - 1 - h -> h <= Z.of_nat b <= Z.of_nat (ncols x) - 1 - h ->
  exists out row, median_filter2 x width = F2Ok out /\ nth_error out a = Some row /\
                  nth_error row b = Some (window2_median x h (Z.of_nat a) (Z.of_nat b)).
Proof.
  intros h Ho H1 H2 H3 Ha Hb. eexists. eexists.
  split; [apply median_filter2_refines_spec; assumption|].
  unfold median_filter2_spec. split; [apply nth_error_map_seq; unfold lenZ in *; lia|].
  rewrite nth_error_map_seq by lia. cbv zeta. fold h. unfold interior.
  replace ((h <=? Z.of_nat a) && (Z.of_nat a <=? lenZ x - 1 - h)
           && ((h <=? Z.of_nat b) && (Z.of_nat b <=? Z.of_nat (ncols x) - 1 - h))) with true by lia.
  reflexivity.
Qed.


(* ------------------------------------------------------------------ round 5: wider domains, rejected widths *)

(* 2-D: every odd width up to the NUMBER OF ELEMENTS (not only up to both extents): where the window does not fit
   into the image there is no interior point, every sample is an edge sample and is restored from the input.
   In particular a one-row / one-column image (an axis of length one) is returned unchanged for width >= 3. *)
Theorem median_filter2_refines_spec_size x width :
  Z.odd width = true -> 1 <= width <= lenZ x * Z.of_nat (ncols x) ->
  median_filter2 x width = F2Ok (median_filter2_spec x width).
Proof.
  intros Ho H1. unfold median_filter2, median_filter2_spec.
  unfold medfilt2_kernel, medfilt2_istart, medfilt2_iend0, medfilt2_iend1, medfilt2_edge_row, medfilt2_edge_col.
  rewrite Z.min_l by lia.
  assert (E : Z.even width || (width <? 1) = false).
  { rewrite <- Z.negb_odd, Ho. cbn. lia. }
  rewrite E. f_equal.
  assert (Hodd : width mod 2 = 1) by (rewrite Zmod_odd, Ho; reflexivity).
  set (h := width / 2). assert (W : width = 2 * h + 1) by lia.
  apply map_seq_ext. intros a Ha. cbv zeta. apply map_seq_ext. intros b Hb.
  set (i := Z.of_nat a). set (j := Z.of_nat b). unfold interior.
  destruct ((i <? Z.quot (width - 1) 2) || (i >? lenZ x - Z.quot (width + 1) 2)
            || ((j <? Z.quot (width - 1) 2) || (j >? Z.of_nat (ncols x) - Z.quot (width + 1) 2))) eqn:Ee.
  - replace ((h <=? i) && (i <=? lenZ x - 1 - h) && ((h <=? j) && (j <=? Z.of_nat (ncols x) - 1 - h))) with false by lia.
    reflexivity.
  - replace ((h <=? i) && (i <=? lenZ x - 1 - h) && ((h <=? j) && (j <=? Z.of_nat (ncols x) - 1 - h))) with true by lia.
    unfold medfilt2_at, window2_median, window2. fold h.
    replace (Z.to_nat (2 * h + 1)) with (Z.to_nat width) by lia.
    replace ((2 * h + 1) * (2 * h + 1)) with (width * width) by (rewrite W; reflexivity).
    do 2 f_equal. apply flat_map_seq_ext. intros t Ht. apply map_seq_ext. intros u Hu. unfold padded2.
    replace ((0 <=? i - h + Z.of_nat t) && (i - h + Z.of_nat t <? lenZ x) && (0 <=? j - h + Z.of_nat u)
             && (j - h + Z.of_nat u <? Z.of_nat (ncols x))) with true by lia.
    reflexivity.
Qed.

(* an image with an axis shorter than the window has no interior point: the result is the input *)
Theorem median_filter2_no_interior x width :
  Z.odd width = true -> 1 <= width <= lenZ x * Z.of_nat (ncols x) ->
  (lenZ x < width \/ Z.of_nat (ncols x) < width) ->
  median_filter2 x width = F2Ok (map (fun a => map (fun b => get2 x (Z.of_nat a) (Z.of_nat b)) (seq 0 (ncols x)))
                                     (seq 0 (length x))).
Proof.
  intros Ho H1 Hs. rewrite median_filter2_refines_spec_size by assumption. f_equal.
  unfold median_filter2_spec. apply map_seq_ext. intros a Ha. cbv zeta. apply map_seq_ext. intros b Hb.
  assert (Hodd : width mod 2 = 1) by (rewrite Zmod_odd, Ho; reflexivity).
  unfold interior.
  replace ((width / 2 <=? Z.of_nat a) && (Z.of_nat a <=? lenZ x - 1 - width / 2)
           && ((width / 2 <=? Z.of_nat b) && (Z.of_nat b <=? Z.of_nat (ncols x) - 1 - width / 2))) with false by lia.
  reflexivity.
Qed.

(* width: what the code does with every width.  The kernel handed to scipy is min(width, number of elements); scipy
   rejects even kernels, so:  ValueError  <->  that kernel is even (or < 1) -- in particular EVERY even width not
   exceeding the length, and every width beyond an even length *)
Theorem median_filter1_rejects xs width :
  median_filter1 xs width = F1ValueError <-> (Z.even (Z.min width (lenZ xs)) = true \/ Z.min width (lenZ xs) < 1).
Proof.
  unfold median_filter1, medfilt1_kernel.
  destruct (Z.even (Z.min width (lenZ xs))) eqn:E; cbn [orb].
  - split; [intros _; left; reflexivity|reflexivity].
  - destruct (Z.min width (lenZ xs) <? 1) eqn:E2.
    + split; [intros _; right; lia|reflexivity].
    + split; [discriminate|intros [H|H]; [discriminate|lia]].
Qed.

Theorem median_filter1_even_width_rejected xs width :
  Z.even width = true -> width <= lenZ xs -> median_filter1 xs width = F1ValueError.
Proof. intros He Hw. apply median_filter1_rejects. left. rewrite Z.min_l by lia. exact He. Qed.

(* an odd window wider than an odd-length array: no interior point, the array is returned unchanged *)
Theorem median_filter1_wide_identity xs width :
  Z.odd width = true -> Z.odd (lenZ xs) = true -> lenZ xs < width -> median_filter1 xs width = F1Ok xs.
Proof.
  intros Ho Hn Hw. unfold median_filter1, medfilt1_kernel, medfilt1_istart, medfilt1_iend, medfilt1_edge.
  rewrite Z.min_r by lia.
  assert (E : Z.even (lenZ xs) || (lenZ xs <? 1) = false).
  { rewrite <- Z.negb_odd, Hn. cbn. destruct xs; [discriminate|unfold lenZ; cbn [length]; lia]. }
  rewrite E. f_equal.
  assert (Hodd : width mod 2 = 1) by (rewrite Zmod_odd, Ho; reflexivity).
  assert (Hodn : lenZ xs mod 2 = 1) by (rewrite Zmod_odd, Hn; reflexivity).
  transitivity (map (fun t => nth t xs 0%Q) (seq 0 (length xs))).
  - apply map_seq_ext. intros t Ht. cbv zeta.
    replace ((Z.of_nat t <? Z.quot (width - 1) 2) || (Z.of_nat t >? lenZ xs - Z.quot (width + 1) 2)) with true
      by (unfold lenZ in *; lia).
    unfold getQ. destruct (Z.of_nat t <? 0) eqn:E0; [lia|]. rewrite Nat2Z.id. reflexivity.
  - clear. induction xs as [|a l IH]; [reflexivity|]. cbn [length seq map nth]. f_equal.
    rewrite <- seq_shift, map_map. exact IH.
Qed.

(* ------------------------------------------------------------------ median(array, axis=...) *)

Lemma np_median_spec r : np_median r = median_spec r true.
Proof.
  rewrite <- median_plain_refines_spec. unfold median_plain, median_uses_npmedian.
  rewrite orb_true_r. reflexivity.
Qed.

(* axis = 1 (any non-zero axis of a 2-D array): every row independently, result k = 1-D median (/EVEN) of row k *)
Theorem median_axis_rows x axis : axis <> 0 -> median_axis x axis = map (fun r => median_spec r true) x.
Proof.
  intros H. unfold median_axis. destruct (axis =? 0) eqn:E; [lia|]. apply map_ext. exact np_median_spec.
Qed.

(* axis = 0: every column independently, result j = 1-D median (/EVEN) of column j *)
Theorem median_axis_columns x :
  median_axis x 0 = map (fun j => median_spec (column j x) true) (seq 0 (ncols x)).
Proof. unfold median_axis. cbn [Z.eqb]. apply map_ext. intros j. apply np_median_spec. Qed.

(* line k of the result depends on line k of the input only *)
Theorem median_axis_line x :
  (forall axis k r, axis <> 0 -> nth_error x k = Some r ->
                    nth_error (median_axis x axis) k = Some (median_spec r true)) /\
  (forall j, (j < ncols x)%nat -> nth_error (median_axis x 0) j = Some (median_spec (column j x) true)) /\
  length (median_axis x 0) = ncols x /\ (forall axis, axis <> 0 -> length (median_axis x axis) = length x).
Proof.
  repeat split.
  - intros axis k r Ha Hk. rewrite median_axis_rows by exact Ha.
    apply (map_nth_error (fun r0 => median_spec r0 true) k x Hk).
  - intros j Hj. rewrite median_axis_columns.
    rewrite (nth_error_map_seq (fun j0 => median_spec (column j0 x) true)) by exact Hj. reflexivity.
  - rewrite median_axis_columns, map_length, seq_length. reflexivity.
  - intros axis Ha. rewrite median_axis_rows by exact Ha. apply map_length.
Qed.
