(* C15, round 5: the loop of HMF.iterate and the inner pass of pca_solve as read from the source (structure, seed
   handling, defaults, normalisation, filtflux update), composition theorems for one pass of the loop, and soundness
   of the certified checkers (what acceptance means for ALL inputs). *)
From Coq Require Import QArith Qabs Lqa List Bool Lia ZArith.
From PV Require Import Lib.WLS C13.LinAlg C13.LinAlgProofs Generated.Chi2 C15.Model C15.Chi2Proofs C15.HmfProofs
                       C15.HmfProofs2 C15.HmfProofs3 C15.GenProofs C15.GenTheorems C15.SpectralProofs.
Import ListNotations.
Open Scope Q_scope.

(* ------------------------------------------------------------------ reduced evaluation of badness computes badness *)
Lemma vsum_r_correct v : vsum_r v == vsum v.
Proof.
  induction v as [|a v IH]; [reflexivity|]. change (Qred (a + vsum_r v) == a + vsum v).
  rewrite Qred_correct, IH. reflexivity.
Qed.
Lemma vsum_veq u : forall v, veq u v -> vsum u == vsum v.
Proof.
  induction u as [|a u IH]; intros v H; inversion H as [|x y u' v' Hxy Huv]; subst; [reflexivity|].
  change (a + vsum u == y + vsum v'). rewrite (IH _ Huv), Hxy. reflexivity.
Qed.
Lemma map2_veq {A : Type} (f f' : A -> vec -> Q) (l : list A) : forall m m', meq m m' ->
  (forall x r r', veq r r' -> f x r == f' x r') -> veq (map2 f l m) (map2 f' l m').
Proof.
  induction l as [|x l IH]; intros m m' H Hf; [destruct m, m'; constructor|].
  inversion H; subst; simpl; constructor; [apply Hf; assumption | apply IH; assumption].
Qed.
Lemma map2_veq_inner {A : Type} (f : A -> Q -> Q) (l : list A) : forall r r', veq r r' ->
  (forall x q q', q == q' -> f x q == f x q') -> veq (map2 f l r) (map2 f l r').
Proof.
  induction l as [|x l IH]; intros r r' H Hf; [destruct r, r'; constructor|].
  inversion H; subst; simpl; constructor; [apply Hf; assumption | apply IH; assumption].
Qed.
Lemma mat_mul_r_meq a g : meq (mat_mul_r a g) (mat_mul a g).
Proof.
  unfold mat_mul_r, mat_mul. generalize (transpose g) as t. intros t.
  induction a as [|r a IH]; simpl; constructor; [|exact IH].
  clear IH. induction t as [|c t IHt]; simpl; constructor; [apply dotr_correct | exact IHt].
Qed.
Lemma chi2_mat_r_correct s w a g : chi2_mat_r s w a g == chi2_mat s w a g.
Proof.
  unfold chi2_mat_r, chi2_mat. rewrite vsum_r_correct. apply vsum_veq.
  apply map2_veq; [apply mat_mul_r_meq|].
  intros sw r r' Hr. rewrite vsum_r_correct. apply vsum_veq. apply map2_veq_inner; [exact Hr|].
  intros p q q' Hq. unfold sqr. rewrite Hq. reflexivity.
Qed.
Lemma badness_r_correct s w a g eps : badness_r s w a g eps == badness s w a g eps.
Proof. unfold badness_r, badness. rewrite chi2_mat_r_correct. reflexivity. Qed.

(* ------------------------------------------------------------------ what the translator read from iterate / __init__ *)
Lemma normalise_gen_eq n a g : normalise_gen n a g = normalise n a g.
Proof. reflexivity. Qed.

Lemma iterate_structure :
  g_iter_std = [SAstep; SGstep; SReorder; SNormalise] /\ g_iter_nn = [SAstepNN; SGstepNN; SNormalise] /\
  g_nn_init_steps = [SAstepNN] /\ g_norm_g_axis = ScaleRows /\ g_norm_a_axis = ScaleCols.
Proof. repeat split; reflexivity. Qed.

(* every seed the caller gives -- 0 included -- reaches numpy.random.seed; no seed, no seeding *)
Lemma seed_always_applied : (forall z, g_seed_test (g_seed_store (Some z)) = true) /\ g_seed_test (g_seed_store None) = false.
Proof. split; [intros z|]; reflexivity. Qed.

Lemma n_iter_defaults : g_n_iter None true = 2048%Z /\ g_n_iter None false = 20%Z /\ forall v b, g_n_iter (Some v) b = v.
Proof. repeat split; reflexivity. Qed.

(* ------------------------------------------------------------------ one pass of the loop: composition theorems *)
Lemma map2_length {A B C : Type} (f : A -> B -> C) : forall u v, length u = length v -> length (map2 f u v) = length u.
Proof. induction u as [|x u IH]; intros [|y v] L; simpl in *; try discriminate; [reflexivity|]. rewrite IH; lia. Qed.

Lemma astep_shape s w g a' : astep s w g = Some a' -> length w = length s -> Forall (Forall (fun v => 0 <= v)) w ->
  length a' = length s /\ rows_len (length g) a'.
Proof.
  intros H Lw Hw. split.
  - unfold astep in H. apply opt_all_length in H. rewrite H. apply map2_length. symmetry. exact Lw.
  - unfold rows_len. apply Forall_forall. intros ai Hin. apply (In_nth_error a') in Hin. destruct Hin as [i Hi].
    assert (La : length a' = length s).
    { unfold astep in H. apply opt_all_length in H. rewrite H. apply map2_length. symmetry. exact Lw. }
    assert (Hi' : (i < length a')%nat) by (apply nth_error_Some; congruence).
    destruct (nth_error s i) as [si|] eqn:Es; [|apply nth_error_None in Es; lia].
    destruct (nth_error w i) as [wi|] eqn:Ew; [|apply nth_error_None in Ew; lia].
    assert (Hwi : Forall (fun v => 0 <= v) wi).
    { rewrite Forall_forall in Hw. apply Hw. apply (nth_error_In _ _ Ew). }
    destruct (gen_astep_optimal_rowwise s w g a' i si wi ai H Es Ew Hi Hwi) as [L _]. exact L.
Qed.

Lemma ncols_rows_len m A : (0 < length A)%nat -> rows_len m A -> ncols A = m.
Proof. destruct A as [|r A]; simpl; intros L H; [lia|]. inversion H; assumption. Qed.

(* default mode, no smoothing: the coefficient update followed by the component update computed from the NEW
   coefficients (the order g_iter_std prescribes) never increases chi-square *)
Theorem iteration_std_monotone s w a g a1 g1 :
  astep s w g = Some a1 -> gstep s w a1 g None = Some g1 ->
  (2 <= ncols s)%nat -> (0 < length s)%nat ->
  Forall (fun r => length r = ncols s) s -> Forall (fun r => length r = ncols s) w ->
  length w = length s -> length a = length s -> rows_len (length g) a -> ncols g = ncols s ->
  Forall (Forall (fun v => 0 <= v)) w ->
  badness s w a1 g1 None <= badness s w a1 g None /\ badness s w a1 g None <= badness s w a g None.
Proof.
  intros Ha Hg HM Ls Hs Hwr Lw La Hra Hcg Hw.
  destruct (astep_shape s w g a1 Ha Lw Hw) as [La1 Hra1].
  assert (Hc1 : ncols a1 = length g) by (apply ncols_rows_len; [lia | exact Hra1]).
  split.
  - apply (gen_badness_nonincreasing_gstep_None s w a1 g g1 HM Hg Ls ltac:(lia) Hs Hwr Lw La1);
      [rewrite Hc1; exact Hra1 | congruence | exact Hcg | exact Hw].
  - apply (gen_badness_nonincreasing_astep s w a g None a1 Ha La Lw Hra Hw).
Qed.

(* non-negative mode: every step of the pass the source prescribes keeps both factors non-negative (positive
   normalisation witnesses) *)
Lemma scale_rows_div_nn g n : mnn g -> vnn n -> mnn (map2 (fun r nk => map (fun v => v / nk) r) g n).
Proof.
  intros Hg Hn. apply (Forall_map2 vnn (fun x => 0 <= x) vnn); [| exact Hg | exact Hn].
  intros r nk Hr Hnk. unfold vnn. apply Forall_forall. intros q Hq. apply in_map_iff in Hq. destruct Hq as [v [E Hv]]. subst q.
  apply Qdiv_nn; [|exact Hnk]. unfold vnn in Hr. rewrite Forall_forall in Hr. apply Hr. exact Hv.
Qed.
Lemma scale_cols_mul_nn a n : mnn a -> vnn n -> mnn (map (fun r => map2 Qmult r n) a).
Proof.
  intros Ha Hn. unfold mnn. apply Forall_forall. intros q Hq. apply in_map_iff in Hq. destruct Hq as [r [E Hr]]. subst q.
  apply map2_mult_nn; [|exact Hn]. unfold mnn in Ha. rewrite Forall_forall in Ha. apply Ha. exact Hr.
Qed.

Definition state_nn (st : state) : Prop := mnn (fst st) /\ mnn (snd st).
Theorem iteration_nn_nonneg s w eps nw rec stp st st' :
  In stp g_iter_nn -> mnn s -> mnn w -> vnn nw -> state_nn st ->
  hmf_apply s w eps nw rec stp st = Some st' -> state_nn st'.
Proof.
  intros Hin Hs Hw Hn [Ha Hg] H. destruct st as [a g]. simpl in Ha, Hg.
  destruct iterate_structure as [_ [E _]]. rewrite E in Hin. simpl in Hin.
  destruct Hin as [<-|[<-|[<-|[]]]]; simpl in H.
  - inversion H; subst. split; simpl; [apply astepnn_nonneg; assumption | exact Hg].
  - inversion H; subst. split; simpl; [exact Ha | apply gstepnn_nonneg; assumption].
  - destruct (vclose a_float_sqrt_ok nw (normbase2 g)); [|discriminate]. inversion H; subst.
    rewrite normalise_gen_eq. unfold normalise. split; simpl.
    + apply scale_cols_mul_nn; assumption.
    + apply scale_rows_div_nn; assumption.
Qed.

(* ------------------------------------------------------------------ pca_solve: what the translator read *)
Lemma pca_generated :
  (forall mi f sw y, g_pca_filt mi f sw y == (mi * f + sw * y) / (mi + sw)) /\
  (forall v m, g_pca_weight (g_pca_maskivar v m) == v * m) /\
  (forall v, g_pca_synw_good v = negb (Qeq_bool v 0)) /\ g_pca_synw_default == 1 /\
  (forall v, g_pca_inmask v = negb (Qeq_bool v 0)) /\
  (forall q i m, g_pca_continue q i m = negb q && Nat.leb i m) /\
  (forall k, g_pca_nreturn None k = k) /\ (forall v k, g_pca_nreturn (Some v) k = v) /\
  g_pca_usemask_axis = 0%nat.
Proof. repeat split; intros; try reflexivity. Qed.

(* the coefficients of object i in one pass: the weighted least-squares optimum on the first nkeep derived variables,
   weights = inverse variance times mask *)
Theorem pca_obj_step_optimal nkeep pres synw fi vi mi ac fl :
  pca_obj_step nkeep pres synw fi vi mi = Some (ac, fl) -> wf nkeep (pca_obj_data nkeep pres fi vi mi) ->
  length ac = nkeep /\
  (forall d, gdot (pca_obj_data nkeep pres fi vi mi) ac d == 0) /\
  forall z, length z = nkeep -> chi2 (pca_obj_data nkeep pres fi vi mi) ac <= chi2 (pca_obj_data nkeep pres fi vi mi) z.
Proof.
  unfold pca_obj_step. intros H HD.
  destruct (wls_solve nkeep (pca_obj_data nkeep pres fi vi mi)) as [x|] eqn:E; [|discriminate].
  inversion H; subst x fl. clear H.
  destruct (wls_solve_optimal _ _ _ HD E) as [L Hopt].
  split; [exact L|]. split; [|exact Hopt].
  intros d. apply (wls_solve_gradient nkeep _ ac (wf_wfl _ _ HD) E).
Qed.

(* ------------------------------------------------------------------ soundness of the checkers *)
Lemma combine_seq_nth {A : Type} (l : list A) : forall s n i x, nth_error l i = Some x -> (i < n)%nat ->
  In ((s + i)%nat, x) (combine (seq s n) l).
Proof.
  induction l as [|y l IH]; intros s n i x H Hn; [destruct i; discriminate|].
  destruct n as [|n]; [lia|]. destruct i as [|i]; simpl in *.
  - inversion H; subst. left. f_equal. lia.
  - right. replace (s + S i)%nat with (S s + i)%nat by lia. apply IH; [exact H | lia].
Qed.

(* covariance checker accepted with tolerance 0: covar . (A^T W A) is the identity, entry by entry *)
Theorem inverse_ok_exact cov N : inverse_ok 0 cov N = true ->
  length cov = length N /\
  forall i j r c, nth_error cov i = Some r -> nth_error (transpose N) j = Some c -> (j < length N)%nat ->
    dot r c == (if Nat.eqb i j then 1 else 0).
Proof.
  unfold inverse_ok. intros H. apply andb_prop in H. destruct H as [L H]. apply Nat.eqb_eq in L. split; [exact L|].
  intros i j r c Hr Hc Hj.
  assert (Hi : (i < length N)%nat) by (rewrite <- L; apply nth_error_Some; congruence).
  rewrite forallb_forall in H. specialize (H (i, r) (combine_seq_nth cov 0 (length N) i r Hr Hi)). cbv beta iota in H.
  apply andb_prop in H. destruct H as [_ H]. rewrite forallb_forall in H.
  specialize (H (j, c) (combine_seq_nth (transpose N) 0 (length N) j c Hc Hj)). cbv beta iota in H.
  apply Qle_bool_iff in H.
  assert (Z : 0 * (dot (vabs r) (vabs c) + 1) == 0) by ring. rewrite Z in H. apply Qabs_le_0 in H. lra.
Qed.

(* the certified optimality clause (clause 7 of chi2_clauses): chi-square of the returned coefficients within
   (1 + t) of the chi-square of the solver's answer plus e  =>  within (1 + t) of chi-square at EVERY z, plus e *)
Theorem near_optimal_sound m D ia xopt t e : wf m D -> wls_solve m D = Some xopt -> 0 <= t ->
  Qle_bool (chi2r D ia) (chi2r D xopt * (1 + t) + e) = true ->
  forall z, length z = m -> chi2 D ia <= chi2 D z * (1 + t) + e.
Proof.
  intros HD Hs Ht H z Lz. apply Qle_bool_iff in H. rewrite !chi2r_correct in H.
  destruct (wls_solve_optimal m D xopt HD Hs) as [_ Hopt]. specialize (Hopt z Lz).
  pose proof (chi2_nonneg m D xopt HD) as Hn.
  revert H Hopt Hn. generalize (chi2 D ia) (chi2 D xopt) (chi2 D z). intros p q r H Hopt Hn. nra.
Qed.

(* eigen checker accepted with tolerance 0: descending eigenvalues, exact eigen-equation, exact Gram matrix *)
Lemma vclose_zero (tl : Q) u : forall v, tl == 0 -> vclose (qclose tl) u v = true -> veq u v.
Proof.
  induction u as [|a u IH]; intros [|b v] Z H; simpl in *; try discriminate; constructor.
  - apply andb_prop in H. destruct H as [H _]. unfold qclose in H. apply Qle_bool_iff in H. rewrite Z in H.
    apply Qabs_le_0 in H. lra.
  - apply andb_prop in H. destruct H as [_ H]. apply IH; assumption.
Qed.
Lemma mat_vec_r_veq C v : veq (mat_vec_r C v) (mat_vec C v).
Proof. unfold mat_vec_r, mat_vec. induction C as [|r C IH]; simpl; constructor; [apply dotr_correct | exact IH]. Qed.

Lemma combine3_seq_nth {A B : Type} (l : list A) : forall (m : list B) s n k x y,
  nth_error l k = Some x -> nth_error m k = Some y -> (k < n)%nat ->
  In ((s + k)%nat, x, y) (combine (combine (seq s n) l) m).
Proof.
  induction l as [|a l IH]; intros m s n k x y Hx Hy Hn; [destruct k; discriminate|].
  destruct n as [|n]; [lia|]. destruct m as [|b m]; [destruct k; discriminate|].
  destruct k as [|k]; simpl in *.
  - inversion Hx; inversion Hy; subst. left. repeat f_equal. lia.
  - right. replace (s + S k)%nat with (S s + k)%nat by lia. apply IH; [exact Hx | exact Hy | lia].
Qed.

Theorem eig_ok_exact C vals vecs n2 : eig_ok 0 C vals vecs n2 = true ->
  descending vals = true /\
  (forall k l v, nth_error vals k = Some l -> nth_error vecs k = Some v -> veq (mat_vec C v) (vscale l v)) /\
  (forall j k vj vk nk, nth_error vecs j = Some vj -> nth_error vecs k = Some vk -> nth_error n2 k = Some nk ->
     dot vj vk == (if Nat.eqb j k then nk else 0)).
Proof.
  unfold eig_ok. intros H.
  repeat (apply andb_prop in H; destruct H as [H ?]).
  rename H0 into HG. rename H1 into HE. rename H2 into HD. rename H3 into L3. rename H4 into L2.
  apply Nat.eqb_eq in H. apply Nat.eqb_eq in L2. apply Nat.eqb_eq in L3.
  split; [exact HD|]. split.
  - intros k l v Hl Hv. rewrite forallb_forall in HE.
    assert (Hin : In (l, v) (combine vals vecs)).
    { clear - Hl Hv. revert k vecs Hl Hv. induction vals as [|a vals IH]; intros [|k] [|b vecs] Hl Hv; simpl in *; try discriminate.
      - inversion Hl; inversion Hv; subst. left; reflexivity.
      - right. apply (IH k vecs Hl Hv). }
    specialize (HE _ Hin). cbv beta iota in HE. apply andb_prop in HE. destruct HE as [_ HE].
    apply vclose_zero in HE; [|ring].
    eapply veq_trans; [apply veq_sym; apply mat_vec_r_veq | exact HE].
  - intros j k vj vk nk Hj Hk Hn. rewrite forallb_forall in HG.
    assert (Hjn : (j < length C)%nat) by (rewrite <- L2; apply nth_error_Some; congruence).
    assert (Hkn : (k < length C)%nat) by (rewrite <- L2; apply nth_error_Some; congruence).
    specialize (HG (j, vj) (combine_seq_nth vecs 0 (length C) j vj Hj Hjn)). cbv beta iota in HG.
    rewrite forallb_forall in HG.
    pose proof (combine3_seq_nth vecs n2 0 (length C) k vk nk Hk Hn Hkn) as Hin. simpl in Hin.
    specialize (HG _ Hin). cbv beta iota in HG. unfold qclose in HG. apply Qle_bool_iff in HG.
    assert (Z : 0 * (1 + vmaxabs (map vmaxabs C) * inject_Z (Z.of_nat (length C))) == 0) by ring.
    rewrite Z in HG. apply Qabs_le_0 in HG. rewrite dotr_correct in HG. lra.
Qed.
