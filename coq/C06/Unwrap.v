(* C06, round 5: the unwrap direction in NumPy's fixed-width arithmetic (record field storage types included), the
   string forms (decimal-string IDs, run2d given as decimal string or 'vN_M_P' tag, the tag written by
   unwrap_specobjid into its fixed-width string field) and the call front-ends with the defaults, broadcasting
   constants and shape-check lists that the translator regenerates from the source.
   Definitions only -- proofs are in C06/UnwrapProofs.v. *)
From Coq Require Import ZArith List Bool.
Import ListNotations.
From PV Require Import Lib.Bits Lib.NumpyInt C06.Strings Generated.SdssIds C06.Model C06.Typed.
Open Scope Z_scope.

(* ---------------- typed unwrap: every record field computed in the type of the ID array, then stored ---------------- *)

Definition rfield := (list Z * ity * uexpr)%type.     (* name, storage type, expression (ending in the store cast) *)

Definition unwrap_typed (rec : list rfield) (v : ity * Z) : list tres := map (fun f => ueval v (snd f)) rec.
Definition record_erasure (rec : list rfield) (id : Z) : list Z := map (fun f => uzeval id (snd f)) rec.
Definition record_types (rec : list rfield) : list ity := map (fun f => snd (fst f)) rec.
Definition record_names (rec : list rfield) : list (list Z) := map (fun f => fst (fst f)) rec.

(* static check of one record for ID arrays of type t: every field expression is accepted by the range analysis for
   EVERY value of t and ends in the field's declared storage type *)
Definition record_check (t : ity) (rec : list rfield) : bool :=
  forallb (fun f => match ucheck t (tmin t) (tmax t) (snd f) with
                    | Some (T, _, _) => ity_eqb T (snd (fst f))
                    | None => false end) rec.

Definition exprs_check (t : ity) (es : list uexpr) : bool :=
  forallb (fun e => match ucheck t (tmin t) (tmax t) e with Some _ => true | None => false end) es.

(* ---------------- strings ---------------- *)

(* NumPy str/bytes -> integer astype, one element: int(s), then the conversion to the target type *)
Inductive sres := SOk (z : Z) | SValueError | SOverflow.
Definition str_to_int (t : ity) (s : list Z) : sres :=
  match parse_pyint s with
  | None => SValueError
  | Some z => if fits t z then SOk z else SOverflow
  end.

Inductive xres := XRows (row : list Z) | XValueError | XOther.

Definition unwrap_objid_of_string (s : list Z) : xres :=
  match str_to_int unwrap_objid_strtype s with
  | SOk id => XRows (unwrap_objid_model id) | SValueError => XValueError | SOverflow => XOther end.

Definition unwrap_spec_of_string (s : list Z) : xres :=
  match str_to_int unwrap_spec_strtype s with
  | SOk id => XRows (unwrap_specobjid_model id) | SValueError => XValueError | SOverflow => XOther end.

(* the tag unwrap_specobjid writes (run2d_integer=False), and what the fixed-width string field keeps of it *)
Definition run2d_tag (r : Z) : list Z := format_pieces run2d_format [run2d_N r; run2d_M r; run2d_P r].
Definition run2d_tag_stored (r : Z) : list Z := firstn (Z.to_nat unwrap_spec_run2d_str_width) (run2d_tag r).
Definition unwrap_spec_tag (id : Z) : list Z := run2d_tag_stored (unwrap_spec_run2d_int id).

(* run2d given as a string to sdss_specobjid: int(run2d) first, then the tag pattern *)
Inductive r2s := R2val (z : Z) | R2ValueError | R2Overflow.
Definition run2d_of_string (s : list Z) : r2s :=
  match parse_pyint s with
  | Some z => R2val z
  | None =>
      match re_match run2d_pattern_anchored run2d_pattern s with
      | Some [N; M; P] =>
          if checks_ok run2d_tag_checks [N; M; P] then
            let v := run2d_of_NMP N M P in if fits run2d_tag_dtype v then R2val v else R2Overflow
          else R2ValueError
      | _ => R2ValueError
      end
  end.

Definition check_eqb (a b : nat * Z * Z) : bool :=
  Nat.eqb (fst (fst a)) (fst (fst b)) && (snd (fst a) =? snd (fst b)) && (snd a =? snd b).
Fixpoint checks_eqb (a b : list (nat * Z * Z)) : bool :=
  match a, b with
  | [], [] => true
  | x :: a', y :: b' => check_eqb x y && checks_eqb a' b'
  | _, _ => false
  end.
Definition doc_tag_checks : list (nat * Z * Z) := [(0%nat, 5, 6); (1%nat, 0, 99); (2%nat, 0, 99)].
(* does the source anchor the pattern at the end and enforce the documented N, M, P ranges? *)
Definition tag_ranges_enforced : bool := run2d_pattern_anchored && checks_eqb run2d_tag_checks doc_tag_checks.

(* ---------------- call front-ends with the regenerated defaults ---------------- *)

Definition lookup {A} (i : nat) (l : list (nat * A)) : option A :=
  match find (fun p => Nat.eqb (fst p) i) l with Some p => Some (snd p) | None => None end.

(* an omitted optional argument: the signature default; if that is None, the value None is replaced by *)
Definition objid_opt (i : nat) (a : option arg) : option arg :=
  match a with
  | Some x => Some x
  | None => match lookup i objid_sig_defaults with
            | Some (Some z) => Some (Sc z)
            | Some None => match lookup i objid_none_values with Some z => Some (Sc z) | None => None end
            | None => None
            end
  end.

(* scalar promotion: an int equal to the broadcast constant becomes run.shape copies of the fill value *)
Definition objid_bcast (i : nat) (n : nat) (a : arg) : list Z :=
  match a with
  | Ar l => l
  | Sc z => match lookup i objid_broadcast with
            | Some (c, fill) => if z =? c then repeat fill n else [z]
            | None => [z]
            end
  end.

Definition objid_call (run camcol field objnum : arg) (rerun sky ff : option arg) : res :=
  match objid_opt 0 sky, objid_opt 1 rerun, objid_opt 4 ff with
  | Some s, Some rr, Some f =>
      let r := promote run in
      let n := length r in
      let cols := [objid_bcast 0 n s; objid_bcast 1 n rr; r; promote camcol; objid_bcast 4 n f; promote field; promote objnum] in
      if forallb (fun c => Nat.eqb (length c) n) cols then
        let rows := zip_rows cols n in
        if forallb (checks_ok objid_checks) rows then Ok (map objid_of rows) else ValueError
      else ValueError
  | _, _, _ => OtherError
  end.

Definition covers (n : nat) (skip : nat) (l : list nat) : bool :=
  forallb (fun i => Nat.eqb i skip || existsb (Nat.eqb i) l) (seq 0 n).

Inductive r2in := RInt (z : Z) | RStr (s : list Z) | RArr (l : list Z).

Definition specobjid_call (plate fiber mjd : arg) (r : r2in) (line index : option arg) : res :=
  match line, index, specobjid_line_index_exclusive with
  | Some _, Some _, true => ValueError
  | _, _, _ =>
      match r with
      | RInt z => specobjid_model plate fiber mjd (R2int z) line index
      | RArr l => specobjid_model plate fiber mjd (R2arr l) line index
      | RStr s => match run2d_of_string s with
                  | R2val z => specobjid_model plate fiber mjd (R2int z) line index
                  | R2ValueError => ValueError
                  | R2Overflow => OtherError
                  end
      end
  end.

(* ---------------- specification side (hand-written from the docstrings; independent of Generated/ and of M) ------- *)

Definition doc_tag_pattern : list ppiece := [PLit [118]; PDigits; PLit [95]; PDigits; PLit [95]; PDigits].

(* documented meaning of a run2d string: an integer literal, or 'vN_M_P' with 5 <= N <= 6, 0 <= M, P <= 99;
   None = not a documented form: the call must not return an ID *)
Definition doc_run2d_of_string (s : list Z) : option Z :=
  match parse_pyint s with
  | Some z => Some z
  | None => match re_match true doc_tag_pattern s with
            | Some [N; M; P] =>
                if (5 <=? N) && (N <=? 6) && (0 <=? M) && (M <=? 99) && (0 <=? P) && (P <=? 99)
                then Some ((N - 5) * 10000 + M * 100 + P) else None
            | _ => None
            end
  end.

(* documented behaviour of sdss_objid for any mix of Python-int and array arguments: rerun=301, skyversion=2,
   firstfield=0 when omitted; an int equal to its default stands for every row; all sizes must match; every row in
   the documented ranges; the documented layout of every row *)
Definition doc_objid_call (run camcol field objnum : arg) (rerun sky ff : option arg) : res :=
  let dfl (a : option arg) (z : Z) := match a with Some x => x | None => Sc z end in
  let r := promote run in
  let n := length r in
  let cols := [promote_default 2 n (dfl sky 2); promote_default 301 n (dfl rerun 301); r; promote camcol;
               promote_default 0 n (dfl ff 0); promote field; promote objnum] in
  if forallb (fun c => Nat.eqb (length c) n) cols then
    let rows := zip_rows cols n in
    if forallb objid_doc_ranges rows then Ok (map (pack objid_table) rows) else ValueError
  else ValueError.

Definition doc_tag (r : Z) : list Z :=
  [118] ++ dec (r / 10000 + 5) ++ [95] ++ dec ((r mod 10000) / 100) ++ [95] ++ dec (r mod 100).

Definition doc_objid_names : list (list Z) :=
  [[115; 107; 121; 118; 101; 114; 115; 105; 111; 110]; [114; 101; 114; 117; 110]; [114; 117; 110];
   [99; 97; 109; 99; 111; 108]; [102; 105; 114; 115; 116; 102; 105; 101; 108; 100]; [102; 114; 97; 109; 101]; [105; 100]].
   (* skyversion rerun run camcol firstfield frame id *)
Definition doc_spec_names : list (list Z) :=
  [[112; 108; 97; 116; 101]; [102; 105; 98; 101; 114]; [109; 106; 100]; [114; 117; 110; 50; 100]; [108; 105; 110; 101]].
   (* plate fiber mjd run2d line *)

(* ---------------- round 6: how a scalar argument is spelled (class E) ---------------- *)

(* FPy: a Python int or bool (isinstance(x, int) holds; the promotion helpers see its integer value);
   FNp c: a NumPy integer / boolean scalar or a zero-dimensional array -- an integer for the packers only if the
   normalising helper found in the source handles class c AND is applied to that argument; otherwise the code treats
   it as an array of shape (), which this model does not cover (the documented meaning is still its integer value);
   FArr: an array with at least one dimension. *)
Inductive sform := FPy | FNp (c : scalar_class) | FArr.

Definition form_is_int (normaliser : option (list scalar_class)) (normalised : list nat) (i : nat) (f : sform) : bool :=
  match f with
  | FPy | FArr => true
  | FNp c => match normaliser with
             | Some l => existsb (scalar_class_eqb c) l && existsb (Nat.eqb i) normalised
             | None => false
             end
  end.

Definition forms_modelled (normalised : list nat) (forms : list sform) : bool :=
  forallb (fun p => form_is_int numpy_scalar_normaliser normalised (fst p) (snd p)) (combine (seq 0 (length forms)) forms).

(* the source has a normalising helper, it handles the three classes and is applied to every argument *)
Definition all_scalar_classes : list scalar_class := [NpIntegerScalar; NpBoolScalar; ZeroDimArray].
Definition normaliser_complete : bool :=
  match numpy_scalar_normaliser with
  | None => false
  | Some l => forallb (fun c => existsb (scalar_class_eqb c) l) all_scalar_classes
              && covers 7 7 objid_scalar_normalised && covers 6 6 specobjid_scalar_normalised
  end.

(* the promotion of a Python int by _int64_array, as read from the source, in terms of the call model's outcomes *)
Definition int64_array_model (k : pyint_kind) (v : Z) : promo := run_promoter int64_array_promoter k v.
Definition specobjid_promotion_model (k : pyint_kind) (v : Z) : promo := run_promoter specobjid_promoter k v.

(* every range check of the list has bounds inside int64, and every one of the n fields has a check *)
Definition checks_inside_int64 (n : nat) (checks : list (nat * Z * Z)) : bool :=
  forallb (fun c => match c with (_, lo, hi) => fits I64 lo && fits I64 hi end) checks
  && covers n n (map (fun c => fst (fst c)) checks).

Definition r2_scalar (r : r2in) : option Z := match r with RInt z => Some z | RArr [z] => Some z | _ => None end.
Definition opt_scalar (a : option arg) : option Z := match a with Some x => arg_scalar x | None => Some 0 end.

(* ---------------- correspondence cases ---------------- *)

Definition eqb_xres (a b : xres) : bool :=
  match a, b with
  | XRows x, XRows y => eqb_listZ x y
  | XValueError, XValueError => true
  | XOther, XOther => true
  | _, _ => false
  end.

Definition tvals (l : list tres) : option (list Z) :=
  fold_right (fun r acc => match r, acc with TVal _ z, Some t => Some (z :: t) | _, _ => None end) (Some []) l.

Inductive xcase :=
  (* sdss_objid with the optional arguments possibly omitted *)
| XObjidCall (run camcol field objnum : arg) (rerun sky ff : option arg) (expect : res)
  (* sdss_specobjid(plate, fiber, mjd, <string>) , scalar call *)
| XSpecStr (plate fiber mjd : Z) (s : list Z) (expect : res)
  (* unwrap_*(np.array([<string>])) : the row, or the error class *)
| XUnObjStr (s : list Z) (expect : xres)
| XUnSpecStr (s : list Z) (expect : xres)
  (* unwrap_*(integer array): the row as stored in the record fields, and for specObjID the run2d tag *)
| XUnObjTyped (id : Z) (expect : list Z)
| XUnSpecTyped (id : Z) (expect : list Z) (tag : list Z)
  (* round 6: single-row calls with every argument spelled in its own way (forms in the order of the model rows:
     skyversion rerun run camcol firstfield field objnum / plate fiber mjd run2d line index) *)
| XObjidForms (forms : list sform) (run camcol field objnum : arg) (rerun sky ff : option arg) (expect : res)
| XSpecForms (forms : list sform) (plate fiber mjd : arg) (r : r2in) (line index : option arg) (expect : res).

(* verdict: +1 model differs from the implementation; +2 the implementation contradicts the documented behaviour *)
Definition run_xcase (c : xcase) : Z :=
  match c with
  | XObjidCall run camcol field objnum rerun sky ff expect =>
      (if eqb_res (objid_call run camcol field objnum rerun sky ff) expect then 0 else 1)
      + (if eqb_res (doc_objid_call run camcol field objnum rerun sky ff) expect then 0 else 2)
  | XSpecStr p f m s expect =>
      (if eqb_res (specobjid_call (Sc p) (Sc f) (Sc m) (RStr s) None None) expect then 0 else 1)
      + (match doc_run2d_of_string s with
         | Some r =>
             if specobjid_doc_ranges [p; f; m - 50000; r; 0; 0]
             then (if eqb_res expect (Ok [pack specobjid_table [p; f; m - 50000; r; 0]]) then 0 else 2)
             else (if eqb_res expect ValueError then 0 else 2)
         | None => match expect with Ok _ => 2 | _ => 0 end
         end)
  | XUnObjStr s expect =>
      (if eqb_xres (unwrap_objid_of_string s) expect then 0 else 1)
      + (match parse_pyint s with
         | Some id => if (- 2 ^ 63 <=? id) && (id <? 2 ^ 63)    (* a negative int64 is unwrapped as its bit pattern *)
                      then (if eqb_xres expect (XRows (unpack objid_table id)) then 0 else 2)
                      else (match expect with XRows _ => 2 | _ => 0 end)
         | None => match expect with XRows _ => 2 | _ => 0 end
         end)
  | XUnSpecStr s expect =>
      (if eqb_xres (unwrap_spec_of_string s) expect then 0 else 1)
      + (match parse_pyint s with
         | Some id => if (0 <=? id) && (id <? 2 ^ 64)
                      then (match unpack specobjid_table id with
                            | [p; f; m; r; l] =>
                                if eqb_xres expect (XRows [p; f; m + 50000; r; r / 10000 + 5; (r mod 10000) / 100; r mod 100; l])
                                then 0 else 2
                            | _ => 0 end)
                      else (match expect with XRows _ => 2 | _ => 0 end)
         | None => match expect with XRows _ => 2 | _ => 0 end
         end)
  | XUnObjTyped id expect =>
      (match tvals (unwrap_typed unwrap_objid_record (unwrap_objid_intype, id)) with
       | Some row => if eqb_listZ row expect then 0 else 1 | None => 1 end)
      + (if eqb_listZ (unpack objid_table id) expect then 0 else 2)
  | XUnSpecTyped id expect tag =>
      (match tvals (unwrap_typed unwrap_spec_record (unwrap_spec_intype, id)) with
       | Some row => if eqb_listZ row expect && eqb_listZ (unwrap_spec_tag id) tag then 0 else 1 | None => 1 end)
      + (match unpack specobjid_table id with
         | [p; f; m; r; l] => if eqb_listZ [p; f; m + 50000; r; l] expect && eqb_listZ (doc_tag r) tag then 0 else 2
         | _ => 0 end)
  | XObjidForms forms run camcol field objnum rerun sky ff expect =>
      (if forms_modelled objid_scalar_normalised forms
          && eqb_res (objid_call run camcol field objnum rerun sky ff) expect then 0 else 1)
      + (if eqb_res (doc_objid_call run camcol field objnum rerun sky ff) expect then 0 else 2)
  | XSpecForms forms p f m r l i expect =>
      (if forms_modelled specobjid_scalar_normalised forms
          && eqb_res (specobjid_call p f m r l i) expect then 0 else 1)
      + (match l, i with
         | Some _, Some _ => if eqb_res expect ValueError then 0 else 2
         | _, _ =>
             match arg_scalar p, arg_scalar f, arg_scalar m, r2_scalar r, opt_scalar l, opt_scalar i with
             | Some pv, Some fv, Some mv, Some rv, Some lv, Some iv =>
                 if specobjid_doc_ranges [pv; fv; mv - 50000; rv; lv; iv]
                 then (if eqb_res expect (Ok [pack specobjid_table [pv; fv; mv - 50000; rv; lv + iv]]) then 0 else 2)
                 else (if eqb_res expect ValueError then 0 else 2)
             | _, _, _, _, _, _ => 0
             end
         end)
  end.

Definition run_xcases (cs : list xcase) : list Z := map run_xcase cs.
