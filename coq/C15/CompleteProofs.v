(* C15: for n vectors of Q^n, orthonormality (V^T V = I) implies completeness (V V^T = I):
   x = sum_k (v_k . x) v_k for every x.  Determinant-free: m+1 vectors of Q^m are linearly dependent (induction on m
   with one elimination step), so x depends on the v_k; orthonormality identifies the coefficients. *)
From Coq Require Import QArith Qabs Lqa List Bool Lia ZArith.
From PV Require Import Lib.WLS C13.LinAlg C13.LinAlgProofs C15.Model C15.Chi2Proofs C15.HmfProofs C15.HmfProofs2 C15.HmfProofs3 C15.SpectralProofs.
Import ListNotations.
Open Scope Q_scope.

Definition lincomb (n : nat) (cs : vec) (us : list vec) : vec := vsumv n (map2 (fun c u => vscale c u) cs us).
Definition nontrivial (cs : vec) : Prop := Exists (fun c => ~ c == 0) cs.
Definition vlen (n : nat) (us : list vec) : Prop := Forall (fun u => length u = n) us.

Lemma lincomb_length n us : forall cs, vlen n us -> length (lincomb n cs us) = n.
Proof.
  unfold lincomb. induction us as [|u us IH]; intros [|c cs] H; simpl; try apply zeros_length.
  inversion H; subst. rewrite vadd_length; rewrite vscale_length; [reflexivity|]. symmetry. apply IH. assumption.
Qed.

(* two vectors of the same length with the same dot products are equal *)
Lemma veq_by_dot a : forall b, length a = length b -> (forall r, dot r a == dot r b) -> veq a b.
Proof.
  induction a as [|x a IH]; intros [|y b] L H; simpl in *; try discriminate; constructor.
  - specialize (H [1]). simpl in H. destruct a, b; simpl in H; lra.
  - apply IH; [lia|]. intros r. specialize (H (0 :: r)). simpl in H. lra.
Qed.

Lemma dot_lincomb n r us : forall cs, vlen n us -> dot r (lincomb n cs us) == dot cs (map (dot r) us).
Proof.
  unfold lincomb. induction us as [|u us IH]; intros [|c cs] H; simpl; try (rewrite dot_comm; apply dot_zeros_l).
  inversion H; subst. rewrite dot_vadd_r.
  - rewrite dot_vscale_r, IH by assumption. reflexivity.
  - rewrite vscale_length. symmetry. apply (lincomb_length (length u) us cs). assumption.
Qed.

Lemma dot_app_l cs1 : forall l1 cs2 l2, length cs1 = length l1 -> dot (cs1 ++ cs2) (l1 ++ l2) == dot cs1 l1 + dot cs2 l2.
Proof.
  induction cs1 as [|c cs1 IH]; intros [|h l1] cs2 l2 L; simpl in *; try discriminate; [ring|].
  rewrite IH by lia. ring.
Qed.

Lemma dot_map_lin {A : Type} (f g : A -> Q) t us : forall cs,
  dot cs (map (fun u => f u + g u * t) us) == dot cs (map f us) + dot cs (map g us) * t.
Proof. induction us as [|u us IH]; intros [|c cs]; simpl; try ring. rewrite IH. ring. Qed.

Lemma map_veq_in {A : Type} (f h : A -> Q) l : (forall x, In x l -> f x == h x) -> veq (map f l) (map h l).
Proof.
  intros H. induction l as [|a l IH]; simpl; constructor; [apply H; left; reflexivity|].
  apply IH. intros x Hx. apply H. right. exact Hx.
Qed.

Lemma dot_zero_r cs hs : Forall (fun h => h == 0) hs -> dot cs hs == 0.
Proof.
  intros H. revert cs. induction H as [|h hs Hh _ IH]; intros [|c cs]; simpl; try reflexivity.
  rewrite Hh, IH. ring.
Qed.

(* head and tail of a linear combination of vectors of length S n *)
Lemma lincomb_head_tail n us : forall cs, vlen (S n) us ->
  lincomb (S n) cs us = dot cs (map (hd 0) us) :: lincomb n cs (map (@tl Q) us).
Proof.
  unfold lincomb. induction us as [|u us IH]; intros [|c cs] H; simpl; try reflexivity.
  inversion H as [|? ? Hu Hus]; subst. destruct u as [|h t]; [discriminate|].
  rewrite (IH cs Hus). reflexivity.
Qed.

Lemma split_pivot (us : list vec) :
  Forall (fun u => hd 0 u == 0) us \/ exists l1 p l2, us = l1 ++ p :: l2 /\ ~ hd 0 p == 0.
Proof.
  induction us as [|u us [IH|[l1 [p [l2 [E Hp]]]]]].
  - left. constructor.
  - destruct (Qeq_dec (hd 0 u) 0) as [Z|NZ].
    + left. constructor; assumption.
    + right. exists [], u, us. split; [reflexivity | exact NZ].
  - right. exists (u :: l1), p, l2. split; [simpl; rewrite E; reflexivity | exact Hp].
Qed.

Lemma zeros_S n : zeros (S n) = 0 :: zeros n.
Proof. reflexivity. Qed.

(* m + 1 vectors of Q^m are linearly dependent *)
Lemma dependent m : forall us, length us = S m -> vlen m us ->
  exists cs, length cs = S m /\ nontrivial cs /\ veq (lincomb m cs us) (zeros m).
Proof.
  induction m as [|m IH]; intros us L H.
  - destruct us as [|u [|? ?]]; try discriminate. inversion H; subst. destruct u; [|discriminate].
    exists [1]. split; [reflexivity|]. split; [constructor; lra | constructor].
  - destruct (split_pivot us) as [Hz|[l1 [p [l2 [E Hp]]]]].
    + (* all first coordinates vanish: drop the first vector, work on the tails *)
      destruct us as [|u0 rest]; [discriminate|]. inversion H as [|? ? Hu0 Hrest]; subst. inversion Hz as [|? ? Hz0 Hzr]; subst.
      destruct (IH (map (@tl Q) rest)) as [cs [Lc [Hn Hv]]].
      * rewrite map_length. simpl in L. unfold vec in *. lia.
      * unfold vlen in *. rewrite Forall_forall in *. intros t Ht. apply in_map_iff in Ht. destruct Ht as [u [Et Hu]]. subst.
        specialize (Hrest u Hu). destruct u; simpl in *; [discriminate | lia].
      * exists (0 :: cs). split; [simpl; lia|]. split; [apply Exists_cons_tl; exact Hn|].
        apply veq_by_dot; [rewrite lincomb_length, zeros_length; [reflexivity | constructor; assumption]|].
        intros r. rewrite (dot_lincomb (S m) r (u0 :: rest) (0 :: cs)) by (constructor; assumption).
        cbn [map dot]. rewrite <- (dot_lincomb (S m) r rest cs) by assumption.
        rewrite (lincomb_head_tail m rest cs Hrest).
        assert (Z : veq (dot cs (map (hd 0) rest) :: lincomb m cs (map (@tl Q) rest)) (zeros (S m))).
        { rewrite zeros_S. constructor; [|exact Hv]. apply dot_zero_r.
          rewrite Forall_forall in *. intros h Hh. apply in_map_iff in Hh. destruct Hh as [u [Eh Hu]]. subst. apply Hzr. exact Hu. }
        rewrite (dot_veq r r _ _ (veq_refl r) Z). rewrite (dot_comm r (zeros (S m))), dot_zeros_l. ring.
    + (* eliminate the first coordinate with the pivot p *)
      subst us. set (a := hd 0 p) in *. set (others := l1 ++ l2).
      assert (Hl1 : vlen (S m) l1 /\ length p = S m /\ vlen (S m) l2).
      { unfold vlen in *. apply Forall_app in H. destruct H as [H1 H2]. inversion H2; subst. auto. }
      destruct Hl1 as [H1 [Hpl H2]].
      assert (Ho : vlen (S m) others) by (unfold vlen, others; apply Forall_app; split; assumption).
      set (k := fun u : vec => - hd 0 u / a).
      set (mk := fun u : vec => vadd u (vscale (k u) p)).
      assert (Hmk : vlen (S m) (map mk others)).
      { unfold vlen in *. rewrite Forall_forall in *. intros t Ht. apply in_map_iff in Ht. destruct Ht as [u [Et Hu]]. subst.
        unfold mk. rewrite vadd_length; rewrite ?vscale_length; rewrite (Ho u Hu); congruence. }
      destruct (IH (map (@tl Q) (map mk others))) as [cs [Lc [Hn Hv]]].
      * rewrite !map_length. unfold others. rewrite app_length in *. simpl in L. lia.
      * unfold vlen in *. rewrite Forall_forall in *. intros t Ht. apply in_map_iff in Ht. destruct Ht as [u [Et Hu]]. subst.
        specialize (Hmk u Hu). destruct u; simpl in *; [discriminate | lia].
      * (* w = sum cs_i (u_i + k_i p) vanishes *)
        assert (Hw : veq (lincomb (S m) cs (map mk others)) (zeros (S m))).
        { rewrite (lincomb_head_tail m _ cs Hmk). rewrite zeros_S. constructor; [|exact Hv]. apply dot_zero_r.
          rewrite Forall_forall. intros h Hh. apply in_map_iff in Hh. destruct Hh as [t [Eh Ht]]. subst.
          apply in_map_iff in Ht. destruct Ht as [u [Et Hu]]. subst. unfold mk, k.
          unfold vlen in Ho. rewrite Forall_forall in Ho. specialize (Ho u Hu).
          destruct u as [|hu tu]; [discriminate|]. destruct p as [|hp tp]; [discriminate|]. simpl in *. unfold a. field. exact Hp. }
        set (cp := dot cs (map k others)).
        exists (firstn (length l1) cs ++ cp :: skipn (length l1) cs).
        assert (Lf : length (firstn (length l1) cs) = length l1).
        { apply firstn_length_le. rewrite Lc. rewrite app_length in L. simpl in L. lia. }
        split; [rewrite app_length; simpl; rewrite Lf, skipn_length, Lc; rewrite app_length in L; simpl in L; lia|].
        split.
        { unfold nontrivial in *. rewrite <- (firstn_skipn (length l1) cs) in Hn. apply Exists_app in Hn.
          apply Exists_app. destruct Hn as [Hn|Hn]; [left; exact Hn | right; apply Exists_cons_tl; exact Hn]. }
        apply veq_by_dot; [rewrite lincomb_length, zeros_length; [reflexivity | exact H]|].
        intros r. rewrite (dot_lincomb (S m) r _ _ H).
        rewrite map_app. simpl map. rewrite dot_app_l by (rewrite map_length; exact Lf). simpl.
        (* the same scalar through w *)
        pose proof (dot_veq r r _ _ (veq_refl r) Hw) as Ew.
        rewrite (dot_lincomb (S m) r _ cs Hmk) in Ew. rewrite map_map in Ew.
        assert (Em : dot cs (map (fun u => dot r (mk u)) others)
                     == dot cs (map (fun u => dot r u + k u * dot r p) others)).
        { apply dot_veq; [apply veq_refl|]. apply map_veq_in. intros u Hu. unfold mk.
          unfold vlen in Ho. rewrite Forall_forall in Ho.
          rewrite dot_vadd_r by (rewrite vscale_length, (Ho u Hu); congruence). rewrite dot_vscale_r. reflexivity. }
        rewrite Em, dot_map_lin in Ew.
        assert (Es : dot cs (map (dot r) others)
                     == dot (firstn (length l1) cs) (map (dot r) l1) + dot (skipn (length l1) cs) (map (dot r) l2)).
        { rewrite <- (firstn_skipn (length l1) cs) at 1. unfold others. rewrite map_app. apply dot_app_l.
          rewrite map_length. exact Lf. }
        rewrite Es in Ew. rewrite <- Ew. unfold cp. unfold vec in *. ring.
Qed.

(* ------------------------------------------------------------------ orthonormal => complete *)
Definition gram_identity (vs : list vec) : Prop :=
  forall j k vj vk, nth_error vs j = Some vj -> nth_error vs k = Some vk -> dot vj vk == (if Nat.eqb j k then 1 else 0).

Lemma veq_nth a : forall b, length a = length b -> (forall k, (k < length a)%nat -> nth k a 0 == nth k b 0) -> veq a b.
Proof.
  induction a as [|x a IH]; intros [|y b] L H; simpl in *; try discriminate; constructor.
  - apply (H O). lia.
  - apply IH; [lia|]. intros k Hk. apply (H (S k)). lia.
Qed.

Lemma nth_map_vec (f : list Q -> Q) (vs : list (list Q)) k v : nth_error vs k = Some v -> nth k (map f vs) 0 = f v.
Proof.
  revert k; induction vs as [|u vs IH]; intros [|k] H; simpl in *; try discriminate.
  - inversion H; reflexivity.
  - apply IH; exact H.
Qed.

Lemma split_last (cs0 : vec) n : length cs0 = S n -> exists cs c, cs0 = cs ++ [c] /\ length cs = n.
Proof.
  intros L. destruct (exists_last (l := cs0)) as [cs [c E]]; [intro Z; subst; discriminate|].
  exists cs, c. split; [exact E|]. subst. rewrite app_length in L. simpl in L. lia.
Qed.

Lemma dot_map_scale_l {A : Type} c (f g : A -> Q) l : dot (map (fun v => c * f v) l) (map g l) == c * dot (map f l) (map g l).
Proof. induction l as [|v l IH]; simpl; [ring|]. rewrite IH. ring. Qed.

Lemma all_zero_not_nontrivial l : Forall (fun c => c == 0) l -> ~ nontrivial l.
Proof.
  intros H N. unfold nontrivial in N. apply Exists_exists in N. destruct N as [c [Hin Hc]].
  rewrite Forall_forall in H. apply Hc. apply H. exact Hin.
Qed.

Theorem orthonormal_complete n vs : length vs = n -> vlen n vs -> gram_identity vs ->
  forall x, length x = n -> veq (vsumv n (map2 (fun c v => vscale c v) (map (fun v => dot v x) vs) vs)) x.
Proof.
  intros Ln Hv Hg x Lx. change (veq (lincomb n (map (fun v => dot v x) vs) vs) x).
  assert (Hus : vlen n (vs ++ [x])) by (unfold vlen; apply Forall_app; split; [exact Hv | constructor; [exact Lx | constructor]]).
  destruct (dependent n (vs ++ [x])) as [cs0 [L0 [Hn H0]]]; [rewrite app_length; simpl; (unfold vec in *; lia) | exact Hus |].
  destruct (split_last cs0 n L0) as [cs [c [E Lc]]]. subst cs0.
  (* the dependency, tested against any r *)
  assert (Hr : forall r, dot cs (map (dot r) vs) + c * dot r x == 0).
  { intros r. pose proof (dot_veq r r _ _ (veq_refl r) H0) as E0.
    rewrite (dot_lincomb n r _ _ Hus) in E0. rewrite map_app in E0. simpl map in E0.
    rewrite dot_app_l in E0 by (rewrite map_length; (unfold vec in *; lia)). simpl in E0.
    rewrite (dot_comm r (zeros n)), dot_zeros_l in E0. unfold vec in *. revert E0. generalize (dot cs (map (dot r) vs)) (c * dot r x). intros qa qb E0. lra. }
  (* tested against v_j: the j-th coefficient *)
  assert (Hj : forall j vj, nth_error vs j = Some vj -> nth j cs 0 == - c * dot vj x).
  { intros j vj Hvj. specialize (Hr vj).
    assert (Hjn : (j < n)%nat) by (rewrite <- Ln; apply nth_error_Some; congruence).
    assert (Eu : veq (map (dot vj) vs) (unit_vec n j)).
    { apply veq_nth; [unfold unit_vec; rewrite !map_length, seq_length; exact Ln|].
      intros k Hk. rewrite map_length in Hk.
      destruct (nth_error vs k) as [vk|] eqn:Ek; [|apply nth_error_None in Ek; (unfold vec in *; lia)].
      rewrite (nth_map_vec (dot vj) vs k vk Ek). unfold unit_vec. rewrite nth_map_seq by (unfold vec in *; lia).
      apply (Hg j k vj vk Hvj Ek). }
    rewrite (dot_veq cs cs _ _ (veq_refl cs) Eu) in Hr. rewrite dot_comm, (dot_unit n j cs Hjn Lc) in Hr. lra. }
  destruct (Qeq_dec c 0) as [Zc|NZc].
  - (* c = 0 would make every coefficient vanish *)
    exfalso. apply (all_zero_not_nontrivial (cs ++ [c])); [|exact Hn].
    apply Forall_app. split; [|constructor; [exact Zc | constructor]].
    apply Forall_forall. intros q Hq. apply (In_nth _ _ 0) in Hq. destruct Hq as [j [Hjl Eq]]. subst q.
    destruct (nth_error vs j) as [vj|] eqn:Ej; [|apply nth_error_None in Ej; (unfold vec in *; lia)].
    rewrite (Hj j vj Ej), Zc. ring.
  - apply veq_by_dot; [rewrite lincomb_length by exact Hv; congruence|].
    intros r. rewrite (dot_lincomb n r vs _ Hv).
    assert (Ecs : veq cs (map (fun v => (- c) * dot v x) vs)).
    { apply veq_nth; [rewrite map_length; (unfold vec in *; lia)|]. intros j Hjl.
      destruct (nth_error vs j) as [vj|] eqn:Ej; [|apply nth_error_None in Ej; (unfold vec in *; lia)].
      rewrite (nth_map_vec (fun v => - c * dot v x) vs j vj Ej). apply (Hj j vj Ej). }
    specialize (Hr r). rewrite (dot_veq _ _ _ _ Ecs (veq_refl (map (dot r) vs))) in Hr.
    rewrite dot_map_scale_l in Hr.
    assert (dot (map (fun v => dot v x) vs) (map (dot r) vs) == dot r x).
    { assert (c * (dot r x - dot (map (fun v => dot v x) vs) (map (dot r) vs)) == 0) by lra.
      destruct (Qeq_dec (dot r x - dot (map (fun v => dot v x) vs) (map (dot r) vs)) 0) as [Z|NZ]; [lra|].
      exfalso. apply NZc. apply (Qmult_integral_l _ _ NZ). rewrite Qmult_comm. exact H. }
    exact H.
Qed.

(* ------------------------------------------------------------------ spectral theorem from orthonormality alone *)
(* eigen-pairs + orthonormality (V^T V = I, n vectors of Q^n) => C = sum_k l_k v_k v_k^T *)
Theorem spectral_reconstruction_orthonormal n C vs ls :
  length C = n -> length vs = n -> vlen n vs -> length ls = length vs ->
  Forall2 (fun v l => veq (mat_vec C v) (vscale l v)) vs ls ->
  gram_identity vs ->
  forall x, length x = n ->
    veq (mat_vec C x) (vsumv n (map2 (fun cl v => vscale cl v) (map2 Qmult ls (map (fun v => dot v x) vs)) vs)).
Proof.
  intros LC Lv Hv Ll He Hg x Lx.
  apply (spectral_reconstruction n C vs ls LC Hv Ll He); [|exact Lx].
  intros y Ly. apply orthonormal_complete; assumption.
Qed.

(* ------------------------------------------------------------------ trace C = sum of the eigenvalues *)
Definition trace (C : mat) : Q := vsum (diag C).

Lemma veq_nth_eq a b k : veq a b -> nth k a 0 == nth k b 0.
Proof. intros H. revert k. induction H as [|x y a b Hxy _ IH]; intros [|k]; simpl; try reflexivity; [exact Hxy | apply IH]. Qed.

Lemma unit_vec_length n i : length (unit_vec n i) = n.
Proof. unfold unit_vec. rewrite map_length, seq_length. reflexivity. Qed.

Lemma diag_entry (C : list (list Q)) n i : (i < n)%nat -> length (nth i C []) = n ->
  nth i (mat_vec C (unit_vec n i)) 0 == nth i (nth i C []) 0.
Proof.
  intros Hi Lr. unfold mat_vec.
  change 0 with (dot [] (unit_vec n i)) at 1. rewrite (map_nth (fun r => dot r (unit_vec n i)) C [] i).
  rewrite dot_comm. apply dot_unit; assumption.
Qed.

Lemma double_sum n (vs : list (list Q)) : forall ls, Forall (fun v => length v = n) vs ->
  vsum (map (fun i => dot (map2 Qmult ls (map (fun v => nth i v 0) vs)) (map (fun v => nth i v 0) vs)) (seq 0 n))
  == dot ls (map (fun v => dot v v) vs).
Proof.
  induction vs as [|v vs IH]; intros ls H.
  - destruct ls; simpl; apply vsum_map_zero; intros; reflexivity.
  - destruct ls as [|l ls]; [simpl; apply vsum_map_zero; intros; reflexivity|].
    inversion H as [|? ? Lv Hvs]; subst. cbn [map map2 dot].
    rewrite <- (IH ls Hvs). rewrite (dot_as_sum v v eq_refl). rewrite vsum_map_scale, vsum_map_add.
    apply vsum_map_ext. intros i _. ring.
Qed.

Theorem trace_is_sum_of_eigenvalues n (C : list (list Q)) (vs : list (list Q)) ls :
  length C = n -> rows_len n C -> length vs = n -> vlen n vs -> length ls = length vs ->
  Forall2 (fun v l => veq (mat_vec C v) (vscale l v)) vs ls ->
  gram_identity vs ->
  trace C == vsum ls.
Proof.
  intros LC RC Lv Hv Ll He Hg. unfold trace, diag. rewrite LC.
  (* every diagonal entry through the spectral decomposition *)
  assert (Hd : forall i, (i < n)%nat ->
            nth i (nth i C []) 0
            == dot (map2 Qmult ls (map (fun v => nth i v 0) vs)) (map (fun v => nth i v 0) vs)).
  { intros i Hi.
    assert (Lr : length (nth i C []) = n).
    { unfold rows_len in RC. rewrite Forall_forall in RC. apply RC. apply nth_In. lia. }
    rewrite <- (diag_entry C n i Hi Lr).
    pose proof (spectral_reconstruction_orthonormal n C vs ls LC Lv Hv Ll He Hg (unit_vec n i) (unit_vec_length n i)) as Hs.
    rewrite (veq_nth_eq _ _ i Hs).
    change (vsumv n (map2 (fun cl v => vscale cl v) (map2 Qmult ls (map (fun v => dot v (unit_vec n i)) vs)) vs))
      with (lincomb n (map2 Qmult ls (map (fun v => dot v (unit_vec n i)) vs)) vs).
    rewrite <- (dot_unit n i (lincomb n _ vs) Hi (lincomb_length n vs _ Hv)).
    rewrite (dot_lincomb n (unit_vec n i) vs _ Hv).
    assert (E1 : veq (map (fun v => dot v (unit_vec n i)) vs) (map (fun v => nth i v 0) vs)).
    { apply map_veq_in. intros v Hin. rewrite dot_comm. apply dot_unit; [exact Hi|].
      unfold vlen in Hv. rewrite Forall_forall in Hv. apply Hv. exact Hin. }
    assert (E2 : veq (map (dot (unit_vec n i)) vs) (map (fun v => nth i v 0) vs)).
    { apply map_veq_in. intros v Hin. apply dot_unit; [exact Hi|].
      unfold vlen in Hv. rewrite Forall_forall in Hv. apply Hv. exact Hin. }
    apply dot_veq; [|exact E2].
    clear -E1. revert ls. induction E1 as [|p q ps qs Hpq _ IH]; intros [|l ls]; simpl; constructor; [rewrite Hpq; reflexivity | apply IH]. }
  rewrite (vsum_map_ext _ (fun i => dot (map2 Qmult ls (map (fun v => nth i v 0) vs)) (map (fun v => nth i v 0) vs)) (seq 0 n)).
  - rewrite (double_sum n vs ls Hv).
    (* v_k . v_k = 1 *)
    assert (E : veq (map (fun v => dot v v) vs) (map (fun _ => 1) vs)).
    { apply veq_nth; [rewrite !map_length; reflexivity|]. intros k Hk. rewrite map_length in Hk.
      destruct (nth_error vs k) as [vk|] eqn:Ek; [|apply nth_error_None in Ek; unfold vec in *; lia].
      rewrite (nth_map_vec (fun v => dot v v) vs k vk Ek), (nth_map_vec (fun _ => 1) vs k vk Ek).
      rewrite (Hg k k vk vk Ek Ek). rewrite Nat.eqb_refl. reflexivity. }
    rewrite (dot_veq ls ls _ _ (veq_refl ls) E).
    clear -Ll. revert vs Ll. induction ls as [|l ls IH]; intros [|v vs] Ll; simpl in *; try discriminate; [reflexivity|].
    unfold vsum in *. simpl. rewrite (IH vs) by lia. ring.
  - intros i Hi. apply in_seq in Hi. apply Hd. lia.
Qed.
