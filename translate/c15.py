"""Fail-closed ast translator for computechi2 / pcomp / HMF (property C15) -> coq/Generated/Chi2.v.

Extracted (elementwise expressions, broadcasting axes, slice offsets, sort idiom), re-read on every run:
  * computechi2: bvec*sqivar; amatrix * tile(sqivar) with its axis; the reciprocal singular values of the pseudo-inverse
    with their axis; the chi2 term; dof (good test, count - nstar); covar's reciprocal weights and product term;
  * pcomp: argsort()[::-1] (descending) vs argsort(); the column scaling of the eigenvectors (square of the factor,
    i.e. what is under np.sqrt) and its axis; variance = evals / trace;
  * HMF.astep / gstep: the terms of Gi, Fi, Aj, Fj; the epsilon penalty: coefficient of eye(K), the interior test and
    factor of d, the three e assignments with their source-column offsets; the activation test on epsilon;
  * HMF.astepnn / gstepnn: numerator, denominator and update ratio, the d term and its interior factor; the e terms must
    be the same three statements as in gstep;
  * HMF.normbase: what is squared, the axis of the mean, the square root.
Hand-written (not extracted): SVD / solve / eigh (oracles), kmeans initialisation, reorder, the normalisation
statements of iterate (np.repeat idioms), pca_solve.
Unrecognised source => Generated/Chi2.v is kept, no alarm.
"""
import ast
import os

from translate.c13 import (Unrecognised, expr, bexpr, nexpr, find_def, assigns, the_assign, the_if, the_for,
                           single_return, defn, strip_wrappers)


def texts(nodes):
    return [ast.unparse(n) for n in nodes]


def nbexpr(node, env):
    """boolean expression over naturals: l > 0 and l < M - 1"""
    if isinstance(node, ast.BoolOp) and isinstance(node.op, ast.And):
        out = nbexpr(node.values[0], env)
        for v in node.values[1:]:
            out = '(andb %s %s)' % (out, nbexpr(v, env))
        return out
    if isinstance(node, ast.Compare) and len(node.ops) == 1:
        a, b = nexpr(node.left, env), nexpr(node.comparators[0], env)
        op = node.ops[0]
        if isinstance(op, ast.Gt):
            return '(Nat.ltb %s %s)' % (b, a)
        if isinstance(op, ast.Lt):
            return '(Nat.ltb %s %s)' % (a, b)
        if isinstance(op, ast.GtE):
            return '(Nat.leb %s %s)' % (b, a)
        if isinstance(op, ast.LtE):
            return '(Nat.leb %s %s)' % (a, b)
    raise Unrecognised('nat test %s' % ast.unparse(node))


def col_index(sub, base):
    """base[:, IDX] -> IDX node (a plain index or a Slice)"""
    if not (isinstance(sub, ast.Subscript) and ast.unparse(sub.value) == base and isinstance(sub.slice, ast.Tuple)
            and len(sub.slice.elts) == 2 and ast.unparse(sub.slice.elts[0]) == ':'):
        raise Unrecognised('%s[:, ...]: %s' % (base, ast.unparse(sub)))
    return sub.slice.elts[1]


def slice_bounds(node):
    if not isinstance(node, ast.Slice) or node.step is not None or node.lower is None or node.upper is None:
        raise Unrecognised('slice %s' % ast.unparse(node))
    return node.lower, node.upper


def linear_in_M(node):
    """index expression c or M - c -> ('c', c) / ('M-', c)"""
    if isinstance(node, ast.Constant) and isinstance(node.value, int):
        return ('c', node.value)
    if isinstance(node, ast.Name) and node.id == 'M':
        return ('M-', 0)
    if isinstance(node, ast.BinOp) and isinstance(node.op, ast.Sub) and isinstance(node.left, ast.Name) and node.left.id == 'M' \
            and isinstance(node.right, ast.Constant) and isinstance(node.right.value, int):
        return ('M-', node.right.value)
    raise Unrecognised('index %s' % ast.unparse(node))


def e_terms(fn, out, emit):
    """the three assignments to e in gstep / gstepnn; returns their source text (for the equality check)"""
    ge = {'self.epsilon': 'e'}
    a0 = the_assign(fn, 'e[:, 0]')
    a1 = the_assign(fn, 'e[:, 1:M - 1]')
    a2 = the_assign(fn, 'e[:, M - 1]')
    if emit:
        # e[:, 0] = eps * g[:, c]
        srcs = [n for n in ast.walk(a0.value) if isinstance(n, ast.Subscript) and ast.unparse(n.value) == 'self.g']
        if len(srcs) != 1:
            raise Unrecognised('e[:, 0] sources')
        k, c = linear_in_M(col_index(srcs[0], 'self.g'))
        if k != 'c':
            raise Unrecognised('e[:, 0] source index')
        out.append(defn('g_e_first_src', [], 'nat', '%d%%nat' % c, a0.lineno))
        out.append(defn('g_e_first', ['e gs : Q'], 'Q', expr(a0.value, dict(ge, **{ast.unparse(srcs[0]): 'gs'}))))
        # e[:, 1:M-1] = eps * (g[:, lo1:hi1] + g[:, lo2:hi2])
        srcs = [n for n in ast.walk(a1.value) if isinstance(n, ast.Subscript) and ast.unparse(n.value) == 'self.g']
        if len(srcs) != 2:
            raise Unrecognised('e interior sources')
        offs = []
        for sub in srcs:
            lo, hi = slice_bounds(col_index(sub, 'self.g'))
            klo, clo = linear_in_M(lo)
            khi, chi = linear_in_M(hi)
            if klo != 'c' or khi != 'M-':
                raise Unrecognised('interior slice %s' % ast.unparse(sub))
            off = clo - 1                    # target slice starts at 1
            if (1 - chi) != off:             # target slice ends at M-1: the source must end at M-1+off
                raise Unrecognised('interior slice length %s' % ast.unparse(sub))
            offs.append(off)
        names = {ast.unparse(srcs[0]): 'ga', ast.unparse(srcs[1]): 'gb'}
        out.append(defn('g_e_mid', ['e ga gb : Q'], 'Q', expr(a1.value, dict(ge, **names)), a1.lineno))
        for nm, off in zip(('a', 'b'), offs):
            body = '(j - %d)%%nat' % (-off) if off < 0 else '(j + %d)%%nat' % off
            out.append(defn('g_e_mid_src_%s' % nm, ['j : nat'], 'nat', body))
        # e[:, M-1] = eps * g[:, M-c]
        srcs = [n for n in ast.walk(a2.value) if isinstance(n, ast.Subscript) and ast.unparse(n.value) == 'self.g']
        if len(srcs) != 1:
            raise Unrecognised('e[:, M-1] sources')
        k, c = linear_in_M(col_index(srcs[0], 'self.g'))
        if k != 'M-':
            raise Unrecognised('e[:, M-1] source index')
        out.append(defn('g_e_last_src', ['M : nat'], 'nat', '(M - %d)%%nat' % c, a2.lineno))
        out.append(defn('g_e_last', ['e gs : Q'], 'Q', expr(a2.value, dict(ge, **{ast.unparse(srcs[0]): 'gs'}))))
    return texts([a0, a1, a2])


def eps_test(fn, out, emit):
    ifs = [n for n in ast.walk(fn) if isinstance(n, ast.If) and 'self.epsilon' in ast.unparse(n.test)]
    tests = set(ast.unparse(n.test) for n in ifs)
    if len(tests) != 1:
        raise Unrecognised('epsilon tests %s' % sorted(tests))
    t = ifs[0].test
    if not (isinstance(t, ast.BoolOp) and isinstance(t.op, ast.And) and len(t.values) == 2 and
            ast.unparse(t.values[0]) == 'self.epsilon is not None'):
        raise Unrecognised('epsilon test %s' % ast.unparse(t))
    if emit:
        out.append(defn('g_eps_pos', ['e : Q'], 'bool', bexpr(t.values[1], {'self.epsilon': 'e'}), ifs[0].lineno))
    return ast.unparse(t)


def chi2_part(tree, out):
    c = 'computechi2'
    init = find_def(tree, '__init__', c)
    a = the_assign(init, 'self.bvec')
    out.append(defn('g_bw', ['b s : Q'], 'Q', expr(a.value, {'bvec': 'b', 'sqivar': 's'}), a.lineno))
    a = the_assign(init, 'self.mmatrix')
    axes = []
    out.append(defn('g_mm', ['a s : Q'], 'Q', expr(a.value, {'self.amatrix': 'a', 'sqivar': 's'}, axes), a.lineno))
    if len(axes) != 1:
        raise Unrecognised('mmatrix broadcasting')
    out.append(defn('g_mm_axis', [], 'scale_axis', 'ScaleRows' if axes[0] == 'row' else 'ScaleCols'))
    if ast.unparse(the_assign(init, 'mm').value) != 'np.dot(self.mmatrix.T, self.mmatrix)':
        raise Unrecognised('mm')
    a = the_assign(init, 'self.mmi')
    v = a.value
    if not (isinstance(v, ast.Call) and ast.unparse(v.func) == 'np.dot' and len(v.args) == 2 and ast.unparse(v.args[1]) == 'self.uu.T'):
        raise Unrecognised('mmi')
    axes = []
    out.append(defn('g_mmi_scale', ['vt w : Q'], 'Q', expr(v.args[0], {'self.vv.T': 'vt', 'self.ww': 'w'}, axes), a.lineno))
    if len(axes) != 1:
        raise Unrecognised('mmi broadcasting')
    out.append(defn('g_mmi_axis', [], 'scale_axis', 'ScaleRows' if axes[0] == 'row' else 'ScaleCols'))
    r = single_return(find_def(tree, 'acoeff', c))
    if ast.unparse(r) != 'np.dot(self.mmi, np.dot(self.mmatrix.T, self.bvec))':
        raise Unrecognised('acoeff')
    r = single_return(find_def(tree, 'chi2', c))
    if not (isinstance(r, ast.Call) and ast.unparse(r.func) == 'np.sum' and len(r.args) == 1):
        raise Unrecognised('chi2')
    out.append(defn('g_chi2_term', ['ma bw : Q'], 'Q',
                    expr(r.args[0], {'np.dot(self.mmatrix, self.acoeff)': 'ma', 'self.bvec': 'bw'}), r.lineno))
    if ast.unparse(single_return(find_def(tree, 'yfit', c))) != 'np.dot(self.amatrix, self.acoeff)':
        raise Unrecognised('yfit')
    r = single_return(find_def(tree, 'dof', c))
    if not (isinstance(r, ast.BinOp) and isinstance(r.op, ast.Sub) and ast.unparse(r.right) == 'self.nstar' and
            isinstance(r.left, ast.Call) and isinstance(r.left.func, ast.Attribute) and r.left.func.attr == 'sum'):
        raise Unrecognised('dof')
    out.append(defn('g_dof_good', ['s : Q'], 'bool', bexpr(r.left.func.value, {'self.sqivar': 's'}), r.lineno))
    out.append(defn('g_dof', ['ngood nstar : Z'], 'Z', '(ngood - nstar)%Z'))
    cv = find_def(tree, 'covar', c)
    if ast.unparse(the_assign(cv, 'wwt').value) != 'self.ww.copy()':
        raise Unrecognised('wwt')
    a = the_assign(cv, 'wwt[self.ww > 0]')
    out.append(defn('g_wwt', ['w : Q'], 'Q', '(if %s then %s else w)' % (
        bexpr(ast.parse('self.ww > 0', mode='eval').body, {'self.ww': 'w'}), expr(a.value, {'self.ww[self.ww > 0]': 'w'})), a.lineno))
    a = the_assign(cv, 'covar[i, j]')
    if not (isinstance(a.value, ast.Call) and ast.unparse(a.value.func) == 'np.sum' and len(a.value.args) == 1):
        raise Unrecognised('covar[i, j]')
    out.append(defn('g_covar_term', ['wwt vi vj : Q'], 'Q',
                    expr(a.value.args[0], {'wwt': 'wwt', 'self.vv[:, i]': 'vi', 'self.vv[:, j]': 'vj'}), a.lineno))
    if ast.unparse(the_assign(cv, 'covar[j, i]').value) != 'covar[i, j]':
        raise Unrecognised('covar symmetry')
    if ast.unparse(single_return(find_def(tree, 'var', c))) != 'np.diag(self.covar)':
        raise Unrecognised('var')


def pcomp_part(tree, out):
    c = 'pcomp'
    init = find_def(tree, '__init__', c)
    a = the_assign(init, 'ie')
    order = {'evals.argsort()[::-1]': 'Descending', 'evals.argsort()': 'Ascending'}.get(ast.unparse(a.value))
    if order is None:
        raise Unrecognised('sort idiom %s' % ast.unparse(a.value))
    out.append(defn('g_pcomp_order', [], 'sort_order', order, a.lineno))
    if ast.unparse(the_assign(init, 'self._evals').value) != 'evals[ie]' or \
            ast.unparse(the_assign(init, 'self._evecs').value) != 'evecs[:, ie]':
        raise Unrecognised('eigen reordering')
    r = single_return(find_def(tree, 'coefficients', c))
    if not (isinstance(r, ast.BinOp) and isinstance(r.op, ast.Mult) and ast.unparse(r.left) == 'self._evecs'):
        raise Unrecognised('coefficients')
    # what is under the square root, and the axis of the scaling
    sq = [n for n in ast.walk(r.right) if isinstance(n, ast.Call) and ast.unparse(n.func) == 'np.sqrt']
    if len(sq) != 1 or len(sq[0].args) != 1:
        raise Unrecognised('coefficients: np.sqrt')
    # translate the broadcasting idiom with the sqrt call standing for a variable
    axes = []
    scaled = expr(r.right, {ast.unparse(sq[0]): 'SQ'}, axes)
    if scaled != 'SQ' or len(axes) != 1:
        raise Unrecognised('coefficients scaling %s' % scaled)
    out.append(defn('g_pcomp_axis', [], 'scale_axis', 'ScaleRows' if axes[0] == 'row' else 'ScaleCols', r.lineno))
    out.append(defn('g_pcomp_norm2', ['l : Q'], 'Q', expr(sq[0].args[0], {'self._evals': 'l'})))
    if ast.unparse(single_return(find_def(tree, 'derived', c))) != 'np.dot(self._array, self.coefficients)':
        raise Unrecognised('derived')
    r = single_return(find_def(tree, 'variance', c))
    out.append(defn('g_variance', ['l tr : Q'], 'Q', expr(r, {'self._evals': 'l', 'self._c.trace()': 'tr'}), r.lineno))


def hmf_part(tree, out):
    c = 'HMF'
    # ---- astep
    fn = find_def(tree, 'astep', c)
    a = the_assign(fn, 'Gi[k, kp]')
    if not (isinstance(a.value, ast.Call) and ast.unparse(a.value.func) == 'np.sum'):
        raise Unrecognised('Gi')
    out.append(defn('g_astep_G', ['gk gkp w : Q'], 'Q', expr(a.value.args[0], {
        'self.g[k, :]': 'gk', 'self.g[kp, :]': 'gkp', 'self.invvar[i, :]': 'w'}), a.lineno))
    if ast.unparse(the_assign(fn, 'Gi[kp, k]').value) != 'Gi[k, kp]':
        raise Unrecognised('Gi symmetry')
    a = the_assign(fn, 'Fi')
    v = a.value
    if not (isinstance(v, ast.Call) and ast.unparse(v.func) == 'np.dot' and ast.unparse(v.args[0]) == 'self.g'):
        raise Unrecognised('Fi')
    out.append(defn('g_astep_F', ['s w : Q'], 'Q', expr(v.args[1], {'self.spectra[i, :]': 's', 'self.invvar[i, :]': 'w'}), a.lineno))
    if ast.unparse(the_assign(fn, 'a[i, :]').value) != 'solve(Gi, Fi)':
        raise Unrecognised('a[i, :]')
    # ---- gstep
    fn = find_def(tree, 'gstep', c)
    a = the_assign(fn, 'Aj[k, kp]')
    if not (isinstance(a.value, ast.Call) and ast.unparse(a.value.func) == 'np.sum'):
        raise Unrecognised('Aj')
    out.append(defn('g_gstep_A', ['ak akp w : Q'], 'Q', expr(a.value.args[0], {
        'self.a[:, k]': 'ak', 'self.a[:, kp]': 'akp', 'self.invvar[:, j]': 'w'}), a.lineno))
    if ast.unparse(the_assign(fn, 'Aj[kp, k]').value) != 'Aj[k, kp]':
        raise Unrecognised('Aj symmetry')
    aug = [n for n in ast.walk(fn) if isinstance(n, ast.AugAssign) and ast.unparse(n.target) == 'Aj']
    if texts(aug) != ['Aj += d[:, :, j]']:
        raise Unrecognised('Aj += d')
    a = the_assign(fn, 'Fj')
    v = a.value
    if not (isinstance(v, ast.BinOp) and isinstance(v.op, ast.Add) and ast.unparse(v.right) == 'e[:, j]' and
            isinstance(v.left, ast.Call) and ast.unparse(v.left.func) == 'np.dot' and ast.unparse(v.left.args[0]) == 'self.a.T'):
        raise Unrecognised('Fj')
    out.append(defn('g_gstep_F', ['s w : Q'], 'Q', expr(v.left.args[1], {'self.spectra[:, j]': 's', 'self.invvar[:, j]': 'w'}), a.lineno))
    if ast.unparse(the_assign(fn, 'g[:, j]').value) != 'solve(Aj, Fj)':
        raise Unrecognised('g[:, j]')
    t1 = eps_test(fn, out, True)
    a = the_assign(fn, 'foo')
    v = a.value
    if not (isinstance(v, ast.BinOp) and isinstance(v.op, ast.Mult) and isinstance(v.right, ast.Call) and ast.unparse(v.right.func) == 'np.eye'):
        raise Unrecognised('foo = eps * eye')
    out.append(defn('g_d_diag', ['e : Q'], 'Q', expr(v.left, {'self.epsilon': 'e'}), a.lineno))
    loop = the_for(fn, 'l', 'range(M)')
    if ast.unparse(the_assign(loop, 'd[:, :, l]').value) != 'foo':
        raise Unrecognised('d[:, :, l] = foo')
    inner = [n for n in loop.body if isinstance(n, ast.If)]
    if len(inner) != 1 or len(inner[0].body) != 1 or not isinstance(inner[0].body[0], ast.AugAssign) or \
            ast.unparse(inner[0].body[0].target) != 'd[:, :, l]' or not isinstance(inner[0].body[0].op, ast.Mult):
        raise Unrecognised('d interior factor')
    out.append(defn('g_d_interior', ['l M : nat'], 'bool', nbexpr(inner[0].test, {'l': 'l', 'M': 'M'}), inner[0].lineno))
    out.append(defn('g_d_factor', [], 'Q', expr(inner[0].body[0].value, {})))
    e1 = e_terms(fn, out, True)
    # ---- astepnn
    fn = find_def(tree, 'astepnn', c)
    a = the_assign(fn, 'numerator')
    if not (ast.unparse(a.value.func) == 'np.dot' and ast.unparse(a.value.args[1]) == 'self.g.T'):
        raise Unrecognised('astepnn numerator')
    out.append(defn('g_nn_num', ['s w : Q'], 'Q', expr(a.value.args[0], {'self.spectra': 's', 'self.invvar': 'w'}), a.lineno))
    a = the_assign(fn, 'denominator')
    if not (ast.unparse(a.value.func) == 'np.dot' and ast.unparse(a.value.args[1]) == 'self.g.T'):
        raise Unrecognised('astepnn denominator')
    out.append(defn('g_nn_den', ['m w : Q'], 'Q', expr(a.value.args[0], {'np.dot(self.a, self.g)': 'm', 'self.invvar': 'w'}), a.lineno))
    body = [s for s in fn.body if isinstance(s, ast.Return)]
    if len(body) != 1:
        raise Unrecognised('astepnn return')
    out.append(defn('g_nn_upd', ['a num den : Q'], 'Q', expr(body[0].value, {'self.a': 'a', 'numerator': 'num', 'denominator': 'den'}), body[0].lineno))
    # ---- gstepnn (must use the same elementwise forms)
    fn = find_def(tree, 'gstepnn', c)
    nums = assigns(fn, 'numerator')
    if len(nums) != 1 or ast.unparse(nums[0].value) != 'np.dot(self.a.T, self.spectra * self.invvar)':
        raise Unrecognised('gstepnn numerator')
    dens = assigns(fn, 'denominator')
    if len(dens) != 1 or ast.unparse(dens[0].value) != 'np.dot(self.a.T, np.dot(self.a, self.g) * self.invvar)':
        raise Unrecognised('gstepnn denominator')
    augs = sorted(ast.unparse(n) for n in ast.walk(fn) if isinstance(n, ast.AugAssign))
    if augs != ['d[:, 1:M - 1] *= 2', 'denominator += d', 'numerator += e']:
        raise Unrecognised('gstepnn augmented assignments %s' % augs)
    a = the_assign(fn, 'd')
    out.append(defn('g_nn_d', ['e g : Q'], 'Q', expr(a.value, {'self.epsilon': 'e', 'self.g.copy()': 'g', 'self.g': 'g'}), a.lineno))
    ret = [s for s in fn.body if isinstance(s, ast.Return)]
    if len(ret) != 1 or ast.unparse(ret[0].value) != 'self.g * (numerator / denominator)':
        raise Unrecognised('gstepnn return')
    t2 = eps_test(fn, out, False)
    e2 = e_terms(fn, out, False)
    if t1 != t2 or e1 != e2:
        raise Unrecognised('gstep and gstepnn smoothing terms differ')
    # ---- normbase
    r = single_return(find_def(tree, 'normbase', c))
    if not (isinstance(r, ast.Call) and ast.unparse(r.func) == 'np.sqrt' and len(r.args) == 1):
        raise Unrecognised('normbase sqrt')
    m = r.args[0]
    if not (isinstance(m, ast.Call) and isinstance(m.func, ast.Attribute) and m.func.attr == 'mean' and len(m.args) == 1
            and isinstance(m.args[0], ast.Constant)):
        raise Unrecognised('normbase mean')
    out.append(defn('g_norm_sq', ['v : Q'], 'Q', expr(m.func.value, {'self.g': 'v'}), r.lineno))
    out.append(defn('g_norm_axis', [], 'nat', '%d%%nat' % m.args[0].value))
    # badness / penalty
    r = [s for s in ast.walk(find_def(tree, 'penalty', c)) if isinstance(s, ast.Return)]
    if sorted(texts([x.value for x in r])) != ['0.0', 'self.epsilon * np.sum(np.diff(self.g) ** 2)']:
        raise Unrecognised('penalty')
    if ast.unparse(single_return(find_def(tree, 'badness', c))) != 'np.sum(self.chi() ** 2) + self.penalty()':
        raise Unrecognised('badness')
    if ast.unparse(single_return(find_def(tree, 'chi', c))) != 'self.resid() * np.sqrt(self.invvar)':
        raise Unrecognised('chi')


def bexpr2(node, env):
    """bexpr plus == and != on rationals"""
    if isinstance(node, ast.Compare) and len(node.ops) == 1 and isinstance(node.ops[0], (ast.NotEq, ast.Eq)):
        t = '(Qeq_bool %s %s)' % (expr(node.left, env), expr(node.comparators[0], env))
        return '(negb %s)' % t if isinstance(node.ops[0], ast.NotEq) else t
    return bexpr(node, env)


def truth_test(node, var, what):
    """`VAR is not None` / `VAR` (truthiness) / `VAR is not None and VAR != 0` on an optional integer -> Coq bool of s : option Z"""
    t = ast.unparse(node)
    if t == '%s is not None' % var:
        return 'match s with Some _ => true | None => false end'
    if t == var:
        return 'match s with Some z => negb (Z.eqb z 0) | None => false end'
    raise Unrecognised('%s test %s' % (what, t))


def method_call(node):
    """self.NAME() -> NAME"""
    if isinstance(node, ast.Call) and not node.args and not node.keywords and isinstance(node.func, ast.Attribute) \
            and isinstance(node.func.value, ast.Name) and node.func.value.id == 'self':
        return node.func.attr
    raise Unrecognised('not a method call: %s' % ast.unparse(node))


STEP_OF = {('self.a', 'astep'): 'SAstep', ('self.g', 'gstep'): 'SGstep', ('self.a, self.g', 'reorder'): 'SReorder',
           ('self.a', 'astepnn'): 'SAstepNN', ('self.g', 'gstepnn'): 'SGstepNN'}
BINOP = {ast.Div: '/', ast.Mult: '*', ast.Add: '+', ast.Sub: '-'}


def step_list(stmts):
    """[self.a = self.astep(), self.g = self.gstep(), ...] -> ([step tags], rest of the statements)"""
    steps = []
    for k, st in enumerate(stmts):
        if isinstance(st, ast.Assign) and len(st.targets) == 1 and isinstance(st.value, ast.Call):
            try:
                key = (ast.unparse(st.targets[0]).replace('(', '').replace(')', ''), method_call(st.value))
            except Unrecognised:
                return steps, stmts[k:]
            if key not in STEP_OF:
                return steps, stmts[k:]
            steps.append(STEP_OF[key])
        else:
            return steps, stmts[k:]
    return steps, []


def is_log(st):
    return isinstance(st, ast.Expr) and isinstance(st.value, ast.Call) and ast.unparse(st.value.func).startswith('log.')


def normalise_stmts(stmts, out, emit, line=None):
    """norm = self.normbase(); self.g OP= np.repeat(norm, M - n_zero).reshape(self.g.shape);
       self.a = (self.a.T OP np.repeat(norm, N).reshape(self.K, N)).T"""
    stmts = [st for st in stmts if not is_log(st)]
    if len(stmts) != 3:
        raise Unrecognised('normalisation: %d statements' % len(stmts))
    s0, s1, s2 = stmts
    if not (isinstance(s0, ast.Assign) and ast.unparse(s0) == 'norm = self.normbase()'):
        raise Unrecognised('norm = self.normbase()')
    if not (isinstance(s1, ast.AugAssign) and ast.unparse(s1.target) == 'self.g' and type(s1.op) in BINOP and
            ast.unparse(s1.value) == 'np.repeat(norm, M - n_zero).reshape(self.g.shape)'):
        raise Unrecognised('g normalisation %s' % ast.unparse(s1))
    v = s2.value if isinstance(s2, ast.Assign) and ast.unparse(s2.targets[0]) == 'self.a' else None
    if not (isinstance(v, ast.Attribute) and v.attr == 'T' and isinstance(v.value, ast.BinOp) and type(v.value.op) in BINOP and
            ast.unparse(v.value.left) == 'self.a.T' and ast.unparse(v.value.right) == 'np.repeat(norm, N).reshape(self.K, N)'):
        raise Unrecognised('a normalisation %s' % ast.unparse(s2))
    if emit:
        # np.repeat(norm, ncols).reshape(K, ncols)[k, j] = norm[k]: one factor per ROW of g; through the two transposes
        # np.repeat(norm, N).reshape(K, N)[k, i] = norm[k] multiplies a[i, k]: one factor per COLUMN of a
        out.append(defn('g_norm_g', ['g n : Q'], 'Q', '(g %s n)' % BINOP[type(s1.op)], s1.lineno))
        out.append(defn('g_norm_g_axis', [], 'scale_axis', 'ScaleRows'))
        out.append(defn('g_norm_a', ['a n : Q'], 'Q', '(a %s n)' % BINOP[type(v.value.op)], s2.lineno))
        out.append(defn('g_norm_a_axis', [], 'scale_axis', 'ScaleCols'))
    return [ast.unparse(s1), ast.unparse(s2)]


def iterate_part(tree, out):
    """HMF.__init__ (seed, n_iter defaults) and HMF.iterate (seed test before kmeans, initial normalisation, the 128 initial
    non-negative coefficient updates, the loop body as a list of steps per mode, the normalisation statements)"""
    c = 'HMF'
    init = find_def(tree, '__init__', c)
    a = the_assign(init, 'self.seed')
    t = ast.unparse(a.value)
    if t == 'seed':
        body = 's'
    elif t in ('seed or None', 'seed if seed else None'):
        body = 'match s with Some z => if Z.eqb z 0 then None else Some z | None => None end'
    else:
        raise Unrecognised('self.seed = %s' % t)
    out.append(defn('g_seed_store', ['s : option Z'], 'option Z', body, a.lineno))
    # n_iter
    top = the_if(init, 'n_iter is None')
    inner = [n for n in top.body if isinstance(n, ast.If)]
    if len(top.body) != 1 or len(inner) != 1 or ast.unparse(inner[0].test) != 'nonnegative' or len(top.orelse) != 1:
        raise Unrecognised('n_iter defaults')
    def const_assign(stmts):
        if len(stmts) == 1 and isinstance(stmts[0], ast.Assign) and ast.unparse(stmts[0].targets[0]) == 'self.n_iter' \
                and isinstance(stmts[0].value, ast.Constant) and isinstance(stmts[0].value.value, int):
            return stmts[0].value.value
        raise Unrecognised('n_iter default value')
    if ast.unparse(top.orelse[0]) != 'self.n_iter = int(n_iter)':
        raise Unrecognised('n_iter given')
    out.append(defn('g_n_iter', ['n : option Z', 'nonneg : bool'], 'Z',
                    'match n with None => if nonneg then %d%%Z else %d%%Z | Some v => v end' % (
                        const_assign(inner[0].body), const_assign(inner[0].orelse)), top.lineno))
    fn = find_def(tree, 'iterate', c)
    body = [st for st in fn.body if not is_log(st) and not (isinstance(st, ast.Expr) and isinstance(st.value, ast.Constant))]
    # seed: tested and applied BEFORE whiten / kmeans
    seeds = [k for k, st in enumerate(body) if isinstance(st, ast.If) and 'self.seed' in ast.unparse(st.test)]
    kms = [k for k, st in enumerate(body) if isinstance(st, ast.Assign) and 'kmeans(' in ast.unparse(st.value)]
    wh = [k for k, st in enumerate(body) if isinstance(st, ast.Assign) and 'whiten(' in ast.unparse(st.value)]
    if len(seeds) != 1 or len(kms) != 1 or len(wh) != 1 or not (seeds[0] < wh[0] < kms[0]):
        raise Unrecognised('seed / whiten / kmeans order')
    sif = body[seeds[0]]
    if sif.orelse or texts(sif.body) != ['np.random.seed(self.seed)']:
        raise Unrecognised('seed application %s' % texts(sif.body))
    if any('random' in ast.unparse(st) for st in body[:seeds[0]]):
        raise Unrecognised('random numbers used before the seed is applied')
    out.append(defn('g_seed_test', ['s : option Z'], 'bool', truth_test(sif.test, 'self.seed', 'seed'), sif.lineno))
    if ast.unparse(body[kms[0]]) != 'self.g, foo = kmeans(whitespectra, self.K)' or \
            ast.unparse(body[wh[0]]) != 'whitespectra = whiten(self.spectra)':
        raise Unrecognised('kmeans initialisation')
    # initial normalisation of g directly after kmeans
    st = body[kms[0] + 1]
    if not (isinstance(st, ast.AugAssign) and isinstance(st.op, ast.Div) and
            ast.unparse(st) == 'self.g /= np.repeat(self.normbase(), M - n_zero).reshape(self.g.shape)'):
        raise Unrecognised('initial normalisation')
    # initial a and the initial non-negative coefficient updates
    a0 = body[kms[0] + 2]
    if ast.unparse(a0) != 'self.a = np.outer(np.sqrt((self.spectra ** 2).mean(1)), np.repeat(1.0 / self.K, self.K))':
        raise Unrecognised('initial a')
    nn0 = body[kms[0] + 3]
    if not (isinstance(nn0, ast.If) and ast.unparse(nn0.test) == 'self.nonnegative' and not nn0.orelse and len(nn0.body) == 1 and
            isinstance(nn0.body[0], ast.For) and isinstance(nn0.body[0].iter, ast.Call) and ast.unparse(nn0.body[0].iter.func) == 'range'
            and len(nn0.body[0].iter.args) == 1 and isinstance(nn0.body[0].iter.args[0], ast.Constant)):
        raise Unrecognised('initial non-negative updates')
    steps, rest = step_list(nn0.body[0].body)
    if rest:
        raise Unrecognised('initial non-negative loop body')
    out.append(defn('g_nn_init_count', [], 'nat', '%d%%nat' % nn0.body[0].iter.args[0].value, nn0.lineno))
    out.append(defn('g_nn_init_steps', [], 'list hstep', '[%s]' % '; '.join(steps)))
    # the main loop
    loop = the_for(fn, 'm', 'range(self.n_iter)')
    lb = [st for st in loop.body if not is_log(st)]
    if not lb or not (isinstance(lb[0], ast.If) and ast.unparse(lb[0].test) == 'self.nonnegative'):
        raise Unrecognised('loop body does not start with the mode test')
    nn_steps, nn_rest = step_list([st for st in lb[0].body if not is_log(st)])
    std_steps, std_rest = step_list([st for st in lb[0].orelse if not is_log(st)])
    tail = lb[1:]
    # the normalisation may sit after the mode test (both modes) or inside the branches
    def norm_of(rest):
        if not rest:
            return []
        normalise_stmts(rest, out, False)
        return ['SNormalise']
    nn_steps += norm_of(nn_rest)
    std_steps += norm_of(std_rest)
    emitted = False
    for grp in (tail, std_rest, nn_rest):
        if grp and not emitted:
            normalise_stmts(grp, out, True)
            emitted = True
    if not emitted:
        raise Unrecognised('no normalisation statements in the loop')
    tail_steps = norm_of(tail)
    if tail and (std_rest or nn_rest):
        if normalise_stmts(tail, out, False) != normalise_stmts(std_rest or nn_rest, out, False):
            raise Unrecognised('different normalisation statements')
    out.append(defn('g_iter_nn', [], 'list hstep', '[%s]' % '; '.join(nn_steps + tail_steps), lb[0].lineno))
    out.append(defn('g_iter_std', [], 'list hstep', '[%s]' % '; '.join(std_steps + tail_steps)))
    r = [st for st in fn.body if isinstance(st, ast.Return)]
    if len(r) != 1 or ast.unparse(r[0].value) != '(self.a, self.g)':
        raise Unrecognised('iterate return')
    # solve(): the dictionary keys
    sv = find_def(tree, 'solve', c)
    if ast.unparse(the_assign(sv, '(a, g)').value) != 'self.iterate()' or ast.unparse(the_assign(sv, "fluxdict['acoeff']").value) != 'a':
        raise Unrecognised('solve')
    fl = assigns(sv, "fluxdict['flux']")
    if sorted(ast.unparse(x.value) for x in fl) != ['g', "self.spectra.astype('f')"]:
        raise Unrecognised('solve flux')


def pca_part(tree, out):
    """decision logic and elementwise formulas of pca_solve"""
    fn = find_def(tree, 'pca_solve')
    i = the_if(fn, 'nreturn is None')
    if texts(i.body) != ['nreturn = nkeep'] or i.orelse:
        raise Unrecognised('nreturn default')
    out.append(defn('g_pca_nreturn', ['nreturn : option nat', 'nkeep : nat'], 'nat',
                    'match nreturn with None => nkeep | Some v => v end', i.lineno))
    # synthetic weights
    a = the_assign(fn, 'synwvec')
    if ast.unparse(a.value) != "np.ones((npix,), dtype='d')":
        raise Unrecognised('synwvec initial value')
    out.append(defn('g_pca_synw_default', [], 'Q', '(1 # 1)', a.lineno))
    loop = the_for(fn, 'ipix', 'range(npix)')
    a = the_assign(loop, 'indx')
    out.append(defn('g_pca_synw_good', ['v : Q'], 'bool', bexpr2(a.value, {'newivar[:, ipix]': 'v'}), a.lineno))
    i = the_if(loop, 'indx.any()')
    if texts(i.body) != ['synwvec[ipix] = newivar[indx, ipix].mean()'] or i.orelse:
        raise Unrecognised('synwvec rule')
    # masks
    a = the_assign(fn, 'inmask')
    out.append(defn('g_pca_inmask', ['v : Q'], 'bool', bexpr2(a.value, {'newivar': 'v'}), a.lineno))
    w = [n for n in ast.walk(fn) if isinstance(n, ast.While)]
    if len(w) != 1 or ast.unparse(w[0].test) not in ('qdone == 0 and iiter <= maxiter',):
        raise Unrecognised('rejection loop condition')
    t = w[0].test.values[1]
    cmpop = {ast.LtE: 'Nat.leb iiter maxiter', ast.Lt: 'Nat.ltb iiter maxiter'}.get(type(t.ops[0]))
    out.append(defn('g_pca_continue', ['qdone : bool', 'iiter maxiter : nat'], 'bool', '(andb (negb qdone) (%s))' % cmpop, w[0].lineno))
    rj = the_assign(w[0], '(outmask, qdone)')
    if ast.unparse(rj.value) != 'djs_reject(newflux, ymodel, inmask=inmask, outmask=outmask, invvar=newivar)':
        raise Unrecognised('djs_reject call')
    if ast.unparse(the_assign(w[0], 'filtflux').value) != 'newflux.copy()':
        raise Unrecognised('filtflux start')
    a = the_assign(w[0], 'maskivar')
    out.append(defn('g_pca_maskivar', ['v m : Q'], 'Q', expr(a.value, {'newivar': 'v', 'outmask': 'm'}), a.lineno))
    a = the_assign(w[0], 'sqivar')
    if not (isinstance(a.value, ast.Call) and ast.unparse(a.value.func) == 'np.sqrt' and len(a.value.args) == 1):
        raise Unrecognised('sqivar')
    out.append(defn('g_pca_weight', ['mi : Q'], 'Q', expr(a.value.args[0], {'maskivar': 'mi'}), a.lineno))
    a = the_assign(w[0], 'out')
    if ast.unparse(a.value) != 'computechi2(newflux[iobj, :], sqivar[iobj, :], pres[:, 0:nkeep])':
        raise Unrecognised('computechi2 call')
    a = the_assign(w[0], 'filtflux[iobj, :]')
    out.append(defn('g_pca_filt', ['mi f sw y : Q'], 'Q', expr(a.value, {
        'maskivar[iobj, :]': 'mi', 'newflux[iobj, :]': 'f', 'synwvec': 'sw', 'out.yfit': 'y'}), a.lineno))
    if ast.unparse(the_assign(w[0], 'acoeff[iobj, :]').value) != 'out.acoeff':
        raise Unrecognised('acoeff')
    # which objects enter pcomp, and what is taken from it
    a = the_assign(w[0], 'goodobj')
    out.append(defn('g_pca_goodobj', ['totflux : Q'], 'bool', bexpr(a.value, {'totflux': 'totflux'}), a.lineno))
    i = the_if(w[0], 'goodobj.all()')
    if texts(i.body) != ['tmp = pcomp(filtflux.T)', 'pres = tmp.derived', 'eigenval = tmp.eigenvalues']:
        raise Unrecognised('pcomp call')
    # results
    um = assigns(fn, 'usemask')
    if sorted(ast.unparse(x.value) for x in um) != ['outmask', 'outmask.sum(0)']:
        raise Unrecognised('usemask')
    out.append(defn('g_pca_usemask_axis', [], 'nat', '0%nat'))
    if sorted(ast.unparse(x.value) for x in assigns(fn, "fluxdict['flux']")) != ["newflux.astype('f')", "pres[:, 0:nreturn].transpose().astype('f')"]:
        raise Unrecognised('returned flux')
    if ast.unparse(the_assign(fn, "fluxdict['eigenval']").value) != 'eigenval[0:nreturn]' or \
            ast.unparse(the_assign(fn, "fluxdict['acoeff']").value) != 'acoeff' or \
            ast.unparse(the_assign(fn, "fluxdict['usemask']").value) != 'usemask' or \
            ast.unparse(the_assign(fn, "fluxdict['outmask']").value) != 'outmask':
        raise Unrecognised('returned dictionary')


HEADER = '''(* GENERATED by translate/c15.py from pydl/pydlutils/math.py, pydl/pcomp.py and pydl/pydlspec2d/spec1d.py -- do not edit *)
From Coq Require Import QArith Qminmax ZArith Bool List.
Import ListNotations.
Open Scope Q_scope.

Definition gQlt_bool (a b : Q) : bool := negb (Qle_bool b a).
(* v broadcast over a matrix: ScaleRows = entry [i, k] uses v[i] ; ScaleCols = entry [i, k] uses v[k] *)
Inductive scale_axis := ScaleRows | ScaleCols.
Inductive sort_order := Descending | Ascending.
(* the updates inside HMF.iterate's loop *)
Inductive hstep := SAstep | SGstep | SReorder | SAstepNN | SGstepNN | SNormalise.
'''


def generate(repo):
    info = {'recognised': True, 'detail': []}
    out = [HEADER]
    try:
        out.append('(* ---- computechi2 (pydl/pydlutils/math.py) *)')
        chi2_part(ast.parse(open(os.path.join(repo, 'pydl/pydlutils/math.py')).read()), out)
        out.append('(* ---- pcomp (pydl/pcomp.py) *)')
        pcomp_part(ast.parse(open(os.path.join(repo, 'pydl/pcomp.py')).read()), out)
        out.append('(* ---- HMF (pydl/pydlspec2d/spec1d.py) *)')
        spec1d = ast.parse(open(os.path.join(repo, 'pydl/pydlspec2d/spec1d.py')).read())
        hmf_part(spec1d, out)
        out.append('(* ---- HMF.__init__ / iterate / solve: seed handling, defaults, loop structure, normalisation *)')
        iterate_part(spec1d, out)
        out.append('(* ---- pca_solve (pydl/pydlspec2d/spec1d.py): decision logic and elementwise formulas *)')
        pca_part(spec1d, out)
        out.append('Definition chi2_recognised : bool := true.')
    except (Unrecognised, SyntaxError, OSError, AttributeError, StopIteration, IndexError) as e:
        info['recognised'] = False
        info['detail'].append('%s: %s' % (type(e).__name__, e))
        return None, info
    return '\n'.join(out) + '\n', info


if __name__ == '__main__':
    import sys
    text, info = generate(sys.argv[1] if len(sys.argv) > 1 else '/repo')
    print(info)
    print(text)
