(* C12 -- Mangle window functions decide point membership exactly as the caps define.
   Executable definitions only (no proofs).

   Caps are (x : Q^3, cm : Q), points are Q^3: the harness passes the exact rational value of every
   double the implementation holds, so the dot product here is the exact one.

   M (algorithmic mirror of pydl/pydlutils/mangle.py and photoop/window.py):
       is_cap_used, in_polygon (loop over range(usencaps)), in_window (vectorised first-match loop),
       set_use_caps (OR loop + duplicate-removal double loop with `use_caps -= 1 << j`),
       balkans_slice (ICAP/NCAPS slicing of the cap table, use_caps = 2^NCAPS - 1).
   S (specification, independent of M):
       spec_in_polygon (every used cap among the first n contains the point),
       first_match / spec_window, spec_set_use_caps (bitwise description, greedy `kept`),
       spec_balkans.
   in_cap is the algebraic test the property states; C12/Arccos.v ties it to the code's
   arccos(1-|cm|) - arccos(x.p) >= 0. *)
From Coq Require Import ZArith QArith Qabs List Bool.
Import ListNotations.
Open Scope Z_scope.

(* ------------------------------------------------------------------ caps and points *)

Definition vec := (Q * Q * Q)%type.

Definition dot (a b : vec) : Q :=
  let '(a0, a1, a2) := a in let '(b0, b1, b2) := b in (a0 * b0 + a1 * b1 + a2 * b2)%Q.

Record cap := mkcap { cx : vec; ccm : Q }.

(* literals used by the generated case files: the double m * 2^-e, and a vector of three of them *)
Definition qd (m e : Z) : Q := Qmake m (Z.to_pos (2 ^ e)).
Definition v3 (m0 e0 m1 e1 m2 e2 : Z) : vec := (qd m0 e0, qd m1 e1, qd m2 e2).

Definition Qlt_bool (a b : Q) : bool := negb (Qle_bool b a).

(* is_in_cap: cap_distance(x, cm, p) >= 0.
   cm >= 0 : arccos(1-cm) - arccos(d) >= 0   <->  1 - d <= cm
   cm <  0 : -(arccos(1+cm) - arccos(d)) >= 0 <-> 1 - d >= -cm     (boundary counted inside: code's convention) *)
Definition in_cap (c : cap) (p : vec) : bool :=
  let omd := (1 - dot (cx c) p)%Q in
  if Qlt_bool (ccm c) 0 then Qle_bool (- ccm c) omd else Qle_bool omd (ccm c).

(* the strict complement of the cap (x, |cm|), as the property words it for cm < 0 *)
Definition in_cap_strict (c : cap) (p : vec) : bool :=
  let omd := (1 - dot (cx c) p)%Q in
  if Qlt_bool (ccm c) 0 then negb (Qle_bool omd (- ccm c)) else Qle_bool omd (ccm c).

Definition on_boundary (c : cap) (p : vec) : bool :=
  Qeq_bool (1 - dot (cx c) p)%Q (Qabs (ccm c)).

(* ------------------------------------------------------------------ polygons *)

(* pn = the polygon's NCAPS/ncaps field; pcaps may be longer (FITS rows are padded to the table's
   maximum cap count) *)
Record polygon := mkpoly { pn : nat; puse : Z; pcaps : list cap }.

(* is_cap_used(use_caps, i) = (use_caps & 1 << i) != 0 *)
Definition is_cap_used (use : Z) (i : nat) : bool :=
  negb (Z.land use (Z.shiftl 1 (Z.of_nat i)) =? 0).

(* usencaps = p['ncaps']; if ncaps > 0: usencaps = min(ncaps, p['ncaps']) *)
Definition usencaps (P : polygon) (ncaps : Z) : nat :=
  if 0 <? ncaps then Z.to_nat (Z.min ncaps (Z.of_nat (pn P))) else pn P.

(* M: for icap in range(usencaps): if is_cap_used(use_caps, icap): in_polygon &= is_in_cap(x[icap], cm[icap], p)
   (a cap index beyond the stored arrays is an IndexError in Python: modelled as `false`) *)
Definition in_polygon (P : polygon) (ncaps : Z) (p : vec) : bool :=
  fold_left (fun acc i =>
               if is_cap_used (puse P) i
               then match nth_error (pcaps P) i with Some c => acc && in_cap c p | None => false end
               else acc)
            (seq 0 (usencaps P ncaps)) true.

(* S: every cap among the first n whose use-mask bit is set contains the point *)
Fixpoint all_used_from (i : nat) (use : Z) (cs : list cap) (p : vec) : bool :=
  match cs with
  | [] => true
  | c :: cs' => (if Z.testbit use (Z.of_nat i) then in_cap c p else true) && all_used_from (S i) use cs' p
  end.

Definition spec_in_polygon (P : polygon) (ncaps : Z) (p : vec) : bool :=
  all_used_from 0 (puse P) (firstn (usencaps P ncaps) (pcaps P)) p.

(* ------------------------------------------------------------------ window lookup *)

(* M: in_polygon = -1 for all points; for curr_polygon = 0, 1, ...: the points still at -1 that lie in
   polygons[curr_polygon] get curr_polygon.  Result (in_polygon >= 0, in_polygon). *)
Definition window_step (ncaps : Z) (pts : list vec) (st : list Z * Z) (P : polygon) : list Z * Z :=
  let '(assigned, k) := st in
  (map (fun ap : Z * vec => let '(a, p) := ap in
                            if a =? -1 then (if in_polygon P ncaps p then k else -1) else a)
       (combine assigned pts), k + 1).

Definition in_window_idx (Ps : list polygon) (ncaps : Z) (pts : list vec) : list Z :=
  fst (fold_left (window_step ncaps pts) Ps (map (fun _ => -1) pts, 0)).

Definition in_window (Ps : list polygon) (ncaps : Z) (pts : list vec) : list (bool * Z) :=
  map (fun a => (0 <=? a, a)) (in_window_idx Ps ncaps pts).

(* S: index of the first polygon in list order containing the point *)
Fixpoint first_match_from (k : nat) (Ps : list polygon) (ncaps : Z) (p : vec) : option nat :=
  match Ps with
  | [] => None
  | P :: Ps' => if spec_in_polygon P ncaps p then Some k else first_match_from (S k) Ps' ncaps p
  end.

Definition first_match := first_match_from 0.

Definition spec_window (Ps : list polygon) (ncaps : Z) (pts : list vec) : list (bool * Z) :=
  map (fun p => match first_match Ps ncaps p with
                | Some k => (true, Z.of_nat k)
                | None => (false, -1)
                end) pts.

(* ------------------------------------------------------------------ set_use_caps *)

Record suc_opts := mkopts { o_add : bool; o_tol : Q; o_allow_doubles : bool; o_allow_neg_doubles : bool }.

Definition default_opts : suc_opts := mkopts false (1 # 10000000000) false false.

Definition dist2 (a b : vec) : Q :=
  let '(a0, a1, a2) := a in let '(b0, b1, b2) := b in
  ((a0 - b0) * (a0 - b0) + (a1 - b1) * (a1 - b1) + (a2 - b2) * (a2 - b2))%Q.

(* two caps count as doubles: same centre within tol and (same cm within tol, or -- unless
   allow_neg_doubles -- cm of opposite sign and equal size within tol) *)
Definition same_cap (tol : Q) (allow_neg : bool) (a b : cap) : bool :=
  Qlt_bool (dist2 (cx a) (cx b)) (tol * tol)%Q
  && (Qlt_bool (Qabs (ccm a - ccm b)) tol
      || (Qlt_bool (Qabs (ccm a + ccm b)) tol && negb allow_neg)).

Definition dup_at (tol : Q) (allow_neg : bool) (caps : list cap) (i j : nat) : bool :=
  match nth_error caps i, nth_error caps j with
  | Some a, Some b => same_cap tol allow_neg a b
  | _, _ => false
  end.

(* for i in index_list: use_caps |= 1 << i *)
Definition set_bits (u : Z) (idx : list Z) : Z :=
  fold_left (fun u i => Z.lor u (Z.shiftl 1 i)) idx u.

(* for j in range(i+1, ncaps): if is_cap_used(use_caps, j): if doubles(i, j): use_caps -= 1 << j *)
Definition dedup_inner (dup : nat -> nat -> bool) (n i : nat) (u : Z) : Z :=
  fold_left (fun u j => if is_cap_used u j then (if dup i j then u - Z.shiftl 1 (Z.of_nat j) else u) else u)
            (seq (S i) (n - S i)) u.

(* for i in range(ncaps): if is_cap_used(use_caps, i): <inner loop> *)
Definition dedup (dup : nat -> nat -> bool) (n : nat) (u : Z) : Z :=
  fold_left (fun u i => if is_cap_used u i then dedup_inner dup n i u else u) (seq 0 n) u.

Definition set_use_caps (P : polygon) (idx : list Z) (o : suc_opts) : Z :=
  let u0 := if o_add o then puse P else 0 in
  let u1 := set_bits u0 idx in
  if o_allow_doubles o then u1
  else dedup (dup_at (o_tol o) (o_allow_neg_doubles o) (pcaps P)) (pn P) u1.

(* the same double loop with "clear bit j" instead of the subtraction (to state: it never borrows) *)
Definition dedup_inner_clear (dup : nat -> nat -> bool) (n i : nat) (u : Z) : Z :=
  fold_left (fun u j => if Z.testbit u (Z.of_nat j) && dup i j then Z.clearbit u (Z.of_nat j) else u)
            (seq (S i) (n - S i)) u.

Definition dedup_clear (dup : nat -> nat -> bool) (n : nat) (u : Z) : Z :=
  fold_left (fun u i => if Z.testbit u (Z.of_nat i) then dedup_inner_clear dup n i u else u) (seq 0 n) u.

(* S: which bits the result must have.
   sel b  : bit b is selected (already set with add=True, or b occurs in the index list);
   kept j : j is selected and no kept i < j is a double of j (caps are visited in index order and a
            removed cap no longer removes others) *)
Fixpoint keptf (dup : nat -> nat -> bool) (sel : nat -> bool) (fuel j : nat) : bool :=
  match fuel with
  | O => false
  | S f => sel j && forallb (fun i => negb (keptf dup sel f i && dup i j)) (seq 0 j)
  end.

Definition kept (dup : nat -> nat -> bool) (sel : nat -> bool) (j : nat) : bool := keptf dup sel (S j) j.

Definition selected (u0 : Z) (idx : list Z) (b : nat) : bool :=
  Z.testbit u0 (Z.of_nat b) || existsb (fun i => i =? Z.of_nat b) idx.

Definition spec_bit (P : polygon) (idx : list Z) (o : suc_opts) (b : nat) : bool :=
  let sel := selected (if o_add o then puse P else 0) idx in
  if o_allow_doubles o then sel b
  else if (b <? pn P)%nat then kept (dup_at (o_tol o) (o_allow_neg_doubles o) (pcaps P)) sel b
       else sel b.

(* certified checker: r is the number whose bits below `width` are spec_bit and which has no others *)
Definition spec_set_use_caps_ok (P : polygon) (idx : list Z) (o : suc_opts) (width : nat) (r : Z) : bool :=
  (0 <=? r) && (r <? 2 ^ Z.of_nat width)
  && forallb (fun b => Bool.eqb (Z.testbit r (Z.of_nat b)) (spec_bit P idx o b)) (seq 0 width).

(* ------------------------------------------------------------------ window_read(balkans=True) *)

Definition slice {A : Type} (lo n : nat) (l : list A) : list A := firstn n (skipn lo l).

(* blist rows are (ICAP, NCAPS); XCAPS/CMCAPS[0:NCAPS] = bcaps[ICAP:ICAP+NCAPS]; USE_CAPS = (1 << NCAPS) - 1 *)
Definition balkans_slice (bcaps : list cap) (blist : list (nat * nat)) : list polygon :=
  map (fun r : nat * nat => let '(icap, n) := r in
                            mkpoly n (Z.shiftl 1 (Z.of_nat n) - 1) (slice icap n bcaps)) blist.

(* ------------------------------------------------------------------ correspondence cases *)

Definition eqb_listb (a b : list bool) : bool :=
  Nat.eqb (length a) (length b) && forallb (fun p : bool * bool => Bool.eqb (fst p) (snd p)) (combine a b).

Definition eqb_listZ (a b : list Z) : bool :=
  Nat.eqb (length a) (length b) && forallb (fun p : Z * Z => fst p =? snd p) (combine a b).

Definition eqb_vec (a b : vec) : bool :=
  let '(a0, a1, a2) := a in let '(b0, b1, b2) := b in Qeq_bool a0 b0 && Qeq_bool a1 b1 && Qeq_bool a2 b2.

Definition eqb_cap (a b : cap) : bool := eqb_vec (cx a) (cx b) && Qeq_bool (ccm a) (ccm b).

Fixpoint eqb_caps (a b : list cap) : bool :=
  match a, b with
  | [], [] => true
  | x :: a', y :: b' => eqb_cap x y && eqb_caps a' b'
  | _, _ => false
  end.

(* two polygons agree on what is_in_polygon can see: NCAPS, USE_CAPS and the first NCAPS caps *)
Definition eqb_poly (a b : polygon) : bool :=
  Nat.eqb (pn a) (pn b) && (puse a =? puse b)
  && eqb_caps (firstn (pn a) (pcaps a)) (firstn (pn b) (pcaps b)).

Fixpoint eqb_polys (a b : list polygon) : bool :=
  match a, b with
  | [], [] => true
  | x :: a', y :: b' => eqb_poly x y && eqb_polys a' b'
  | _, _ => false
  end.

(* index (from 1) of the first position where two lists differ; 0 = equal *)
Fixpoint first_diff {A : Type} (eqb : A -> A -> bool) (k : Z) (a b : list A) : Z :=
  match a, b with
  | [], [] => 0
  | x :: a', y :: b' => if eqb x y then first_diff eqb (k + 1) a' b' else k
  | _, _ => k
  end.

Inductive case :=
  (* is_in_cap(x, cm, points): one cap, several points *)
| CCap (c : cap) (pts : list vec) (expect : list bool)
  (* is_in_polygon(P, points, ncaps): one expected answer list per storage route *)
| CPoly (P : polygon) (ncaps : Z) (pts : list vec) (expects : list (list bool))
  (* is_in_window(polygons, points, ncaps)[1]: one expected index list per storage route *)
| CWindow (Ps : list polygon) (ncaps : Z) (pts : list vec) (expects : list (list Z))
  (* set_use_caps(P, index_list, add, tol, allow_doubles, allow_neg_doubles); width bounds the bits *)
| CSetUse (P : polygon) (idx : list Z) (o : suc_opts) (width : nat) (expect : option Z)
  (* window_read(balkans=True): the polygons found in r['balkans'] *)
| CBalkans (bcaps : list cap) (blist : list (nat * nat)) (expect : list polygon).

(* specification for the balkans: polygon k holds caps ICAP_k .. ICAP_k+NCAPS_k-1 in order and uses all *)
Definition spec_balkans_ok (bcaps : list cap) (blist : list (nat * nat)) (got : list polygon) : bool :=
  Nat.eqb (length blist) (length got)
  && forallb (fun rg : (nat * nat) * polygon =>
                let '((icap, n), g) := rg in
                Nat.eqb (pn g) n
                && forallb (fun i => Bool.eqb (Z.testbit (puse g) (Z.of_nat i)) (i <? n)%nat) (seq 0 32)
                && forallb (fun i => match nth_error (pcaps g) i, nth_error bcaps (icap + i) with
                                     | Some a, Some b => eqb_cap a b
                                     | _, _ => false
                                     end) (seq 0 n))
             (combine blist got).

(* verdict: v mod 4: bit 1 (+1) = M differs from the implementation, bit 2 (+2) = the implementation's
   answer contradicts S;  v / 4 = 1-based position of the first answer contradicting S (else of the first
   differing from M), 0 when all agree.  For CPoly and CWindow positions count through the routes:
   position = route * (npoints + 1) + point + 1. *)
Definition verdict (m_bad s_bad : bool) (pos_m pos_s : Z) : Z :=
  (if m_bad then 1 else 0) + (if s_bad then 2 else 0) + 4 * (if s_bad then pos_s else if m_bad then pos_m else 0).

Definition diff_lists {A : Type} (eqb : A -> A -> bool) (model spec expect : list A) : Z :=
  let pm := first_diff eqb 1 model expect in
  let ps := first_diff eqb 1 spec expect in
  verdict (negb (pm =? 0)) (negb (ps =? 0)) pm ps.

Fixpoint diff_routes {A : Type} (eqb : A -> A -> bool) (stride : Z) (base : Z) (model spec : list A)
         (expects : list (list A)) : Z * Z :=
  match expects with
  | [] => (0, 0)
  | e :: es =>
      let pm := first_diff eqb 1 model e in
      let ps := first_diff eqb 1 spec e in
      let '(rm, rs) := diff_routes eqb stride (base + stride) model spec es in
      ((if pm =? 0 then rm else base + pm), (if ps =? 0 then rs else base + ps))
  end.

Definition run_case (c : case) : Z :=
  match c with
  | CCap c pts expect =>
      let m := map (in_cap c) pts in
      diff_lists Bool.eqb m m expect
  | CPoly P ncaps pts expects =>
      let m := map (in_polygon P ncaps) pts in
      let s := map (spec_in_polygon P ncaps) pts in
      let '(pm, ps) := diff_routes Bool.eqb (Z.of_nat (length pts) + 1) 0 m s expects in
      verdict (negb (pm =? 0)) (negb (ps =? 0)) pm ps
  | CWindow Ps ncaps pts expects =>
      let m := in_window_idx Ps ncaps pts in
      let s := map snd (spec_window Ps ncaps pts) in
      let '(pm, ps) := diff_routes Z.eqb (Z.of_nat (length pts) + 1) 0 m s expects in
      verdict (negb (pm =? 0)) (negb (ps =? 0)) pm ps
  | CSetUse P idx o width expect =>
      match expect with
      | Some r =>
          verdict (negb (set_use_caps P idx o =? r)) (negb (spec_set_use_caps_ok P idx o width r)) 1 1
      | None => 3 + 4   (* the call raised: the model never does, and the property demands an answer *)
      end
  | CBalkans bcaps blist expect =>
      verdict (negb (eqb_polys (balkans_slice bcaps blist) expect)) (negb (spec_balkans_ok bcaps blist expect)) 1 1
  end.

Definition run_cases (cs : list case) : list Z := map run_case cs.
