(* C13 -- Trace sets: bases are the textbook polynomials and fit/evaluate are consistent.
   Property theorems only; each is closed by `exact` and followed by Print Assumptions.
   Model: C13/Model.v (M = transliteration of trace.py / goddard/math.py over Q; S = closed forms + checkers).
   The expressions g_... (recurrences, xnorm arithmetic, jump arguments, default grid, func_fit's tests, masks and
   weightings) are GENERATED from /repo on every run (Generated/Trace.v): the theorems about func_fit, basis, xnorm,
   ts_fit, ts_xy are statements about what the source says now. *)
From Coq Require Import Reals QArith Qreals Qround ZArith List Bool.
Import ListNotations.
From PV Require Import Lib.WLS C13.LinAlg Generated.Trace C13.Model C13.Proofs.
Open Scope Q_scope.

(* ---------------------------------------------------------------- bases *)
(* the Chebyshev recurrence (fchebyshev, fchebyshev_split) IS the textbook definition T_n(cos th) = cos(n th) *)
Theorem C13_chebyshev_is_cos : forall n q th, Q2R q = cos th -> Q2R (chebyshev_rec n q) = cos (INR n * th).
Proof. exact chebyshev_is_cos. Qed.
Print Assumptions C13_chebyshev_is_cos.

(* the textbook definition verbatim, every order, every abscissa of [-1, 1]: T_n(x) = cos(n arccos x); hence |T_n| <= 1 *)
Theorem C13_chebyshev_is_cos_acos : forall n q, -1 <= q -> q <= 1 ->
  Q2R (chebyshev_rec n q) = cos (INR n * acos (Q2R q)).
Proof. exact chebyshev_is_cos_acos. Qed.
Print Assumptions C13_chebyshev_is_cos_acos.
Theorem C13_chebyshev_bounded : forall n q, -1 <= q -> q <= 1 -> (-1 <= Q2R (chebyshev_rec n q) <= 1)%R.
Proof. exact chebyshev_bounded. Qed.
Print Assumptions C13_chebyshev_bounded.

Theorem C13_chebyshev_at_one : forall n, chebyshev_rec n 1 == 1.
Proof. exact chebyshev_at_one. Qed.
Print Assumptions C13_chebyshev_at_one.
Theorem C13_chebyshev_parity : forall n x, chebyshev_rec n (- x) == psign n * chebyshev_rec n x.
Proof. exact chebyshev_parity. Qed.
Print Assumptions C13_chebyshev_parity.

(* ... and equals the closed-form coefficient table for every order the property quantifies over (all x) *)
Theorem C13_chebyshev_closed_form : forall n x, (n <= 12)%nat -> chebyshev_rec n x == chebyshev_explicit n x.
Proof. exact chebyshev_closed_form. Qed.
Print Assumptions C13_chebyshev_closed_form.

(* Bonnet's recurrence, value at 1, parity: the defining properties of the Legendre polynomials *)
Theorem C13_legendre_bonnet : forall n x,
  Qn (n + 2) * legendre_rec (S (S n)) x == Qn (2 * n + 3) * x * legendre_rec (S n) x - Qn (n + 1) * legendre_rec n x.
Proof. exact legendre_bonnet. Qed.
Print Assumptions C13_legendre_bonnet.

Theorem C13_legendre_at_one : forall n, legendre_rec n 1 == 1.
Proof. exact legendre_at_one. Qed.
Print Assumptions C13_legendre_at_one.

Theorem C13_legendre_parity : forall n x, legendre_rec n (- x) == psign n * legendre_rec n x.
Proof. exact legendre_parity. Qed.
Print Assumptions C13_legendre_parity.

(* every order: the textbook definition BY RECURSION (Bonnet, P_0 = 1, P_1 = x ; T_{n+2} = 2x T_{n+1} - T_n, T_0 = 1,
   T_1 = x : Abramowitz-Stegun 8.5.3 / 22.7.4) has exactly one solution, the model's sequence; and P_n, T_n are
   polynomials with n+1 coefficients *)
Theorem C13_legendre_characterised : forall P : nat -> Q -> Q,
  (forall x, P 0%nat x == 1) -> (forall x, P 1%nat x == x) ->
  (forall n x, Qn (n + 2) * P (S (S n)) x == Qn (2 * n + 3) * x * P (S n) x - Qn (n + 1) * P n x) ->
  forall n x, P n x == legendre_rec n x.
Proof. exact legendre_characterised. Qed.
Print Assumptions C13_legendre_characterised.
Theorem C13_chebyshev_characterised : forall T : nat -> Q -> Q,
  (forall x, T 0%nat x == 1) -> (forall x, T 1%nat x == x) ->
  (forall n x, T (S (S n)) x == 2 * x * T (S n) x - T n x) ->
  forall n x, T n x == chebyshev_rec n x.
Proof. exact chebyshev_characterised. Qed.
Print Assumptions C13_chebyshev_characterised.
Theorem C13_legendre_is_polynomial : forall n, exists p, length p = S n /\ forall x, legendre_rec n x == peval p x.
Proof. exact legendre_is_polynomial. Qed.
Print Assumptions C13_legendre_is_polynomial.
Theorem C13_chebyshev_is_polynomial : forall n, exists p, length p = S n /\ forall x, chebyshev_rec n x == peval p x.
Proof. exact chebyshev_is_polynomial. Qed.
Print Assumptions C13_chebyshev_is_polynomial.

(* P_n(x) = 2^-n sum_k (-1)^k C(n,k) C(2n-2k,n) x^(n-2k) as a polynomial identity, n <= 12 *)
Theorem C13_legendre_closed_form : forall n x, (n <= 12)%nat -> legendre_rec n x == legendre_explicit n x.
Proof. exact legendre_closed_form. Qed.
Print Assumptions C13_legendre_closed_form.

Theorem C13_monomial_is_pow : forall n x, monomial n x == x ^ Z.of_nat n.
Proof. exact monomial_is_pow. Qed.
Print Assumptions C13_monomial_is_pow.

(* fchebyshev_split: row 0 is the step (x >= 0), row k+1 is T_k *)
Theorem C13_chebyshev_split_step : forall x, chebyshev_split 0 x = step01 x.
Proof. exact chebyshev_split_0. Qed.
Print Assumptions C13_chebyshev_split_step.
Theorem C13_chebyshev_split_shifted : forall n x, chebyshev_split (S n) x == chebyshev_rec n x.
Proof. exact chebyshev_split_S. Qed.
Print Assumptions C13_chebyshev_split_shifted.

(* flegendre / fchebyshev as the source writes them (ones, row 1 = x, np.polyval of the scipy family named in the
   source at the degree expression of the source) are the Legendre / Chebyshev polynomials *)
Theorem C13_flegendre_is_legendre : forall k x, flegendre_row k x == legendre_rec k x.
Proof. exact flegendre_row_is_legendre. Qed.
Print Assumptions C13_flegendre_is_legendre.
Theorem C13_fchebyshev_is_chebyshev : forall k x, fchebyshev_row k x == chebyshev_rec k x.
Proof. exact fchebyshev_row_is_chebyshev. Qed.
Print Assumptions C13_fchebyshev_is_chebyshev.

(* the order guards of the source (`if m < K: raise ValueError`) are the documented minimum orders, and a call that
   passes the guard returns one row per order 0..m-1 and one column per abscissa *)
Theorem C13_basis_call_guard : forall f m xs,
  basis_call f m xs = if Nat.ltb m (min_order_spec f) then None
                      else Some (map (fun k => map (basis f k) xs) (seq 0 m)).
Proof. exact basis_call_spec. Qed.
Print Assumptions C13_basis_call_guard.
(* the name tables of the source: func_fit's function_map resolves every name to the function of that name;
   TraceSet._func_map does the same but has no chebyshev_split entry *)
Theorem C13_function_map_is_name : forall f, fit_func f = f.
Proof. exact fit_func_is_name. Qed.
Print Assumptions C13_function_map_is_name.
Theorem C13_xy_func_map_is_name : forall f, xy_func f = match f with ChebSplit => None | _ => Some f end.
Proof. exact xy_func_is_name. Qed.
Print Assumptions C13_xy_func_map_is_name.

(* the algorithmic model's bases equal the specification's closed forms (what the checkers use), all x, order <= 12 *)
Theorem C13_basis_is_spec : forall f k x, (k <= 12)%nat -> basis f k x == basis_spec f k x.
Proof. exact basis_is_spec. Qed.
Print Assumptions C13_basis_is_spec.

(* ---------------------------------------------------------------- least squares *)
(* the checked solver only answers with a solution of the system *)
Theorem C13_solve_checked_sound : forall A b x, solve_checked A b = Some x -> veq (mat_vec A x) b /\ length x = length A.
Proof. exact solve_checked_sound. Qed.
Print Assumptions C13_solve_checked_sound.

(* COMPLETENESS of the elimination: on a square system whose matrix has a trivial kernel the Gauss-Jordan code never
   fails and the re-multiplication check accepts -- solve_checked answers, and its answer is the unique solution *)
Theorem C13_solve_checked_complete : forall A b,
  rows_len (length A) A -> length b = length A -> nonsingular A -> exists x, solve_checked A b = Some x.
Proof. exact solve_checked_complete. Qed.
Print Assumptions C13_solve_checked_complete.
Theorem C13_solve_checked_unique : forall A b x y,
  nonsingular A -> solve_checked A b = Some x -> length y = length A -> veq (mat_vec A y) b -> veq y x.
Proof. exact solve_checked_unique. Qed.
Print Assumptions C13_solve_checked_unique.
(* the weighted normal equations: full column rank on the points of positive weight => the solver answers with the
   global minimiser (no longer conditional on the checker having accepted) *)
Theorem C13_wls_solve_total : forall m D, wf m D -> full_rank m D ->
  exists x, wls_solve m D = Some x /\ length x = m /\ forall z, length z = m -> chi2 D x <= chi2 D z.
Proof. exact wls_solve_total. Qed.
Print Assumptions C13_wls_solve_total.

(* normal equations through the checked solver give the global minimum of the weighted chi-square *)
Theorem C13_wls_solve_optimal : forall m D x, wf m D -> wls_solve m D = Some x ->
  length x = m /\ forall z, length z = m -> chi2 D x <= chi2 D z.
Proof. exact wls_solve_optimal. Qed.
Print Assumptions C13_wls_solve_optimal.

(* the checker clause used on the implementation's output (fit_ok, and chi2_ok / astep_ok / gstep_ok / pca_ok of C15):
   a vector it accepts with tolerance 0 solves the normal equations and is the global minimiser; with the run-time
   tolerance it is that statement up to 1e-9 relative on each normal equation *)
Theorem C13_grad_small_exact_optimal : forall m D sol, wf m D -> grad_small 0 m D sol = true ->
  length sol = m /\ (forall d, gdot D sol d == 0) /\ forall z, length z = m -> chi2 D sol <= chi2 D z.
Proof. exact grad_small_exact_optimal. Qed.
Print Assumptions C13_grad_small_exact_optimal.

(* func_fit assembled from the expressions of the source (good-point test, ncfit, branch constants, inputans*(1-ia),
   ysub, free/fixed masks, extra2 and beta weightings, inputfunc scaling) is the reference form: a dropped weight, a
   lost (1 - ia), swapped masks ... change Generated/Trace.v and this proof stops checking *)
Theorem C13_func_fit_generated_is_reference : forall f x y w ncoeff ia ans ifunc,
  func_fit f x y w ncoeff ia ans ifunc = func_fit_ref f x y w ncoeff ia ans ifunc.
Proof. exact func_fit_eq_ref. Qed.
Print Assumptions C13_func_fit_generated_is_reference.
Theorem C13_generated_masks_complementary : forall b, g_fixed b = negb (g_nonfix b).
Proof. exact g_masks_complementary. Qed.
Print Assumptions C13_generated_masks_complementary.
(* the nparams = 1 shortcut of the source is the same normal equation *)
Theorem C13_single_parameter_formula : forall ysub w f, g_beta1 ysub w f == g_beta_w ysub w * f.
Proof. exact g_single_parameter. Qed.
Print Assumptions C13_single_parameter_formula.

(* func_fit (>= 2 good points, weights >= 0): the free coefficients minimise the weighted chi-square of
   (data - fixed part) over all vectors; res = scatter(free solution, inputans) padded with zeros; yfit = basis . res *)
Theorem C13_func_fit_optimal : forall f x y w ncoeff ia ans ifunc res yfit,
  func_fit f x y w ncoeff ia ans ifunc = Some (res, yfit) -> (2 <= ngood_of y w)%nat ->
  (ncoeff <= length ia)%nat -> Forall (fun v => 0 <= v) w ->
  let ncfit := Nat.min (ngood_of y w) ncoeff in
  let rows := scale_rows ifunc (map (basis_row f ncfit) x) in
  let iaf := firstn ncfit ia in
  let D := free_problem rows w y iaf (fixed_part ans ia) in
  exists sol, res = scatter 0 iaf sol ans ++ zeros (ncoeff - ncfit) /\
              yfit = map (fun r => dot r (scatter 0 iaf sol ans)) rows /\
              length sol = count_true iaf /\
              forall z, length z = count_true iaf -> chi2 D sol <= chi2 D z.
Proof. exact gen_func_fit_optimal. Qed.
Print Assumptions C13_func_fit_optimal.

(* UNCONDITIONAL form: on every well-posed problem (>= 2 good points, weights >= 0, no shape error, full column rank of
   the free basis columns on the good points) func_fit answers, and the answer is the weighted least-squares solution *)
Theorem C13_func_fit_total_optimal : forall f x y w ncoeff ia ans ifunc,
  (2 <= ngood_of y w)%nat -> (ncoeff <= length ia)%nat -> Forall (fun v => 0 <= v) w ->
  let ncfit := Nat.min (ngood_of y w) ncoeff in
  let rows := scale_rows ifunc (map (basis_row f ncfit) x) in
  let iaf := firstn ncfit ia in
  let D := free_problem rows w y iaf (fixed_part ans ia) in
  (forallb (@Datatypes.id bool) iaf = true \/ (length ans = ncoeff /\ ncfit = ncoeff)) ->
  full_rank (count_true iaf) D ->
  exists res yfit sol, func_fit f x y w ncoeff ia ans ifunc = Some (res, yfit) /\
    res = scatter 0 iaf sol ans ++ zeros (ncoeff - ncfit) /\
    yfit = map (fun r => dot r (scatter 0 iaf sol ans)) rows /\
    length sol = count_true iaf /\
    forall z, length z = count_true iaf -> chi2 D sol <= chi2 D z.
Proof. exact func_fit_total_optimal. Qed.
Print Assumptions C13_func_fit_total_optimal.

(* the same in terms of the full coefficient vector: among ALL coefficient vectors carrying the prescribed values at
   the fixed positions, the returned one minimises the weighted chi-square of the data *)
Theorem C13_func_fit_optimal_full : forall f x y w ncoeff ia ans ifunc res yfit,
  func_fit f x y w ncoeff ia ans ifunc = Some (res, yfit) -> (2 <= ngood_of y w)%nat ->
  (ncoeff <= length ia)%nat -> Forall (fun v => 0 <= v) w ->
  let ncfit := Nat.min (ngood_of y w) ncoeff in
  let rows := scale_rows ifunc (map (basis_row f ncfit) x) in
  let iaf := firstn ncfit ia in
  let D := combine (combine rows w) y in
  exists resf, res = resf ++ zeros (ncoeff - ncfit) /\ length resf = ncfit /\ fixed_agree iaf resf ans /\
    yfit = map (fun r => dot r resf) rows /\
    forall c, length c = ncfit -> fixed_agree iaf c ans -> chi2 D resf <= chi2 D c.
Proof. exact gen_func_fit_optimal_full. Qed.
Print Assumptions C13_func_fit_optimal_full.

(* coefficients declared fixed (ia_j = False) keep their prescribed values *)
Theorem C13_func_fit_fixed_kept : forall f x y w ncoeff ia ans ifunc res yfit j v,
  func_fit f x y w ncoeff ia ans ifunc = Some (res, yfit) -> (2 <= ngood_of y w)%nat ->
  (j < Nat.min (ngood_of y w) ncoeff)%nat ->
  nth_error ia j = Some false -> nth_error ans j = Some v ->
  nth_error res j = Some v.
Proof. exact gen_func_fit_fixed_kept. Qed.
Print Assumptions C13_func_fit_fixed_kept.

(* zero-weight points have no influence: changing y where w == 0 changes nothing in the answer *)
Theorem C13_func_fit_zero_weight_indep : forall f x y w ncoeff ia ans ifunc res yfit y',
  agree3 w y y' -> (2 <= ngood_of y w)%nat ->
  func_fit f x y w ncoeff ia ans ifunc = Some (res, yfit) ->
  func_fit f x y' w ncoeff ia ans ifunc = Some (res, yfit).
Proof. exact gen_func_fit_zero_weight_indep. Qed.
Print Assumptions C13_func_fit_zero_weight_indep.

(* data that are an exact combination c of the basis: chi2 = 0, every good point reproduced, and c itself is
   returned when the basis has full column rank on the good points *)
Theorem C13_func_fit_exact_recovery : forall f x y w ncoeff ia ans ifunc res yfit c,
  func_fit f x y w ncoeff ia ans ifunc = Some (res, yfit) -> (2 <= ngood_of y w)%nat ->
  (ncoeff <= length ia)%nat -> Forall (fun v => 0 <= v) w ->
  let ncfit := Nat.min (ngood_of y w) ncoeff in
  let rows := scale_rows ifunc (map (basis_row f ncfit) x) in
  let iaf := firstn ncfit ia in
  let D := free_problem rows w y iaf (fixed_part ans ia) in
  length c = count_true iaf ->
  Forall (fun o => resid c o == 0) D ->
  exists sol, res = scatter 0 iaf sol ans ++ zeros (ncoeff - ncfit) /\
              chi2 D sol == 0 /\
              Forall (fun o => 0 < snd (fst o) -> resid sol o == 0) D /\
              ((forall z, length z = count_true iaf ->
                  Forall (fun o => 0 < snd (fst o) -> dot (fst (fst o)) z == 0) D -> forall r, dot r z == 0)
               -> veq sol c).
Proof. exact gen_func_fit_exact_recovery. Qed.
Print Assumptions C13_func_fit_exact_recovery.

(* ---------------------------------------------------------------- trace sets *)
(* xnorm / nx assembled from the source's expressions are the reference forms the checkers use; __init__ and xy hand
   the same jump to xnorm *)
Theorem C13_xnorm_is_spec : forall xmin xmax j x, xnorm xmin xmax j x = xnorm_spec xmin xmax j x.
Proof. exact xnorm_is_spec. Qed.
Print Assumptions C13_xnorm_is_spec.
Theorem C13_nx_is_spec : forall t, ts_nx t = ts_nx_spec t.
Proof. exact ts_nx_is_spec. Qed.
Print Assumptions C13_nx_is_spec.
Theorem C13_jump_args_consistent : forall j, xy_jump j false = fit_jump j.
Proof. exact jump_args_consistent. Qed.
Print Assumptions C13_jump_args_consistent.

(* xy (fit xpos ypos) xpos = (xpos, yfit) for every trace, whatever the jump parameters *)
Theorem C13_traceset_fit_eval_consistent : forall f ncoeff oxmin oxmax j xpos ypos ivar inmask t yfit,
  ts_fit f ncoeff oxmin oxmax j xpos ypos ivar inmask = Some (t, yfit) ->
  f <> ChebSplit -> (1 <= ncoeff)%nat ->
  length ypos = length xpos -> length ivar = length xpos -> length inmask = length xpos ->
  exists ys, ts_xy t (Some xpos) false = Some (xpos, ys) /\ meq ys yfit.
Proof. exact traceset_fit_eval_consistent. Qed.
Print Assumptions C13_traceset_fit_eval_consistent.

(* TraceSet.__init__ as the source writes it -- keyword defaults, tempivar = invvar*inmask, the rejection loop
   `while (not qdone) and (iIter <= maxiter)` around func_fit and a djs_reject call without criteria (all regenerated /
   verified by the translator) -- IS the reference form: one weighted fit per trace, outmask all True, for every
   maxiter >= 0 ; a negative maxiter never runs the body (the constructor raises) *)
Theorem C13_init_loop_is_single_fit : forall f ncoeff maxiter oxmin oxmax j xpos ypos ivar inmask, (0 <= maxiter)%Z ->
  ts_fit_src (Some f) (Some ncoeff) (Some maxiter) oxmin oxmax j xpos ypos (Some ivar) (Some inmask)
  = match ts_fit f ncoeff oxmin oxmax j xpos ypos ivar inmask with
    | Some (t, yfit) =>
        Some (t, yfit, map (fun q : vec * vec * vec * list bool => repeat true (length (snd (fst (fst q)))))
                           (combine (combine (combine xpos ypos) ivar) inmask))
    | None => None
    end.
Proof. exact ts_fit_src_is_ref. Qed.
Print Assumptions C13_init_loop_is_single_fit.
Theorem C13_init_negative_maxiter_raises : forall fuel fit y tw maxiter mask0, (maxiter < 0)%Z ->
  fit_loop fuel fit y tw maxiter g_iiter0 g_qdone0 mask0 None = None.
Proof. exact fit_loop_negative. Qed.
Print Assumptions C13_init_negative_maxiter_raises.
Theorem C13_init_defaults : forall oxmin oxmax j xpos ypos,
  ts_fit_src None None None oxmin oxmax j xpos ypos None None
  = ts_fit_src (Some Legendre) (Some 3%nat) (Some 10%Z) oxmin oxmax j xpos ypos
               (Some (map (map (fun _ => 1)) xpos)) (Some (map (map (fun _ => true)) xpos)).
Proof. exact ts_fit_src_defaults. Qed.
Print Assumptions C13_init_defaults.
(* fit -> evaluate consistency for the constructor as the source writes it, including the loop and the masks *)
Theorem C13_traceset_src_fit_eval_consistent : forall f ncoeff maxiter oxmin oxmax j xpos ypos ivar inmask t yfit om,
  ts_fit_src (Some f) (Some ncoeff) (Some maxiter) oxmin oxmax j xpos ypos (Some ivar) (Some inmask) = Some (t, yfit, om) ->
  (0 <= maxiter)%Z -> f <> ChebSplit -> (1 <= ncoeff)%nat ->
  length ypos = length xpos -> length ivar = length xpos -> length inmask = length xpos ->
  (exists ys, ts_xy t (Some xpos) false = Some (xpos, ys) /\ meq ys yfit) /\
  Forall (Forall (fun b => b = true)) om.
Proof. exact traceset_src_fit_eval_consistent. Qed.
Print Assumptions C13_traceset_src_fit_eval_consistent.

(* the default grid has one row per trace, floor(xmax-xmin+1) columns, entries xmin, xmin+1, ... *)
Theorem C13_default_grid : forall t ig, xy_supported (ts_func t) = true ->
  exists ys, ts_xy t None ig = Some (default_grid t, ys) /\
    length (default_grid t) = length (ts_coeff t) /\
    forall i row, nth_error (default_grid t) i = Some row ->
      length row = Z.to_nat (Qfloor (ts_xmax t - ts_xmin t + 1)) /\
      forall k v, nth_error row k = Some v -> v = inject_Z (Z.of_nat k) + ts_xmin t.
Proof. exact default_grid_spec. Qed.
Print Assumptions C13_default_grid.

(* the BOSS jump fraction is a fraction *)
Theorem C13_jump_fraction_clamped : forall x lo hi, 0 <= g_jfrac x lo hi <= 1.
Proof. exact jfrac_range. Qed.
Print Assumptions C13_jump_fraction_clamped.

(* ---------------------------------------------------------------- non-vacuity witnesses *)
Example C13_example_fit_fixed :
  func_fit Poly [0; 1; 2; 3] [1; 3; 7; 13] [1; 1; 0; 1] 3 [false; true; true] [1; 0; 0] None
  = Some ([1; 1; 1], [1; 3; 7; 13]).
Proof. vm_compute. reflexivity. Qed.
(* the source-form constructor with defaults (legendre, 3 coefficients, maxiter 10), a masked point and a zero weight *)
Example C13_example_init_src :
  match ts_fit_src None None None None None None [[0; 1; 2; 3; 4]] [[1; 2; 5; 10; 100]]
                   (Some [[1; 1; 1; 1; 0]]) (Some [[true; true; true; true; true]]) with
  | Some (t, yfit, om) => Nat.eqb (ts_ncoeff t) 3 && bmat_eqb om [[true; true; true; true; true]]
                          && meq_bool (mred yfit) [[1; 2; 5; 10; 17]]
  | None => false
  end = true.
Proof. vm_compute. reflexivity. Qed.
(* a concrete problem of full rank (two points of positive weight at distinct abscissae, one zero-weight point) *)
Example C13_example_full_rank : full_rank 2 [([1; 0], 1, 5); ([1; 1], 1, 7); ([1; 2], 0, 9)].
Proof. exact full_rank_example. Qed.
Example C13_example_solve : solve_checked [[2; 1; 0]; [1; 3; 1]; [0; 1; 4]] [3; 5; 5] = Some [1; 1; 1].
Proof. vm_compute. reflexivity. Qed.
(* the characterisation is not vacuous: the closed form of order <= 2 written out satisfies its hypotheses up to there,
   and the model's own sequence satisfies them for every n *)
Example C13_example_characterised : forall n x, legendre_rec n x == legendre_rec n x /\ chebyshev_rec 3 x == 4 * x * x * x - 3 * x.
Proof. intros n x. split; [exact (legendre_characterised legendre_rec (fun _ => Qeq_refl _) (fun _ => Qeq_refl _) legendre_bonnet n x) | exact (chebyshev_3 x)]. Qed.
Example C13_example_guard : basis_call ChebSplit 1 [1 # 2] = None /\ basis_call Poly 2 [1 # 2] = Some [[1]; [1 # 2]].
Proof. split; vm_compute; reflexivity. Qed.
Example C13_example_trace_jump :
  match ts_fit Legendre 2 None None (Some (1, 2, 1 # 2)) [[0; 1; 2; 3]] [[1; 2; 4; 5]] [[1; 1; 1; 1]] [[true; true; true; true]] with
  | Some (t, yfit) => match ts_xy t (Some [[0; 1; 2; 3]]) false with
                      | Some (_, ys) => meq_bool (mred ys) (mred yfit) && negb (meq_bool (mred yfit) [[1; 2; 4; 5]])
                      | None => false end
  | None => false
  end = true.
Proof. vm_compute. reflexivity. Qed.
