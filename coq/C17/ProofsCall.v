(* C17: the whole call djs_maskinterp(yval, mask, xval, axis).  The dispatch table nd_table is GENERATED from the
   source; here: what the boolean check nd_dispatch_check means, and that it holds for sides up to 5. *)
From Coq Require Import ZArith QArith List Bool Lia.
Import ListNotations.
From PV Require Import Generated.MaskInterp C17.Model C17.ProofsLines.

Lemma nat_list_eqb_eq : forall a b : list nat,
  Nat.eqb (length a) (length b) && forallb (fun q => Nat.eqb (fst q) (snd q)) (combine a b) = true -> a = b.
Proof.
  induction a as [|x a IH]; intros [|y b] H; try reflexivity; try discriminate.
  cbn in H. apply andb_true_iff in H. destruct H as [HL H]. apply andb_true_iff in H. destruct H as [Hx H].
  apply Nat.eqb_eq in Hx. cbn in Hx. subst y. f_equal. apply IH. rewrite HL. exact H.
Qed.

Lemma lines_eqb_eq : forall a b, lines_eqb a b = true -> a = b.
Proof.
  unfold lines_eqb. induction a as [|x a IH]; intros [|y b] H; try reflexivity; try discriminate.
  cbn in H. apply andb_true_iff in H. destruct H as [HL H]. apply andb_true_iff in H. destruct H as [Hx H].
  cbn [fst snd] in Hx. f_equal; [apply nat_list_eqb_eq, Hx | apply IH; rewrite HL; exact H].
Qed.

Lemma In_shapes_upto : forall side shape, Forall (fun s => s <= side)%nat shape -> In shape (shapes_upto (length shape) side).
Proof.
  intros side. induction shape as [|s shape IH]; intro F; [left; reflexivity|].
  inversion F as [|? ? Hs Ft]; subst. cbn [length shapes_upto]. apply in_flat_map. exists s. split.
  - apply in_seq. lia.
  - apply in_map. apply IH, Ft.
Qed.

Theorem nd_dispatch_meaning : forall side, nd_dispatch_check side = true ->
  forall (shape : list nat) (hasx : bool) (axis : nat),
  (length shape = 2 \/ length shape = 3)%nat -> Forall (fun s => s <= side)%nat shape -> (axis < length shape)%nat ->
  exists e, nd_find nd_table (length shape) hasx (Z.of_nat axis) = Some e /\ e_passx e = hasx /\
            entry_lines shape e = lines_pydl shape axis.
Proof.
  intros side H shape hasx axis Hn F Ha. unfold nd_dispatch_check in H. rewrite forallb_forall in H.
  assert (Hin : In (length shape) [2; 3]%nat) by (destruct Hn as [-> | ->]; cbn; tauto).
  specialize (H _ Hin). rewrite forallb_forall in H. specialize (H shape (In_shapes_upto side shape F)).
  rewrite forallb_forall in H. assert (Hx : In hasx [false; true]) by (destruct hasx; cbn; tauto).
  specialize (H hasx Hx). rewrite forallb_forall in H. specialize (H axis). 
  assert (Hax : In axis (seq 0 (length shape))) by (apply in_seq; lia). specialize (H Hax).
  unfold nd_dispatch_ok_for in H. destruct (nd_find nd_table (length shape) hasx (Z.of_nat axis)) as [e|]; [|discriminate].
  apply andb_true_iff in H. destruct H as [H1 H2]. exists e. split; [reflexivity|]. split.
  - apply eqb_prop in H1. exact H1.
  - apply lines_eqb_eq, H2.
Qed.

Lemma nd_dispatch_check_5 : nd_dispatch_check 5 = true.
Proof. vm_compute. reflexivity. Qed.

Theorem nd_dispatch_bounded : forall (shape : list nat) (hasx : bool) (axis : nat),
  (length shape = 2 \/ length shape = 3)%nat -> Forall (fun s => s <= 5)%nat shape -> (axis < length shape)%nat ->
  exists e, nd_find nd_table (length shape) hasx (Z.of_nat axis) = Some e /\ e_passx e = hasx /\
            entry_lines shape e = lines_pydl shape axis.
Proof. exact (nd_dispatch_meaning 5 nd_dispatch_check_5). Qed.

(* ---- all shapes: the loops of every leaf enumerate the lines of lines_pydl *)
Lemma flat_map_single : forall {A B} (f : A -> B) l, flat_map (fun x => [f x]) l = map f l.
Proof. induction l as [|a l IH]; [reflexivity|]. cbn. rewrite IH. reflexivity. Qed.

Lemma map_flat_map' : forall {A B C} (g : B -> C) (f : A -> list B) l,
  map g (flat_map f l) = flat_map (fun x => map g (f x)) l.
Proof. induction l as [|a l IH]; [reflexivity|]. cbn. rewrite map_app, IH. reflexivity. Qed.

Lemma flat_map_ext' : forall {A B} (f g : A -> list B) l, (forall x, In x l -> f x = g x) -> flat_map f l = flat_map g l.
Proof.
  induction l as [|a l IH]; intro H; [reflexivity|]. cbn. rewrite (H a (or_introl eq_refl)), IH; [reflexivity|].
  intros x Hx. apply H. right. exact Hx.
Qed.

Lemma seq_shift0 : forall s n, seq s n = map (fun j => s + j)%nat (seq 0 n).
Proof.
  intros s n. revert s. induction n as [|n IH]; intro s; [reflexivity|].
  cbn [seq map]. f_equal; [lia|]. rewrite (IH (S s)), (IH 1%nat), map_map. apply map_ext. intro j. lia.
Qed.

(* a single loop over a*b = two nested loops *)
Lemma seq_prod : forall {B} (F : nat -> B) a b,
  map F (seq 0 (a * b)) = flat_map (fun i => map (fun j => F (i * b + j)%nat) (seq 0 b)) (seq 0 a).
Proof.
  intros B F a b. induction a as [|a IH]; [reflexivity|].
  replace (S a * b)%nat with (a * b + b)%nat by lia.
  rewrite seq_app, map_app, IH. rewrite (seq_S a 0), flat_map_app. cbn [flat_map plus]. rewrite app_nil_r.
  f_equal. rewrite seq_shift0, map_map. reflexivity.
Qed.

Ltac start a := unfold entry_lines, lines_pydl, lines_of, e_pat, e_dims; cbn -[Nat.mul Nat.add seq].

Lemma lines2_ax0 : forall a b hx px,
  entry_lines [a; b] (2%nat, hx, Some 0%Z, [0%nat], [Some 0%nat; None], px) = lines_pydl [a; b] 0.
Proof.
  intros a b hx px. start a. replace (a * 1)%nat with a by lia.
  rewrite map_flat_map'. apply flat_map_ext'. intros i _. cbn -[Nat.mul Nat.add].
  f_equal. apply map_ext. intro k. lia.
Qed.

Lemma lines2_ax1 : forall a b hx px,
  entry_lines [a; b] (2%nat, hx, None, [1%nat], [None; Some 0%nat], px) = lines_pydl [a; b] 1.
Proof.
  intros a b hx px. start a. cbn [seq flat_map]. rewrite app_nil_r. replace (b * 1)%nat with b by lia.
  rewrite flat_map_single, map_map. apply map_ext. intro i. cbn -[Nat.mul Nat.add]. apply map_ext. intro k. lia.
Qed.

Lemma lines3_ax0 : forall a b c hx px,
  entry_lines [a; b; c] (3%nat, hx, Some 0%Z, [0; 1]%nat, [Some 0%nat; Some 1%nat; None], px) = lines_pydl [a; b; c] 0.
Proof.
  intros a b c hx px. start a. cbn [seq map]. rewrite (flat_map_single (fun o => map (fun k => ((o * c + k) * 1 + 0)%nat) (seq 0 c))).
  replace (a * (b * 1))%nat with (a * b)%nat by lia. rewrite seq_prod.
  rewrite map_flat_map'. apply flat_map_ext'. intros i _. rewrite flat_map_single, !map_map.
  apply map_ext. intro j. cbn -[Nat.mul Nat.add]. apply map_ext. intro k. lia.
Qed.

Lemma lines3_ax1 : forall a b c hx px,
  entry_lines [a; b; c] (3%nat, hx, Some 1%Z, [0; 2]%nat, [Some 0%nat; None; Some 1%nat], px) = lines_pydl [a; b; c] 1.
Proof.
  intros a b c hx px. start a. replace (a * 1)%nat with a by lia. replace (c * 1)%nat with c by lia.
  rewrite map_flat_map'. apply flat_map_ext'. intros i _. rewrite flat_map_single, !map_map.
  apply map_ext. intro j. cbn -[Nat.mul Nat.add]. apply map_ext. intro k. lia.
Qed.

Lemma lines3_ax2 : forall a b c hx px,
  entry_lines [a; b; c] (3%nat, hx, None, [1; 2]%nat, [None; Some 0%nat; Some 1%nat], px) = lines_pydl [a; b; c] 2.
Proof.
  intros a b c hx px. start a. cbn [seq flat_map]. rewrite app_nil_r. replace (c * 1)%nat with c by lia.
  rewrite (seq_prod (fun i => map (fun k => ((0 * a + k) * (b * c) + i)%nat) (seq 0 a)) b c).
  rewrite map_flat_map'. apply flat_map_ext'. intros i _. rewrite flat_map_single, !map_map.
  apply map_ext. intro j. cbn -[Nat.mul Nat.add]. apply map_ext. intro k. lia.
Qed.

Theorem nd_dispatch_general : forall (shape : list nat) (hasx : bool) (axis : nat),
  (length shape = 2 \/ length shape = 3)%nat -> (axis < length shape)%nat ->
  exists e, nd_find nd_table (length shape) hasx (Z.of_nat axis) = Some e /\ e_passx e = hasx /\
            entry_lines shape e = lines_pydl shape axis.
Proof.
  intros shape hasx axis Hn Ha.
  destruct shape as [|a [|b [|c [|d r]]]]; cbn [length] in Hn, Ha; try lia.
  - destruct hasx; destruct axis as [|[|axis]]; try lia; eexists; (split; [reflexivity | split; [reflexivity|]]);
      first [apply lines2_ax0 | apply lines2_ax1].
  - destruct hasx; destruct axis as [|[|[|axis]]]; try lia; eexists; (split; [reflexivity | split; [reflexivity|]]);
      first [apply lines3_ax0 | apply lines3_ax1 | apply lines3_ax2].
Qed.

Lemma nd_find_none : forall n hasx a, (4 <= n)%nat -> nd_find nd_table n hasx a = None.
Proof. intros [|[|[|[|n]]]] hasx a H; try lia. reflexivity. Qed.

(* the generated argument checks are the ones S asks for; an axis is refused exactly when it is not one of 0..ndim-1 *)
Theorem nd_checks_generated :
  nd_check_mask_shape = true /\ nd_check_xval_shape = true /\ nd_axis_none_is_error = true /\
  forall axis ndim : Z, nd_axis_invalid axis ndim = negb ((0 <=? axis)%Z && (axis <? ndim)%Z).
Proof.
  repeat split. intros axis ndim. unfold nd_axis_invalid.
  destruct (Z.ltb_spec axis 0), (Z.ltb_spec (ndim - 1) axis), (Z.leb_spec 0 axis), (Z.ltb_spec axis ndim); cbn; try reflexivity; lia.
Qed.

(* the call-level model refuses what S refuses and otherwise runs the 1-D routine on the lines of lines_pydl
   (all shapes: nd_dispatch_general); pointwise M = S then follows from the line theorems *)
Theorem call_model_error_iff_spec : forall ys mask xval shape mshape xshape axis,
  (maskinterp_call_model ys mask xval shape mshape xshape axis = NDErr <->
   maskinterp_call_spec ys mask xval shape mshape xshape axis = NDErr) /\
  maskinterp_call_model ys mask xval shape mshape xshape axis <> NDOther.
Proof.
  intros ys mask xval shape mshape xshape axis.
  destruct nd_checks_generated as (C1 & C2 & C3 & C4).
  unfold maskinterp_call_model, maskinterp_call_spec. rewrite C1, C2, C3. cbn [andb].
  destruct (negb (shape_eqb mshape shape)); cbn [orb]; [split; [tauto | discriminate]|].
  destruct (match xshape with Some xs => negb (shape_eqb xs shape) | None => false end); [split; [tauto | discriminate]|].
  destruct (Nat.eqb (length shape) 1) eqn:E1; [split; [split; discriminate | discriminate]|].
  apply Nat.eqb_neq in E1.
  destruct axis as [a|]; [|destruct ((2 <=? length shape)%nat && (length shape <=? 3)%nat); split; try tauto; discriminate].
  rewrite C4.
  destruct ((0 <=? a)%Z && (a <? Z.of_nat (length shape))%Z) eqn:Ea; cbn [negb].
  - apply andb_true_iff in Ea. destruct Ea as [A1 A2]. apply Z.leb_le in A1. apply Z.ltb_lt in A2.
    destruct (Nat.le_gt_cases 4 (length shape)) as [H4|H3].
    + rewrite nd_find_none by exact H4.
      replace ((2 <=? length shape)%nat && (length shape <=? 3)%nat) with false
        by (symmetry; apply andb_false_iff; right; apply Nat.leb_gt; lia).
      split; [tauto | discriminate].
    + assert (Hn2 : (length shape = 2 \/ length shape = 3)%nat) by lia.
      destruct (nd_dispatch_general shape (match xval with Some _ => true | None => false end) (Z.to_nat a) Hn2 ltac:(lia))
        as (e & He & _ & _).
      rewrite Z2Nat.id in He by lia. rewrite He.
      replace ((2 <=? length shape)%nat && (length shape <=? 3)%nat) with true
        by (symmetry; apply andb_true_iff; split; apply Nat.leb_le; lia).
      split; [split; discriminate | discriminate].
  - destruct ((2 <=? length shape)%nat && (length shape <=? 3)%nat); split; try tauto; discriminate.
Qed.

(* a valid call on a 2-D / 3-D array: the result exists and each of its lines along the axis is the 1-D routine
   applied to that line of the inputs (so every 1-D theorem holds line by line for the CALL, dispatch included) *)
Theorem call_model_lines : forall ys mask xval shape mshape xshape (a : Z) line,
  (length shape = 2 \/ length shape = 3)%nat ->
  shape_eqb mshape shape = true -> match xshape with Some xs => shape_eqb xs shape = true | None => True end ->
  (0 <= a < Z.of_nat (length shape))%Z -> prod shape = length ys -> In line (lines_pydl shape (Z.to_nat a)) ->
  exists m, maskinterp_call_model ys mask xval shape mshape xshape (Some a) = NDOk m /\
            gather 0%Q m line = maskinterp1_model (gather 0%Q ys line) (gather false mask line) (option_map (fun xs => gather 0%Q xs line) xval).
Proof.
  intros ys mask xval shape mshape xshape a line Hn Hm Hx Ha Hp Hl.
  destruct nd_checks_generated as (C1 & C2 & C3 & C4).
  unfold maskinterp_call_model. rewrite C1, C2, Hm. cbn [andb negb].
  replace (match xshape with Some xs => negb (shape_eqb xs shape) | None => false end) with false
    by (destruct xshape as [xs|]; [rewrite Hx|]; reflexivity).
  replace (Nat.eqb (length shape) 1) with false by (symmetry; apply Nat.eqb_neq; lia).
  rewrite C4. replace ((0 <=? a)%Z && (a <? Z.of_nat (length shape))%Z) with true
    by (symmetry; apply andb_true_iff; split; [apply Z.leb_le | apply Z.ltb_lt]; lia). cbn [negb].
  destruct (nd_dispatch_general shape (match xval with Some _ => true | None => false end) (Z.to_nat a) Hn ltac:(lia))
    as (e & He & Hpx & Hlines).
  rewrite Z2Nat.id in He by lia. rewrite He, Hlines. eexists. split; [reflexivity|].
  replace (if e_passx e then xval else None) with xval by (rewrite Hpx; destruct xval; reflexivity).
  apply maskinterp_axis_shape; [lia | exact Hp | exact Hl].
Qed.
