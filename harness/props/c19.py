"""C19 -- Wavelength, photometric-system and band-flux conversions are self-consistent.

  translate : pydl source -> coq/Generated/AstroConsts.v (translate/c19.py): every numeric constant, the guards, the
              iteration count, the sdssflux2ab factor expressions, the filter_thru normalisation
  prove     : coq/C19/Props.v
  correspond: * airtovac / vactoair: exact rationals of inputs and outputs evaluated against the Q model (1e-12 relative) and
                the certified checker S (unchanged below 2000 A, vacuum > air above) -- Model.run_case;
              * sdssflux2ab: Interval enclosures against the documented offsets (C19/Spec.v);
              * filter_thru: the implementation's own weights (recorded through a proxy for `np` inside spec2d) and its
                interpolated flux go to Coq: band sum vs the generated normalisation (M) and the weighted-mean checker (S);
              * direct behavioural checks on the real code: round trips on dense grids (1e-6 A), input kinds and units,
                inputs never modified, linearity / constants / bounds / mask independence of filter_thru.
"""
import math
import os
import time
from concurrent.futures import ThreadPoolExecutor
from fractions import Fraction as F

from harness import common as C
from translate import c19 as T

ID = 'C19'
PROPS_V = 'C19/Props.v'
COQCHK = 'norec'   # closure rests on Reals (and Interval): full coqchk takes tens of minutes
LEVEL = 'proof'
PROVE_TIMEOUT = 900
TRUSTED = [
    'translate/c19.py + translate/c18.py:rexpr: Python ast -> Gallina (Q and R) for the sigma2/fact/update expressions, guards, '
    'iteration count, correction vector, 10**(-c/2.5), 1/factor**2, res/(sumfilt + (sumfilt <= 0)), np.absolute(logdiff), logdiff * response; '
    'the mask tests and early exits of djs_maskinterp1 and the shape of its interpolation statement, the per-row loop of djs_maskinterp, the '
    'djs_maskinterp(flux, mask, axis=0) call; the filter files, band string, columns and np.interp abscissa of filter_thru and the five response '
    'tables read from pydl/pydlutils/data/filters; float literals and table entries read as their decimal text',
    'hand-written glue C19/Model.v (scalar/array/Quantity dispatch collapsed to "convert to Angstrom, apply, convert back"; iteration as '
    'iterQ/iterR; mi_row / good_samples / fill_from as the transliteration of djs_maskinterp1 for xval None, const False; np_interp as the model of '
    'np.interp) -- tied by correspondence (CMask rows, per-pixel response comparison)',
    'Coq Reals axioms (ClassicalDedekindReals.sig_forall_dec, sig_not_dec, functional_extensionality_dep, Classical_Prop.classic) and, '
    'through coq-interval/Bignums in C19_mutual_inverse / C19_roundtrip_all_wavelengths / C19_second_direction_gap, the primitive 63-bit integer '
    'operations with their stdlib axioms (Uint63)',
    'astropy units (Quantity.to, multiplication by a unit), astropy.io.ascii, numpy summation are exercised, not modelled',
    'the wavelengths handed to np.interp, the fitted pixel widths and the interpolated rows of filter_thru are observed by replacing the module-level '
    'names `np`, `traceset2xy`, `djs_maskinterp` of pydl.pydlspec2d.spec2d by recording proxies',
]
ASSUMPTIONS = [
    'wavelengths within 1e-6 relative of the 2000 A threshold are not generated, except exactly 2000.0 in Angstrom (astropy converts 200 nm to 1999.9999999999998 A, as the repository tests note)',
    'float32 wavelength arrays are compared with the float64 result of the same call at 2e-6 relative (not sent to Coq); float32 flux '
    'images of filter_thru are checked at 5e-6 (float64: 1e-9)',
    'filter_thru: a trace without ANY good pixel is excluded from the mask-independence clause (djs_maskinterp1 returns such a row unchanged -- '
    'C19_maskinterp_all_bad_is_input, C19_maskinterp_indep_all_bad_refuted -- so the band is the weighted mean of the masked values); traces with one '
    'good pixel (constant) and two good pixels are included.  Mask values nan / inf get the black-box checks only (no rational for the Coq case)',
    'the d(log lambda) trace-set fit of filter_thru (xy2traceset / traceset2xy, property C13) is outside the model: the fitted widths are recorded '
    'and only checked against the generated wavelength solution at 1e-6; wavelength solutions are monotone in pixel, increasing or decreasing',
    'pixel-order reversal is compared at 1e-7 relative (1e-5 with toair: the fit attributes each difference to its left pixel)',
    'round-trip theorem and checks cover all wavelengths up to 30 um (3e5 A); below 2000 A both functions are the identity',
]

UNIT_K = {'AA': 1, 'nm': 10, 'um': 10000}

HEADER = '''From Coq Require Import ZArith QArith List. Import ListNotations.
From PV Require Import C19.Model. Open Scope Q_scope.'''

ENCL_HEADER = ('From Coq Require Import Reals Lra.\nFrom Interval Require Import Tactic.\n'
               'From PV Require Import C19.Spec.\nOpen Scope R_scope.\n')


def translate(ctx):
    text, info = T.generate(C.REPO)
    path = os.path.join(C.COQ, 'Generated', 'AstroConsts.v')
    if text is not None:
        info['changed'] = C.write_if_changed(path, text)
    else:
        info['note'] = ('source shape not recognised; the committed Generated/AstroConsts.v is restored (else the previous file is kept) '
                        'and the correspondence run alone ties model to code')
        import subprocess
        need = ('maskinterp_good', 'maskinterp_dispatch', 'filter_curves', 'filter_norm', 'airtovac_iterations')
        done = False
        try:
            p = subprocess.run(['git', '-C', C.VERIF, 'show', 'HEAD:coq/Generated/AstroConsts.v'], stdout=subprocess.PIPE,
                               stderr=subprocess.DEVNULL, text=True, timeout=30)
            if p.returncode == 0 and all(n in p.stdout for n in need):
                info['restored_committed'] = C.write_if_changed(path, p.stdout)
                done = True
        except Exception:  # noqa: BLE001
            pass
        if not done and os.path.realpath(C.REPO) != os.path.realpath('/repo'):
            # the committed file predates the current model: regenerate from the reference checkout instead
            ref, rinfo = T.generate('/repo')
            if ref is not None:
                info['restored_from_reference_checkout'] = C.write_if_changed(path, ref)
    return {'AstroConsts': info}


def isnum(x):
    return isinstance(x, (int, float)) and x == x and abs(x) != math.inf


def rlit(x):
    fr = F(x)
    n, d = fr.numerator, fr.denominator
    s = str(n) if n >= 0 else '(-%d)' % (-n)
    return s if d == 1 else '(%s / %d)' % (s, d)


class Viol:
    def __init__(self, ctx):
        self.ctx = ctx
        self.seen = set()

    def __call__(self, sig, why, rep, found=True):
        if sig in self.seen:
            return
        self.seen.add(sig)
        self.ctx.violation(sig, why, rep, found)


# ----------------------------------------------------------------------------
# wavelengths
# ----------------------------------------------------------------------------

def gen_wavelength(rng, unit='AA', lo=100.0, hi=3.0e5):
    """log-uniform short dyadic wavelength (value in `unit`), kept away from the 2000 A threshold unless exact"""
    k = UNIT_K[unit]
    while True:
        t = rng.random()
        if t < 0.08:
            a = 2000.0
        elif t < 0.3:
            a = math.exp(rng.uniform(math.log(1000.0), math.log(4000.0)))
        else:
            a = math.exp(rng.uniform(math.log(lo), math.log(hi)))
        x = a / k
        # short dyadic: keep 20 significant bits
        m, e = math.frexp(x)
        x = math.ldexp(round(m * (1 << 20)), e - 20)
        aa = x * k
        if aa == 2000.0 and unit == 'AA':
            return x
        if abs(aa - 2000.0) > 2000.0 * 1e-6:
            return x


def f32(x):
    """x rounded to the nearest float32 (as a Python float)"""
    import struct
    return struct.unpack('f', struct.pack('f', x))[0]


def check_wave(ctx, viol):
    rng = ctx.rng
    jobs = []
    n = ctx.n(1, 8)
    for fn in ('airtovac', 'vactoair'):
        for _ in range(n):
            jobs.append({'op': 'wave', 'fn': fn, 'kind': 'scalar', 'unit': 'AA', 'values': [gen_wavelength(rng) for _ in range(40)]})
            jobs.append({'op': 'wave', 'fn': fn, 'kind': 'npscalar', 'unit': 'AA', 'values': [gen_wavelength(rng) for _ in range(12)]})
            jobs.append({'op': 'wave', 'fn': fn, 'kind': 'array', 'unit': 'AA', 'values': [gen_wavelength(rng) for _ in range(40)]})
            jobs.append({'op': 'wave', 'fn': fn, 'kind': 'array', 'unit': 'AA', 'values': [gen_wavelength(rng, hi=1990.0) for _ in range(6)]})
            jobs.append({'op': 'wave', 'fn': fn, 'kind': 'array2d', 'unit': 'AA', 'shape': [3, 4], 'values': [gen_wavelength(rng) for _ in range(12)]})
            # integer wavelengths (Python int, numpy int scalars, integer-dtype arrays) and float32 arrays
            ints = [int(round(gen_wavelength(rng))) for _ in range(30)]
            ints = [v for v in ints if v != 2000 or True]
            jobs.append({'op': 'wave', 'fn': fn, 'kind': 'int_scalar', 'unit': 'AA', 'values': ints[:8]})
            jobs.append({'op': 'wave', 'fn': fn, 'kind': rng.choice(['npint32_scalar', 'npint64_scalar']), 'unit': 'AA', 'values': ints[8:14]})
            jobs.append({'op': 'wave', 'fn': fn, 'kind': 'int64_array', 'unit': 'AA', 'values': ints[14:22] + [2000, 1500, 9500]})
            jobs.append({'op': 'wave', 'fn': fn, 'kind': 'int32_array', 'unit': 'AA', 'values': ints[22:] + list(range(1500, 9500, 1000))})
            jobs.append({'op': 'wave', 'fn': fn, 'kind': 'f32_array', 'unit': 'AA', 'values': [f32(gen_wavelength(rng)) for _ in range(16)]})
            for unit in ('AA', 'nm', 'um'):
                jobs.append({'op': 'wave', 'fn': fn, 'kind': 'quantity', 'unit': unit, 'values': [gen_wavelength(rng, unit) for _ in range(16)]})
                jobs.append({'op': 'wave', 'fn': fn, 'kind': 'quantity', 'unit': unit, 'values': [gen_wavelength(rng, unit, hi=1990.0) for _ in range(4)]})
                jobs.append({'op': 'wave', 'fn': fn, 'kind': 'quantity_scalar', 'unit': unit, 'values': [gen_wavelength(rng, unit) for _ in range(6)]})
    # dense round trips (direct behavioural check, 1e-6 A)
    ng = ctx.n(270000, 2000000)      # (more than 2**18 points in one array call)
    jobs.append({'op': 'roundtrip', 'lo': 1900.0, 'hi': 2100.0, 'n': ng // 4, 'log': False})
    jobs.append({'op': 'roundtrip', 'lo': 100.0, 'hi': 3.0e5, 'n': ng, 'log': True})
    jobs.append({'op': 'roundtrip', 'lo': 2000.0, 'hi': 12000.0, 'n': ng // 2, 'log': False})
    # the boundary of the second direction: vactoair(v) >= 2000 A starts at v = 2000.6475 A
    jobs.append({'op': 'roundtrip', 'lo': 2000.0, 'hi': 2001.5, 'n': ng // 4, 'log': False})
    nb = min(C.NPROC, len(jobs))
    outs = C.run_impl_parallel('c19_impl.py', [jobs[k::nb] for k in range(nb)])
    results = [None] * len(jobs)
    for k, o in enumerate(outs):
        for i, r in enumerate(o['results']):
            results[k + i * nb] = r
    ctx.coverage['pydl_file'] = outs[0]['pydl_file']
    # process-global settings (numpy error state and print options, astropy.io.fits.conf, os.environ): snapshot before `import pydl`,
    # after it, and after all the calls of the process
    for o in outs:
        for key, when in (('globals_changed_by_import', 'importing pydl'), ('globals_changed_by_calls', 'calling airtovac / vactoair')):
            for d in o.get(key) or []:
                viol('C19:process-global:%s' % d['what'], '%s changed the process-global %s: %s' % (when, d['what'], d['changed']),
                     {'kind': 'failing-input', 'input': {'when': when, 'what': d['what']}, 'changed': d['changed']}, True)
    terms, meta = [], []
    kinds = {}
    grid = 0
    for job, r in zip(jobs, results):
        if job['op'] == 'roundtrip':
            if 'err' in r:
                viol('C19:roundtrip:impl-error:%s' % r['err'], 'round trip on a grid raised %s: %s' % (r['err'], r.get('msg')),
                     {'kind': 'failing-input', 'input': {k: job[k] for k in ('lo', 'hi', 'n', 'log')}, 'impl_result': r}, True)
                continue
            grid += r['n']
            for key, name in (('av', 'vactoair(airtovac(a))'), ('va', 'airtovac(vactoair(v))'), ('av_scalar', 'vactoair(airtovac(a)) [float]')):
                w = r[key]['worst']
                if not isnum(w) or w > 1e-6:
                    viol('C19:roundtrip:%s' % key, '%s differs from its argument by %r A at %r A' % (name, w, r[key]['at']),
                         {'kind': 'failing-input', 'input': {'wavelength_A': r[key]['at']}, 'direction': key, 'detail': r[key]}, True)
            for key, why in (('vac_gt_air_fail', 'airtovac(a) is not > a'), ('air_lt_vac_fail', 'vactoair(v) is not < v'),
                             ('below_changed', 'a wavelength below 2000 A was changed')):
                if r[key]:
                    viol('C19:grid:%s' % key, '%s at %r A' % (why, r[key][0]),
                         {'kind': 'failing-input', 'input': {'wavelength_A': r[key][0]}, 'which': key}, True)
            continue
        fn, kind, unit = job['fn'], job['kind'], job['unit']
        kk = '%s:%s:%s' % (fn, kind, unit)
        kinds[kk] = kinds.get(kk, 0) + len(job['values'])
        rep0 = {'kind': 'failing-input', 'input': {'fn': fn, 'kind': kind, 'unit': unit, 'values': job['values'][:8]}, 'impl_result': r}
        if 'err' in r:
            zero_dim = kind in ('npscalar', 'quantity_scalar')
            viol('C19:wave:%s:%s' % ('zero-dimensional-input' if zero_dim else fn + ':' + kind, r['err']),
                 '%s raised %s for %s input in %s (%s): %s' % (fn, r['err'], kind, unit, job['values'][:3], r.get('msg')), rep0, True)
            continue
        if not r['input_unchanged']:
            viol('C19:%s:%s:input-modified' % (fn, kind), '%s modified its %s input' % (fn, kind), rep0, True)
        if kind in ('quantity', 'quantity_scalar'):
            want = {'AA': 'Angstrom', 'nm': 'nm', 'um': 'um'}[unit]
            if r['unit'] != [want] or r['type'] != ['Quantity']:
                viol('C19:%s:%s:unit' % (fn, kind), '%s answered in %s (%s) for a Quantity in %s' % (fn, r['unit'], r['type'], want), rep0, True)
        if kind in ('array', 'array2d', 'quantity', 'int32_array', 'int64_array', 'f32_array') and r['shape'] != (job.get('shape') or [len(job['values'])]):
            viol('C19:%s:%s:shape' % (fn, kind), '%s changed the shape: %s' % (fn, r['shape']), rep0, True)
        k = UNIT_K[unit]
        if kind == 'f32_array':
            # float32 data: the same physical result as for the same wavelengths in float64, at float32 accuracy
            for x, y, ref in zip(job['values'], r['values'], r['reference_f64']):
                rep = {'kind': 'failing-input', 'input': {'fn': fn, 'kind': kind, 'unit': unit, 'value': x}, 'output': y, 'float64_result': ref}
                if not isnum(y) or abs(y - ref) > 2e-6 * abs(ref):
                    viol('C19:%s:f32_array:differs-from-float64' % fn, '%s(float32 %r) = %r, float64 input gives %r' % (fn, x, y, ref), rep, True)
                elif x >= 2000.5 and not ((y > x) if fn == 'airtovac' else (y < x)):
                    viol('C19:%s:f32_array:ordering' % fn, '%s(float32 %r) = %r: vacuum is not > air' % (fn, x, y), rep, True)
                elif x < 1999.5 and y != x:
                    viol('C19:%s:f32_array:below-changed' % fn, '%s(float32 %r) = %r below 2000 A' % (fn, x, y), rep, True)
            continue
        for x, y in zip(job['values'], r['values']):
            if not isnum(y):
                viol('C19:%s:%s:nonfinite' % (fn, kind), '%s(%r %s) = %r' % (fn, x, unit, y),
                     {'kind': 'failing-input', 'input': {'fn': fn, 'kind': kind, 'unit': unit, 'value': x}, 'output': y}, True)
                continue
            terms.append('(%s %s %s %s)' % ('CAir' if fn == 'airtovac' else 'CVac', C.qlit(k), C.qlit(x), C.qlit(y)))
            meta.append((fn, kind, unit, x, y))
    cc = C.CoqCases(ctx.work, HEADER, 'run_cases', shard=max(20, len(terms) // C.NPROC + 1))
    verdicts = cc.run(terms, tag='wave') if terms else []
    for (fn, kind, unit, x, y), t, v in zip(meta, terms, verdicts):
        if v == 0:
            continue
        rep = {'input': {'fn': fn, 'kind': kind, 'unit': unit, 'value': x}, 'output': y, 'coq_case': t, 'verdict': v,
               'meaning': 'bit 2: output contradicts "unchanged below 2000 A / vacuum > air above" (certified checker Spec.airtovac_ok); '
                          'bit 1: output differs from the generated Q model by more than 1e-12 relative'}
        if v & 2:
            rep['kind'] = 'failing-input'
            viol('C19:%s:%s:property' % (fn, 'threshold' if x * UNIT_K[unit] == 2000.0 else 'ordering'),
                 '%s(%r %s) = %r violates "unchanged below 2000 A, vacuum > air from 2000 A on"' % (fn, x, unit, y), rep, True)
        else:
            rep['kind'] = 'broken-correspondence'
            rep['item'] = 'C19.Model.run_case (CAir/CVac): generated Q model vs implementation'
            viol('C19:%s:%s:model' % (fn, kind), '%s(%r %s) = %r differs from the Q model by more than 1e-12 relative' % (fn, x, unit, y), rep, False)
    return {'cases': len(terms), 'kinds': kinds, 'grid': grid, 'coq_s': cc.coq_seconds,
            'sample': {'coq_case': terms[0] if terms else None, 'job': {k: (v[:3] if isinstance(v, list) else v) for k, v in jobs[0].items()},
                       'impl': {k: (v[:3] if isinstance(v, list) else v) for k, v in results[0].items()}}}


# ----------------------------------------------------------------------------
# sdssflux2ab
# ----------------------------------------------------------------------------

OFFSETS = [F(-42, 1000), F(36, 1000), F(15, 1000), F(13, 1000), F(-2, 1000)]
# spellings of a boolean keyword -> its truth value ('omit': the keyword is not given; every default is False)
BOOL_TOKENS = {'omit': False, 'False': False, '0': False, 'None': False, 'npFalse': False, 'True': True, '1': True, 'npTrue': True}


def run_lemmas(ctx, lemmas, tag, nshards):
    if not lemmas:
        return [], 0.0
    groups = [list(range(k, len(lemmas), nshards)) for k in range(nshards)]
    groups = [g for g in groups if g]

    def write(name, idxs):
        p = os.path.join(ctx.work, name + '.v')
        with open(p, 'w') as f:
            f.write(ENCL_HEADER + '\n'.join(lemmas[i] for i in idxs) + '\n')
        return p
    t0 = time.time()
    files = [write('%s_%03d' % (tag, k), g) for k, g in enumerate(groups)]
    with ThreadPoolExecutor(max_workers=C.NPROC) as ex:
        outs = list(ex.map(lambda p: C.coqc_file(p, 600), files))
    ok = [True] * len(lemmas)
    retry = []
    for (rc, out), g in zip(outs, groups):
        if rc != 0:
            retry += g
    if retry:
        files = [write('%s_r%04d' % (tag, i), [i]) for i in retry]
        with ThreadPoolExecutor(max_workers=C.NPROC) as ex:
            outs = list(ex.map(lambda p: C.coqc_file(p, 300), files))
        for (rc, out), i in zip(outs, retry):
            if rc != 0:
                ok[i] = False
    return ok, time.time() - t0


def check_flux(ctx, viol):
    rng = ctx.rng
    jobs = []
    for mode in ('flux', 'mag', 'ivar'):
        for _ in range(ctx.n(2, 10)):
            rows = rng.randint(1, 6)
            if mode == 'mag':
                vals = [C.dyadic(rng, 10, 28, 8) for _ in range(rows * 5)]
            elif mode == 'flux':
                vals = [rng.choice([C.dyadic(rng, 0, 4000, 8), C.dyadic(rng, -5, 5, 10), 0.0]) for _ in range(rows * 5)]
            else:
                vals = [rng.choice([C.dyadic(rng, 0.01, 100, 10), C.dyadic(rng, 0.01, 100, 10), C.dyadic(rng, 0.01, 100, 10), 0.0]) for _ in range(rows * 5)]
            jobs.append({'op': 'flux2ab', 'mode': mode, 'flux': vals})
    # every spelling of the two boolean keywords: omitted, False, 0, None, numpy.bool_(False), True, 1, numpy.bool_(True) -- each keyword
    # alone, both together, and positionally.  Documented meaning: a keyword is "set" when it is true; magnitudes take precedence.
    kwjobs = [{'magnitude': 'omit', 'ivar': t} for t in BOOL_TOKENS] + [{'magnitude': t, 'ivar': 'omit'} for t in BOOL_TOKENS if t != 'omit']
    both = [(a_, b_) for a_ in BOOL_TOKENS for b_ in BOOL_TOKENS if a_ != 'omit' and b_ != 'omit']
    kwjobs += [{'magnitude': a_, 'ivar': b_} for a_, b_ in rng.sample(both, ctx.n(8, 49))]
    kwjobs += [{'magnitude': a_, 'ivar': b_, 'positional': True} for a_, b_ in rng.sample(both, ctx.n(3, 12))]
    for kw in kwjobs:
        positional = kw.pop('positional', False)
        mode = 'mag' if BOOL_TOKENS[kw['magnitude']] else 'ivar' if BOOL_TOKENS[kw['ivar']] else 'flux'
        if mode == 'mag':
            vals = [C.dyadic(rng, 10, 28, 8) for _ in range(5)]
        else:
            vals = [C.dyadic(rng, 0.5, 4000, 8) for _ in range(5)]
        jobs.append({'op': 'flux2ab', 'mode': mode, 'flux': vals, 'kw': kw, 'positional': positional})
    rng.shuffle(jobs)
    out = C.run_impl('c19_impl.py', jobs)['results']
    lemmas, meta = [], []
    nvals = 0
    per_band = {}
    for job, r in zip(jobs, out):
        mode = job['mode']
        rep0 = {'kind': 'failing-input', 'input': {'mode': mode, 'flux': job['flux'], 'kw': job.get('kw'), 'positional': job.get('positional')},
                'impl_result': r}
        kwtxt = '' if job.get('kw') is None else ' called with %s%s' % (
            ', '.join('%s=%s' % (k_, v_) for k_, v_ in job['kw'].items() if v_ != 'omit') or 'no keyword', ' (positional)' if job.get('positional') else '')
        if 'err' in r:
            viol('C19:flux2ab:%s:%s' % (mode, r['err']), 'sdssflux2ab (%s)%s raised %s' % (mode, kwtxt, r['err']), rep0, True)
            continue
        if not r['input_unchanged'] or r['same_object']:
            viol('C19:flux2ab:input-modified', 'sdssflux2ab modified (or returned) its input array', rep0, True)
        if r.get('inplace_same') is False:
            viol('C19:flux2ab:stale-after-inplace-change', 'sdssflux2ab called again on the same array after the caller changed it in place (+= 0.5) does not '
                 'return what it returns for a fresh copy of that array', rep0, True)
        rows = len(job['flux']) // 5
        # (keyword-spelling jobs: all five bands get the direct checks, two of them an enclosure lemma)
        lemma_bands = set(range(5)) if job.get('kw') is None else set(rng.sample(range(5), 2))
        if r['shape'] != [rows, 5]:
            viol('C19:flux2ab:shape', 'sdssflux2ab returned shape %s' % r['shape'], rep0, True)
            continue
        for i in range(rows):
            for b in range(5):
                x, y = job['flux'][5 * i + b], r['out'][i][b]
                nvals += 1
                if not isnum(y):
                    viol('C19:flux2ab:nonfinite', 'sdssflux2ab (%s) band %d: %r -> %r' % (mode, b, x, y), rep0, True)
                    continue
                # one offset per band, the same in every row (direct check on the outputs)
                if mode == 'mag':
                    per_band.setdefault((mode, b), []).append(y - x)
                elif x != 0.0:
                    per_band.setdefault((mode, b), []).append(y / x)
                elif y != 0.0:
                    viol('C19:flux2ab:zero', 'sdssflux2ab (%s) maps 0 to %r' % (mode, y), rep0, True)
                off_ = float(OFFSETS[b])
                want_ = {'flux': x * 10 ** (-off_ / 2.5), 'mag': x + off_, 'ivar': x / (10 ** (-off_ / 2.5)) ** 2}[mode]
                if abs(want_ - y) > 1e-9 * max(abs(y), 1e-300):
                    viol('C19:flux2ab:%s:documented-offset' % mode, 'sdssflux2ab (%s form)%s band %d: %r -> %r, the documented AB offset gives %r'
                         % (mode, kwtxt, b, x, y, want_), dict(rep0, band=b, value=x, output=y, expected=want_), True)
                if b not in lemma_bands:
                    continue
                spec = {'flux': 'ab_flux', 'mag': 'ab_mag', 'ivar': 'ab_ivar'}[mode]
                tol = rlit(F(1, 10 ** 12) * abs(F(y)) + F(1, 10 ** 300))
                lemmas.append('Lemma f%d : Rabs (%s %d%%nat %s - %s) <= %s.\nProof. unfold %s, ab_offset, pow10. interval with (i_prec 80). Qed.'
                              % (len(lemmas), spec, b, rlit(x), rlit(y), tol, spec))
                meta.append((mode, b, x, y, kwtxt, job.get('kw'), job.get('positional')))
    # consistency of the three forms, from the observed per-band factors
    fac = {}
    for (mode, b), vals in per_band.items():
        m = sum(vals) / len(vals)
        fac[(mode, b)] = m
        spread = max(abs(v - m) for v in vals)
        if spread > 1e-12 * max(1.0, abs(m)) * (50 if mode == 'mag' else 1):
            viol('C19:flux2ab:%s:not-one-offset' % mode, 'sdssflux2ab (%s) band %d does not apply one offset: %r' % (mode, b, vals[:4]),
                 {'kind': 'failing-input', 'input': {'mode': mode, 'band': b}, 'observed': vals[:6]}, True)
    for b in range(5):
        if all((m, b) in fac for m in ('flux', 'mag', 'ivar')):
            f_, c_, i_ = fac[('flux', b)], fac[('mag', b)], fac[('ivar', b)]
            if abs(i_ * f_ * f_ - 1.0) > 1e-10 or abs(-2.5 * math.log10(f_) - c_) > 1e-10:
                viol('C19:flux2ab:forms-inconsistent',
                     'band %d: flux factor %r, magnitude offset %r, ivar factor %r are not one AB offset (ivar*flux^2 = %r, -2.5 log10 = %r)'
                     % (b, f_, c_, i_, i_ * f_ * f_, -2.5 * math.log10(f_)),
                     {'kind': 'failing-input', 'input': {'band': b}, 'flux_factor': f_, 'mag_offset': c_, 'ivar_factor': i_}, True)
    ok, secs = run_lemmas(ctx, lemmas, 'flux', min(C.NPROC, max(1, len(lemmas) // 6)))
    nfail = 0
    for k, good in enumerate(ok):
        if good:
            continue
        nfail += 1
        mode, b, x, y, kwtxt, kw, positional = meta[k]
        off = float(OFFSETS[b])
        want = {'flux': x * 10 ** (-off / 2.5), 'mag': x + off, 'ivar': x / (10 ** (-off / 2.5)) ** 2}[mode]
        real = abs(want - y) > 1e-9 * max(abs(y), 1e-300)
        viol('C19:flux2ab:%s:%s' % (mode, 'property' if real else 'unproved'),
             'sdssflux2ab (%s form)%s band %d: %r -> %r, documented AB offset gives %r' % (mode, kwtxt, b, x, y, want),
             {'kind': 'failing-input' if real else 'broken-correspondence', 'item': 'enclosure vs Spec.ab_*',
              'input': {'mode': mode, 'band': b, 'value': x, 'kw': kw, 'positional': positional}, 'output': y, 'expected': want,
              'coq_lemma': lemmas[k]}, real)
    return {'values': nvals, 'n_lemmas': len(lemmas), 'failures': nfail, 'coq_s': secs, 'keyword_spelling_jobs': len(kwjobs),
            'sample_lemma': lemmas[0] if lemmas else None, 'factors': {'%s:%d' % k: v for k, v in fac.items()}}


# ----------------------------------------------------------------------------
# filter_thru
# ----------------------------------------------------------------------------

_FILTER_CURVES = {}


def filter_curve(band):
    """(lam, respt) columns of the filter file filter_thru reads for this band"""
    if band not in _FILTER_CURVES:
        lam, resp = [], []
        path = os.path.join(C.REPO, 'pydl/pydlutils/data/filters/sdss_jun2001_%s_atm.dat' % band)
        for line in open(path):
            if line.lstrip().startswith('#') or not line.strip():
                continue
            f = line.split()
            lam.append(float(f[0]))
            resp.append(float(f[1]))
        _FILTER_CURVES[band] = (lam, resp)
    return _FILTER_CURVES[band]


def interp_lin(x, xs, ys):
    if x <= xs[0]:
        return ys[0]
    if x >= xs[-1]:
        return ys[-1]
    for k in range(len(xs) - 1):
        if xs[k] <= x <= xs[k + 1]:
            return ys[k] + (ys[k + 1] - ys[k]) * (x - xs[k]) / (xs[k + 1] - xs[k])


def edge_grid(rng, band, side, nx, dl=1.0e-4):
    """log-wavelength grid (loglam0, dloglam > 0) of an SDSS-like 1e-4 dex sampling that only just reaches into the faint toe
    of `band`: the d(log lambda)-weighted response sums to a few 1e-8 (positive, far below float32 epsilon)."""
    lam, resp = filter_curve(band)
    pos = [k for k, r_ in enumerate(resp) if r_ > 0]
    if side == 'blue':
        la, lb = lam[pos[0] - 1], lam[pos[0]]
    else:
        la, lb = lam[pos[-1] + 1], lam[pos[-1]]
    for f in (0.6, 0.45, 0.3, 0.2, 0.12, 0.08, 0.05, 0.03, 0.02):
        end = la + f * (lb - la)
        if side == 'blue':
            l0 = math.log10(end) - dl * (nx - 1)
        else:
            l0 = math.log10(end)
        tot = sum(dl * interp_lin(10 ** (l0 + dl * k), lam, resp) for k in range(nx))
        if 0 < tot <= 6e-8:
            return l0, dl, tot
    return None


MASK_DTYPES = ['bool', 'i1', 'i2', 'i4', 'i8', 'u1', 'u2', 'u4', 'u8', '>i4', '>i2', '>i8', '>u2', 'f4', 'f8']
ROW_KINDS = ['normal', 'normal', 'normal', 'all-good', 'all-bad', 'single-good', 'two-good']


def mask_bits(dtype):
    d = dtype.lstrip('<>')
    return {'1': 8, '2': 16, '4': 32, '8': 64}[d[1]]


def mask_styles(dtype):
    if dtype == 'bool':
        return ['01']
    d = dtype.lstrip('<>')
    if d[0] == 'i':
        return ['01', 'bits', 'neg1', 'signbit', 'negative', 'mixed']
    if d[0] == 'u':
        return ['01', 'bits', 'topbit', 'allones']
    return ['float', 'float', 'float-special']


def bad_value(rng, dtype, style):
    """one non-zero mask value of the storage type (a Python int, a float, or 'nan')"""
    if dtype == 'bool' or style == '01':
        return 1.0 if 'f' in dtype else 1
    if 'f' in dtype:
        pool = [1.0, -1.0, 0.5, -0.5, 3.0, f32(1.0e-30), -f32(1.0e-30), 1024.0]
        if style == 'float-special':
            pool = pool + ['nan', 'inf', '-inf']
        return rng.choice(pool)
    n = mask_bits(dtype)
    signed = dtype.lstrip('<>')[0] == 'i'
    if style == 'neg1':
        return -1
    if style == 'signbit':
        return -(1 << (n - 1))
    if style == 'negative':
        return rng.choice([-1, -2, -(1 << (n - 1)), -(1 << (n - 1)) + 1, -rng.randint(1, (1 << (n - 1)) - 1)])
    if style == 'topbit':
        return 1 << (n - 1)
    if style == 'allones':
        return (1 << n) - 1
    if style == 'bits':
        v = 1 << rng.randrange(n)
        if rng.random() < 0.3:
            v |= 1 << rng.randrange(n)
        if signed and v >= (1 << (n - 1)):
            v -= 1 << n          # the top bit of a signed type: a negative value
        return v
    # mixed
    return rng.choice([1, -1, 1 << (n - 2), -(1 << (n - 1)), rng.randint(1, (1 << (n - 1)) - 1), -rng.randint(1, (1 << (n - 1)) - 1)])


def gen_mask(rng, nT, nx, dtype, style, ends=False, row_kinds=None):
    """mask values per pixel (row-major).  Zero (and -0.0 in a float mask) marks a good pixel, everything else a bad one."""
    zero = (lambda: rng.choice([0.0, 0.0, -0.0])) if 'f' in dtype else (lambda: 0)
    mask, kinds = [], []
    for t in range(nT):
        kind = (row_kinds[t] if row_kinds else rng.choice(ROW_KINDS))
        if ends:
            kind = 'normal'
        # a row whose flags are ALL negative (signed types) when the style says so; otherwise per-pixel choice
        row_style = style
        row = [bad_value(rng, dtype, row_style) if rng.random() < 0.15 else zero() for _ in range(nx)]
        s0 = rng.randrange(nx - 6)
        for k in range(s0, s0 + rng.randint(1, 5)):
            row[k] = bad_value(rng, dtype, row_style)
        if rng.random() < 0.5:
            row[0] = bad_value(rng, dtype, row_style)
        if rng.random() < 0.5:
            row[nx - 1] = bad_value(rng, dtype, row_style)
        if ends:
            for k in range(rng.randint(1, 3)):
                row[k] = bad_value(rng, dtype, row_style)
            for k in range(rng.randint(1, 3)):
                row[nx - 1 - k] = bad_value(rng, dtype, row_style)
        if kind == 'all-good':
            row = [zero() for _ in range(nx)]
        elif kind == 'all-bad':
            row = [bad_value(rng, dtype, row_style) for _ in range(nx)]
        elif kind in ('single-good', 'two-good'):
            row = [bad_value(rng, dtype, row_style) for _ in range(nx)]
            for k in rng.sample(range(nx), 1 if kind == 'single-good' else 2):
                row[k] = zero()
        elif not any(is_bad(v) for v in row):
            row[nx // 2] = bad_value(rng, dtype, row_style)
        if kind == 'normal' and sum(1 for v in row if not is_bad(v)) < 2:
            row[nx // 3] = zero()
            row[2 * nx // 3] = zero()
        mask += row
        kinds.append(kind)
    return mask, kinds


def is_bad(v):
    return isinstance(v, str) or v != 0


def mask_q(v):
    """exact rational of a mask value, None for nan / inf"""
    if isinstance(v, str):
        return None
    return C.qlit(v)



LAYOUTS = ['F', 'T', 'strided', 'rowstrided', 'rev', 'revrows', 'Frev']


def gen_filter_job(ctx, small, direction=None, wave=None, cover=None, dtype=None, edge=None, ends=False, mask_dtype=None,
                   mask_style=None, row_kinds=None, layout=None, tiny=None):
    rng = ctx.rng
    nT = 3 if ends else (len(row_kinds) if row_kinds else rng.randint(1, 3))
    nx = rng.randint(24, 48) if small else rng.randint(300, 1200)
    if tiny:
        nx = tiny       # 5 pixels: 4 differences for the 4 coefficients of the pixel-width fit (exactly determined)
    kind = cover or rng.choice(['full', 'full', 'blue', 'red', 'outside'])
    lam_lo, lam_hi = {'full': (3000.0, 11000.0), 'blue': (3000.0, 5200.0), 'red': (6500.0, 11500.0), 'outside': (12000.0, 20000.0)}[kind]
    direction = direction or rng.choice(['blue-to-red', 'blue-to-red', 'red-to-blue'])
    loglam0, dloglam = [], []
    for _ in range(nT):
        lo = lam_lo * rng.uniform(1.0, 1.1)
        hi = lam_hi * rng.uniform(0.9, 1.0)
        l0 = round(math.log10(lo) * 4096) / 4096
        dl = round((math.log10(hi) - l0) / (nx - 1) * 2 ** 24) / 2 ** 24
        if direction == 'red-to-blue':
            # wavelength DECREASES with pixel index (spectrum stored red to blue)
            l0, dl = l0 + dl * (nx - 1), -dl
        loglam0.append(l0)
        dloglam.append(dl)
    predicted = None
    if edge is not None:
        # every trace only just touches the toe of one band (float32 epsilon is 1.2e-7: the band still overlaps)
        nx = 300
        g = edge_grid(rng, edge[0], edge[1], nx)
        if g is not None:
            l0, dl, predicted = g
            if direction == 'red-to-blue':
                l0, dl = l0 + dl * (nx - 1), -dl
            loglam0, dloglam = [l0] * nT, [dl] * nT
            kind = 'edge-%s-%s' % edge
    flux = [C.dyadic(rng, -2, 30, 6) for _ in range(nT * nx)]
    flux2 = [C.dyadic(rng, -10, 10, 6) for _ in range(nT * nx)]
    job = {'dtype': dtype or ('d' if small else rng.choice(['d', 'd', 'd', 'f4'])), 'predicted_edge_sum': predicted,
           'op': 'filter', 'nT': nT, 'nx': nx, 'flux': flux, 'flux2': flux2, 'loglam0': loglam0, 'dloglam': dloglam,
           'wave': wave or rng.choice(['waveimg', 'waveimg', 'wset']), 'toair': (rng.random() < 0.3) and edge is None, 'direction': direction,
           'a': C.dyadic(rng, -3, 3, 4), 'b': C.dyadic(rng, -3, 3, 4), 'c': C.dyadic(rng, -5, 50, 4) or 7.25,     # (never 0: a zero result of the constant run means "no overlap")
           'mask': None, 'return_weights': small, 'cover': kind,
           'coq_bands': [rng.randrange(5)] if mask_dtype is not None else None if (ctx.thorough or not small) else sorted(rng.sample(range(5), 3)),
           'levels': [C.dyadic(rng, 1, 40, 3) + 3 * t for t in range(nT)]}
    if not tiny and (ends or mask_dtype is not None or rng.random() < 0.6):
        md = mask_dtype or rng.choice(MASK_DTYPES)
        ms = mask_style or rng.choice(mask_styles(md))
        mask, kinds = gen_mask(rng, nT, nx, md, ms, ends, row_kinds)
        job['mask'], job['mask_dtype'], job['mask_style'], job['row_kinds'] = mask, md, ms, kinds
        job['junk'] = [rng.choice([1e6, -1e6, C.dyadic(rng, -1000, 1000, 4)]) for _ in range(sum(1 for m in mask if is_bad(m)))]
    # the spelling of the boolean keyword: omitted / False / 0 / None / numpy.bool_(False) vs True / 1 / numpy.bool_(True)
    job['toair_token'] = rng.choice(['True', '1', 'npTrue'] if job['toair'] else ['omit', 'False', '0', 'None', 'npFalse'])
    # memory layout of the three 2-D arguments, independently: C (default), Fortran order, transposed view of an [npix, ntrace] array,
    # strided columns / rows, negative strides
    if layout is None and rng.random() < 0.3:
        layout = {k: rng.choice(['C'] + LAYOUTS) for k in ('flux', 'wave', 'mask')}
    if layout:
        job['layout'] = {k: v for k, v in layout.items() if v != 'C' and (k != 'mask' or job['mask'] is not None)
                         and (k != 'wave' or job['wave'] == 'waveimg')} or None
    return job


def check_filter(ctx, viol):
    jobs = [gen_filter_job(ctx, True) for _ in range(ctx.n(6, 40))] + [gen_filter_job(ctx, False) for _ in range(ctx.n(6, 60))]
    # both storage orders with both kinds of wavelength solution, every run
    for direction in ('blue-to-red', 'red-to-blue'):
        for wave in ('waveimg', 'wset'):
            jobs.append(gen_filter_job(ctx, True, direction, wave, 'full'))
            jobs.append(gen_filter_job(ctx, False, direction, wave, 'full'))
    # three traces of different levels with masked pixels at the ends, starts and interior of the traces
    for k in range(ctx.n(3, 10)):
        jobs.append(gen_filter_job(ctx, k == 0, ctx.rng.choice(['blue-to-red', 'red-to-blue']), ctx.rng.choice(['waveimg', 'wset']), 'full', ends=True))
    # float32 and float64 flux on grids that only just reach into the toe of a band (the band overlaps: constant -> c)
    for k in range(ctx.n(4, 16)):
        band, side = ctx.rng.choice('ugriz'), ctx.rng.choice(['blue', 'red'])
        jobs.append(gen_filter_job(ctx, False, ctx.rng.choice(['blue-to-red', 'red-to-blue']), ctx.rng.choice(['waveimg', 'wset']),
                                   None, 'f4' if k % 4 != 3 else 'd', (band, side)))
    # masks of every storage type and flag convention (negative flags, sign bits, top bits of unsigned types, float masks),
    # with rows that are all good / all bad / have one or two good pixels: every run
    rk = ctx.rng.choice
    for md in MASK_DTYPES:
        jobs.append(gen_filter_job(ctx, True, None, None, 'full', mask_dtype=md))
    for md, ms, kinds in (('i4', 'neg1', ['normal', 'normal']), ('i4', 'signbit', ['normal', 'all-good', 'normal']),
                          ('i8', 'signbit', ['normal', 'single-good']), ('i2', 'negative', ['normal', 'all-bad', 'two-good']),
                          ('i1', 'negative', ['normal']), ('u8', 'topbit', ['normal', 'normal']), ('f8', 'float-special', ['normal', 'single-good']),
                          ('f4', 'float', ['normal', 'all-bad']), ('>i4', 'neg1', ['normal', 'two-good']), ('i8', 'mixed', ['all-bad', 'normal'])):
        jobs.append(gen_filter_job(ctx, True, rk(['blue-to-red', 'red-to-blue']), rk(['waveimg', 'wset']), 'full',
                                   mask_dtype=md, mask_style=ms, row_kinds=kinds))
    for md, ms in (('i4', 'negative'), ('i8', 'signbit'), ('i2', 'neg1'), ('f8', 'float')) + ((('u4', 'topbit'), ('i4', 'mixed')) if ctx.thorough else ()):
        jobs.append(gen_filter_job(ctx, False, None, None, 'full', mask_dtype=md, mask_style=ms, row_kinds=['normal', 'normal']))
    # degenerate counts: 5, 6 and 7 pixels per trace (the 4-coefficient pixel-width fit is exactly determined at 5)
    for tiny in (5, 6, 7):
        jobs.append(gen_filter_job(ctx, True, None, ctx.rng.choice(['waveimg', 'wset']), ctx.rng.choice(['blue', 'red']), tiny=tiny))
    # every memory layout for each of the three 2-D arguments alone (the other two C-contiguous) and all three together; >= 2 traces whose
    # wavelength ranges differ, so that a response attached to the wrong pixel shows
    for n_, lay in enumerate(LAYOUTS):
        for arg in ('flux', 'wave', 'mask', 'all'):
            if ctx.thorough or arg in ('wave', 'all') or (n_ + len(arg)) % 2 == 0:
                jb = gen_filter_job(ctx, arg == 'wave' and n_ < 3, None, 'waveimg', ctx.rng.choice(['full', 'blue', 'red']),
                                    mask_dtype=ctx.rng.choice(['i4', 'bool', 'u1', 'i8']) if arg in ('mask', 'all') else None,
                                    row_kinds=['normal'] * ctx.rng.randint(2, 3),
                                    layout={k: (lay if arg in (k, 'all') else 'C') for k in ('flux', 'wave', 'mask')})
                jb['coq_bands'] = [ctx.rng.randrange(5)]
                jobs.append(jb)
    nb = min(C.NPROC, len(jobs))
    outs = C.run_impl_parallel('c19_impl.py', [jobs[k::nb] for k in range(nb)])
    results = [None] * len(jobs)
    for k, o in enumerate(outs):
        for i, r in enumerate(o['results']):
            results[k + i * nb] = r
    terms, meta = [], []
    layout_cover = {}
    nband = 0
    cover = {}
    mask_cover = {'dtype': {}, 'style': {}, 'row': {}, 'branch': {}, 'indep_checked_bands': 0, 'all_bad_rows_excluded': 0}
    tie_terms, tie_meta = [], []
    for ji, (job, r) in enumerate(zip(jobs, results)):
        small_in = {k: job[k] for k in ('nT', 'nx', 'loglam0', 'dloglam', 'wave', 'toair', 'a', 'b', 'c', 'cover', 'direction', 'dtype', 'predicted_edge_sum')}
        ej = 1e-9 if job['dtype'] == 'd' else 5e-6      # comparison tolerance: float64 / float32 flux
        small_in['masked'] = job['mask'] is not None
        small_in.update({k: job.get(k) for k in ('mask_dtype', 'mask_style', 'row_kinds', 'layout', 'toair_token')})
        rep0 = {'kind': 'failing-input', 'input': small_in, 'job': job if job['nx'] <= 60 else None, 'seed_note': 'regenerate with the same VERIF_SEED'}
        if 'err' in r:
            viol('C19:filter_thru:%s' % r['err'], 'filter_thru raised %s: %s' % (r['err'], r.get('msg')), rep0, True)
            continue
        nT, nx = job['nT'], job['nx']
        if r['shape'] != [nT, 5]:
            viol('C19:filter_thru:shape', 'filter_thru returned shape %s for %d traces' % (r['shape'], nT), rep0, True)
            continue
        if not r['input_unchanged']:
            viol('C19:filter_thru:input-modified', 'filter_thru modified its flux argument', rep0, True)
        if r.get('inplace_same') is False:
            viol('C19:filter_thru:stale-after-inplace-change', 'filter_thru called again on the same flux array after the caller changed it in place (+= 0.5) returns '
                 '%r, for a fresh copy of that array %r' % tuple(r['inplace_pair']), rep0, True)
        if job['mask'] is not None and r.get('mask_unchanged') is False:
            viol('C19:filter_thru:input-modified', 'filter_thru modified its mask argument (%s)' % job.get('mask_dtype'), rep0, True)
        if job['mask'] is not None:
            mask_cover['dtype'][job['mask_dtype']] = mask_cover['dtype'].get(job['mask_dtype'], 0) + 1
            mask_cover['style'][job['mask_style']] = mask_cover['style'].get(job['mask_style'], 0) + 1
            for kd in job['row_kinds']:
                mask_cover['row'][kd] = mask_cover['row'].get(kd, 0) + 1
        # black-box checks of the mask (no hooks needed): any non-zero mask value marks a bad pixel, and the values stored in bad
        # pixels must not reach the band fluxes -- BIT-IDENTICAL results after overwriting them -- whenever the trace has a good pixel
        if job['mask'] is not None and 'res_junk' in r:
            for t in range(job['nT']):
                row = job['mask'][t * job['nx']:(t + 1) * job['nx']]
                ngood_h = sum(1 for v in row if not is_bad(v))
                if r['good_per_trace'][t] != ngood_h:
                    viol('C19:filter_thru:mask-values', 'harness and numpy disagree on the number of zero mask values (%d vs %d, %s)'
                         % (ngood_h, r['good_per_trace'][t], job['mask_dtype']),
                         {'kind': 'broken-correspondence', 'item': 'mask encoding in the harness', 'input': small_in}, False)
                    continue
                if ngood_h == 0:
                    mask_cover['all_bad_rows_excluded'] += 1
                    continue
                for i in range(5):
                    v1, vj = r['res'][t][i], r['res_junk'][t][i]
                    mask_cover['indep_checked_bands'] += 1
                    if not isnum(vj) or not isnum(v1) or vj != v1:
                        negs = sorted(set(v for v in row if not isinstance(v, str) and v < 0))[:3]
                        viol('C19:filter_thru:mask', 'changing the values of masked pixels changes band %s of trace %d: %r -> %r (mask %s, style %s, '
                             'row %s with %d good pixels%s)' % ('ugriz'[i], t, v1, vj, job['mask_dtype'], job['mask_style'], job['row_kinds'][t], ngood_h,
                                                                 ', negative flags %s' % negs if negs else ''),
                             dict(rep0, trace=t, band='ugriz'[i], values={'f': v1, 'junk in masked pixels': vj}), True)
        # memory layout: the same arrays as C-contiguous copies give the same band values, bit for bit up to summation order
        if job.get('layout') and 'res_contig' in r:
            for k_, v_ in job['layout'].items():
                layout_cover['%s:%s' % (k_, v_)] = layout_cover.get('%s:%s' % (k_, v_), 0) + 1
            for t in range(job['nT']):
                for i in range(5):
                    v1, vc_ = r['res'][t][i], r['res_contig'][t][i]
                    if not isnum(v1) or not isnum(vc_) or abs(v1 - vc_) > 10 * ej * (1 + abs(vc_)):
                        viol('C19:filter_thru:memory-layout', 'band %s of trace %d is %r for the arguments as given (layout %s; C/F-contiguous flags %s) and %r '
                             'for C-contiguous copies of the same arrays' % ('ugriz'[i], t, v1, job['layout'], r.get('flags'), vc_),
                             dict(rep0, trace=t, band='ugriz'[i], values={'as given': v1, 'C-contiguous copies': vc_}), True)
        # the same pixels stored in the opposite order give the same band values (C19_filter_band_reversal)
        if 'res_rev' in r:
            for t in range(job['nT']):
                for i in range(5):
                    v1, vr = r['res'][t][i], r['res_rev'][t][i]
                    # (toair: the pixel widths vary along the trace and the fit attributes each difference to its LEFT pixel, which is the
                    # other neighbour after the reversal: agreement to 1e-5 only)
                    if not isnum(vr) or not isnum(v1) or abs(vr - v1) > (1e-5 if job['toair'] else 100 * ej) * (1 + abs(v1)):
                        viol('C19:filter_thru:pixel-order', 'storing the pixels in the opposite order changes band %s of trace %d: %r -> %r (%s, %s)'
                             % ('ugriz'[i], t, v1, vr, job.get('direction'), job['wave']), dict(rep0, trace=t, band='ugriz'[i], values={'f': v1, 'reversed': vr}), True)
        elif 'res_rev_err' in r:
            viol('C19:filter_thru:pixel-order:%s' % r['res_rev_err'].get('err'), 'filter_thru raised on the reversed pixel order: %s' % r['res_rev_err'], rep0, True)
        # checks that need no recorded weights: a band either does not overlap (constant spectrum -> exactly 0) or returns the
        # constant, lies within the unmasked flux range, is linear and ignores masked values
        for t in range(nT):
            for i in range(5):
                v1, v2, v3, vc = r['res'][t][i], r['res2'][t][i], r['res_lin'][t][i], r['res_const'][t][i]
                rep = dict(rep0, trace=t, band='ugriz'[i], values={'f': v1, 'g': v2, 'a*f+b*g': v3, 'const': vc})
                if not all(isnum(v) for v in (v1, v2, v3, vc)):
                    viol('C19:filter_thru:nonfinite', 'filter_thru returns a non-finite value (trace %d band %s)' % (t, 'ugriz'[i]), rep, True)
                    continue
                c0 = job['c']
                if vc != 0.0 and abs(vc - c0) > ej * max(1.0, abs(c0)):
                    viol('C19:filter_thru:constant', 'constant spectrum %r gives %r in band %s (%s wavelength solution, %s)'
                         % (c0, vc, 'ugriz'[i], job.get('direction'), job['wave']), rep, True)
                if 'res_levels' in r:
                    vl, lev = r['res_levels'][t][i], job['levels'][t]
                    if not isnum(vl) or (vc != 0.0 and abs(vl - lev) > ej * max(1.0, abs(lev))) or (vc == 0.0 and vl != 0.0):
                        viol('C19:filter_thru:per-trace-constant',
                             'traces constant at their own levels %r: band %s of trace %d returns %r, not the level %r of that trace '
                             '(masked: %s, %s wavelength solution, %s)' % (job['levels'], 'ugriz'[i], t, vl, lev, job['mask'] is not None,
                                                                         job.get('direction'), job['wave']),
                             dict(rep, levels=job['levels'], band_value=vl), True)
                lo, hi = r.get('good_min', [None] * nT)[t], r.get('good_max', [None] * nT)[t]
                if vc != 0.0 and lo is not None and (v1 < lo - ej * (1 + abs(lo)) or v1 > hi + ej * (1 + abs(hi))):
                    viol('C19:filter_thru:bounds', 'band %s result %r outside [min, max] = [%r, %r] of the unmasked flux (%s wavelength solution)'
                         % ('ugriz'[i], v1, lo, hi, job.get('direction')), rep, True)
        if not r.get('weights_recorded'):
            viol('C19:filter_thru:weights', 'could not record the weights of filter_thru (np.interp / np.absolute no longer used as expected)',
                 {'kind': 'broken-correspondence', 'item': 'weight recording proxy', 'input': small_in}, False)
            continue
        if isnum(r.get('min_resp')) and r['min_resp'] < 0:
            viol('C19:filter_thru:negative-response', 'a filter response curve interpolates to a negative value (%r)' % r['min_resp'], rep0, True)
        if isnum(r['minw']) and r['minw'] < 0:
            viol('C19:filter_thru:negative-weight', 'filter_thru uses a negative weight (%r)' % r['minw'], rep0, True)
        a, b, c = job['a'], job['b'], job['c']
        for t in range(nT):
            for i in range(5):
                nband += 1
                v1, v2, v3, vc = r['res'][t][i], r['res2'][t][i], r['res_lin'][t][i], r['res_const'][t][i]
                sw = r['sumw'][t][i]
                cover['overlap' if sw > 0 else 'no-overlap'] = cover.get('overlap' if sw > 0 else 'no-overlap', 0) + 1
                rep = dict(rep0, trace=t, band='ugriz'[i], values={'f': v1, 'g': v2, 'a*f+b*g': v3, 'const': vc, 'sum_weights': sw})
                if not all(isnum(v) for v in (v1, v2, v3, vc)):
                    viol('C19:filter_thru:nonfinite', 'filter_thru returns a non-finite value (trace %d band %s)' % (t, 'ugriz'[i]), rep, True)
                    continue
                scale = ej * (abs(a) * 32 + abs(b) * 12 + 1)
                if abs(v3 - (a * v1 + b * v2)) > scale:
                    viol('C19:filter_thru:linearity', 'filter_thru(a f + b g) = %r but a F(f) + b F(g) = %r (trace %d band %s)'
                         % (v3, a * v1 + b * v2, t, 'ugriz'[i]), rep, True)
                if sw > 0:
                    if abs(vc - c) > ej * max(1.0, abs(c)):
                        viol('C19:filter_thru:constant', 'constant spectrum %r gives %r in band %s (sum of weights %r)' % (c, vc, 'ugriz'[i], sw), rep, True)
                    lo, hi = r['fmin'][t], r['fmax'][t]
                    if v1 < lo - ej * (1 + abs(lo)) or v1 > hi + ej * (1 + abs(hi)):
                        viol('C19:filter_thru:bounds', 'band %s result %r outside [min, max] = [%r, %r] of the flux' % ('ugriz'[i], v1, lo, hi), rep, True)
                else:
                    if v1 != 0.0 or vc != 0.0:
                        viol('C19:filter_thru:no-overlap', 'band %s does not overlap the wavelengths but the result is %r (constant: %r)' % ('ugriz'[i], v1, vc), rep, True)
                if 'fitted' in r and 'resp' in r and (job['mask'] is None or r.get('maskinterp_called', True)) \
                        and (job.get('coq_bands') is None or i in job['coq_bands']):
                    # raw ingredients per pixel: fitted d(log lambda) (either sign), interpolated response, (interpolated) flux
                    ft, rs, fi = r['fitted'][t], r['resp'][t][i], r['fi'][t]
                    lam = r['lam'][t] if 'lam' in r else None
                    if all(isnum(x) for x in ft) and all(isnum(x) for x in rs) and all(isnum(x) for x in fi):
                        tol = F(1, 10 ** 9) * max(1, int(max(abs(x) for x in fi)) + 1)
                        if lam is not None and all(isnum(x) for x in lam):
                            # the response is computed by the model (generated curve, np.interp model) from the wavelength
                            quad = C.coq_list(['(%s, %s, %s, %s)' % (C.qlit(a_), C.qlit(l_), C.qlit(b_), C.qlit(c_))
                                               for a_, l_, b_, c_ in zip(ft, lam, rs, fi)])
                            terms.append('(CFilterLam %d%%nat %s %s %s)' % (i, quad, C.qlit(v1), C.qlit(tol)))
                            cover['response-from-model'] = cover.get('response-from-model', 0) + 1
                        else:
                            trip = C.coq_list(['(%s, %s, %s)' % (C.qlit(a_), C.qlit(b_), C.qlit(c_)) for a_, b_, c_ in zip(ft, rs, fi)])
                            terms.append('(CFilter %s %s %s)' % (trip, C.qlit(v1), C.qlit(tol)))
                            cover['response-recorded'] = cover.get('response-recorded', 0) + 1
                        meta.append((ji, t, i, v1, sw))
        # ---- per trace: the interpolated row vs the model of djs_maskinterp1 (M) and the row checker (S); the pixel widths; toair
        if 'fi' in r and job['mask'] is not None and r.get('maskinterp_called', True):
            for which, src, dst in (('flux', None, 'fi'), ('junk', 'junk_flux', 'fi_junk')):
                if dst not in r or (src and src not in r):
                    continue
                for t in range(nT):
                    row = job['mask'][t * nx:(t + 1) * nx]
                    mq = [mask_q(v) for v in row]
                    if any(m is None for m in mq):
                        # nan / inf mask values have no rational: such rows get the black-box checks only
                        cover['mask-row-nonfinite-skipped'] = cover.get('mask-row-nonfinite-skipped', 0) + 1
                        continue
                    vals = (r[src][t] if src else [float(x) for x in job['flux'][t * nx:(t + 1) * nx]])
                    out_row = r[dst][t]
                    if not all(isnum(x) for x in out_row):
                        viol('C19:filter_thru:mask:nonfinite', 'the interpolated flux row has a non-finite value', rep0, True)
                        continue
                    goodv = [abs(v) for v, m in zip(vals, row) if not is_bad(m)]
                    tolm = F(1, 10 ** 11) * max(1, int(max(goodv)) + 1) if goodv else F(0)
                    ng = len(goodv)
                    br = 'all-good' if ng == nx else 'none-good' if ng == 0 else 'one-good' if ng == 1 else 'interpolate'
                    mask_cover['branch'][br] = mask_cover['branch'].get(br, 0) + 1
                    pairs = C.coq_list(['(%s, %s)' % (C.qlit(v), m) for v, m in zip(vals, mq)])
                    tie_terms.append('(CMask %s %s %s)' % (pairs, C.coq_list([C.qlit(x) for x in out_row]), C.qlit(tolm)))
                    tie_meta.append(('mask', ji, t, which, br))
        if 'fitted' in r and not job['toair'] and job.get('predicted_edge_sum') is None:
            for t in range(nT):
                dl = abs(job['dloglam'][t])
                worst = max(abs(abs(x) - dl) for x in r['fitted'][t]) if all(isnum(x) for x in r['fitted'][t]) else math.inf
                if worst > 1e-6 * dl:
                    viol('C19:filter_thru:pixel-width', 'the fitted pixel width differs from |d(log10 lambda)| = %r of the wavelength solution by %r (trace %d, %s)'
                         % (dl, worst, t, job['wave']), {'kind': 'broken-correspondence', 'item': 'd(log lambda) fit (xy2traceset / traceset2xy of diffy)',
                                                        'input': small_in, 'trace': t, 'worst': worst}, False)
        if 'lam' in r and 'waveimg_in' in r:
            # the wavelengths at which the response is taken: the caller's (toair=False) or vactoair of them (toair=True), in Coq
            for t in range(nT):
                for k in range(0, nx, 5):
                    w_in, w_used = r['waveimg_in'][t][k], r['lam'][t][k]
                    if not job['toair']:
                        if w_in != w_used:
                            viol('C19:filter_thru:wavelengths', 'toair=False but the response is taken at %r for the wavelength %r' % (w_used, w_in),
                                 dict(rep0, trace=t, pixel=k), True)
                    elif isnum(w_in) and isnum(w_used):
                        tie_terms.append('(CVac (1 # 1) %s %s)' % (C.qlit(w_in), C.qlit(w_used)))
                        tie_meta.append(('toair', ji, t, k, None))
    cc = C.CoqCases(ctx.work, HEADER, 'run_cases', shard=max(4, len(terms) // C.NPROC + 1))
    verdicts = cc.run(terms, tag='filter') if terms else []
    for (ji, t, i, v1, sw), term, v in zip(meta, terms, verdicts):
        if v == 0:
            continue
        job = jobs[ji]
        rep = {'input': {k: job[k] for k in ('nT', 'nx', 'loglam0', 'dloglam', 'wave', 'toair', 'cover')}, 'job': job, 'trace': t,
               'band': 'ugriz'[i], 'result': v1, 'sum_weights': sw, 'coq_case': term[:3000], 'verdict': v,
               'meaning': 'bit 2: result is not the weighted mean of the (interpolated) flux with weights |fitted d(log lambda)| * response '
                          '(Spec.weight_S; certified checker Spec.wmean_ok, C19_wmean_ok_sound); bit 1: differs from the generated '
                          'pixel-width / weight / normalisation expressions applied to the recorded ingredients'}
        if v & 2:
            rep['kind'] = 'failing-input'
            viol('C19:filter_thru:wmean:property', 'filter_thru band %s = %r is not the response-weighted mean of the flux' % ('ugriz'[i], v1), rep, True)
        else:
            rep['kind'] = 'broken-correspondence'
            rep['item'] = 'C19.Model.run_case (CFilter)'
            viol('C19:filter_thru:wmean:model', 'filter_thru band %s = %r differs from the generated band-sum model' % ('ugriz'[i], v1), rep, False)
    cc2 = C.CoqCases(ctx.work, HEADER, 'run_cases', shard=max(4, len(tie_terms) // C.NPROC + 1))
    verdicts2 = cc2.run(tie_terms, tag='masktie') if tie_terms else []
    for (what, ji, t, a_, b_), term, v in zip(tie_meta, tie_terms, verdicts2):
        if v == 0:
            continue
        job = jobs[ji]
        base = {'input': {k: job.get(k) for k in ('nT', 'nx', 'loglam0', 'dloglam', 'wave', 'toair', 'cover', 'mask_dtype', 'mask_style', 'row_kinds')},
                'job': job, 'trace': t, 'coq_case': term[:3000], 'verdict': v}
        if what == 'mask':
            base['meaning'] = ('bit 2: the row that enters the band sums (%s run) keeps a good pixel changed or holds, at a bad pixel, a value outside the '
                               'range of the good pixels (Spec.fill_ok, C19_fill_ok_sound): bad pixels were not interpolated; bit 1: differs from the '
                               'model of djs_maskinterp1 (generated tests and dispatch, np.interp model)' % a_)
            if v & 2:
                viol('C19:filter_thru:mask:row:property', 'trace %d (%s, mask %s / %s, row %s): bad pixels are not replaced by values interpolated from the good ones'
                     % (t, b_, job.get('mask_dtype'), job.get('mask_style'), job['row_kinds'][t]), dict(base, kind='failing-input'), True)
            else:
                viol('C19:filter_thru:mask:row:model', 'trace %d (%s, mask %s): the interpolated row differs from the djs_maskinterp1 model'
                     % (t, b_, job.get('mask_dtype')), dict(base, kind='broken-correspondence', item='C19.Model.mi_row (CMask)'), False)
        else:
            base['meaning'] = 'toair=True: the wavelength at which the response is taken must be vactoair of the caller\'s wavelength (CVac case)'
            if v & 2:
                viol('C19:filter_thru:toair:property', 'toair=True: pixel %d of trace %d uses a wavelength that is not below the vacuum wavelength' % (a_, t),
                     dict(base, kind='failing-input'), True)
            else:
                viol('C19:filter_thru:toair:model', 'toair=True: pixel %d of trace %d: the wavelength used differs from vactoair_Q of the input' % (a_, t),
                     dict(base, kind='broken-correspondence', item='filter_thru toair route vs vactoair_Q'), False)
    return {'bands': nband, 'coq_cases': len(terms) + len(tie_terms), 'coq_s': cc.coq_seconds + cc2.coq_seconds, 'cover': cover,
            'layout_cover': layout_cover, 'toair_tokens': sorted(set(j['toair_token'] for j in jobs)),
            'mask_cover': mask_cover, 'mask_row_cases': sum(1 for m in tie_meta if m[0] == 'mask'), 'toair_tie_cases': sum(1 for m in tie_meta if m[0] == 'toair'),
            'jobs': len(jobs), 'masked_jobs': sum(1 for j in jobs if j['mask'] is not None),
            'wset_jobs': sum(1 for j in jobs if j['wave'] == 'wset'), 'toair_jobs': sum(1 for j in jobs if j['toair']),
            'red_to_blue_jobs': sum(1 for j in jobs if j.get('direction') == 'red-to-blue'),
            'float32_jobs': sum(1 for j in jobs if j.get('dtype') == 'f4'), 'edge_jobs': sum(1 for j in jobs if str(j.get('cover', '')).startswith('edge')),
            'sample': {'coq_case': (terms[0][:400] + ' ...') if terms else None}}


# ----------------------------------------------------------------------------

# ----------------------------------------------------------------------------
# storage types, caller-owned arrays, multi-call histories
# ----------------------------------------------------------------------------

def check_storage_history(ctx, viol):
    rng = ctx.rng
    jobs = []
    # air <-> vacuum
    for fn in ('airtovac', 'vactoair'):
        for st in ('f4', '>f8', '>f4', 'i4', '>i4', 'i8', 'u2', 'noncontig'):
            if st in ('i4', '>i4', 'i8', 'u2'):
                vals = [rng.randint(100, 60000) for _ in range(10)] + [2000, 1500]
            else:
                vals = [f32(gen_wavelength(rng)) for _ in range(10)] + [1500.0]
            jobs.append({'op': 'storage', 'fn': fn, 'storage': st, 'values': vals})
        jobs.append({'op': 'storage', 'fn': fn, 'storage': '>f8', 'unit': rng.choice(['AA', 'nm', 'um']),
                     'values': [gen_wavelength(rng, 'AA') / 1.0 for _ in range(8)]})
        jobs.append({'op': 'storage', 'fn': fn, 'storage': 'noncontig', 'values': [gen_wavelength(rng, hi=1990.0) for _ in range(5)]})
    # sdssflux2ab
    for mode in ('flux', 'mag', 'ivar'):
        for st in ('f4', '>f8', '>f4', 'noncontig', 'fortran', 'i8', 'i4'):
            rows = rng.randint(1, 4)
            if st in ('i8', 'i4'):
                vals = [rng.randint(1, 30) for _ in range(rows * 5)]
            else:
                vals = [C.dyadic(rng, 1, 30, 6) for _ in range(rows * 5)]
            jobs.append({'op': 'storage', 'fn': 'sdssflux2ab', 'mode': mode, 'storage': st, 'values': vals})
    # filter_thru
    nT, nx = 2, 120
    for st, ws, ms in (('f4', None, None), ('>f4', None, 'i4'), ('>f8', '>f8', 'u1'), ('i4', None, None), ('i8', None, 'bool'),
                       ('>i2', None, None), ('noncontig', 'noncontig', '>i2'), ('fortran', 'fortran', 'i8'), ('d', 'f4', 'bool'),
                       ('d', 'layout:F', None), ('d', 'layout:T', 'i4'), ('layout:T', 'layout:T', 'bool'), ('layout:F', 'd', 'i8'),
                       ('d', 'layout:Frev', None)):
        l0 = round(math.log10(rng.uniform(3000, 3600)) * 4096) / 4096
        dl = round(0.5 / nx * 2 ** 20) / 2 ** 20
        if rng.random() < 0.4:
            l0, dl = l0 + dl * (nx - 1), -dl
        vals = [rng.randint(1, 40) if st in ('i4', 'i8', '>i2') else C.dyadic(rng, 1, 40, 4) for _ in range(nT * nx)]
        # (the two traces cover different wavelength ranges)
        job = {'op': 'storage', 'fn': 'filter_thru', 'storage': st, 'nT': nT, 'nx': nx, 'values': vals, 'loglam0': [l0, l0 + 0.0625][:nT],
               'dloglam': [dl] * nT, 'wave_storage': ws, 'mask': None, 'mask_storage': ms,
               'mask_layout': rng.choice(['F', 'T', 'rev', 'C']) if str(ws).startswith('layout') or str(st).startswith('layout') else None}
        if ms is not None:
            job['mask'] = [1 if rng.random() < 0.12 else 0 for _ in range(nT * nx)]
        jobs.append(job)
    # ---- histories: the same calls in one process, in order, and each alone in a fresh process
    fvals = [C.dyadic(rng, 1, 30, 6) for _ in range(10)]
    fjob = {'op': 'filter', 'nT': 1, 'nx': 60, 'flux': [C.dyadic(rng, 1, 30, 4) for _ in range(60)], 'flux2': [1.0] * 60,
            'loglam0': [3.5], 'dloglam': [0.008], 'wave': 'waveimg', 'toair': False, 'a': 1.0, 'b': 0.5, 'c': 7.0, 'mask': None,
            'return_weights': False}
    fjob_m = dict(fjob, mask=[1 if k % 7 == 3 else 0 for k in range(60)])
    hist = [
        {'op': 'flux2ab', 'mode': 'flux', 'flux': fvals}, {'op': 'flux2ab', 'mode': 'ivar', 'flux': fvals},
        {'op': 'flux2ab', 'mode': 'flux', 'flux': fvals}, {'op': 'flux2ab', 'mode': 'mag', 'flux': fvals},
        {'op': 'flux2ab', 'mode': 'ivar', 'flux': fvals}, {'op': 'flux2ab', 'mode': 'flux', 'flux': fvals},
        fjob_m, fjob, dict(fjob, wave='wset'), fjob_m, dict(fjob, toair=True), fjob,
        {'op': 'wave', 'fn': 'airtovac', 'kind': 'array', 'unit': 'AA', 'values': [1500.0, 2500.0, 6000.0]},
        {'op': 'wave', 'fn': 'airtovac', 'kind': 'quantity', 'unit': 'nm', 'values': [150.0, 250.0, 600.0]},
        {'op': 'wave', 'fn': 'vactoair', 'kind': 'array', 'unit': 'AA', 'values': [1500.0, 2500.0, 6000.0]},
        {'op': 'wave', 'fn': 'airtovac', 'kind': 'array', 'unit': 'AA', 'values': [1500.0, 2500.0, 6000.0]},
        {'op': 'wave', 'fn': 'airtovac', 'kind': 'int64_array', 'unit': 'AA', 'values': [1500, 2500, 6000]},
        {'op': 'wave', 'fn': 'airtovac', 'kind': 'scalar', 'unit': 'AA', 'values': [2500.0]},
    ]
    payloads = [[{'op': 'history', 'calls': hist}]] + [[c] for c in hist] + [jobs[k::4] for k in range(4)]
    outs = C.run_impl_parallel('c19_impl.py', payloads)
    whole = outs[0]['results'][0]
    if 'err' in whole:
        viol('C19:history:impl-error', 'history run raised %s' % whole, {'kind': 'failing-input', 'history': hist}, True)
    else:
        for k, (c, r_hist, o) in enumerate(zip(hist, whole['results'], outs[1:1 + len(hist)])):
            r_alone = o['results'][0]
            if r_hist != r_alone:
                name = c.get('fn') or {'flux2ab': 'sdssflux2ab', 'filter': 'filter_thru'}.get(c['op'], c['op'])
                viol('C19:history:%s' % name, 'call #%d (%s %s) answers differently after %d earlier calls in the same process than alone'
                     % (k, name, c.get('mode') or c.get('kind') or ('mask' if c.get('mask') else 'no mask'), k),
                     {'kind': 'failing-input', 'input': {'history': [dict((kk, vv) for kk, vv in h.items() if kk not in ('flux', 'flux2')) for h in hist[:k]],
                                                         'call': c}, 'in_history': r_hist, 'alone': r_alone}, True)
    results = [None] * len(jobs)
    for k, o in enumerate(outs[1 + len(hist):]):
        for i, r in enumerate(o['results']):
            results[k + i * 4] = r
    nvals = 0
    for job, r in zip(jobs, results):
        fn, st = job['fn'], job['storage']
        small = {k: v for k, v in job.items() if k not in ('values', 'mask')}
        rep0 = {'kind': 'failing-input', 'input': dict(small, values=job['values'][:12]), 'job': job if len(job['values']) <= 300 else None,
                'impl_result': {k: (v[:12] if isinstance(v, list) else v) for k, v in r.items()}}
        if 'err' in r:
            viol('C19:%s:storage-type' % fn, '%s raised %s for %s data: %s' % (fn, r['err'], st, r.get('msg')), rep0, True)
            continue
        if not r['input_unchanged']:
            viol('C19:%s:input-modified' % fn, '%s modified its %s input' % (fn, st), rep0, True)
        if r['aliases_input'] and not r.get('all_below'):
            viol('C19:%s:result-aliases-input' % fn, 'the result of %s shares memory with its %s input' % (fn, st), rep0, True)
        f4 = 'f4' in st or 'f4' in str(job.get('wave_storage'))
        tol = 5e-6 if f4 else 1e-12
        for y, ref in zip(r['out'], r['ref']):
            nvals += 1
            if not isnum(y) or not isnum(ref) or abs(y - ref) > tol * max(abs(ref), 1e-30) + (1e-300 if not f4 else 1e-12):
                viol('C19:%s:storage-type' % fn, '%s on %s data returns %r where the same numbers as float64 give %r (%s)'
                     % (fn, st, y, ref, job.get('mode') or job.get('unit') or ''), rep0, True)
                break
    return {'values': nvals, 'history_calls': len(hist), 'storage_jobs': len(jobs)}


def check_wset_sequence(ctx, viol):
    """Wavelength solutions given as TRACE SETS: several different ones on the same pixel grid (same function, order, xmin, xmax; different
    coefficients and x-jump parameters) are used one after the other in one process, each against the waveimg form of the same solution
    (wavelength image computed by the implementation runner from the coefficients, independently of pydl)."""
    rng = ctx.rng
    jobs = []
    for k in range(ctx.n(4, 20)):
        nT, nx = rng.randint(1, 3), rng.randint(300, 700)
        nc = rng.choice([2, 3, 4])
        sets = []
        jumps = [None]
        for _ in range(2):
            lo = float(rng.randint(int(0.3 * nx), int(0.6 * nx)))
            width = float(rng.randint(4, 30))
            val = C.dyadic(rng, 3, 8, 2) * (-1 if (width > 18 and rng.random() < 0.5) else 1)
            jumps.append([lo, lo + width, val])
        rng.shuffle(jumps)
        for j in jumps + [jumps[0], jumps[1]]:
            coeff = [[3.72 + C.dyadic(rng, -0.02, 0.02, 10), C.dyadic(rng, 0.17, 0.2, 10), C.dyadic(rng, -0.005, 0.005, 12),
                      C.dyadic(rng, -0.002, 0.002, 12)][:nc] for _ in range(nT)]
            sets.append({'coeff': coeff, 'jump': j, 'toair': rng.random() < 0.25})
        flux = [C.dyadic(rng, 1, 30, 4) + 20.0 * (i % nx) / nx for i in range(nT * nx)]
        jobs.append({'op': 'wsetseq', 'nT': nT, 'nx': nx, 'flux': flux, 'sets': sets})
    nb = min(C.NPROC, len(jobs))
    outs = C.run_impl_parallel('c19_impl.py', [jobs[k::nb] for k in range(nb)])
    results = [None] * len(jobs)
    for k, o in enumerate(outs):
        for i, r in enumerate(o['results']):
            results[k + i * nb] = r
    ncmp = 0
    for job, r in zip(jobs, results):
        small = {'nT': job['nT'], 'nx': job['nx'], 'sets': job['sets'], 'note': 'legendre trace sets with xmin = 0, xmax = nx - 1, used in this order in one process'}
        if 'err' in r:
            viol('C19:filter_thru:wset-sequence:%s' % r['err'], 'the sequence of filter_thru(wset=...) calls raised %s: %s' % (r['err'], r.get('msg')),
                 {'kind': 'failing-input', 'input': small, 'job': job}, True)
            continue
        for k, (sset, o) in enumerate(zip(job['sets'], r['results'])):
            if 'err' in o:
                viol('C19:filter_thru:wset:%s' % o['err'], 'filter_thru with trace set #%d of the sequence raised %s: %s' % (k, o['err'], o.get('msg')),
                     {'kind': 'failing-input', 'input': small, 'job': job, 'set_index': k}, True)
                continue
            if not o['monotone']:
                continue
            for t in range(job['nT']):
                for i in range(5):
                    vw, vi = o['wset'][t][i], o['waveimg'][t][i]
                    ncmp += 1
                    if not isnum(vw) or not isnum(vi) or abs(vw - vi) > 1e-8 * (1 + abs(vi)):
                        viol('C19:filter_thru:wset-vs-waveimg',
                             'trace set #%d of %d used in one process (jump %s; the earlier ones on the same grid had jumps %s): band %s of trace %d is %r with '
                             'wset=, %r with the wavelength image of the same solution' % (k, len(job['sets']), sset['jump'], [s_['jump'] for s_ in job['sets'][:k]],
                                                                                          'ugriz'[i], t, vw, vi),
                             {'kind': 'failing-input', 'input': small, 'job': job, 'set_index': k, 'trace': t, 'band': 'ugriz'[i],
                              'values': {'wset': vw, 'waveimg': vi}, 'lam_range': o['lam_range']}, True)
    return {'jobs': len(jobs), 'comparisons': ncmp}


def correspond(ctx, proof_ok=True):
    ok, log = C.coq_make(['C19/Model.vo'])
    if not ok:
        raise RuntimeError('C19/Model.v does not build:\n' + log[-2000:])
    viol = Viol(ctx)
    t0 = time.time()
    w = check_wave(ctx, viol)
    t1 = time.time()
    f = check_flux(ctx, viol)
    t2 = time.time()
    t = check_filter(ctx, viol)
    t3 = time.time()
    sh = check_storage_history(ctx, viol)
    ws = check_wset_sequence(ctx, viol)
    ctx.coverage['wset_sequence'] = ws
    t4 = time.time()
    ctx.coverage['phase_seconds'] = {'wave': round(t1 - t0, 1), 'flux2ab': round(t2 - t1, 1), 'filter_thru': round(t3 - t2, 1),
                                     'filter_thru_coq': round(t['coq_s'], 1), 'storage_history': round(t4 - t3, 1)}
    ctx.coverage.update({
        'storage_type_values': sh['values'], 'storage_type_jobs': sh['storage_jobs'], 'history_calls': sh['history_calls'],
        'evaluations': w['cases'] + 3 * w['grid'] + f['values'] + 4 * t['bands'],
        'distinct_nontrivial': w['cases'] + f['n_lemmas'] + t['coq_cases'],
        'rule': 'one evaluation = one wavelength through airtovac/vactoair (each grid point of the dense round trips counts for the '
                'forward, back and reverse calls), one band value through sdssflux2ab, or one (trace, band) of filter_thru for each of the '
                'four related spectra (f, g, a f + b g, constant); distinct_nontrivial = cases evaluated in Coq: %d wavelength cases '
                '(Q model + checker), %d sdssflux2ab enclosure lemmas, %d filter band sums with recorded weights'
                % (w['cases'], f['n_lemmas'], t['coq_cases']),
        'wave_cases_by_kind': w['kinds'], 'roundtrip_grid_points': w['grid'],
        'flux2ab_values': f['values'], 'flux2ab_enclosure_failures': f['failures'], 'flux2ab_observed_factors': f['factors'],
        'filter_bands': t['bands'], 'filter_cover': t['cover'], 'filter_mask_cover': t['mask_cover'], 'filter_layout_cover': t['layout_cover'],
        'filter_toair_spellings': t['toair_tokens'], 'flux2ab_keyword_spelling_jobs': f['keyword_spelling_jobs'],
        'filter_mask_row_cases': t['mask_row_cases'], 'filter_toair_tie_cases': t['toair_tie_cases'], 'filter_jobs': t['jobs'], 'filter_masked_jobs': t['masked_jobs'],
        'filter_wset_jobs': t['wset_jobs'], 'filter_toair_jobs': t['toair_jobs'], 'filter_red_to_blue_jobs': t['red_to_blue_jobs'], 'filter_float32_jobs': t['float32_jobs'], 'filter_edge_jobs': t['edge_jobs'],
        'coq_eval_s': round(w['coq_s'] + f['coq_s'] + t['coq_s'], 1),
        'samples': [w['sample'], {'flux2ab_lemma': f['sample_lemma']}, t['sample']],
    })


def replay(ctx, rep):
    print('signature:', rep.get('signature'))
    print('summary  :', rep.get('summary'))
    inp = rep.get('input')
    if not isinstance(inp, dict):
        print('no concrete input in this replay (kind=%s, item=%s)' % (rep.get('kind'), rep.get('item')))
        return 2
    if 'fn' in inp:
        vals = inp.get('values') or [inp.get('value')]
        out = C.run_impl('c19_impl.py', [{'op': 'wave', 'fn': inp['fn'], 'kind': inp['kind'], 'unit': inp['unit'], 'values': vals,
                                          'shape': [len(vals)]}])
        print('%s %s %s %r ->' % (inp['fn'], inp['kind'], inp['unit'], vals), out['results'][0])
        return 0
    if 'wavelength_A' in inp:
        a = inp['wavelength_A']
        out = C.run_impl('c19_impl.py', [{'op': 'roundtrip', 'lo': a, 'hi': a, 'n': 1, 'log': False}])
        print('round trip at', a, '->', out['results'][0])
        return 0
    if 'mode' in inp and 'flux' in inp:
        out = C.run_impl('c19_impl.py', [{'op': 'flux2ab', 'mode': inp['mode'], 'flux': inp['flux'], 'kw': inp.get('kw'),
                                          'positional': inp.get('positional')}])
        print('sdssflux2ab', inp['mode'], inp['flux'], '->', out['results'][0])
        return 0
    if rep.get('job') and rep['job'].get('op') == 'wsetseq':
        out = C.run_impl('c19_impl.py', [rep['job']])['results'][0]
        for k, o in enumerate(out.get('results', [out])):
            print('trace set #%d (jump %s):' % (k, rep['job']['sets'][k]['jump']), o)
        return 0
    if rep.get('job'):
        out = C.run_impl('c19_impl.py', [rep['job']])
        r = out['results'][0]
        print('filter_thru job ->', {k: r.get(k) for k in ('res', 'res_const', 'res_lin', 'res_junk', 'sumw', 'err', 'msg')})
        return 0
    print('input:', inp)
    return 0
