(* Bit-field packing over Z: disjoint lor = +, field tables, testbit characterisation. *)
From Coq Require Import ZArith List Bool Lia ZifyBool.
Import ListNotations.
Open Scope Z_scope.

Ltac Zify.zify_post_hook ::= Z.to_euclidean_division_equations.

(* ---------- lor of disjoint parts is addition ---------- *)

Lemma testbit_high_false b k n : 0 <= b < 2 ^ k -> 0 <= k -> k <= n -> Z.testbit b n = false.
Proof.
  intros Hb Hk Hn.
  destruct (Z.eq_dec b 0) as [->|Hnz]; [apply Z.bits_0|].
  apply Z.bits_above_log2; [lia|].
  assert (Z.log2 b < k) by (apply Z.log2_lt_pow2; lia). lia.
Qed.

Lemma land_shifted_low a b k : 0 <= k -> 0 <= b < 2 ^ k -> Z.land (a * 2 ^ k) b = 0.
Proof.
  intros Hk Hb. apply Z.bits_inj'. intros n Hn.
  rewrite Z.land_spec, Z.bits_0.
  destruct (Z_lt_le_dec n k) as [Hlt|Hge].
  - rewrite Z.mul_pow2_bits_low by lia. reflexivity.
  - rewrite (testbit_high_false b k n) by lia. apply andb_false_r.
Qed.

Lemma lor_disjoint a b k : 0 <= k -> 0 <= b < 2 ^ k -> Z.lor (a * 2 ^ k) b = a * 2 ^ k + b.
Proof.
  intros Hk Hb.
  pose proof (land_shifted_low a b k Hk Hb) as H0.
  rewrite (Z.add_nocarry_lxor _ _ H0). symmetry. apply Z.lxor_lor. exact H0.
Qed.

(* multiples of 2^k: the form lia can see *)
Lemma lor_disjoint_mod x b k : 0 <= k -> x mod 2 ^ k = 0 -> 0 <= b < 2 ^ k -> Z.lor x b = x + b.
Proof.
  intros Hk Hx Hb.
  assert (x = (x / 2 ^ k) * 2 ^ k) as E.
  { pose proof (Z.div_mod x (2 ^ k)). assert (2 ^ k <> 0) by lia. specialize (H H0). lia. }
  rewrite E at 1. rewrite lor_disjoint by assumption. lia.
Qed.

Lemma land_ones_mod x k : 0 <= k -> Z.land x (2 ^ k - 1) = x mod 2 ^ k.
Proof.
  intros Hk. replace (2 ^ k - 1) with (Z.ones k) by (rewrite Z.ones_equiv; lia).
  apply Z.land_ones. exact Hk.
Qed.

(* ---------- field tables ---------- *)

(* a field is (low bit, width); a table lists fields from the most significant down *)
Definition field := (Z * Z)%type.

Fixpoint pack (tbl : list field) (vals : list Z) : Z :=
  match tbl, vals with
  | (lo, _) :: tbl', v :: vals' => v * 2 ^ lo + pack tbl' vals'
  | _, _ => 0
  end.

Fixpoint unpack (tbl : list field) (x : Z) : list Z :=
  match tbl with
  | (lo, w) :: tbl' => ((x / 2 ^ lo) mod 2 ^ w) :: unpack tbl' x
  | [] => []
  end.

(* table well-formed below a ceiling: each field lies under `top`, fields descend without overlap *)
Fixpoint wf_tbl (top : Z) (tbl : list field) : Prop :=
  match tbl with
  | (lo, w) :: tbl' => 0 <= lo /\ 0 < w /\ lo + w <= top /\ wf_tbl lo tbl'
  | [] => True
  end.

Fixpoint wf_tblb (top : Z) (tbl : list field) : bool :=
  match tbl with
  | (lo, w) :: tbl' => (0 <=? lo) && (0 <? w) && (lo + w <=? top) && wf_tblb lo tbl'
  | [] => true
  end.

Lemma wf_tblb_ok top tbl : wf_tblb top tbl = true -> wf_tbl top tbl.
Proof.
  revert top; induction tbl as [|[lo w] tbl IH]; intros top H; simpl in *; [exact I|].
  repeat (apply andb_true_iff in H; destruct H as [H ?]).
  repeat split; try lia. apply IH; assumption.
Qed.

Fixpoint in_widths (tbl : list field) (vals : list Z) : Prop :=
  match tbl, vals with
  | (_, w) :: tbl', v :: vals' => 0 <= v < 2 ^ w /\ in_widths tbl' vals'
  | [], [] => True
  | _, _ => False
  end.

Lemma pack_bound top tbl : forall vals, 0 <= top -> wf_tbl top tbl -> in_widths tbl vals -> 0 <= pack tbl vals < 2 ^ top.
Proof.
  revert top; induction tbl as [|[lo w] tbl IH]; intros top vals Htop0 Hwf Hin.
  - assert (0 < 2 ^ top) by (apply Z.pow_pos_nonneg; lia). destruct vals; simpl; lia.
  - destruct vals as [|v vals]; [simpl in Hin; contradiction|].
    simpl in *. destruct Hwf as (Hlo & Hw & Htop & Hwf). destruct Hin as (Hv & Hin).
    specialize (IH lo vals Hlo Hwf Hin).
    assert (H2lo : 0 < 2 ^ lo) by (apply Z.pow_pos_nonneg; lia).
    assert (Hpw : 2 ^ (lo + w) = 2 ^ lo * 2 ^ w) by (rewrite Z.pow_add_r; lia).
    assert (Hle : 2 ^ (lo + w) <= 2 ^ top) by (apply Z.pow_le_mono_r; lia).
    split; [nia|].
    assert (v * 2 ^ lo + pack tbl vals < 2 ^ lo * 2 ^ w) by nia. lia.
Qed.

Lemma wf_tbl_top top tbl : wf_tbl top tbl -> tbl <> [] -> 0 <= top.
Proof. destruct tbl as [|[lo w] tbl]; simpl; [congruence|]. lia. Qed.

Lemma unpack_pack top tbl : forall vals, wf_tbl top tbl -> in_widths tbl vals ->
  unpack tbl (pack tbl vals) = vals.
Proof.
  (* generalised: extra high part does not disturb the lower fields *)
  assert (G : forall tbl top vals hi, wf_tbl top tbl -> in_widths tbl vals ->
                unpack tbl (hi * 2 ^ top + pack tbl vals) = vals).
  { clear. induction tbl as [|[lo w] tbl IH]; intros top vals hi Hwf Hin.
    - destruct vals; simpl in *; [reflexivity|contradiction].
    - destruct vals as [|v vals]; [simpl in Hin; contradiction|].
      simpl in Hwf, Hin. destruct Hwf as (Hlo & Hw & Htop & Hwf). destruct Hin as (Hv & Hin).
      cbn [unpack pack]. f_equal.
      + pose proof (pack_bound lo tbl vals Hlo Hwf Hin) as Hb.
        assert (H2lo : 0 < 2 ^ lo) by (apply Z.pow_pos_nonneg; lia).
        assert (H2w : 0 < 2 ^ w) by (apply Z.pow_pos_nonneg; lia).
        replace top with (lo + w + (top - lo - w)) by lia.
        rewrite !Z.pow_add_r by lia.
        replace (hi * (2 ^ lo * 2 ^ w * 2 ^ (top - lo - w)) + (v * 2 ^ lo + pack tbl vals))
          with ((hi * 2 ^ (top - lo - w) * 2 ^ w + v) * 2 ^ lo + pack tbl vals) by ring.
        rewrite Z.div_add_l by lia. rewrite (Z.div_small (pack tbl vals)) by lia.
        rewrite Z.add_0_r. rewrite Z.add_comm, Z.mod_add by lia. apply Z.mod_small; lia.
      + replace (hi * 2 ^ top + (v * 2 ^ lo + pack tbl vals))
          with ((hi * 2 ^ (top - lo) + v) * 2 ^ lo + pack tbl vals).
        * apply IH; assumption.
        * replace top with (lo + (top - lo)) at 2 by lia. rewrite Z.pow_add_r by lia. ring. }
  intros vals Hwf Hin. specialize (G tbl top vals 0 Hwf Hin). simpl in G. exact G.
Qed.

(* a table is `full` below `top` when consecutive fields are adjacent down to bit 0 *)
Fixpoint full_tbl (top : Z) (tbl : list field) : Prop :=
  match tbl with
  | (lo, w) :: tbl' => 0 <= lo /\ 0 < w /\ lo + w = top /\ full_tbl lo tbl'
  | [] => top = 0
  end.

Lemma full_wf top tbl : full_tbl top tbl -> wf_tbl top tbl.
Proof. revert top; induction tbl as [|[lo w] tbl IH]; simpl; intros top H; [exact I|].
  destruct H as (H1 & H2 & H3 & H4). repeat split; try lia. apply IH; exact H4. Qed.

Lemma pack_unpack top tbl : forall x, full_tbl top tbl -> 0 <= x < 2 ^ top ->
  pack tbl (unpack tbl x) = x.
Proof.
  assert (G : forall tbl top x, full_tbl top tbl -> 0 <= x -> pack tbl (unpack tbl x) = x mod 2 ^ top).
  { clear. induction tbl as [|[lo w] tbl IH]; intros top x Hf Hx.
    - simpl in *. subst. simpl. rewrite Z.mod_1_r. reflexivity.
    - simpl in Hf. destruct Hf as (Hlo & Hw & Htop & Hf). cbn [unpack pack].
      rewrite (IH lo x Hf Hx). subst top.
      assert (H2lo : 0 < 2 ^ lo) by (apply Z.pow_pos_nonneg; lia).
      assert (H2w : 0 < 2 ^ w) by (apply Z.pow_pos_nonneg; lia).
      rewrite Z.pow_add_r by lia.
      rewrite (Z.rem_mul_r x (2 ^ lo) (2 ^ w)) by lia. lia. }
  intros x Hf Hx. rewrite (G tbl top x Hf) by lia. apply Z.mod_small. exact Hx.
Qed.

Lemma unpack_in_widths tbl x : (forall lo w, In (lo, w) tbl -> 0 < w) -> in_widths tbl (unpack tbl x).
Proof.
  induction tbl as [|[lo w] tbl IH]; intros H; simpl; [exact I|]. split.
  - apply Z.mod_pos_bound. apply Z.pow_pos_nonneg; [lia|]. specialize (H lo w (or_introl eq_refl)). lia.
  - apply IH. intros lo' w' Hin. apply (H lo' w'). right; exact Hin.
Qed.

(* ---------- every set bit of a packed word belongs to the field that set it ---------- *)

Fixpoint bit_owner (tbl : list field) (vals : list Z) (b : Z) : bool :=
  match tbl, vals with
  | (lo, w) :: tbl', v :: vals' =>
      if lo <=? b then (b <? lo + w) && Z.testbit v (b - lo) else bit_owner tbl' vals' b
  | _, _ => false
  end.

Lemma testbit_add_split v r lo b : 0 <= lo -> 0 <= r < 2 ^ lo -> 0 <= b ->
  Z.testbit (v * 2 ^ lo + r) b = if lo <=? b then Z.testbit v (b - lo) else Z.testbit r b.
Proof.
  intros Hlo Hr Hb. rewrite <- (lor_disjoint v r lo Hlo Hr). rewrite Z.lor_spec.
  destruct (Z.leb_spec lo b) as [Hle|Hlt].
  - rewrite Z.mul_pow2_bits by lia. rewrite (testbit_high_false r lo b) by lia. apply orb_false_r.
  - rewrite Z.mul_pow2_bits_low by lia. reflexivity.
Qed.

Lemma pack_testbit top tbl : forall vals b, wf_tbl top tbl -> in_widths tbl vals -> 0 <= b ->
  Z.testbit (pack tbl vals) b = bit_owner tbl vals b.
Proof.
  revert top; induction tbl as [|[lo w] tbl IH]; intros top vals b Hwf Hin Hb.
  - destruct vals; simpl; apply Z.bits_0.
  - destruct vals as [|v vals]; [simpl in Hin; contradiction|].
    simpl in Hwf, Hin. destruct Hwf as (Hlo & Hw & Htop & Hwf). destruct Hin as (Hv & Hin).
    cbn [pack bit_owner].
    rewrite testbit_add_split by (try lia; apply (pack_bound lo tbl vals Hlo Hwf Hin)).
    destruct (Z.leb_spec lo b) as [Hle|Hlt].
    + destruct (Z.ltb_spec b (lo + w)) as [Hin'|Hout]; [reflexivity|].
      simpl. apply (testbit_high_false v w); lia.
    + apply (IH lo); assumption.
Qed.
