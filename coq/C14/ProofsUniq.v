(* C14 proofs, part 2: uniq.  Generic in the element type; instantiated for Z and Q at the end. *)
From Coq Require Import ZArith QArith List Bool Lia Lqa Sorted ZifyBool.
Import ListNotations.
From PV Require Import Generated.Uniq C14.Model.
Open Scope Z_scope.

Section UniqProofs.
  Variable A : Type.
  Variable neqb : A -> A -> bool.
  Variable leb : A -> A -> bool.
  Variable dflt : A.
  Hypothesis neqb_refl : forall a, neqb a a = false.
  Hypothesis neqb_sym : forall a b, neqb a b = neqb b a.
  Hypothesis eq_trans : forall a b c, neqb a b = false -> neqb b c = false -> neqb a c = false.
  Hypothesis leb_trans : forall a b c, leb a b = true -> leb b c = true -> leb a c = true.
  Hypothesis leb_antisym : forall a b, leb a b = true -> leb b a = true -> neqb a b = false.
  Hypothesis eq_leb : forall a b, neqb a b = false -> leb a b = true.

  Notation runs_last_from := (runs_last_from A neqb).
  Notation runs_last := (runs_last A neqb).

  (* the reference form the proofs work with: roll(x,-1) as "tail ++ [head]", [] / non-[] match;
     bridged to the GENERATED-parameter model (uniq0, uniq_indexed0) after the section *)
  Definition roll_m1 (l : list A) : list A := match l with [] => [] | x :: t => t ++ [x] end.
  Definition change_points (x : list A) : list Z :=
    nonzero_from 0 (map (fun p => neqb (fst p) (snd p)) (combine x (roll_m1 x))).
  Definition uniq0 (x : list A) : list Z :=
    match change_points x with
    | [] => [lenZ x - 1]
    | ind => ind
    end.
  Definition uniq_indexed0 (x : list A) (index : list Z) : list Z :=
    let q := take A dflt x index in
    match change_points q with
    | [] => [lenZ q - 1]
    | ind => map (getZ index) ind
    end.
  Notation uniq := uniq0.
  Notation uniq_indexed := uniq_indexed0.

  (* change points strictly inside the array: j < n-1 with x[j] != x[j+1] *)
  Fixpoint inner_from (i : Z) (l : list A) : list Z :=
    match l with
    | [] => []
    | x :: t => match t with
                | [] => []
                | y :: _ => if neqb x y then i :: inner_from (i + 1) t else inner_from (i + 1) t
                end
    end.

  Definition cp_from (i : Z) (first : A) (l : list A) : list Z :=
    nonzero_from i (map (fun p => neqb (fst p) (snd p)) (combine l (tl l ++ [first]))).

  Lemma runs_last_from_cons2 i x y t :
    runs_last_from i (x :: y :: t) =
    if neqb x y then i :: runs_last_from (i + 1) (y :: t) else runs_last_from (i + 1) (y :: t).
  Proof. reflexivity. Qed.
  Lemma inner_from_cons2 i x y t :
    inner_from i (x :: y :: t) =
    if neqb x y then i :: inner_from (i + 1) (y :: t) else inner_from (i + 1) (y :: t).
  Proof. reflexivity. Qed.

  Lemma runs_last_inner l : forall i, l <> [] -> runs_last_from i l = inner_from i l ++ [i + lenZ l - 1].
  Proof.
    induction l as [|x t IH]; intros i H; [congruence|].
    destruct t as [|y t'].
    - cbn. f_equal. lia.
    - rewrite runs_last_from_cons2, inner_from_cons2. rewrite IH by congruence.
      replace (i + 1 + lenZ (y :: t') - 1) with (i + lenZ (x :: y :: t') - 1) by (unfold lenZ; cbn [length]; lia).
      destruct (neqb x y); reflexivity.
  Qed.

  Lemma cp_inner first l : forall i, l <> [] ->
    cp_from i first l = inner_from i l ++ (if neqb (last l first) first then [i + lenZ l - 1] else []).
  Proof.
    induction l as [|x t IH]; intros i H; [congruence|].
    destruct t as [|y t'].
    - unfold cp_from. cbn. replace (i + 1 - 1) with i by lia. destruct (neqb x first); reflexivity.
    - assert (E : cp_from i first (x :: y :: t') =
                  if neqb x y then i :: cp_from (i + 1) first (y :: t') else cp_from (i + 1) first (y :: t')).
      { unfold cp_from. cbn. reflexivity. }
      rewrite E, IH by congruence.
      replace (i + 1 + lenZ (y :: t') - 1) with (i + lenZ (x :: y :: t') - 1) by (unfold lenZ; cbn [length]; lia).
      change (last (x :: y :: t') first) with (last (y :: t') first).
      rewrite inner_from_cons2. destruct (neqb x y); reflexivity.
  Qed.

  Lemma change_points_cp a t : change_points (a :: t) = cp_from 0 a (a :: t).
  Proof. reflexivity. Qed.

  Lemma last_In (l : list A) d : l <> [] -> In (last l d) l.
  Proof.
    induction l as [|x t IH]; intros H; [congruence|].
    destruct t as [|y t']; [left; reflexivity|]. right. apply IH. congruence.
  Qed.

  (* ---- sortedness forces "last = first  ->  constant" ---- *)

  Lemma leb_refl a : leb a a = true.
  Proof. apply eq_leb, neqb_refl. Qed.

  Lemma sorted_tail a l : is_sortedb leb (a :: l) = true -> is_sortedb leb l = true.
  Proof.
    destruct l as [|b t]; [reflexivity|]. unfold is_sortedb. cbn. intros H.
    apply andb_true_iff in H. apply H.
  Qed.

  Lemma sorted_head a b t : is_sortedb leb (a :: b :: t) = true -> leb a b = true.
  Proof. unfold is_sortedb. cbn. intros H. apply andb_true_iff in H. apply H. Qed.

  Lemma sorted_ge_head l : forall a, is_sortedb leb (a :: l) = true -> forall y, In y (a :: l) -> leb a y = true.
  Proof.
    induction l as [|b t IH]; intros a H y [<-|Hy]; try apply leb_refl; [destruct Hy|].
    eapply leb_trans; [apply (sorted_head _ _ _ H)|]. apply IH; [apply (sorted_tail _ _ H)|exact Hy].
  Qed.

  Lemma sorted_le_last l : forall a d, is_sortedb leb (a :: l) = true ->
    forall y, In y (a :: l) -> leb y (last (a :: l) d) = true.
  Proof.
    induction l as [|b t IH]; intros a d H y Hy.
    - destruct Hy as [<-|[]]. apply leb_refl.
    - change (last (a :: b :: t) d) with (last (b :: t) d).
      destruct Hy as [<-|Hy].
      + eapply leb_trans; [apply (sorted_head _ _ _ H)|]. apply IH; [apply (sorted_tail _ _ H)|left; reflexivity].
      + apply IH; [apply (sorted_tail _ _ H)|exact Hy].
  Qed.

  Lemma inner_squeezed z l : forall i,
    (forall y, In y l -> neqb z y = false) -> inner_from i l = [].
  Proof.
    induction l as [|x t IH]; intros i Heq; [reflexivity|].
    destruct t as [|y t']; [reflexivity|].
    rewrite inner_from_cons2.
    assert (Ex : neqb x z = false) by (rewrite neqb_sym; apply Heq; left; reflexivity).
    assert (Ey : neqb z y = false) by (apply Heq; right; left; reflexivity).
    rewrite (eq_trans _ _ _ Ex Ey).
    apply IH; intros w Hw; apply Heq; right; exact Hw.
  Qed.

  Lemma sorted_wrap_all_eq a l : is_sortedb leb (a :: l) = true -> neqb (last (a :: l) a) a = false ->
    forall y, In y (a :: l) -> neqb a y = false.
  Proof.
    intros S E y Hy. apply leb_antisym.
    - apply (sorted_ge_head l a S y Hy).
    - eapply leb_trans; [apply (sorted_le_last l a a S y Hy)|]. apply eq_leb, E.
  Qed.

  Lemma all_same_iff a l : all_same neqb (a :: l) = true <-> (forall y, In y (a :: l) -> neqb a y = false).
  Proof.
    unfold all_same. rewrite forallb_forall. split.
    - intros H y [<-|Hy]; [apply neqb_refl|]. apply negb_true_iff. apply H, Hy.
    - intros H y Hy. apply negb_true_iff. apply H. right. exact Hy.
  Qed.

  Lemma match_app_single (l : list Z) x (dfl : list Z) :
    match l ++ [x] with [] => dfl | z :: r => z :: r end = l ++ [x].
  Proof. destruct l; reflexivity. Qed.

  (* ---- the theorems ---- *)

  (* uniq_spec: for a sorted, non-empty array uniq returns the last subscript of every run *)
  Theorem uniq_spec l : l <> [] -> is_sortedb leb l = true -> uniq l = runs_last l.
  Proof.
    destruct l as [|a t]; [congruence|]. intros _ S. unfold uniq0, Model.runs_last.
    rewrite change_points_cp, cp_inner, runs_last_inner by congruence.
    destruct (neqb (last (a :: t) a) a) eqn:E.
    - apply match_app_single.
    - rewrite (inner_squeezed a) by (apply sorted_wrap_all_eq; assumption).
      cbn [app]. f_equal; lia.
  Qed.

  (* without sortedness the same holds whenever the last element differs from the first
     (the only comparison roll() adds is last-vs-first) *)
  Theorem uniq_runs_last_when_ends_differ a t : neqb (last (a :: t) a) a = true -> uniq (a :: t) = runs_last (a :: t).
  Proof.
    intros E. unfold uniq0, Model.runs_last.
    rewrite change_points_cp, cp_inner, runs_last_inner by congruence. rewrite E.
    apply match_app_single.
  Qed.

  (* uniq_constant *)
  Theorem uniq_constant l : l <> [] -> all_same neqb l = true -> uniq l = [lenZ l - 1].
  Proof.
    destruct l as [|a t]; [congruence|]. intros _ C. rewrite all_same_iff in C.
    unfold uniq0. rewrite change_points_cp, cp_inner by congruence.
    rewrite (inner_squeezed a) by exact C.
    assert (E : neqb (last (a :: t) a) a = false).
    { rewrite neqb_sym. apply C. apply last_In. congruence. }
    rewrite E. reflexivity.
  Qed.

  Lemma change_points_sorted q : q <> [] -> is_sortedb leb q = true ->
    (all_same neqb q = true /\ change_points q = []) \/
    (all_same neqb q = false /\ change_points q = runs_last q /\ runs_last q <> []).
  Proof.
    destruct q as [|a t]; [congruence|]. intros _ S.
    rewrite change_points_cp, cp_inner by congruence. unfold Model.runs_last. rewrite runs_last_inner by congruence.
    destruct (neqb (last (a :: t) a) a) eqn:E.
    - right. split; [|split; [reflexivity|]].
      + destruct (all_same neqb (a :: t)) eqn:C; [|reflexivity]. rewrite all_same_iff in C.
        rewrite neqb_sym, C in E by (apply last_In; congruence). discriminate.
      + destruct (inner_from 0 (a :: t)); discriminate.
    - left. pose proof (sorted_wrap_all_eq a t S E) as C. split.
      + apply all_same_iff. exact C.
      + rewrite (inner_squeezed a) by exact C. reflexivity.
  Qed.

  (* uniq_indexed: for x sorted through index, the subscripts index[j], j over the run ends of x[index];
     a constant x[index] gives [n-1] (IDL uniq.pro) *)
  Theorem uniq_indexed_spec_ok x index :
    index <> [] -> is_sortedb leb (take A dflt x index) = true ->
    uniq_indexed x index = uniq_indexed_spec neqb dflt x index.
  Proof.
    intros Hne S. unfold uniq_indexed0, uniq_indexed_spec.
    set (q := take A dflt x index) in *.
    assert (Hq : q <> []) by (subst q; unfold take; destruct index; [congruence|discriminate]).
    destruct (change_points_sorted q Hq S) as [[C E]|[C [E N]]]; rewrite C, E.
    - reflexivity.
    - destruct (runs_last q); [congruence|reflexivity].
  Qed.

  Theorem uniq_indexed_nonconstant x index :
    index <> [] -> is_sortedb leb (take A dflt x index) = true -> all_same neqb (take A dflt x index) = false ->
    uniq_indexed x index = map (getZ index) (runs_last (take A dflt x index)).
  Proof.
    intros Hne S C. rewrite uniq_indexed_spec_ok by assumption. unfold uniq_indexed_spec. rewrite C. reflexivity.
  Qed.

  Theorem uniq_indexed_constant x index :
    index <> [] -> all_same neqb (take A dflt x index) = true -> uniq_indexed x index = [lenZ index - 1].
  Proof.
    intros Hne C. unfold uniq_indexed0. set (q := take A dflt x index) in *.
    assert (Hq : q <> []) by (subst q; unfold take; destruct index; [congruence|discriminate]).
    assert (L : lenZ q = lenZ index) by (subst q; unfold take, lenZ; rewrite map_length; reflexivity).
    pose proof (uniq_constant q Hq C) as U. unfold uniq0 in U.
    destruct (change_points q) eqn:E.
    - rewrite L. reflexivity.
    - (* change_points non-empty: then uniq q = change_points q = [n-1], impossible only if it is that list;
         show instead that it is empty *)
      destruct q as [|a t]; [congruence|]. rewrite all_same_iff in C.
      rewrite change_points_cp, cp_inner in E by congruence.
      rewrite (inner_squeezed a) in E by exact C.
      assert (E2 : neqb (last (a :: t) a) a = false) by (rewrite neqb_sym; apply C; apply last_In; congruence).
      rewrite E2 in E. discriminate.
  Qed.

  (* ---- meaning of runs_last: exactly the subscripts k with k = n-1 or x[k] != x[k+1], in increasing order ---- *)

  Lemma runs_last_from_In l : forall i j,
    In j (runs_last_from i l) <->
    exists k, j = i + Z.of_nat k /\ (k < length l)%nat /\
              (S k = length l \/ neqb (nth k l dflt) (nth (S k) l dflt) = true).
  Proof.
    induction l as [|x t IH]; intros i j.
    - cbn. split; [tauto|]. intros [k [_ [H _]]]. cbn in H. lia.
    - destruct t as [|y t'].
      + cbn. split.
        * intros [<-|[]]. exists 0%nat. cbn. repeat split; try lia; left; reflexivity.
        * intros [k [-> [H _]]]. left. cbn in H. lia.
      + assert (R : In j (runs_last_from i (x :: y :: t')) <->
                    ((neqb x y = true /\ j = i) \/ In j (runs_last_from (i + 1) (y :: t')))).
        { rewrite runs_last_from_cons2. destruct (neqb x y); cbn [In]; intuition (try discriminate; auto). }
        rewrite R, IH. split.
        * intros [[E ->]|[k [-> [Hk Hc]]]].
          -- exists 0%nat. cbn [nth length]. repeat split; try lia; right; exact E.
          -- exists (S k). cbn [length] in *. repeat split; try lia;
             (destruct Hc as [Hc|Hc]; [left; lia|right; exact Hc]).
        * intros [[|k] [-> [Hk Hc]]].
          -- left. cbn [nth length] in *. destruct Hc as [Hc|Hc]; [lia|]. split; [exact Hc|lia].
          -- right. exists k. cbn [length] in *. repeat split; try lia;
             (destruct Hc as [Hc|Hc]; [left; lia|right; exact Hc]).
  Qed.

  Theorem runs_last_In l j :
    In j (runs_last l) <->
    exists k, j = Z.of_nat k /\ (k < length l)%nat /\
              (S k = length l \/ neqb (nth k l dflt) (nth (S k) l dflt) = true).
  Proof. unfold Model.runs_last. rewrite runs_last_from_In. cbn. reflexivity. Qed.

  Lemma runs_last_from_lower l : forall i j, In j (runs_last_from i l) -> i <= j.
  Proof. intros i j H. apply runs_last_from_In in H. destruct H as [k [-> _]]. lia. Qed.

  Theorem runs_last_increasing l : forall i, StronglySorted Z.lt (runs_last_from i l).
  Proof.
    induction l as [|x t IH]; intros i; [constructor|].
    destruct t as [|y t']; [repeat constructor|].
    rewrite runs_last_from_cons2. destruct (neqb x y); [|apply IH].
    constructor; [apply IH|]. apply Forall_forall. intros j Hj. apply runs_last_from_lower in Hj. lia.
  Qed.
End UniqProofs.

(* ------------------------------------------------------------------ bridge to the GENERATED-parameter model *)

Lemma roll_m1_eq {A} (l : list A) : roll (-1) l = roll_m1 A l.
Proof.
  unfold roll. destruct l as [|a t]; [reflexivity|].
  replace (lenZ (a :: t) =? 0) with false by (unfold lenZ; cbn [length]; lia).
  destruct t as [|b t'].
  - reflexivity.
  - replace (Z.to_nat ((- -1) mod lenZ (a :: b :: t'))) with 1%nat; [reflexivity|].
    unfold lenZ. cbn [length]. rewrite Z.mod_small; lia.
Qed.

Theorem uniq_bridge A neqb x : Model.uniq A neqb x = uniq0 A neqb x.
Proof.
  unfold Model.uniq, uniq0, change_points_at, change_points, uniq_plain_shift, uniq_plain_nonempty,
    uniq_plain_pick, uniq_plain_constant.
  rewrite roll_m1_eq. cbv zeta.
  destruct (nonzero_from 0 (map (fun p => neqb (fst p) (snd p)) (combine x (roll_m1 A x)))) as [|z r].
  - reflexivity.
  - replace (lenZ (z :: r) >? 0) with true by (unfold lenZ; cbn [length]; lia). apply map_id.
Qed.

Theorem uniq_indexed_bridge A neqb dflt x index :
  Model.uniq_indexed A neqb dflt x index = uniq_indexed0 A neqb dflt x index.
Proof.
  unfold Model.uniq_indexed, uniq_indexed0, change_points_at, change_points, uniq_indexed_shift,
    uniq_indexed_nonempty, uniq_indexed_pick, Generated.Uniq.uniq_indexed_constant.
  rewrite roll_m1_eq. cbv zeta.
  destruct (nonzero_from 0 (map (fun p => neqb (fst p) (snd p))
              (combine (take A dflt x index) (roll_m1 A (take A dflt x index))))) as [|z r].
  - reflexivity.
  - replace (lenZ (z :: r) >? 0) with true by (unfold lenZ; cbn [length]; lia). reflexivity.
Qed.

(* the GENERATED comparison is the dtype's disequality (fails if uniq.py no longer compares with !=) *)
Lemma gneqbZ_is_ne : gneqbZ_plain = neqbZ /\ gneqbZ_indexed = neqbZ.
Proof. split; reflexivity. Qed.
Lemma gneqbQ_is_ne : gneqbQ_plain = neqbQ /\ gneqbQ_indexed = neqbQ.
Proof. split; reflexivity. Qed.

(* ------------------------------------------------------------------ instances *)

Lemma neqbZ_false a b : neqbZ a b = false <-> a = b.
Proof. unfold neqbZ. rewrite negb_false_iff. apply Z.eqb_eq. Qed.
Lemma neqbQ_false a b : neqbQ a b = false <-> a == b.
Proof. unfold neqbQ. rewrite negb_false_iff. apply Qeq_bool_iff. Qed.

Ltac zhyps := repeat split; intros;
  repeat match goal with
         | H : neqbZ _ _ = false |- _ => apply neqbZ_false in H
         | H : (_ <=? _) = true |- _ => apply Z.leb_le in H
         | |- neqbZ _ _ = false => apply neqbZ_false
         | |- (_ <=? _) = true => apply Z.leb_le
         end; try lia.

Ltac qhyps := repeat split; intros;
  repeat match goal with
         | H : neqbQ _ _ = false |- _ => apply neqbQ_false in H
         | H : Qle_bool _ _ = true |- _ => apply Qle_bool_iff in H
         | |- neqbQ _ _ = false => apply neqbQ_false
         | |- Qle_bool _ _ = true => apply Qle_bool_iff
         end; try lra.

Lemma neqbZ_sym a b : neqbZ a b = neqbZ b a.
Proof. unfold neqbZ. rewrite Z.eqb_sym. reflexivity. Qed.
Lemma neqbQ_sym a b : neqbQ a b = neqbQ b a.
Proof.
  unfold neqbQ. f_equal. destruct (Qeq_bool a b) eqn:E1, (Qeq_bool b a) eqn:E2; try reflexivity.
  - apply Qeq_bool_iff in E1. symmetry in E1. apply Qeq_bool_iff in E1. congruence.
  - apply Qeq_bool_iff in E2. symmetry in E2. apply Qeq_bool_iff in E2. congruence.
Qed.

Lemma Zh_refl : forall a, neqbZ a a = false. Proof. zhyps. Qed.
Lemma Zh_eqtrans : forall a b c, neqbZ a b = false -> neqbZ b c = false -> neqbZ a c = false. Proof. zhyps. Qed.
Lemma Zh_letrans : forall a b c, (a <=? b) = true -> (b <=? c) = true -> (a <=? c) = true. Proof. zhyps. Qed.
Lemma Zh_antisym : forall a b, (a <=? b) = true -> (b <=? a) = true -> neqbZ a b = false. Proof. zhyps. Qed.
Lemma Zh_eqle : forall a b, neqbZ a b = false -> (a <=? b) = true. Proof. zhyps. Qed.
Lemma Qh_refl : forall a, neqbQ a a = false. Proof. qhyps. Qed.
Lemma Qh_eqtrans : forall a b c, neqbQ a b = false -> neqbQ b c = false -> neqbQ a c = false. Proof. qhyps. Qed.
Lemma Qh_letrans : forall a b c, Qle_bool a b = true -> Qle_bool b c = true -> Qle_bool a c = true. Proof. qhyps. Qed.
Lemma Qh_antisym : forall a b, Qle_bool a b = true -> Qle_bool b a = true -> neqbQ a b = false. Proof. qhyps. Qed.
Lemma Qh_eqle : forall a b, neqbQ a b = false -> Qle_bool a b = true. Proof. qhyps. Qed.

(* integer arrays *)
Lemma uniqZ_spec l : l <> [] -> is_sortedb Z.leb l = true -> Model.uniq Z gneqbZ_plain l = runs_last Z neqbZ l.
Proof. rewrite uniq_bridge. apply (uniq_spec Z neqbZ Z.leb Zh_refl neqbZ_sym Zh_eqtrans Zh_letrans Zh_antisym Zh_eqle). Qed.
Lemma uniqZ_constant l : l <> [] -> all_same neqbZ l = true -> Model.uniq Z gneqbZ_plain l = [lenZ l - 1].
Proof. rewrite uniq_bridge. apply (uniq_constant Z neqbZ Zh_refl neqbZ_sym Zh_eqtrans). Qed.
Lemma uniqZ_indexed x index : index <> [] -> is_sortedb Z.leb (take Z 0 x index) = true ->
  Model.uniq_indexed Z gneqbZ_indexed 0 x index = uniq_indexed_spec neqbZ 0 x index.
Proof. rewrite uniq_indexed_bridge. apply (uniq_indexed_spec_ok Z neqbZ Z.leb 0 Zh_refl neqbZ_sym Zh_eqtrans Zh_letrans Zh_antisym Zh_eqle). Qed.
Lemma uniqZ_indexed_nonconstant x index : index <> [] -> is_sortedb Z.leb (take Z 0 x index) = true ->
  all_same neqbZ (take Z 0 x index) = false ->
  Model.uniq_indexed Z gneqbZ_indexed 0 x index = map (getZ index) (runs_last Z neqbZ (take Z 0 x index)).
Proof. rewrite uniq_indexed_bridge. apply (uniq_indexed_nonconstant Z neqbZ Z.leb 0 Zh_refl neqbZ_sym Zh_eqtrans Zh_letrans Zh_antisym Zh_eqle). Qed.
Lemma uniqZ_indexed_constant x index : index <> [] -> all_same neqbZ (take Z 0 x index) = true ->
  Model.uniq_indexed Z gneqbZ_indexed 0 x index = [lenZ index - 1].
Proof. rewrite uniq_indexed_bridge. apply (uniq_indexed_constant Z neqbZ 0 Zh_refl neqbZ_sym Zh_eqtrans). Qed.

(* float arrays *)
Lemma uniqQ_spec l : l <> [] -> is_sortedb Qle_bool l = true -> Model.uniq Q gneqbQ_plain l = runs_last Q neqbQ l.
Proof. rewrite uniq_bridge. apply (uniq_spec Q neqbQ Qle_bool Qh_refl neqbQ_sym Qh_eqtrans Qh_letrans Qh_antisym Qh_eqle). Qed.
Lemma uniqQ_constant l : l <> [] -> all_same neqbQ l = true -> Model.uniq Q gneqbQ_plain l = [lenZ l - 1].
Proof. rewrite uniq_bridge. apply (uniq_constant Q neqbQ Qh_refl neqbQ_sym Qh_eqtrans). Qed.
Lemma uniqQ_indexed x index : index <> [] -> is_sortedb Qle_bool (take Q 0%Q x index) = true ->
  Model.uniq_indexed Q gneqbQ_indexed 0%Q x index = uniq_indexed_spec neqbQ 0%Q x index.
Proof. rewrite uniq_indexed_bridge. apply (uniq_indexed_spec_ok Q neqbQ Qle_bool 0%Q Qh_refl neqbQ_sym Qh_eqtrans Qh_letrans Qh_antisym Qh_eqle). Qed.
Lemma uniqQ_indexed_nonconstant x index : index <> [] -> is_sortedb Qle_bool (take Q 0%Q x index) = true ->
  all_same neqbQ (take Q 0%Q x index) = false ->
  Model.uniq_indexed Q gneqbQ_indexed 0%Q x index = map (getZ index) (runs_last Q neqbQ (take Q 0%Q x index)).
Proof. rewrite uniq_indexed_bridge. apply (uniq_indexed_nonconstant Q neqbQ Qle_bool 0%Q Qh_refl neqbQ_sym Qh_eqtrans Qh_letrans Qh_antisym Qh_eqle). Qed.
Lemma uniqQ_indexed_constant x index : index <> [] -> all_same neqbQ (take Q 0%Q x index) = true ->
  Model.uniq_indexed Q gneqbQ_indexed 0%Q x index = [lenZ index - 1].
Proof. rewrite uniq_indexed_bridge. apply (uniq_indexed_constant Q neqbQ 0%Q Qh_refl neqbQ_sym Qh_eqtrans). Qed.
