"""C02 -- yanny: the meaning of a file does not depend on its surface syntax."""
import json
import os
import re

from harness import common as C
from harness.props import yanny_gen as G
from harness.props import c01 as C01

ID = 'C02'
PROPS_V = 'C02/Props.v'
LEVEL = 'proof'
TRUSTED = [
    'hand-written reader model coq/Yanny/Parse.v (every regex of _parse/get_token/type/isarray/... transliterated into a '
    'scanner) -- tied to the code on every run: Parse.parse / parse_binary / parse_raw of each generated text equals what the '
    'real yanny(path), yanny(text file object), yanny(binary file object) returned, raw and non-raw',
    'harness/props/c02.py: the layout generator (a Python twin of the admissible renderings; an inadmissible rendering can only '
    'cause a false alarm, never hide a failure); specification C02.Model.lsem evaluated in Coq',
    'float(text) of CPython / numpy float32 conversion (floats are TEXT in the model; values compared bit-exactly in the harness)',
    'Coq stdlib NArith/ZArith/List/Lia (theorems closed under the global context)',
]
ASSUMPTIONS = [
    'admissible renderings (layout_ok): comments contain no "#" after the first, an even number of double quotes, no final '
    'backslash and no "typedef"; comments inside typedefs (struct AND, since round 5, enum blocks: after a label\'s comma, after the '
    'last label, or on a line of their own; never before a comma) use letters, digits, blanks, commas and periods only; a string is '
    'written bare only if non-empty, free of blanks, "#", double quote, backslash and not starting with "{"; brace-wrapped only '
    'as a scalar, without braces, "#", quotes or outer blanks; no blank before a comma of an enum; continuation only between '
    'the tokens of a data row; char[] columns need at least one non-empty value (numpy cannot build a zero-width string '
    'subarray); one declaration per line inside a typedef, separated from the brace and from each other by white space',
    'the docstring-excluded pathologies (a trailing comment containing one double quote, "# # #") are outside the layouts',
    'lone CR line ends, non-ASCII, ragged or over-long rows are outside the grammar',
]


def translate(ctx):
    # the regex literals / type tables of yanny.py -> Generated/YannyLits.v (same generator as C01); the obligation
    # Cxx_source_regexes_are_the_scanners in Props.v fails when the source uses another literal
    from harness.props import c01 as _c01
    return _c01.translate(ctx)

HEADER = '''From Coq Require Import String.
From Coq Require Import NArith ZArith List. Import ListNotations.
From PV Require Import Yanny.Bytes Yanny.Types Yanny.Parse Yanny.Render C02.Model. Open Scope N_scope.'''

SAFE_TD_COMMENT = 'abcdefghijklmnopqrstuvwxyzABCDEFGHIJKLMNOPQRSTUVWXYZ0123456789  ,.'
TRAIL_COMMENTS = ['a comment', '', 'x', 'this last item should be "FALSE"', 'UTC timestamp in format 2008-06-21T00:27:33',
                  'semi; colon', 'braces {{}} { } }', 'FOO 1 2', 'it\'s', 'tab\there', '"quoted" twice ""', '  padded  ',
                  'backslash \\ inside', '<3> [4];']
LINE_COMMENTS = TRAIL_COMMENTS + ['# # # I like # characters', 'one " quote', 'mjd 54579 # a pair', '%yanny', '#']


def gen_doc(rng):
    doc = G.gen_doc(rng, 'ndarray', allow_u=False)
    for e in (doc['enums'] or []):
        e[1] = e[1].upper()
    for t in doc['tables']:
        for c in t['cols']:
            if c['code'][0] == 'S' and c['name'] not in G.enum_map(doc) and t['rows'] and rng.random() < 0.35:
                j = t['cols'].index(c)
                vals = [x for r in t['rows'] for x in (r[j] if isinstance(r[j], list) else [r[j]])]
                if any(len(x) > 0 for x in vals):      # numpy has no zero-width string subarrays
                    c['unsized'] = True
    return doc


class Layout:
    """Random admissible rendering of a document.  Every choice is drawn from self.rng; self.used counts them."""

    def __init__(self, rng, doc):
        self.rng = rng
        self.doc = doc
        t = rng.random()
        self.eolmode = 'lf' if t < 0.5 else ('crlf' if t < 0.8 else 'mixed')
        self.plain = rng.random() < 0.12          # now and then an (almost) canonical file
        self.used = {}

    def use(self, k):
        self.used[k] = self.used.get(k, 0) + 1

    def eol(self):
        if self.eolmode == 'lf':
            return '\n'
        if self.eolmode == 'crlf':
            self.use('crlf')
            return '\r\n'
        if self.rng.random() < 0.5:
            self.use('crlf')
            return '\r\n'
        return '\n'

    def ws(self, lo=1):
        if self.plain:
            return ' ' * lo
        n = lo if self.rng.random() < 0.5 else self.rng.randint(lo, 4)
        s = ''.join(self.rng.choice('   \t') for _ in range(n))
        if len(s) > 1 or '\t' in s:
            self.use('ws-run')
        return s

    def gap(self):
        """between two tokens of a data row"""
        if not self.plain and self.rng.random() < 0.12:
            self.use('continuation')
            return self.ws(0) + '\\' + self.ws(0) + self.eol() + self.ws(0)
        return self.ws(1)

    def comment_text(self, pool):
        c = self.rng.choice(pool)
        return c

    def trailing(self):
        if self.plain or self.rng.random() > 0.25:
            return self.ws(0) if (not self.plain and self.rng.random() < 0.2) else ''
        self.use('trailing-comment')
        return self.ws(0) + '#' + self.comment_text(TRAIL_COMMENTS)

    def filler(self):
        """zero or more comment / blank lines"""
        out = []
        if self.plain:
            return out
        while self.rng.random() < 0.3:
            if self.rng.random() < 0.5:
                self.use('blank-line')
                out.append(self.ws(0) + self.eol())
            else:
                self.use('comment-line')
                out.append(self.ws(0) + '#' + self.comment_text(LINE_COMMENTS) + self.eol())
        return out

    def string_token(self, s, in_array):
        bare_ok = (len(s) > 0 and re.search(r'[\s#"\\]', s) is None and not s.startswith('{'))
        brace_ok = (not in_array and re.search(r'[{}#"]', s) is None and s == s.strip() and not s.endswith('\\'))
        forms = ['quoted']
        if bare_ok:
            forms += ['bare', 'bare']
        if brace_ok and not self.plain:
            forms += ['braced']
        f = self.rng.choice(forms)
        if f == 'bare':
            return s
        if f == 'quoted':
            if bare_ok:
                self.use('quoted-though-bare-possible')
            return '"' + s + '"'
        self.use('braced-string')
        if s == '' and self.rng.random() < 0.5:
            self.use('empty-double-brace')
            return '{' + self.ws(0) + '{' + self.ws(0) + '}' + self.ws(0) + '}'
        return '{' + self.ws(0) + s + '}'

    def scalar_token(self, c, v, in_array):
        if isinstance(v, dict):
            return G.float_text(c['code'], v['f'])
        if isinstance(v, str):
            return self.string_token(v, in_array)
        return str(v)

    def row_text(self, t, r):
        name = t['name']
        if not self.plain:
            k = self.rng.random()
            if k < 0.3:
                name = name.lower()
            elif k < 0.6:
                name = name.upper()
            elif k < 0.8:
                name = ''.join(ch.upper() if self.rng.random() < 0.5 else ch.lower() for ch in name)
            if name != t['name'].upper():
                self.use('row-name-case')
        out = self.ws(0) + name
        for c, v in zip(t['cols'], r):
            out += self.gap()
            if isinstance(v, list):
                out += '{' + self.ws(0)
                toks = [self.scalar_token(c, x, True) for x in v]
                for i, tk in enumerate(toks):
                    if i:
                        out += self.gap()
                    out += tk
                out += self.ws(0) + '}'
            else:
                out += self.scalar_token(c, v, False)
        return out + self.trailing() + self.eol()

    def brack(self, n):
        if not self.plain and self.rng.random() < 0.4:
            self.use('legacy-array-notation')
            return '<%s>' % n
        return '[%s]' % n

    def wsnl(self, lo=0):
        """white space that may contain line ends (inside typedefs)"""
        if self.plain:
            return self.eol() + '    '
        s = self.ws(0)
        if self.rng.random() < 0.7:
            s += self.eol() + self.ws(0)
        if lo and not s:
            s = ' '
        return s

    def td_comment(self):
        if self.plain or self.rng.random() > 0.2:
            return ''
        self.use('comment-in-typedef')
        n = self.rng.randint(0, 20)
        return self.ws(0) + '#' + ''.join(self.rng.choice(SAFE_TD_COMMENT) for _ in range(n))

    def struct_text(self, t):
        em = G.enum_map(self.doc)
        name = self.rng.choice([t['name'], t['name'].upper(), t['name'].lower()])
        out = self.ws(0) + 'typedef' + self.ws(1) + 'struct' + self.ws(0) + '{'
        for c in t['cols']:
            code = c['code']
            if code[0] == 'S':
                word = em[c['name']][0] if c['name'] in em else 'char'
            else:
                word = G.CTYPE[code]
            decl = c['name']
            if c['arr']:
                decl += self.brack(c['arr'])
            if code[0] == 'S' and c['name'] not in em:
                decl += self.brack('' if c.get('unsized') else int(code[1:]))
            # one declaration per line (the reader's type lookup is line based)
            out += (self.ws(0) + self.eol() + self.ws(0)) + word + self.ws(1) + decl + ';' + self.td_comment()
        out += (self.ws(0) + self.eol() + self.ws(0)) + '}' + self.ws(0) + name + self.ws(0) + ';' + self.trailing() + self.eol()
        return out

    def enum_comment(self, after_label):
        """round 5: a comment inside an enum block -- trailing (after a label's comma, or after the last label) or on a line
        of its own between labels.  Always closed by a line end.  Returns '' most of the time."""
        if self.plain or self.rng.random() > 0.18:
            return ''
        self.use('comment-in-enum-block')
        n = self.rng.randint(0, 20)
        c = '#' + ''.join(self.rng.choice(SAFE_TD_COMMENT) for _ in range(n))
        if after_label:
            return self.ws(0) + c + self.eol() + self.ws(0)
        return self.eol() + self.ws(0) + c + self.eol() + self.ws(0)

    def enum_text(self, e):
        out = self.ws(0) + 'typedef' + self.ws(1) + 'enum' + self.ws(0) + '{' + self.wsnl()
        out += self.enum_comment(False)
        for i, lab in enumerate(e[2]):
            if i:
                out += ',' + (self.enum_comment(True) or self.wsnl()) + self.enum_comment(False)
            out += lab
        out += (self.enum_comment(True) or self.wsnl()) + '}' + self.ws(0) + e[1] + self.ws(0) + ';' + self.trailing() + self.eol()
        return out

    def pair_text(self, k, v):
        v = str(v)
        return self.ws(0) + k + (self.ws(1) + v if v else '') + self.trailing() + self.eol()

    def render(self):
        rng = self.rng
        doc = self.doc
        # ordered streams that may be interleaved freely: pairs, struct typedefs, rows per table, enum typedefs
        streams = []
        streams.append([self.pair_text(k, v) for k, v in (doc['hdr'] or [])])
        streams.append([self.struct_text(t) for t in doc['tables']])
        for e in (doc['enums'] or []):
            streams.append([self.enum_text(e)])
        for t in doc['tables']:
            streams.append([self.row_text(t, r) for r in t['rows']])
        items = []
        if self.plain or rng.random() < 0.5:
            # conventional order: pairs, enums, structs, rows (rows still interleaved between tables)
            head = streams[0] + [x for s in streams[2:2 + len(doc['enums'] or [])] for x in s] + streams[1]
            rows = [list(s) for s in streams[2 + len(doc['enums'] or []):]]
            items = head
            streams = rows
        else:
            self.use('typedefs-and-pairs-anywhere')
            streams = [list(s) for s in streams]
        live = [s for s in streams if s]
        if len([s for s in live]) > 1:
            self.use('interleaving')
        while live:
            s = rng.choice(live)
            items.append(s.pop(0))
            live = [x for x in live if x]
        out = []
        if self.plain or rng.random() < 0.7:
            out.append('#%yanny' + self.eol())
        for it in items:
            out.extend(self.filler())
            out.append(it)
        out.extend(self.filler())
        text = ''.join(out)
        if not self.plain and rng.random() < 0.15 and text.endswith('\n'):
            self.use('no-final-newline')
            text = text[:-2] if text.endswith('\r\n') else text[:-1]
        return text


def layout_ok_text(text):
    """Cheap sanity filters the generator relies on (never triggered; kept as a guard against generator slips)."""
    return 'typedef' not in re.sub(r'typedef\s+(struct|enum)', '', text)


def gen_jobs(ctx):
    rng = ctx.rng
    jobs = []
    ndocs = ctx.n(110, 1500)
    K = ctx.n(4, 8)
    for i in range(ndocs):
        doc = gen_doc(rng)
        for k in range(K):
            lay = Layout(rng, doc)
            if k == 0:
                lay.plain = True
                lay.eolmode = 'lf'
            text = lay.render()
            jobs.append({'kind': 'read', 'id': 'r%05d_%d' % (i, k), 'doc': doc, 'text': text, 'tag': 'layout',
                         'used': lay.used, 'text_hex': text.encode('latin-1').hex()})
    # the hand-written test file of the repository, as a fixed text (no document: model vs implementation only)
    return jobs


FIXED_DOCS = [
    ('FOO/FOOBAR substring names, rows interleaved, lower-case row names',
     {'comments': [], 'hdr': [['k', 'v w']], 'enums': None, 'tables': [
         {'name': 'FOO', 'cols': [{'name': 'x', 'code': 'i4', 'arr': None}], 'rows': [[1], [2]]},
         {'name': 'FOOBAR', 'cols': [{'name': 'foo', 'code': 'S5', 'arr': None}], 'rows': [['a b'], ['']]}]},
     '#%yanny\nk v w # c\ntypedef struct { int x; } FOO;\ntypedef struct {\n char foo<5>;\n} foobar;\nfoo 1\nFOOBAR "a b"\nFoo \\\n  2\nfoobar {{}}\n'),
]


def res_dump(res, key):
    r = res.get(key)
    if r is None or 'exc' in r:
        return None
    return r['ok']


def irregular_text(rng, doc):
    """Round 6 (class G): the canonical text of a document whose data rows do NOT carry exactly one cell per column --
    trailing cells left out (down to the bare table name) or extra tokens after the last column.  The format requires
    complete rows: there is no meaning to compare with, only model against code (raw mode, column by column); what the
    record-array mode does with them (raises / pads) is recorded, not judged.  -> (text, forms used)"""
    from harness.props import c03 as H3
    d = dict(doc, comments=['irregular rows'])
    full = H3.render_text(d).split('\n')
    nrows = sum(len(t['rows']) for t in doc['tables'])
    head = full[:len(full) - 1 - nrows]
    used = {'short-row': 0, 'over-long-row': 0, 'full-row': 0, 'bare-table-name-row': 0}
    lines = []
    for t in doc['tables']:
        for r in t['rows']:
            cells = []
            for c, v in zip(t['cols'], r):
                tok = lambda x: H3.py_protect(x) if isinstance(x, str) else str(x)
                cells.append('{' + ' '.join(tok(x) for x in v) + '}' if isinstance(v, list) else tok(v))
            u = rng.random()
            if u < 0.4:
                keep = rng.randint(0, len(cells) - 1)
                cells = cells[:keep]
                used['bare-table-name-row' if keep == 0 else 'short-row'] += 1
                if cells and cells[-1].endswith('\\'):
                    cells[-1] += '/'
            elif u < 0.65:
                cells += rng.sample(['17', 'more', '"more text"', '{1 2}', '0.5', '{{}}', '""', 'x;y'], rng.randint(1, 3))
                used['over-long-row'] += 1
            else:
                used['full-row'] += 1
            lines.append(' '.join([t['name'].upper()] + cells) + rng.choice(['', '', ' ', ' # remark', '\t']))
    rng.shuffle(lines)
    return '\n'.join(head + lines) + '\n', {k: v for k, v in used.items() if v}


def gen_irregular_jobs(ctx):
    rng = ctx.rng
    jobs = []
    k = 0
    while len(jobs) < ctx.n(50, 500):
        doc = G.gen_doc(rng, 'ndarray', ntables=rng.choice([1, 2, 2, 3]), allow_u=False, max_rows=4)
        for t in doc['tables']:                      # integer and string columns only (raw floats are python floats: another text)
            keep = [j for j, c in enumerate(t['cols']) if c['code'][0] != 'f']
            t['cols'] = [t['cols'][j] for j in keep]
            t['rows'] = [[r[j] for j in keep] for r in t['rows']]
        if any(not t['cols'] or not t['rows'] for t in doc['tables']):
            continue
        for t in doc['tables']:
            for r in t['rows']:
                if isinstance(r[-1], str) and r[-1].endswith('\\'):
                    r[-1] = r[-1][:-1] + '/'
        text, used = irregular_text(rng, doc)
        if not layout_ok_text(text):
            continue
        jobs.append({'kind': 'read', 'id': 'g%05d' % k, 'doc': doc, 'text': text, 'tag': 'irregular', 'used': used,
                     'text_hex': text.encode('latin-1').hex()})
        k += 1
    return jobs


def case_term(job, res):
    doc = job['doc']
    if job['tag'] == 'irregular':
        exp = G.expected(doc)
        return '(CRawRows %s %s %s)' % (G.blit(job['text']), C.optlit(res_dump(res, 'path_raw'), lambda d: G.rdoc_term(d, exp)),
                                        C.optlit(res_dump(res, 'bin_raw'), lambda d: G.rdoc_term(d, exp)))
    exp = G.expected(doc)
    raw_exp = exp
    it = res_dump(res, 'path')
    ib = res_dump(res, 'bin')
    ir = res_dump(res, 'path_raw')
    ibr = res_dump(res, 'bin_raw')
    return '(CRead %s %s %s %s %s %s)' % (
        G.doc_term(dict(doc, comments=[])), G.blit(job['text']),
        C.optlit(it, lambda d: G.pdoc_term(d, exp)), C.optlit(ib, lambda d: G.pdoc_term(d, exp)),
        C.optlit(ir, lambda d: G.rdoc_term(d, raw_exp)), C.optlit(ibr, lambda d: G.rdoc_term(d, raw_exp)))


def py_outcome(job, res):
    """Direct behavioural check: every read path returns the document's tables and pairs."""
    exp = G.expected(job['doc'])
    if res.get('bystander_changed'):
        return 'another-live-object-changed', [res['bystander_changed']]
    for key in ('path', 'text', 'bin'):
        r = res.get(key)
        if r is None or 'exc' in r:
            return '%s-raised-%s' % (key, r['exc'] if r else '?'), ['%s raised %s: %s (%s)' % (key, r.get('exc'), r.get('msg'), r.get('where'))]
        d = G.diff_tables(exp, r['ok'])
        if d:
            kind = 'types-differ' if any(' columns: ' in x for x in d) else ('pairs-differ' if any(x.startswith('pairs') for x in d) else 'cells-differ')
            return '%s-%s' % (key, kind), d
    for key in ('path_raw', 'text_raw', 'bin_raw'):
        r = res.get(key)
        if r is None or 'exc' in r:
            return '%s-raised-%s' % (key, r['exc'] if r else '?'), ['%s raised %s: %s (%s)' % (key, r.get('exc'), r.get('msg'), r.get('where'))]
        d = G.diff_tables(exp, r['ok'], check_types=False)
        if d:
            return '%s-cells-differ' % key, d
    if json.dumps(res['path'], sort_keys=True) != json.dumps(res['text'], sort_keys=True) or \
            json.dumps(res['path_raw'], sort_keys=True) != json.dumps(res['text_raw'], sort_keys=True):
        return 'path-vs-text-object-differ', ['yanny(path) and yanny(open(path)) differ']
    return 'ok', []


def only_enum_width_differs(job, res, key='path'):
    """The read differs from the document ONLY in the numpy width of enum columns (a comment inside an enum block taken
    into a label widens the column)."""
    exp = G.expected(job['doc'])
    em = G.enum_map(job['doc'])
    got = res_dump(res, key)
    if got is None or [t['name'] for t in exp['tables']] != [t['name'] for t in got['tables']] or exp['pairs'] != [list(p) for p in got['pairs']]:
        return False
    diff = 0
    for te, tg in zip(exp['tables'], got['tables']):
        if len(te['cols']) != len(tg['cols']):
            return False
        for ce, cg in zip(te['cols'], tg['cols']):
            if (ce['name'], ce['type'], ce['arr']) != (cg['name'], cg.get('type'), cg.get('arr')):
                return False
            if ce['np'] != cg.get('np'):
                if ce['name'] not in em:
                    return False
                diff += 1
    return diff > 0


def features(job):
    f = set(G.features(job['doc']))
    f.discard('U-column')
    return sorted(f)


def correspond(ctx, proof_ok=True):
    ok, log = C.coq_make(['C02/Model.vo'])
    if not ok:
        raise RuntimeError('C02/Model.v does not build:\n' + log[-2000:])
    jobs = gen_jobs(ctx)
    for k, (note, doc, text) in enumerate(FIXED_DOCS):
        jobs.append({'kind': 'read', 'id': 'x%05d' % k, 'doc': doc, 'text': text, 'tag': 'layout', 'used': {'fixed': 1},
                     'text_hex': text.encode('latin-1').hex(), 'note': note})
    jobs += gen_irregular_jobs(ctx)
    results, pydl_file = C01.run_jobs(ctx, jobs)
    ctx.coverage['pydl_file'] = pydl_file
    terms = [case_term(j, r) for j, r in zip(jobs, results)]
    cc = C.CoqCases(ctx.work, HEADER, 'run_cases', shard=ctx.n(18, 40))
    verdicts = cc.run(terms)
    ctx.coverage['coq_eval_s'] = round(cc.coq_seconds, 1)
    used = {}
    dist = {}
    seen = set()
    nbad = 0
    failing = {}
    for job, res, v, term in zip(jobs, results, verdicts, terms):
        for k, n in job['used'].items():
            used[k] = used.get(k, 0) + n
        if job['tag'] == 'irregular':
            # model against code only; the non-raw outcome is recorded
            r = res.get('path') or {}
            key = 'irregular-rows:record-mode:%s' % (r.get('exc') or 'returns-a-table')
            dist[key] = dist.get(key, 0) + 1
            if res.get('bystander_changed'):
                failing.setdefault('C02:layout:another-live-object-changed:', []).append((len(job['text']), job, res, v, 'another-live-object-changed', [res['bystander_changed']]))
            elif v & 1 and 'C02:model:parse:irregular-rows' not in seen:
                seen.add('C02:model:parse:irregular-rows')
                ctx.violation('C02:model:parse:irregular-rows', 'raw reader model and implementation disagree on a file with short / over-long data rows '
                              '(what the raw object holds per column)',
                              {'kind': 'broken-correspondence', 'item': 'Yanny.Parse.parse_raw (row loop: short and over-long rows)', 'doc': job['doc'],
                               'text': job['text'], 'verdict': v, 'row_forms': job['used'],
                               'impl_raw': res.get('path_raw')}, False)
            continue
        out, det = py_outcome(job, res)
        dist[out] = dist.get(out, 0) + 1
        if v & 4:
            raise RuntimeError('generator produced a document without meaning (lsem = None): %r' % (job['doc'],))
        if not layout_ok_text(job['text']):
            raise RuntimeError('generator produced an inadmissible layout')
        spec_bad = bool(v & 2)
        if out != 'ok' or spec_bad:
            nbad += 1
            if (out == 'ok') != (not spec_bad) and out != 'path-vs-text-object-differ':
                sig = 'C02:harness:python-and-coq-spec-disagree'
            else:
                m = re.search(r'\((\w+\.py:\w+)\)', det[0]) if (det and 'raised' in out) else None
                where = m.group(1) if m else ''
                if out.endswith('types-differ') and job['used'].get('comment-in-enum-block') and only_enum_width_differs(job, res, out.split('-')[0]):
                    where = 'enum-block-comment'
                sig = 'C02:layout:%s:%s' % (re.sub(r'^(path|text|bin)(_raw)?-', '', out), where)
            failing.setdefault(sig, []).append((len(job['text']), job, res, v, out, det))
        elif v & 1:
            which = [n for b, n in ((8, 'text'), (16, 'binary'), (32, 'raw-text'), (64, 'raw-binary')) if v & b]
            sig = 'C02:model:parse:%s' % '+'.join(which)
            if sig in seen:
                continue
            seen.add(sig)
            ctx.violation(sig, 'reader model and implementation disagree (%s) although the document is read correctly' % ','.join(which),
                          {'kind': 'broken-correspondence', 'item': 'Yanny.Parse.parse', 'doc': job['doc'], 'text': job['text'],
                           'verdict': v, 'layout_freedoms_used': job['used']}, False)
    for sig, lst in failing.items():
        lst.sort(key=lambda x: x[0])
        _n, job, res, v, out, det = lst[0]
        fif = sig != 'C02:harness:python-and-coq-spec-disagree'
        ctx.violation(sig, 'an admissible rendering does not read as the document (%s; %d generated texts fail this way): %s'
                      % (out, len(lst), '; '.join(det)[:300]),
                      {'kind': 'failing-input' if fif else 'broken-correspondence', 'item': 'harness expected() vs C02.Model.lsem',
                       'doc': job['doc'], 'text': job['text'], 'layout_freedoms_used': job['used'], 'features': features(job),
                       'outcome': out, 'details': det, 'coq_verdict': v, 'texts_failing_this_way': len(lst),
                       'meaning': 'verdict +2: what the real reader returned differs from C02.Model.lsem(doc); '
                                  '+8/+16/+32/+64: reader model differs from the implementation (text/binary/raw text/raw binary)'}, fif)
    ctx.coverage.update({
        'evaluations': len(terms) * 6,
        'distinct_nontrivial': len(set(j['text'] for j in jobs)),
        'rule': 'one evaluation = one (document, admissible layout, read path) triple: the text is read by the real yanny through '
                'path, text file object, binary file object, raw and non-raw (6 reads per text), compared with Parse.parse / '
                'parse_binary / parse_raw / parse_binary_raw evaluated in Coq on the same bytes and with the specification '
                'C02.Model.lsem(document); distinct = distinct texts',
        'texts': len(terms),
        'documents': len(set(json.dumps(j['doc'], sort_keys=True) for j in jobs)),
        'layout_freedoms_used': used,
        'outcomes': dist,
        'texts_failing': nbad,
        'samples': [{'doc': jobs[1]['doc'], 'text': jobs[1]['text']}, {'doc': jobs[-2]['doc'], 'text': jobs[-2]['text']},
                    {'coq_case': terms[0][:500]}],
    })


def replay(ctx, rep):
    text = rep.get('text')
    doc = rep.get('doc')
    if text is None or doc is None:
        print('replay file has no text (kind=%s, item=%s)' % (rep.get('kind'), rep.get('item')))
        return 2
    job = {'kind': 'read', 'id': 'replay', 'doc': doc, 'text': text, 'tag': 'layout', 'used': {},
           'text_hex': text.encode('latin-1').hex()}
    rs, pf = C01.run_jobs(ctx, [job], nb=1)
    out, det = py_outcome(job, rs[0])
    print('pydl   :', pf)
    print('text   :', repr(text))
    print('outcome:', out)
    for d in det:
        print('   ', d)
    print('before :', rep.get('outcome'))
    return 0
