(* C14 proofs, part 7 (round 5): what uniq(x, index) SELECTS, for any index that sorts x.
   run_values q = the last element of every run of the sorted sequence q, written without subscripts.
   - x[uniq(x, index)] = run_values (x[index])                              (values_selected)
   - for sorted q, run_values q is strictly increasing, contains only elements of q, and every element of q is
     equal to one of them: the selected values are the distinct values of x in increasing order, each once,
     whichever sorting index (tie-breaking) is supplied. *)
From Coq Require Import ZArith QArith List Bool Lia ZifyBool Sorted.
Import ListNotations.
From PV Require Import Generated.Uniq C14.Model C14.Proofs C14.ProofsUniq.
Open Scope Z_scope.

Section Values.
  Variable A : Type.
  Variable neqb : A -> A -> bool.
  Variable leb : A -> A -> bool.
  Variable dflt : A.
  Hypothesis neqb_refl : forall a, neqb a a = false.
  Hypothesis neqb_sym : forall a b, neqb a b = neqb b a.
  Hypothesis eq_trans : forall a b c, neqb a b = false -> neqb b c = false -> neqb a c = false.
  Hypothesis leb_trans : forall a b c, leb a b = true -> leb b c = true -> leb a c = true.
  Hypothesis leb_antisym : forall a b, leb a b = true -> leb b a = true -> neqb a b = false.
  Hypothesis eq_leb : forall a b, neqb a b = false -> leb a b = true.

  Fixpoint run_values (l : list A) : list A :=
    match l with
    | [] => []
    | x :: t => match t with
                | [] => [x]
                | y :: _ => if neqb x y then x :: run_values t else run_values t
                end
    end.

  Lemma run_values_cons2 x y t :
    run_values (x :: y :: t) = if neqb x y then x :: run_values (y :: t) else run_values (y :: t).
  Proof. reflexivity. Qed.

  Lemma values_from l : forall i,
    map (fun j => nth (Z.to_nat (j - i)) l dflt) (runs_last_from A neqb i l) = run_values l.
  Proof.
    induction l as [|x t IH]; intros i; [reflexivity|].
    destruct t as [|y t'].
    - cbn [runs_last_from map run_values]. rewrite Z.sub_diag. reflexivity.
    - rewrite (runs_last_from_cons2 A neqb), run_values_cons2.
      assert (T : map (fun j => nth (Z.to_nat (j - i)) (x :: y :: t') dflt) (runs_last_from A neqb (i + 1) (y :: t'))
                  = run_values (y :: t')).
      { rewrite <- (IH (i + 1)). apply map_ext_in. intros j Hj.
        apply (runs_last_from_lower A neqb dflt) in Hj.
        replace (Z.to_nat (j - i)) with (S (Z.to_nat (j - (i + 1)))) by lia. reflexivity. }
      destruct (neqb x y); [|exact T]. cbn [map]. rewrite Z.sub_diag, T. reflexivity.
  Qed.

  (* the elements at the run ends *)
  Theorem values_at_run_ends l : take A dflt l (runs_last A neqb l) = run_values l.
  Proof.
    unfold take, Model.runs_last. rewrite <- (values_from l 0). apply map_ext. intros j. rewrite Z.sub_0_r. reflexivity.
  Qed.

  (* x[ index[j] ] for j over the run ends of x[index] *)
  Theorem values_selected x index :
    take A dflt x (map (getZ index) (runs_last A neqb (take A dflt x index))) = run_values (take A dflt x index).
  Proof.
    rewrite <- values_at_run_ends. unfold take at 1 3. rewrite map_map. apply map_ext_in. intros j Hj.
    apply (runs_last_In A neqb dflt) in Hj. destruct Hj as [k [-> [Hk _]]].
    unfold take in *. rewrite map_length in Hk.
    unfold getZ. destruct (Z.of_nat k <? 0) eqn:E; [lia|]. rewrite Nat2Z.id.
    set (f := fun j : Z => nth (Z.to_nat j) x dflt).
    rewrite (nth_indep (map f index) dflt (f 0)) by (rewrite map_length; exact Hk).
    rewrite (map_nth f). reflexivity.
  Qed.

  Lemma run_values_incl l : forall u, In u (run_values l) -> In u l.
  Proof.
    induction l as [|x t IH]; intros u H; [exact H|].
    destruct t as [|y t']; [exact H|]. rewrite run_values_cons2 in H.
    destruct (neqb x y); [destruct H as [<-|H]; [left; reflexivity|right; apply IH, H]|right; apply IH, H].
  Qed.

  Lemma run_values_complete l : forall v, In v l -> exists u, In u (run_values l) /\ neqb v u = false.
  Proof.
    induction l as [|x t IH]; intros v H; [destruct H|].
    destruct t as [|y t'].
    - destruct H as [<-|[]]. exists x. split; [left; reflexivity|apply neqb_refl].
    - rewrite run_values_cons2. destruct (neqb x y) eqn:E.
      + destruct H as [<-|H].
        * exists x. split; [left; reflexivity|apply neqb_refl].
        * destruct (IH v H) as [u [Hu Ev]]. exists u. split; [right; exact Hu|exact Ev].
      + destruct H as [<-|H].
        * destruct (IH y (or_introl eq_refl)) as [u [Hu Ev]]. exists u. split; [exact Hu|].
          apply (eq_trans x y u E Ev).
        * apply IH, H.
  Qed.

  Lemma sorted_head_le x l : is_sortedb leb (x :: l) = true -> forall b, In b l -> leb x b = true.
  Proof.
    revert x. induction l as [|y t IH]; intros x S b Hb; [destruct Hb|].
    unfold is_sortedb in S. cbn [tl combine forallb fst snd] in S. apply andb_true_iff in S. destruct S as [S1 S2].
    destruct Hb as [<-|Hb]; [exact S1|]. apply (leb_trans x y b S1). apply IH; [exact S2|exact Hb].
  Qed.

  (* for sorted input the selected values are strictly increasing *)
  Theorem run_values_increasing l : is_sortedb leb l = true ->
    StronglySorted (fun a b => leb a b = true /\ neqb a b = true) (run_values l).
  Proof.
    induction l as [|x t IH]; intros S; [constructor|].
    destruct t as [|y t']; [repeat constructor|].
    assert (St : is_sortedb leb (y :: t') = true).
    { unfold is_sortedb in *. cbn [tl combine forallb] in S. apply andb_true_iff in S. apply S. }
    rewrite run_values_cons2. destruct (neqb x y) eqn:E; [|apply IH, St].
    constructor; [apply IH, St|]. apply Forall_forall. intros b Hb. apply run_values_incl in Hb.
    assert (Lxy : leb x y = true) by (apply (sorted_head_le x (y :: t') S); left; reflexivity).
    assert (Lyb : leb y b = true).
    { destruct Hb as [<-|Hb]; [apply eq_leb, neqb_refl|apply (sorted_head_le y t' St b Hb)]. }
    split; [apply (leb_trans x y b Lxy Lyb)|].
    destruct (neqb x b) eqn:Eb; [reflexivity|exfalso].
    (* x = b and x <= y <= b: then y = x *)
    assert (Lbx : leb b x = true) by (apply eq_leb; rewrite neqb_sym; exact Eb).
    assert (Lyx : leb y x = true) by (apply (leb_trans y b x Lyb Lbx)).
    pose proof (leb_antisym x y Lxy Lyx) as C. congruence.
  Qed.
End Values.

(* ------------------------------------------------------------------ instances through the GENERATED model *)

Theorem uniqZ_indexed_values x index :
  index <> [] -> is_sortedb Z.leb (take Z 0 x index) = true -> all_same neqbZ (take Z 0 x index) = false ->
  let vals := take Z 0 x (Model.uniq_indexed Z gneqbZ_indexed 0 x index) in
  vals = run_values Z neqbZ (take Z 0 x index) /\
  StronglySorted Z.lt vals /\
  (forall v, In v (take Z 0 x index) <-> In v vals).
Proof.
  intros Hne S C vals. subst vals. rewrite uniqZ_indexed_nonconstant by assumption.
  rewrite (values_selected Z neqbZ Z.leb 0 Zh_refl neqbZ_sym Zh_eqtrans Zh_letrans Zh_antisym Zh_eqle). split; [reflexivity|]. split.
  - pose proof (run_values_increasing Z neqbZ Z.leb Zh_refl neqbZ_sym Zh_letrans Zh_antisym Zh_eqle _ S) as R.
    eapply StronglySorted_ind with (P := fun l => StronglySorted Z.lt l); [constructor| |exact R].
    intros a l _ IH F. constructor; [exact IH|]. eapply Forall_impl; [|exact F].
    intros b [H1 H2]. unfold neqbZ in H2. lia.
  - intros v. split.
    + intros H. destruct (run_values_complete Z neqbZ Zh_refl Zh_eqtrans _ v H) as [u [Hu E]].
      apply neqbZ_false in E. subst u. exact Hu.
    + apply run_values_incl.
Qed.

Theorem uniqQ_indexed_values x index :
  index <> [] -> is_sortedb Qle_bool (take Q 0%Q x index) = true -> all_same neqbQ (take Q 0%Q x index) = false ->
  let vals := take Q 0%Q x (Model.uniq_indexed Q gneqbQ_indexed 0%Q x index) in
  vals = run_values Q neqbQ (take Q 0%Q x index) /\
  StronglySorted (fun a b => Qle_bool a b = true /\ neqbQ a b = true) vals /\
  (forall v, In v (take Q 0%Q x index) -> exists u, In u vals /\ (v == u)%Q) /\
  (forall u, In u vals -> In u (take Q 0%Q x index)).
Proof.
  intros Hne S C vals. subst vals. rewrite uniqQ_indexed_nonconstant by assumption.
  rewrite (values_selected Q neqbQ Qle_bool 0%Q Qh_refl neqbQ_sym Qh_eqtrans Qh_letrans Qh_antisym Qh_eqle). split; [reflexivity|]. split; [|split].
  - apply (run_values_increasing Q neqbQ Qle_bool Qh_refl neqbQ_sym Qh_letrans Qh_antisym Qh_eqle _ S).
  - intros v H. destruct (run_values_complete Q neqbQ Qh_refl Qh_eqtrans _ v H) as [u [Hu E]].
    exists u. split; [exact Hu|apply neqbQ_false, E].
  - apply run_values_incl.
Qed.

(* plain uniq on a sorted array: the same values *)
Theorem uniqZ_values l : l <> [] -> is_sortedb Z.leb l = true ->
  take Z 0 l (Model.uniq Z gneqbZ_plain l) = run_values Z neqbZ l.
Proof.
  intros Hne S. rewrite uniqZ_spec by assumption.
  apply (values_at_run_ends Z neqbZ Z.leb 0 Zh_refl neqbZ_sym Zh_eqtrans Zh_letrans Zh_antisym Zh_eqle).
Qed.
