(* C12 -- membership depends only on what every storage route must deliver: NCAPS, USE_CAPS and the
   first NCAPS caps.  Padding slots of FITS rows, uninitialised slots of the balkans record array and
   any other difference between the containers cannot change an answer. *)
From Coq Require Import ZArith QArith List Bool Lia.
Import ListNotations.
From PV Require Import C12.Spec Generated.Mangle C12.Model C12.Proofs.
Open Scope Z_scope.

Definition same_visible (P P' : polygon) : Prop :=
  pn P = pn P' /\ puse P = puse P' /\ firstn (pn P) (pcaps P) = firstn (pn P') (pcaps P').

Lemma fold_left_ext_in {A B} (f g : A -> B -> A) l : forall a,
  (forall a x, In x l -> f a x = g a x) -> fold_left f l a = fold_left g l a.
Proof.
  induction l as [|x l IH]; intros a H; [reflexivity|]. cbn [fold_left].
  rewrite (H a x (or_introl eq_refl)). apply IH. intros a' x' Hx. apply H. right. exact Hx.
Qed.

Lemma in_polygon_same_visible P P' ncaps p : same_visible P P' -> in_polygon P ncaps p = in_polygon P' ncaps p.
Proof.
  intros (Hn & Hu & Hc). unfold in_polygon.
  assert (usencaps P ncaps = usencaps P' ncaps) as Eu by (unfold usencaps; rewrite Hn; reflexivity).
  rewrite <- Eu, <- Hu. apply fold_left_ext_in. intros acc i Hi. apply in_seq in Hi.
  rewrite usencaps_eq in Hi. pose proof (usencaps_le P ncaps) as L.
  assert (nth_error (pcaps P) i = nth_error (pcaps P') i) as ->; [|reflexivity].
  transitivity (nth_error (firstn (pn P) (pcaps P)) i).
  - rewrite nth_error_firstn. destruct (Nat.ltb_spec i (pn P)); [reflexivity|lia].
  - rewrite Hc, nth_error_firstn. destruct (Nat.ltb_spec i (pn P')); [reflexivity|lia].
Qed.

Lemma window_step_same_visible ncaps pts st P P' : same_visible P P' ->
  window_step ncaps pts st P = window_step ncaps pts st P'.
Proof.
  intro H. destruct st as [assigned k]. unfold window_step. f_equal.
  apply map_ext. intros [a p]. rewrite (in_polygon_same_visible P P' ncaps p H). reflexivity.
Qed.

(* identical answers from every storage route that delivers the same visible data *)
Lemma in_window_storage_independent Ps Ps' ncaps pts : Forall2 same_visible Ps Ps' ->
  in_window Ps ncaps pts = in_window Ps' ncaps pts.
Proof.
  intro H. unfold in_window, in_window_idx. f_equal. f_equal.
  generalize (map (fun _ : vec => gen_window_default) pts, gen_window_start). induction H as [|P P' Ps Ps' HP _ IH]; intro st; [reflexivity|].
  cbn [fold_left]. rewrite (window_step_same_visible ncaps pts st P P' HP). apply IH.
Qed.

(* the balkans polygons are well formed (hold as many caps as NCAPS says) when every run lies inside the
   cap table, so the window-lookup theorems apply to them *)
Lemma balkans_slice_wf bcaps blist :
  Forall (fun r : nat * nat => (fst r + snd r <= length bcaps)%nat) blist ->
  Forall wf_poly (balkans_slice bcaps blist).
Proof.
  intro H. unfold balkans_slice. apply Forall_map. eapply Forall_impl; [|exact H].
  intros [icap n] Hr. cbn [fst snd] in Hr. unfold wf_poly. rewrite balkans_poly_caps.
  rewrite slice_length by exact Hr. apply le_n.
Qed.

(* an empty window contains no point; a whole-sky polygon (no caps) takes every point that reaches it *)
Lemma in_window_nil ncaps pts : in_window [] ncaps pts = map (fun _ => (false, -1)) pts.
Proof.
  unfold in_window, in_window_idx. cbn [fold_left fst]. rewrite map_map. reflexivity.
Qed.

Lemma whole_sky_takes_rest Ps P Qs ncaps p : Forall wf_poly Ps -> pn P = 0%nat ->
  first_match Ps ncaps p = None ->
  first_match (Ps ++ P :: Qs) ncaps p = Some (length Ps).
Proof.
  intros Hwf HP Hnone. apply first_match_some. split.
  - exists P. split.
    + rewrite nth_error_app2 by apply le_n. rewrite Nat.sub_diag. reflexivity.
    + rewrite <- in_polygon_refines by (unfold wf_poly in *; lia). apply no_caps_contains_all. exact HP.
  - intros j Pj Hj Hn. rewrite nth_error_app1 in Hn by exact Hj.
    rewrite first_match_none in Hnone. apply (Hnone j Pj Hn).
Qed.
