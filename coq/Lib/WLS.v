(* Weighted least squares over Q: the normal equations characterise the optimum.
   Data are rows paired with weight and observation: list (row * w * y). *)
From Coq Require Import QArith Lqa List Setoid Morphisms.
Import ListNotations.
Open Scope Q_scope.

Fixpoint dot (u v : list Q) : Q :=
  match u, v with a :: u', b :: v' => a * b + dot u' v' | _, _ => 0 end.
Fixpoint vadd (u v : list Q) : list Q :=
  match u, v with a :: u', b :: v' => (a + b) :: vadd u' v' | _, _ => [] end.
Definition vscale (c : Q) (u : list Q) := map (Qmult c) u.
Definition zeros (m : nat) := repeat 0 m.

Definition obs := (list Q * Q * Q)%type.
Definition resid (x : list Q) (o : obs) : Q := let '(r, w, y) := o in dot r x - y.
Fixpoint chi2 (D : list obs) (x : list Q) : Q :=
  match D with [] => 0 | o :: D' => let '(r, w, y) := o in w * (resid x o * resid x o) + chi2 D' x end.
(* gradient contracted with a direction d : sum_i w_i * resid_i * (r_i . d) *)
Fixpoint gdot (D : list obs) (x d : list Q) : Q :=
  match D with [] => 0 | o :: D' => let '(r, w, y) := o in w * resid x o * dot r d + gdot D' x d end.

Lemma dot_vadd r x d : length x = length d -> length r = length x ->
  dot r (vadd x d) == dot r x + dot r d.
Proof.
  revert x d; induction r as [|a r IH]; intros [|b x] [|c d] H1 H2; simpl in *; try discriminate; try ring.
  rewrite IH by congruence. ring.
Qed.

Definition wf (m : nat) (D : list obs) := Forall (fun o => length (fst (fst o)) = m /\ 0 <= snd (fst o)) D.

Lemma chi2_expand m D x d : wf m D -> length x = m -> length d = m ->
  exists s, 0 <= s /\ chi2 D (vadd x d) == chi2 D x + 2 * gdot D x d + s.
Proof.
  intros HD Hx Hd. induction HD as [|[[r w] y] D [Hr Hw] HD IH]; simpl in *.
  - exists 0; split; [lra | ring].
  - destruct IH as [s [Hs IH]].
    exists (w * (dot r d * dot r d) + s). split.
    + assert (0 <= w * (dot r d * dot r d)).
      { apply Qmult_le_0_compat; [exact Hw|]. generalize (dot r d); intro t. nra. }
      lra.
    + rewrite IH. rewrite (dot_vadd r x d) by congruence. ring.
Qed.

(* if the gradient vanishes at x (normal equations), x minimises chi2 *)
Theorem normal_eq_optimal m D x :
  wf m D -> length x = m ->
  (forall d, length d = m -> gdot D x d == 0) ->
  forall d, length d = m -> chi2 D x <= chi2 D (vadd x d).
Proof.
  intros HD Hx Hg d Hd. destruct (chi2_expand m D x d HD Hx Hd) as [s [Hs E]].
  rewrite E, (Hg d Hd). lra.
Qed.
