(* C05 -- proofs about the specification model of C05/Model.v: components_spec, lists_spec *)
From Coq Require Import ZArith List Bool Arith Lia Relations Sorted Wf_nat.
Import ListNotations.
From PV Require Import C05.Model.

Lemma memb_In : forall x l, memb x l = true <-> In x l.
Proof.
  intros. unfold memb. rewrite existsb_exists. split.
  - intros [y [Hy He]]. apply Nat.eqb_eq in He. subst. exact Hy.
  - intro H. exists x. split; [exact H|apply Nat.eqb_refl].
Qed.

Lemma filter_length_le : forall (f g : nat -> bool) l,
  (forall x, In x l -> f x = true -> g x = true) -> length (filter f l) <= length (filter g l).
Proof.
  induction l as [|a r IH]; intro H; simpl; [lia|].
  assert (IH' : length (filter f r) <= length (filter g r)) by (apply IH; intros; apply H; auto; right; auto).
  destruct (f a) eqn:Ef.
  - rewrite (H a (or_introl eq_refl) Ef). simpl. lia.
  - destruct (g a); simpl; lia.
Qed.

Lemma filter_length_eq : forall (f g : nat -> bool) l,
  (forall x, In x l -> f x = true -> g x = true) ->
  length (filter f l) = length (filter g l) -> filter f l = filter g l.
Proof.
  induction l as [|a r IH]; intros H Hl; simpl in *; [reflexivity|].
  assert (Hr : forall x, In x r -> f x = true -> g x = true) by (intros; apply H; auto).
  pose proof (filter_length_le f g r Hr) as Hle.
  destruct (f a) eqn:Ef.
  - rewrite (H a (or_introl eq_refl) Ef) in *. simpl in Hl. f_equal. apply IH; auto.
  - destruct (g a); simpl in Hl; [lia|]. apply IH; auto.
Qed.

Lemma filter_len_all : forall (f : nat -> bool) l, length (filter f l) <= length l.
Proof. induction l as [|a r IH]; simpl; [lia|]. destruct (f a); simpl; lia. Qed.

Section FoFProofs.
  Variable n : nat.
  Variable link : nat -> nat -> bool.

  (* the linking relation on the points 0..n-1 and the equivalence it generates *)
  Definition R (a b : nat) : Prop := a < n /\ b < n /\ link a b = true.
  Definition E : nat -> nat -> Prop := clos_refl_sym_trans nat R.

  Lemma E_refl : forall a, E a a. Proof. intro. apply rst_refl. Qed.
  Lemma E_sym : forall a b, E a b -> E b a. Proof. intros. apply rst_sym. assumption. Qed.
  Lemma E_trans : forall a b c, E a b -> E b c -> E a c. Proof. intros. eapply rst_trans; eassumption. Qed.

  Lemma E_lt : forall a b, E a b -> (a < n <-> b < n).
  Proof.
    induction 1 as [a b [Ha [Hb _]]| | |]; tauto.
  Qed.

  Lemma lk_E : forall a b, a < n -> b < n -> lk link a b = true -> E a b.
  Proof.
    intros a b Ha Hb H. unfold lk in H. apply orb_true_iff in H. destruct H as [H|H].
    - apply rst_step. repeat split; assumption.
    - apply rst_sym. apply rst_step. repeat split; assumption.
  Qed.

  Lemma In_step : forall S j,
    In j (step n link S) <-> j < n /\ (In j S \/ exists s, In s S /\ lk link s j = true).
  Proof.
    intros. unfold step. rewrite filter_In, in_seq, orb_true_iff, memb_In, existsb_exists.
    split; intros [H1 H2]; (split; [lia|exact H2]).
  Qed.

  Definition isfilt (S : list nat) : Prop := exists f, S = filter f (seq 0 n).

  Lemma step_isfilt : forall S, isfilt (step n link S).
  Proof. intro S. eexists. reflexivity. Qed.

  Lemma isfilt_In_lt : forall S x, isfilt S -> In x S -> x < n.
  Proof. intros S x [f ->] H. apply filter_In in H. destruct H as [H _]. apply in_seq in H. lia. Qed.

  Lemma isfilt_len : forall S, isfilt S -> length S <= n.
  Proof. intros S [f ->]. rewrite <- (seq_length n 0) at 2. apply filter_len_all. Qed.

  Lemma step_sub : forall S f, S = filter f (seq 0 n) ->
    forall x, In x (seq 0 n) -> f x = true -> (memb x S || existsb (fun s => lk link s x) S) = true.
  Proof.
    intros S f -> x Hx Hf. apply orb_true_iff. left. apply memb_In. apply filter_In. auto.
  Qed.

  Lemma step_len : forall S, isfilt S -> length S <= length (step n link S).
  Proof.
    intros S [f Hf]. rewrite Hf at 1. unfold step. apply filter_length_le. apply (step_sub S f Hf).
  Qed.

  Lemma step_fix : forall S, isfilt S -> length (step n link S) = length S -> step n link S = S.
  Proof.
    intros S [f Hf] Hl. symmetry. rewrite Hf at 1. unfold step. apply filter_length_eq.
    - apply (step_sub S f Hf).
    - rewrite <- Hf. symmetry. exact Hl.
  Qed.

  Lemma iter_fix : forall k S, step n link S = S -> iter n link k S = S.
  Proof. induction k; intros S H; simpl; [reflexivity|]. rewrite H. apply IHk. exact H. Qed.

  Lemma iter_isfilt : forall k S, isfilt S -> isfilt (iter n link k S).
  Proof. induction k; intros S H; simpl; [exact H|]. apply IHk. apply step_isfilt. Qed.

  Lemma iter_progress : forall k S, isfilt S ->
    step n link (iter n link k S) = iter n link k S \/ length S + k <= length (iter n link k S).
  Proof.
    induction k; intros S HS; simpl.
    - right. lia.
    - destruct (Nat.eq_dec (length (step n link S)) (length S)) as [e|ne].
      + left. apply step_fix in e; [|exact HS]. rewrite e. rewrite (iter_fix k S e). exact e.
      + pose proof (step_len S HS) as Hle.
        destruct (IHk (step n link S) (step_isfilt S)) as [H|H]; [left; exact H|right; lia].
  Qed.

  Definition start_set (i : nat) : list nat := filter (Nat.eqb i) (seq 0 n).

  Lemma In_start_set : forall i x, In x (start_set i) <-> (x = i /\ i < n).
  Proof.
    intros. unfold start_set. rewrite filter_In, in_seq, Nat.eqb_eq. split.
    - intros [H ->]. split; [reflexivity|lia].
    - intros [-> H]. split; [lia|reflexivity].
  Qed.

  Lemma reach_closed : forall i, i < n -> step n link (reach n link i) = reach n link i.
  Proof.
    intros i Hi. unfold reach. fold (start_set i).
    assert (HS : isfilt (start_set i)) by (eexists; reflexivity).
    destruct (iter_progress n (start_set i) HS) as [H|H]; [exact H|].
    exfalso. pose proof (isfilt_len _ (iter_isfilt n _ HS)) as Hn.
    assert (Hpos : 1 <= length (start_set i)).
    { assert (Hin : In i (start_set i)) by (apply In_start_set; auto).
      destruct (start_set i); [contradiction|simpl; lia]. }
    lia.
  Qed.

  Lemma iter_incl : forall k S x, isfilt S -> In x S -> In x (iter n link k S).
  Proof.
    induction k; intros S x HS H; simpl; [exact H|].
    apply IHk; [apply step_isfilt|]. apply In_step. split; [eapply isfilt_In_lt; eauto|left; exact H].
  Qed.

  Lemma iter_sound : forall i k S,
    (forall x, In x S -> x < n /\ E i x) -> forall x, In x (iter n link k S) -> x < n /\ E i x.
  Proof.
    induction k; intros S HS x H; simpl in H; [apply HS; exact H|].
    apply IHk in H; [exact H|]. clear H x. intros x Hx. apply In_step in Hx.
    destruct Hx as [Hlt [Hx|[s [Hs Hl]]]]; [apply HS; exact Hx|].
    split; [exact Hlt|]. destruct (HS s Hs) as [Hsn Hes].
    eapply E_trans; [exact Hes|]. apply lk_E; assumption.
  Qed.

  Lemma reach_self : forall i, i < n -> In i (reach n link i).
  Proof.
    intros i Hi. unfold reach. apply iter_incl; [eexists; reflexivity|].
    apply (In_start_set i i). auto.
  Qed.

  Lemma closed_E : forall S, step n link S = S -> forall a b, E a b -> (In a S <-> In b S).
  Proof.
    intros S HS a b H. induction H as [a b [Ha [Hb Hl]]| | |]; try tauto.
    split; intro Hin; rewrite <- HS; apply In_step; (split; [assumption|right]).
    - exists a. split; [exact Hin|]. unfold lk. rewrite Hl. reflexivity.
    - exists b. split; [exact Hin|]. unfold lk. rewrite Hl. apply orb_true_r.
  Qed.

  (* reachability by n rounds of neighbour expansion is the class of i *)
  Lemma reach_spec : forall i x, i < n -> (In x (reach n link i) <-> E i x).
  Proof.
    intros i x Hi. split.
    - intro H. unfold reach in H. eapply (iter_sound i n (start_set i)) in H; [apply H|].
      intros y Hy. apply In_start_set in Hy. destruct Hy as [-> _]. split; [exact Hi|apply E_refl].
    - intro H. apply (closed_E _ (reach_closed i Hi) i x H). apply reach_self. exact Hi.
  Qed.

  Lemma reach_lt : forall i x, i < n -> In x (reach n link i) -> x < n.
  Proof. intros i x Hi H. apply reach_spec in H; [|exact Hi]. apply (E_lt i x H). exact Hi. Qed.

  (* ---------------------------------------------------------------- starts = least members, increasing *)
  Definition least (s : nat) : Prop := forall j, j < s -> ~ E j s.

  Lemma least_unique : forall s s', least s -> least s' -> E s s' -> s = s'.
  Proof.
    intros s s' Hs Hs' H. destruct (Nat.lt_trichotomy s s') as [Hlt|[He|Hgt]]; [|exact He|].
    - exfalso. exact (Hs' s Hlt H).
    - exfalso. exact (Hs s' Hgt (E_sym _ _ H)).
  Qed.

  Definition inv (a : nat) (done : list nat) : Prop :=
    forall x, x < n -> (In x done <-> exists j, j < a /\ E j x).

  Lemma starts_from_char : forall m a done, a + m = n -> inv a done ->
    forall s, In s (starts_from n link (seq a m) done) <-> (a <= s < n /\ least s).
  Proof.
    induction m as [|m IH]; intros a done Ham Hinv s; simpl.
    - split; [contradiction|lia].
    - assert (Han : a < n) by lia.
      destruct (memb a done) eqn:Ea.
      + apply memb_In in Ea. apply (Hinv a Han) in Ea. destruct Ea as [j0 [Hj0 Ej0]].
        rewrite (IH (S a) done); [|lia|].
        * split; intros [Hr Hl]; (split; [|exact Hl]); [lia|].
          destruct (Nat.eq_dec s a) as [->|]; [|lia]. exfalso. exact (Hl j0 Hj0 Ej0).
        * intros x Hx. rewrite (Hinv x Hx). split; intros [j [Hj Ej]].
          -- exists j. split; [lia|exact Ej].
          -- destruct (Nat.eq_dec j a) as [->|]; [|exists j; split; [lia|exact Ej]].
             exists j0. split; [exact Hj0|]. eapply E_trans; eauto.
      + assert (Hla : least a).
        { intros j Hj Ej. assert (In a done) by (apply (Hinv a Han); exists j; auto).
          apply memb_In in H. congruence. }
        cbn [In]. rewrite (IH (S a) (reach n link a ++ done)); [|lia|].
        * split.
          -- intros [<-|[Hr Hl]]; [split; [lia|exact Hla]|split; [lia|exact Hl]].
          -- intros [Hr Hl]. destruct (Nat.eq_dec a s) as [->|]; [left; reflexivity|right; split; [lia|exact Hl]].
        * intros x Hx. rewrite in_app_iff, (reach_spec a x Han), (Hinv x Hx). split.
          -- intros [H|[j [Hj Ej]]]; [exists a; split; [lia|exact H]|exists j; split; [lia|exact Ej]].
          -- intros [j [Hj Ej]]. destruct (Nat.eq_dec j a) as [->|]; [left; exact Ej|right; exists j; split; [lia|exact Ej]].
  Qed.

  Lemma starts_char : forall s, In s (starts n link) <-> (s < n /\ least s).
  Proof.
    intro s. unfold starts. rewrite (starts_from_char n 0 []); [split; intros [H1 H2]; (split; [lia|exact H2])|lia|].
    intros x Hx. split; [contradiction|]. intros [j [Hj _]]. lia.
  Qed.

  Lemma starts_from_incl : forall todo done s, In s (starts_from n link todo done) -> In s todo.
  Proof.
    induction todo as [|a r IH]; intros done s H; simpl in *; [exact H|].
    destruct (memb a done).
    - right. eapply IH; exact H.
    - destruct H as [H|H]; [left; exact H|right; eapply IH; exact H].
  Qed.

  Lemma starts_from_sorted : forall m a done, StronglySorted lt (starts_from n link (seq a m) done).
  Proof.
    induction m as [|m IH]; intros a done; simpl; [constructor|].
    destruct (memb a done); [apply IH|].
    constructor; [apply IH|]. apply Forall_forall. intros x Hx.
    apply starts_from_incl in Hx. apply in_seq in Hx. lia.
  Qed.

  Lemma starts_sorted : StronglySorted lt (starts n link).
  Proof. apply starts_from_sorted. Qed.

  Lemma sorted_nth_lt : forall l k k' a b, StronglySorted lt l ->
    k < k' -> nth_error l k = Some a -> nth_error l k' = Some b -> a < b.
  Proof.
    induction l as [|x r IH]; intros k k' a b Hs Hk Ha Hb; [destruct k; discriminate|].
    inversion Hs as [|? ? Hs' Hf]; subst.
    destruct k' as [|k']; [lia|]. simpl in Hb. destruct k as [|k]; simpl in Ha.
    - inversion Ha; subst. rewrite Forall_forall in Hf. apply Hf. eapply nth_error_In; eauto.
    - apply (IH k k' a b Hs'); [lia|exact Ha|exact Hb].
  Qed.

  Lemma starts_NoDup : NoDup (starts n link).
  Proof.
    pose proof starts_sorted as H. induction H as [|a l Hs IH Hf]; constructor; [|exact IH].
    intro Hin. rewrite Forall_forall in Hf. specialize (Hf a Hin). lia.
  Qed.

  (* every point has a start (the least member of its class) equivalent to it *)
  Lemma exists_start : forall i, i < n -> exists s, In s (starts n link) /\ E s i.
  Proof.
    intros i Hi.
    pose (P := fun x => x < n /\ In i (reach n link x)).
    assert (Hdec : forall x, P x \/ ~ P x).
    { intro x. unfold P. destruct (lt_dec x n) as [Hx|Hx]; [|right; tauto].
      destruct (in_dec Nat.eq_dec i (reach n link x)) as [H|H]; [left; auto|right; tauto]. }
    assert (Hex : exists x, P x) by (exists i; split; [exact Hi|apply reach_self; exact Hi]).
    destruct (dec_inh_nat_subset_has_unique_least_element P Hdec Hex) as [s [[[Hsn Hs] Hmin] _]].
    exists s. apply reach_spec in Hs; [|exact Hsn]. split; [|exact Hs].
    apply starts_char. split; [exact Hsn|]. intros j Hj Ej.
    assert (Hjn : j < n) by (apply (E_lt j s Ej); exact Hsn).
    assert (Pj : P j).
    { split; [exact Hjn|]. apply reach_spec; [exact Hjn|]. eapply E_trans; eauto. }
    specialize (Hmin j Pj). lia.
  Qed.

  Lemma find_comp_spec : forall i st g,
    (exists s, In s st /\ In i (reach n link s)) ->
    exists k s, nth_error st k = Some s /\ In i (reach n link s) /\ find_comp i (map (reach n link) st) g = g + k.
  Proof.
    induction st as [|a r IH]; intros g [s [Hs Hi]]; [contradiction|]. simpl.
    destruct (memb i (reach n link a)) eqn:Ea.
    - exists 0, a. apply memb_In in Ea. split; [reflexivity|split; [exact Ea|lia]].
    - destruct Hs as [->|Hs]; [apply memb_In in Hi; congruence|].
      destruct (IH (S g) (ex_intro _ s (conj Hs Hi))) as [k [s' [Hn [Hr Hf]]]].
      exists (S k), s'. split; [exact Hn|split; [exact Hr|lia]].
  Qed.

  Lemma label_spec : forall i, i < n ->
    exists s, nth_error (starts n link) (label n link i) = Some s /\ E s i /\ least s /\ s < n.
  Proof.
    intros i Hi. destruct (exists_start i Hi) as [s0 [Hs0 Es0]].
    assert (Hs0n : s0 < n) by (apply starts_char in Hs0; tauto).
    destruct (find_comp_spec i (starts n link) 0) as [k [s [Hn [Hr Hf]]]].
    { exists s0. split; [exact Hs0|]. apply reach_spec; assumption. }
    exists s. unfold label, comps. rewrite Hf. simpl.
    assert (Hin : In s (starts n link)) by (eapply nth_error_In; eauto).
    apply starts_char in Hin. destruct Hin as [Hsn Hl].
    split; [exact Hn|]. split; [apply reach_spec in Hr; assumption|]. split; assumption.
  Qed.

  Lemma label_start : forall k s, nth_error (starts n link) k = Some s -> label n link s = k.
  Proof.
    intros k s Hn.
    assert (Hin : In s (starts n link)) by (eapply nth_error_In; eauto).
    apply starts_char in Hin. destruct Hin as [Hsn Hl].
    destruct (label_spec s Hsn) as [s' [Hn' [Es' [Hl' _]]]].
    assert (s' = s) by (apply least_unique; assumption). subst s'.
    apply (proj1 (NoDup_nth_error (starts n link)) starts_NoDup).
    - apply nth_error_Some. congruence.
    - congruence.
  Qed.

  (* ---------------------------------------------------------------- components_spec *)
  Theorem label_same_iff : forall i j, i < n -> j < n -> (label n link i = label n link j <-> E i j).
  Proof.
    intros i j Hi Hj.
    destruct (label_spec i Hi) as [si [Hni [Ei [Hli _]]]].
    destruct (label_spec j Hj) as [sj [Hnj [Ej [Hlj _]]]].
    split.
    - intro H. rewrite H in Hni. assert (si = sj) by congruence. subst sj.
      eapply E_trans; [apply E_sym; exact Ei|exact Ej].
    - intro H. assert (si = sj).
      { apply least_unique; auto. eapply E_trans; [exact Ei|]. eapply E_trans; [exact H|apply E_sym; exact Ej]. }
      subst sj. apply (proj1 (NoDup_nth_error (starts n link)) starts_NoDup).
      + apply nth_error_Some. congruence.
      + congruence.
  Qed.

  Theorem label_range : forall i, i < n -> label n link i < ngroups n link.
  Proof.
    intros i Hi. destruct (label_spec i Hi) as [s [Hn _]].
    unfold ngroups, comps. rewrite map_length. apply nth_error_Some. congruence.
  Qed.

  Theorem label_onto : forall g, g < ngroups n link -> exists i, i < n /\ label n link i = g.
  Proof.
    intros g Hg. unfold ngroups, comps in Hg. rewrite map_length in Hg.
    destruct (nth_error (starts n link) g) as [s|] eqn:Hs; [|apply nth_error_None in Hs; lia].
    exists s. split; [|apply label_start; exact Hs].
    apply nth_error_In in Hs. apply starts_char in Hs. tauto.
  Qed.

  (* groups are numbered in order of their first member *)
  Theorem label_order : forall i j, i < n -> j < n -> label n link i < label n link j ->
    exists i', i' < j /\ label n link i' = label n link i.
  Proof.
    intros i j Hi Hj Hlt.
    destruct (label_spec i Hi) as [si [Hni [Ei [Hli Hsin]]]].
    destruct (label_spec j Hj) as [sj [Hnj [Ej [Hlj _]]]].
    exists si. split; [|apply label_start; exact Hni].
    assert (si < sj) by (apply (sorted_nth_lt (starts n link) _ _ si sj starts_sorted Hlt Hni Hnj)).
    assert (sj <= j).
    { destruct (le_lt_dec sj j) as [H0|H0]; [exact H0|]. exfalso. exact (Hlj j H0 (E_sym _ _ Ej)). }
    lia.
  Qed.

  Lemma components_nth : forall i, i < n -> nth_error (components n link) i = Some (label n link i).
  Proof.
    intros i Hi. unfold components. cbv zeta.
    rewrite nth_error_map. rewrite (nth_error_nth' (seq 0 n) 0) by (rewrite seq_length; exact Hi).
    rewrite seq_nth by exact Hi. reflexivity.
  Qed.
End FoFProofs.

(* ================================================================== lists_spec *)
Section ListsProofs.
  Variable n : nat.
  Variable lab : nat -> nat.

  Lemma walk_filter : forall g m a fuel, a + m = n -> m < fuel ->
    walk fuel (next_of n lab) (hdz (filter (fun i => Nat.eqb (lab i) g) (seq a m)))
    = filter (fun i => Nat.eqb (lab i) g) (seq a m).
  Proof.
    induction m as [|m IH]; intros a fuel Ham Hf.
    - simpl. destruct fuel; [lia|]. reflexivity.
    - destruct fuel as [|fuel]; [lia|].
      change (seq a (S m)) with (a :: seq (S a) m).
      cbn [filter]. destruct (Nat.eqb (lab a) g) eqn:Ea.
      + cbn [hdz walk]. assert (Hneg : (Z.of_nat a <? 0)%Z = false) by (apply Z.ltb_ge; lia).
        rewrite Hneg, Nat2Z.id. f_equal.
        unfold next_of. apply Nat.eqb_eq in Ea. rewrite Ea.
        replace (n - S a) with m by lia. apply IH; lia.
      + apply IH; lia.
  Qed.

  (* following next[] from first[g] visits the members of g increasingly, each once, and ends at -1 *)
  Theorem walk_members : forall g,
    walk (S n) (next_of n lab) (first_of n lab g) = members n lab g.
  Proof. intro g. unfold first_of, members. apply walk_filter; lia. Qed.

  Theorem first_least : forall g,
    match members n lab g with
    | [] => first_of n lab g = (-1)%Z
    | i :: _ => first_of n lab g = Z.of_nat i /\ forall j, j < n -> lab j = g -> i <= j
    end.
  Proof.
    intro g. unfold first_of.
    assert (Hsorted : forall a m l i, filter (fun i => Nat.eqb (lab i) g) (seq a m) = i :: l ->
                       forall j, a <= j < a + m -> lab j = g -> i <= j).
    { intros a m. revert a. induction m as [|m IH]; intros a l i H j Hj Hg; [simpl in H; discriminate|].
      change (seq a (S m)) with (a :: seq (S a) m) in H. cbn [filter] in H.
      destruct (Nat.eqb (lab a) g) eqn:Ea.
      - inversion H; subst. lia.
      - destruct (Nat.eq_dec j a) as [->|]; [apply Nat.eqb_neq in Ea; contradiction|].
        eapply IH; eauto. lia. }
    unfold members. destruct (filter (fun i => Nat.eqb (lab i) g) (seq 0 n)) eqn:Em; [reflexivity|].
    split; [reflexivity|]. intros j Hj Hg. eapply Hsorted; eauto. lia.
  Qed.

  Theorem members_spec : forall g i, In i (members n lab g) <-> (i < n /\ lab i = g).
  Proof. intros. unfold members. rewrite filter_In, in_seq, Nat.eqb_eq. split; intros [H1 H2]; (split; [lia|exact H2]). Qed.

  Theorem mult_size : forall g, mult_of n lab g = Z.of_nat (length (members n lab g)).
  Proof. reflexivity. Qed.

  (* entries beyond the last group *)
  Theorem beyond_groups : forall ng g, (forall i, i < n -> lab i < ng) -> ng <= g ->
    mult_of n lab g = 0%Z /\ first_of n lab g = (-1)%Z.
  Proof.
    intros ng g H Hg. unfold mult_of, first_of.
    assert (Hm : members n lab g = []).
    { destruct (members n lab g) as [|i l] eqn:Em; [reflexivity|].
      assert (Hin : In i (members n lab g)) by (rewrite Em; left; reflexivity).
      apply members_spec in Hin. destruct Hin as [Hi Hl]. specialize (H i Hi). lia. }
    rewrite Hm. split; reflexivity.
  Qed.

  Lemma lists_of_nth : forall g, g < n ->
    nth_error (fst (fst (lists_of n lab))) g = Some (mult_of n lab g) /\
    nth_error (snd (fst (lists_of n lab))) g = Some (first_of n lab g) /\
    nth_error (snd (lists_of n lab)) g = Some (next_of n lab g).
  Proof.
    intros g Hg. unfold lists_of. cbn [fst snd].
    rewrite !nth_error_map. rewrite (nth_error_nth' (seq 0 n) 0) by (rewrite seq_length; exact Hg).
    rewrite seq_nth by exact Hg. auto.
  Qed.
End ListsProofs.
