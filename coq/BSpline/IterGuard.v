(* Round 5: the guards of iterfit around the rejection loop (BSpline/Iter.v: iterfit_guarded_with).
   G1  with at least nord good points -- in particular with EXACTLY nord -- the guarded model is the loop model
   G2  with fewer, the mask returned is (invvar > 0) in the caller's order: non-positive weights are flagged False
   G3  the number of good points does not depend on the order of the input *)
From Coq Require Import QArith List Bool Arith Lia Permutation.
Import ListNotations.
From PV Require Import Lib.WLS BSpline.Eval BSpline.Fit BSpline.Iter BSpline.PermProofs BSpline.IterProofs.
Open Scope Q_scope.

Theorem iterfit_guarded_enough sv maxiter lower upper gb k ds perm :
  (k <= ngood (initial_mask (apply_perm d0 perm ds)))%nat ->
  iterfit_guarded_with sv maxiter lower upper gb k ds perm =
  match iterfit_model_with sv maxiter lower upper gb k ds perm with
  | Some (c, m) => Fitted c m
  | None => NoModel
  end.
Proof.
  intros H. unfold iterfit_guarded_with, iterfit_model_with. cbv zeta.
  destruct (ngood (initial_mask (apply_perm d0 perm ds)) <? k)%nat eqn:E.
  - apply Nat.ltb_lt in E. lia.
  - destruct (iter_loop sv (S maxiter) gb k lower upper (apply_perm d0 perm ds) (initial_mask (apply_perm d0 perm ds)))
      as [[c mw]|]; reflexivity.
Qed.

Lemma initial_mask_apply_perm perm ds :
  initial_mask (apply_perm d0 perm ds) = apply_perm false perm (initial_mask ds).
Proof.
  symmetry. exact (apply_perm_map (fun d => Qltb 0 (dw d)) d0 perm ds).
Qed.

Theorem iterfit_guarded_gave_up sv maxiter lower upper gb k ds perm :
  (ngood (initial_mask (apply_perm d0 perm ds)) < k)%nat -> is_perm perm (length ds) = true ->
  iterfit_guarded_with sv maxiter lower upper gb k ds perm = GaveUp (initial_mask ds) /\
  forall j, nth j (initial_mask ds) false = Qltb 0 (dw (nth j ds d0)).
Proof.
  intros H Hp. split; [| intro j; apply nth_initial_mask].
  unfold iterfit_guarded_with. cbv zeta.
  apply Nat.ltb_lt in H. rewrite H.
  rewrite initial_mask_apply_perm. f_equal.
  apply unsort_apply. rewrite length_initial_mask. exact Hp.
Qed.

Lemma filter_Permutation {A} (f : A -> bool) l l' : Permutation l l' -> Permutation (filter f l) (filter f l').
Proof.
  induction 1 as [| a l l' _ IH | a b l | l l' l'' _ IH1 _ IH2]; cbn [filter].
  - constructor.
  - destruct (f a); [constructor|]; exact IH.
  - destruct (f a), (f b); try apply Permutation_refl. apply perm_swap.
  - eapply Permutation_trans; eassumption.
Qed.

Theorem ngood_order_independent ds perm : is_perm perm (length ds) = true ->
  ngood (initial_mask (apply_perm d0 perm ds)) = ngood (initial_mask ds).
Proof.
  intros Hp. unfold ngood. apply Permutation_length, filter_Permutation.
  unfold initial_mask. apply Permutation_map.
  apply apply_perm_Permutation. exact Hp.
Qed.

(* ngood is the count_true of the loop-termination theorem *)
Lemma ngood_count_true m : ngood m = count_true m.
Proof.
  unfold ngood. induction m as [|b m IH]; [reflexivity|].
  cbn [filter count_true]. destruct b; cbn [length]; lia.
Qed.
