#!/usr/bin/env python3
"""Run the registered checks against the seeded breaking changes in /verif/seeded/<id>/.

For each seeded/<id>/ (patch.diff, meta.json with "property"): create a scratch worktree of /repo, apply the
patch, run `PYDL_REPO=<worktree> ./check <property> --tier quick`, record whether a VIOLATION line was
printed (and whether it carried a failing input) in seeded/<id>/result.json, remove the worktree.
Usage: tools/run_seeded.py [id ...]   (default: all)
"""
import json
import os
import subprocess
import sys
import time

HERE = os.path.dirname(os.path.dirname(os.path.abspath(__file__)))
SEEDED = os.path.join(HERE, 'seeded')


def sh(cmd, **kw):
    return subprocess.run(cmd, shell=True, stdout=subprocess.PIPE, stderr=subprocess.STDOUT, text=True, **kw)


def main():
    ids = sys.argv[1:] or sorted(d for d in os.listdir(SEEDED) if os.path.isdir(os.path.join(SEEDED, d)))
    summary = []
    for sid in ids:
        d = os.path.join(SEEDED, sid)
        meta = json.load(open(os.path.join(d, 'meta.json')))
        prop = meta['property']
        wt = '/tmp/seeded-%s-%d' % (sid, os.getpid())
        sh('git -C /repo worktree remove --force %s' % wt)
        r = sh('git -C /repo worktree add --detach %s HEAD' % wt)
        if r.returncode != 0:
            print(sid, 'worktree failed', r.stdout)
            continue
        try:
            r = sh('git -C %s apply %s' % (wt, os.path.join(d, 'patch.diff')))
            if r.returncode != 0:
                res = {'applied': False, 'detail': r.stdout[-500:]}
            else:
                t0 = time.time()
                env = dict(os.environ, PYDL_REPO=wt)
                r = sh('timeout 2400 ./check %s --tier quick' % prop, cwd=HERE, env=env)
                lines = [l for l in r.stdout.splitlines() if l.startswith('VIOLATION')]
                res = {'applied': True, 'exit': r.returncode, 'violation_lines': lines,
                       'detected': bool(lines) and r.returncode == 1,
                       'with_failing_input': any('no-failing-input-found' not in l for l in lines),
                       'seconds': round(time.time() - t0, 1), 'tail': r.stdout[-600:]}
            res['head'] = sh('git -C /repo rev-parse --short HEAD').stdout.strip()
            rp = os.path.join(d, 'result.json')
            if not res.get('applied') and os.path.exists(rp):
                # the patch was written against an earlier HEAD and no longer applies: keep the record of the last run
                # that did apply, and note that it is stale
                old = json.load(open(rp))
                if old.get('applied'):
                    old['no_longer_applies_at'] = res['head']
                    res = old
            json.dump(res, open(rp, 'w'), indent=1)
            summary.append((sid, prop, res.get('detected'), res.get('with_failing_input')))
            print(sid, prop, 'detected=%s failing_input=%s' % (res.get('detected'), res.get('with_failing_input')), flush=True)
        finally:
            sh('git -C /repo worktree remove --force %s' % wt)
    # leave Generated/ in the state of /repo itself
    env = dict(os.environ)
    env.pop('PYDL_REPO', None)
    sh('/venv/bin/python -m harness.regen', cwd=HERE, env=env)
    return 0


if __name__ == '__main__':
    sys.exit(main())
