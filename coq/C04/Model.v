(* C04 -- spherematch returns exactly the pairs closer than the match length.
   Definitions only (proofs are in C04/Proofs.v).

   S  (specification): brute, the statement C04_statement (Prop) and its decidable checker match_ok.
   M  (algorithmic model, a transliteration of pydl/pydlutils/spheregroup.py):
      L1 selection      greedy_count / greedy_fill (the two maxmatch loops), apply_perm (omatch[s])
      L2 bookkeeping    assign_model (chunks.assign: chunkDone reset loop + fill loop, with the RA wrap
                        arithmetic), candidates (the pair loop of spherematch with the sep < L filter)
      geometry (floor binning, fmod, cos, margin walk = chunks.getbounds / chunks.get) is NOT modelled:
      the model receives per list-2 point the value getbounds returned (or None when it raised) and per
      list-1 point the cell get returned.  What the geometry must satisfy is the hypothesis `coverage`. *)
From Coq Require Import ZArith QArith Qround List Bool Arith Sorted.
Import ListNotations.
Close Scope Q_scope. Close Scope Z_scope. Open Scope nat_scope.

Definition cand := (nat * nat * Q)%type.
Definition ci (c : cand) : nat := fst (fst c).
Definition ck (c : cand) : nat := snd (fst c).
Definition cd (c : cand) : Q := snd c.
Definition pairof (c : cand) : nat * nat := fst c.

Definition Qlt_bool (a b : Q) : bool := negb (Qle_bool b a).

(* ------------------------------------------------------------------ L1: selection *)

(* gotten1[i] += 1 *)
Definition upd (g : nat -> nat) (i : nat) : nat -> nat := fun x => if Nat.eqb x i then S (g x) else g x.

(* first pass of the maxmatch > 0 branch: nmatch *)
Fixpoint greedy_count (k : nat) (g1 g2 : nat -> nat) (cs : list cand) : nat :=
  match cs with
  | [] => 0
  | c :: r =>
      if (g1 (ci c) <? k) && (g2 (ck c) <? k)
      then S (greedy_count k (upd g1 (ci c)) (upd g2 (ck c)) r)
      else greedy_count k g1 g2 r
  end.

(* second pass: match1[nmatch] = ..., nmatch += 1 *)
Fixpoint greedy_fill (k : nat) (g1 g2 : nat -> nat) (cs : list cand) : list cand :=
  match cs with
  | [] => []
  | c :: r =>
      if (g1 (ci c) <? k) && (g2 (ck c) <? k)
      then c :: greedy_fill k (upd g1 (ci c)) (upd g2 (ck c)) r
      else greedy_fill k g1 g2 r
  end.

Definition zero : nat -> nat := fun _ => 0.
(* arrays of length nmatch filled at 0..nmatch-1 *)
Definition greedy (k : nat) (cs : list cand) : list cand :=
  firstn (greedy_count k zero zero cs) (greedy_fill k zero zero cs).

(* omatch1[s], omatch2[s], odistance12[s] *)
Definition apply_perm (s : list nat) (cs : list cand) : list cand :=
  flat_map (fun p => match nth_error cs p with Some c => [c] | None => [] end) s.

Fixpoint sortedb (l : list Q) : bool :=
  match l with
  | a :: r => match r with b :: _ => Qle_bool a b && sortedb r | [] => true end
  | [] => true
  end.

(* what is assumed of numpy's argsort: s is a permutation of 0..N-1 and sorts the distances *)
Definition is_perm_of_seq (s : list nat) (N : nat) : bool :=
  Nat.eqb (length s) N && forallb (fun p => existsb (Nat.eqb p) s) (seq 0 N).
Definition is_sorting_perm (s : list nat) (cs : list cand) : bool :=
  is_perm_of_seq s (length cs) && sortedb (map cd (apply_perm s cs)).

Definition select_all (s : list nat) (cs : list cand) : list cand := apply_perm s cs.

(* ------------------------------------------------------------------ L2: hash bookkeeping *)

Definition cell := (Z * Z)%type.     (* (decChunk, raChunk) *)
Definition cell_eqb (a b : cell) : bool := (fst a =? fst b)%Z && (snd a =? snd b)%Z.

(* the if/elif/else computing currRaChunk *)
Definition wrap (nra r : Z) : Z :=
  if (r <? 0)%Z then ((r + nra) mod nra)%Z
  else if (nra - 1 <? r)%Z then ((r - nra) mod nra)%Z
  else r.
Definition in_range (nra c : Z) : bool := (0 <=? c)%Z && (c <=? nra - 1)%Z.

Fixpoint zrange (lo : Z) (len : nat) : list Z :=
  match len with O => [] | S n => lo :: zrange (lo + 1)%Z n end.

(* cells visited by  for raChunk in range(lo - ext, hi + ext + 1)  in slice d *)
Definition row_cells (nRa : Z -> Z) (ext d lo hi : Z) : list cell :=
  let nra := nRa d in
  flat_map (fun r => let c := wrap nra r in if in_range nra c then [(d, c)] else [])
           (zrange (lo - ext)%Z (Z.to_nat (hi + ext + 1 - (lo - ext)))).

Fixpoint rows_cells (nRa : Z -> Z) (ext d : Z) (rs : list (Z * Z)) : list cell :=
  match rs with
  | [] => []
  | (lo, hi) :: r => row_cells nRa ext d lo hi ++ rows_cells nRa ext (d + 1)%Z r
  end.

(* value returned by getbounds: (decChunkMin, [(raChunkMin[j], raChunkMax[j])]); None = it raised *)
Definition bnd := (Z * list (Z * Z))%type.
Definition reset_cells (nRa : Z -> Z) (b : bnd) : list cell := rows_cells nRa 1 (fst b) (snd b).
Definition fill_cells (nRa : Z -> Z) (b : bnd) : list cell := rows_cells nRa 0 (fst b) (snd b).

Record cstate := { cdone : cell -> bool; clist : cell -> list nat }.
Definition cinit : cstate := {| cdone := fun _ => false; clist := fun _ => [] |}.

Definition reset_one (st : cstate) (c : cell) : cstate :=
  {| cdone := fun x => if cell_eqb x c then false else cdone st x; clist := clist st |}.
Definition fill_one (i : nat) (st : cstate) (c : cell) : cstate :=
  if cdone st c then st
  else {| cdone := fun x => if cell_eqb x c then true else cdone st x;
          clist := fun x => if cell_eqb x c then clist st x ++ [i] else clist st x |}.

Definition assign_point (nRa : Z -> Z) (st : cstate) (i : nat) (b : option bnd) : cstate :=
  match b with
  | None => st                                   (* except PydlutilsException: continue *)
  | Some b => fold_left (fill_one i) (fill_cells nRa b) (fold_left reset_one (reset_cells nRa b) st)
  end.

Fixpoint assign_from (nRa : Z -> Z) (st : cstate) (i : nat) (bs : list (option bnd)) : cstate :=
  match bs with
  | [] => st
  | b :: r => assign_from nRa (assign_point nRa st i b) (S i) r
  end.
Definition assign_model (nRa : Z -> Z) (bs : list (option bnd)) : cstate := assign_from nRa cinit 0 bs.

(* the pair loop: for i in range(n1): for k in chunkList[cell_of i]: if sep < L: append *)
Definition candidates (n1 : nat) (cell_of : nat -> cell) (cl : cell -> list nat)
           (sep : nat -> nat -> Q) (L : Q) : list cand :=
  flat_map (fun i => map (fun k => (i, k, sep i k)) (filter (fun k => Qlt_bool (sep i k) L) (cl (cell_of i))))
           (seq 0 n1).

Definition spherematch_model (maxmatch : nat) (nRa : Z -> Z) (bs : list (option bnd)) (n1 : nat)
           (cell_of : nat -> cell) (sep : nat -> nat -> Q) (L : Q) (s : list nat) : list cand :=
  let cs := candidates n1 cell_of (clist (assign_model nRa bs)) sep L in
  if Nat.eqb maxmatch 0 then select_all s cs else greedy maxmatch (apply_perm s cs).

(* ------------------------------------------------------------------ S: specification *)

Definition brute (n1 n2 : nat) (sep : nat -> nat -> Q) (L : Q) : list cand :=
  flat_map (fun i => map (fun k => (i, k, sep i k)) (filter (fun k => Qlt_bool (sep i k) L) (seq 0 n2)))
           (seq 0 n1).

Definition cnt1 (out : list cand) (i : nat) : nat := length (filter (fun c => Nat.eqb (ci c) i) out).
Definition cnt2 (out : list cand) (j : nat) : nat := length (filter (fun c => Nat.eqb (ck c) j) out).
(* how often point i (list 1) / j (list 2) is used by selected pairs that are no farther than d *)
Definition used1 (out : list cand) (i : nat) (d : Q) : nat :=
  length (filter (fun c => Nat.eqb (ci c) i && Qle_bool (cd c) d) out).
Definition used2 (out : list cand) (j : nat) (d : Q) : nat :=
  length (filter (fun c => Nat.eqb (ck c) j && Qle_bool (cd c) d) out).

Section Spec.
  Variables (n1 n2 : nat) (sep : nat -> nat -> Q) (L : Q).

  (* a returned triple is a pair of valid indices, not farther than L, with its true separation *)
  Definition entry_okP (c : cand) : Prop :=
    ci c < n1 /\ ck c < n2 /\ (sep (ci c) (ck c) <= L)%Q /\ (cd c == sep (ci c) (ck c))%Q.

  Definition common_P (out : list cand) : Prop :=
    Forall entry_okP out /\                      (* no pair above L; true separations *)
    NoDup (map pairof out) /\                    (* no pair twice *)
    StronglySorted Qle (map cd out).             (* non-decreasing order of separation *)

  (* maxmatch = 0 *)
  Definition match_all_P (out : list cand) : Prop :=
    common_P out /\
    forall i k, i < n1 -> k < n2 -> (sep i k < L)%Q -> In (i, k) (map pairof out).

  (* maxmatch = k > 0 *)
  Definition match_greedy_P (k : nat) (out : list cand) : Prop :=
    common_P out /\
    (forall i, i < n1 -> cnt1 out i <= k) /\
    (forall j, j < n2 -> cnt2 out j <= k) /\
    (forall i j, i < n1 -> j < n2 -> (sep i j < L)%Q -> ~ In (i, j) (map pairof out) ->
       k <= used1 out i (sep i j) \/ k <= used2 out j (sep i j)).

  Definition C04_statement (k : nat) (out : list cand) : Prop :=
    if Nat.eqb k 0 then match_all_P out else match_greedy_P k out.

  (* ---- the decidable checker *)
  Definition entry_ok (c : cand) : bool :=
    (ci c <? n1) && (ck c <? n2) && Qle_bool (sep (ci c) (ck c)) L && Qeq_bool (cd c) (sep (ci c) (ck c)).
  Definition pair_eqb (a b : nat * nat) : bool := Nat.eqb (fst a) (fst b) && Nat.eqb (snd a) (snd b).
  Fixpoint nodupb (l : list (nat * nat)) : bool :=
    match l with [] => true | a :: r => negb (existsb (pair_eqb a) r) && nodupb r end.
  Definition has_pair (out : list cand) (i k : nat) : bool := existsb (pair_eqb (i, k)) (map pairof out).
  Definition all_pairs (f : nat -> nat -> bool) : bool :=
    forallb (fun i => forallb (fun k => f i k) (seq 0 n2)) (seq 0 n1).
  Definition common_b (out : list cand) : bool :=
    forallb entry_ok out && nodupb (map pairof out) && sortedb (map cd out).
  Definition complete_b (out : list cand) : bool :=
    all_pairs (fun i k => implb (Qlt_bool (sep i k) L) (has_pair out i k)).
  Definition greedy_b (k : nat) (out : list cand) : bool :=
    forallb (fun i => cnt1 out i <=? k) (seq 0 n1) &&
    forallb (fun j => cnt2 out j <=? k) (seq 0 n2) &&
    all_pairs (fun i j => implb (Qlt_bool (sep i j) L && negb (has_pair out i j))
                                ((k <=? used1 out i (sep i j)) || (k <=? used2 out j (sep i j)))).
  Definition match_ok (k : nat) (out : list cand) : bool :=
    common_b out && (if Nat.eqb k 0 then complete_b out else greedy_b k out).
End Spec.

(* geometry hypothesis: every pair closer than L shares the looked-up cell *)
Definition coverage (nRa : Z -> Z) (bs : list (option bnd)) (n1 : nat) (cell_of : nat -> cell)
           (sep : nat -> nat -> Q) (L : Q) : Prop :=
  forall i k, i < n1 -> k < length bs -> (sep i k < L)%Q ->
    exists b, nth_error bs k = Some (Some b) /\ In (cell_of i) (fill_cells nRa b).

(* ------------------------------------------------------------------ correspondence cases *)

Definition sep_of (T : list (list Q)) (i k : nat) : Q := nth k (nth i T []) 0%Q.
Definition nRa_of (l : list Z) (d : Z) : Z := nth (Z.to_nat d) l 1%Z.
Definition cell_of_list (l : list cell) (i : nat) : cell := nth i l (0, 0)%Z.

Definition cand_eqb (a b : cand) : bool :=
  Nat.eqb (ci a) (ci b) && Nat.eqb (ck a) (ck b) && Qeq_bool (cd a) (cd b).
Fixpoint list_eqb {A} (e : A -> A -> bool) (a b : list A) : bool :=
  match a, b with
  | [], [] => true
  | x :: a', y :: b' => e x y && list_eqb e a' b'
  | _, _ => false
  end.

(* recorded discrete data of one run: nRa, getbounds results, get results, argsort permutation,
   chunkList contents per (dec, ra, members) *)
Record recorded := {
  r_nRa : list Z;
  r_bounds : list (option bnd);
  r_cells : list cell;
  r_perm : list nat;
  r_chunklist : list (cell * list nat)
}.

Record case := {
  c_maxmatch : nat;
  c_L : Q;
  c_n2 : nat;
  c_sep : list (list Q);        (* FULL brute-force separation table, n1 rows of n2 *)
  c_out : list cand;            (* (match1, match2, distance12) returned by the implementation *)
  c_rec : option recorded
}.

Definition model_agrees (c : case) (r : recorded) : bool :=
  let n1 := length (c_sep c) in
  let sep := sep_of (c_sep c) in
  let nRa := nRa_of (r_nRa r) in
  let st := assign_model nRa (r_bounds r) in
  let cs := candidates n1 (cell_of_list (r_cells r)) (clist st) sep (c_L c) in
  Nat.eqb (length (r_bounds r)) (c_n2 c) && Nat.eqb (length (r_cells r)) n1 &&
  forallb (fun e => list_eqb Nat.eqb (clist st (fst e)) (snd e)) (r_chunklist r) &&
  is_sorting_perm (r_perm r) cs &&
  list_eqb cand_eqb
    (spherematch_model (c_maxmatch c) nRa (r_bounds r) n1 (cell_of_list (r_cells r)) sep (c_L c) (r_perm r))
    (c_out c).

(* verdict: +1 model differs from the implementation, +2 the implementation's output fails match_ok *)
Definition run_case (c : case) : Z :=
  let n1 := length (c_sep c) in
  ((match c_rec c with Some r => if model_agrees c r then 0 else 1 | None => 0 end) +
   (if match_ok n1 (c_n2 c) (sep_of (c_sep c)) (c_L c) (c_maxmatch c) (c_out c) then 0 else 2))%Z.

Definition run_cases (cs : list case) : list Z := map run_case cs.

(* ------------------------------------------------------------------ L3, discrete half (exact rationals)
   the slice / cell walks of chunks.getbounds, the cell-index arithmetic of getbounds / get and the padding of
   chunks.__init__, with the bounds as data.  The floating-point evaluation of the same expressions, fmod and
   the raOffset rotation are NOT modelled (see notes/C04.md). *)
Definition qbnd (B : list Q) (i : nat) : Q := nth i B 0%Q.

(* while dec - decBounds[decChunkMin] < marginSize and decChunkMin > 0: decChunkMin -= 1 *)
Fixpoint dec_down (B : list Q) (dec m : Q) (c : nat) : nat :=
  match c with
  | O => O
  | S c' => if Qlt_bool (dec - qbnd B (S c')) m then dec_down B dec m c' else S c'
  end.
(* while decBounds[decChunkMax+1] - dec < marginSize and decChunkMax < nDec - 1: decChunkMax += 1 *)
Fixpoint dec_up (B : list Q) (dec m : Q) (nDec fuel c : nat) : nat :=
  match fuel with
  | O => c
  | S f => if Qlt_bool (qbnd B (S c) - dec) m && (S c <? nDec) then dec_up B dec m nDec f (S c) else c
  end.
(* the RA walks (they may leave the slice by one cell: -1 and nRa are wrapped by assign) *)
Fixpoint ra_down (B : list Q) (ra mg : Q) (c : nat) : Z :=
  match c with
  | O => if Qlt_bool (ra - qbnd B 0) mg then (-1)%Z else 0%Z
  | S c' => if Qlt_bool (ra - qbnd B (S c')) mg then ra_down B ra mg c' else Z.of_nat (S c')
  end.
Fixpoint ra_up (B : list Q) (ra mg : Q) (n fuel c : nat) : Z :=
  match fuel with
  | O => Z.of_nat c
  | S f => if (c <? n) && Qlt_bool (qbnd B (S c) - ra) mg then ra_up B ra mg n f (S c) else Z.of_nat c
  end.

(* int(floor((x - bounds[0]) * n / (bounds[n] - bounds[0]))) *)
Definition cell_index (x lo hi : Q) (n : nat) : Z :=
  Qfloor ((x - lo) * inject_Z (Z.of_nat n) / (hi - lo)).
(* lo + (hi - lo) * k / n *)
Definition ebnd (lo hi : Q) (n k : nat) : Q := lo + (hi - lo) * inject_Z (Z.of_nat k) / inject_Z (Z.of_nat n).

(* nDec = 3 + floor(range/minSize); padded range; padded lower end (chunks.__init__, both for Dec and per-slice RA) *)
Definition pad_n (a b w : Q) : nat := (3 + Z.to_nat (Qfloor ((b - a) / w)))%nat.
Definition pad_lo (a b w : Q) : Q := a - (1 # 2) * (w * inject_Z (Z.of_nat (pad_n a b w)) - b + a).
Definition pad_hi (a b w : Q) : Q := pad_lo a b w + w * inject_Z (Z.of_nat (pad_n a b w)).
(* declination: clamp to +-90 when closer than three cells *)
Definition dec_lo (a b w : Q) : Q := if Qlt_bool (pad_lo a b w) (-(90) + 3 * w) then -(90) else pad_lo a b w.
Definition dec_hi (a b w : Q) : Q := if Qlt_bool (90 - 3 * w) (pad_hi a b w) then 90 else pad_hi a b w.

(* chunks.getbounds (repaired version: RA test against raMargin) on exact rationals, bounds as data;
   None = it raised.  mg = raMargin (computed by the caller from sin/cos/arcsin) *)
Fixpoint gb_rows (raB : list (list Q)) (ra mg : Q) (i : nat) (k : nat) : option (list (Z * Z)) :=
  match k with
  | O => Some []
  | S k' =>
      let B := nth i raB [] in
      let n := (length B - 1)%nat in
      let r0 := cell_index ra (qbnd B 0) (qbnd B n) n in
      if (r0 <? 0)%Z || (Z.of_nat n - 1 <? r0)%Z then None
      else match gb_rows raB ra mg (S i) k' with
           | None => None
           | Some rest => Some ((ra_down B ra mg (Z.to_nat r0), ra_up B ra mg n n (Z.to_nat r0)) :: rest)
           end
  end.

Definition getbounds_model (decB : list Q) (raB : list (list Q)) (ra dec m mg : Q) : option bnd :=
  let nDec := (length decB - 1)%nat in
  let c0 := cell_index dec (qbnd decB 0) (qbnd decB nDec) nDec in
  if (c0 <? 0)%Z || (Z.of_nat nDec - 1 <? c0)%Z then None
  else
    let dmin := dec_down decB dec m (Z.to_nat c0) in
    let dmax := dec_up decB dec m nDec nDec (Z.to_nat c0) in
    match gb_rows raB ra mg dmin (S dmax - dmin) with
    | None => None
    | Some rows => Some (Z.of_nat dmin, rows)
    end.

Definition bnd_eqb (a b : option bnd) : bool :=
  match a, b with
  | None, None => true
  | Some (d1, r1), Some (d2, r2) =>
      (d1 =? d2)%Z && list_eqb (fun x y => (fst x =? fst y)%Z && (snd x =? snd y)%Z) r1 r2
  | _, _ => false
  end.

(* recorded geometry of one run: decBounds, raBounds, marginSize and per list-2 point (currRa, dec, raMargin) *)
Record geom := { g_decB : list Q; g_raB : list (list Q); g_m : Q; g_pts : list (Q * Q * Q) }.

(* number of list-2 points whose recorded getbounds result differs from the exact-rational walk model *)
Definition getbounds_disagreements (g : geom) (recorded : list (option bnd)) : Z :=
  Z.of_nat (length (filter (fun pr => negb (bnd_eqb (getbounds_model (g_decB g) (g_raB g) (fst (fst (fst pr))) (snd (fst (fst pr)))
                                                                     (g_m g) (snd (fst pr)))
                                                     (snd pr)))
                           (combine (g_pts g) recorded))).

Definition run_geom (x : geom * list (option bnd)) : Z := getbounds_disagreements (fst x) (snd x).
Definition run_geoms (xs : list (geom * list (option bnd))) : list Z := map run_geom xs.
Definition mkgeom (decB : list Q) (raB : list (list Q)) (m : Q) (pts : list (Q * Q * Q)) : geom :=
  {| g_decB := decB; g_raB := raB; g_m := m; g_pts := pts |}.

(* constructors used by the harness (all numerals are written as Z / positive literals) *)
(* m * 2^e: a double, written with short literals (big decimal literals are slow to parse) *)
Definition q (m e : Z) : Q :=
  if (0 <=? e)%Z then Qmake (m * 2 ^ e) 1 else Qmake m (Z.to_pos (2 ^ (- e))).
Definition cn (i k m e : Z) : cand := (Z.to_nat i, Z.to_nat k, q m e).
Definition nl (l : list Z) : list nat := map Z.to_nat l.
Definition mkrec (nRa : list Z) (bounds : list (option bnd)) (cells : list cell) (perm : list Z)
           (chl : list (cell * list Z)) : recorded :=
  {| r_nRa := nRa; r_bounds := bounds; r_cells := cells; r_perm := nl perm;
     r_chunklist := map (fun e => (fst e, nl (snd e))) chl |}.
Definition mkcase (mm : Z) (L : Q) (n2 : Z) (sep : list (list Q)) (out : list cand) (r : option recorded) : case :=
  {| c_maxmatch := Z.to_nat mm; c_L := L; c_n2 := Z.to_nat n2; c_sep := sep; c_out := out; c_rec := r |}.
