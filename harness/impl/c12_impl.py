"""C12 -- runs the Mangle membership functions of the repository under test (stdin JSON -> stdout JSON).

Jobs:
  cap     : is_in_cap(x, cm, points) for Cartesian and RA/Dec points
  window  : one polygon list through several storage routes (keyword constructor, copy constructor,
            .ply text file, FITS polygon table raw / convert=True, window_read(balkans=True));
            per route: the polygon data as stored, is_in_window for Cartesian and RA/Dec points,
            is_in_polygon per polygon
  setuse  : set_use_caps(polygon, index_list, ...)
  types   : the same numbers in other dtypes / memory layouts / containers
  history : many calls on the same polygon objects and file paths
  large   : one call with 6.5e4 .. 2e6 points that are copies of a few points (round 6)
  reuse   : ONE coordinate array refilled in place between calls; polygons' own arrays edited in place (round 6)
All floats travel as JSON numbers (Python repr round-trips doubles exactly).
"""
import json
import os
import shutil
import sys
import tempfile
import warnings

import numpy as np

warnings.simplefilter('ignore')

from astropy.io import fits  # noqa: E402
from astropy.table import Table  # noqa: E402
import pydl  # noqa: E402
from pydl.pydlutils import mangle as mng  # noqa: E402
from pydl.photoop.window import window_read  # noqa: E402


def err(e):
    return {'err': type(e).__name__, 'msg': str(e)[:160]}


def fl(a):
    return [float(v) for v in np.asarray(a).ravel()]


def rows3(a):
    a = np.asarray(a, dtype=np.float64).reshape(-1, 3)
    return [[float(v) for v in r] for r in a]


def job_cap(j):
    x = np.array(j['x'], dtype=np.float64)
    cm = float(j['cm'])
    out = {}
    pts = np.array(j['pts'], dtype=np.float64).reshape(-1, 3)
    try:
        out['cart'] = [bool(b) for b in mng.is_in_cap(x, cm, pts)]
        out['cart_nan'] = [bool(b) for b in np.isnan(mng.cap_distance(x, cm, pts))]
    except Exception as e:  # noqa: BLE001
        out['cart'] = err(e)
    if j.get('radec'):
        rd = np.array(j['radec'], dtype=np.float64).reshape(-1, 2)
        out['radec_xyz'] = rows3(mng.angles_to_x(rd, latitude=True))
        try:
            out['radec'] = [bool(b) for b in mng.is_in_cap(x, cm, rd)]
            out['radec_nan'] = [bool(b) for b in np.isnan(mng.cap_distance(x, cm, rd))]
        except Exception as e:  # noqa: BLE001
            out['radec'] = err(e)
    return out


# ---------------------------------------------------------------- writers (harness side of the routes)

PLY_FMT = {'repr': repr,                          # shortest round-trip text, exponent form for tiny values (6.1e-17, 9.5e-06)
           'e': lambda v: '%.17e' % v,            # every value in exponent form, incl. e+00 / e-01
           'g': lambda v: '%.17g' % v}            # 17 significant digits, exponent form below 1e-4


def write_ply(path, polys, fmt='repr', layout='std'):
    """layout: the same polygons in the variants of the Mangle text format a reader has to accept --
    std: pixelization/snapped/balkanized keywords, fields caps, weight, pixel, str;
    minimal: no keyword lines, no pixel field (files written without pixelization);
    spaced: tabs / runs of blanks / trailing blanks, '+' signs and upper-case exponents, blank lines between polygons;
    header: further header lines (unit, real) before the first polygon, fields in another order"""
    fm = PLY_FMT[fmt]
    if layout == 'spaced':
        fm0 = fm
        fm = lambda v: ('+' if v >= 0 and not str(fm0(v)).startswith('-') else '') + fm0(v).replace('e', 'E')  # noqa: E731
    with open(path, 'w') as f:
        f.write('%d polygons\n' % len(polys))
        if layout in ('std', 'spaced'):
            f.write('pixelization 0s\nsnapped\nbalkanized\n')
        elif layout == 'header':
            f.write('unit d\nreal 10\npixelization 0s\nsnapped\nbalkanized\n')
        for p in polys:
            w, s_ = float(p['weight']), float(p['str'])
            if layout == 'minimal':
                f.write('polygon %d ( %d caps, %r weight, %r str):\n' % (p['id'], len(p['cm']), w, s_))
            elif layout == 'spaced':
                f.write('polygon   %d\t(  %d caps,\t%r weight,   %d pixel,  %r str ):   \n' % (p['id'], len(p['cm']), w, p['pixel'], s_))
            elif layout == 'header':
                f.write('polygon %d ( %d caps, %r str, %d pixel, %r weight):\n' % (p['id'], len(p['cm']), s_, p['pixel'], w))
            else:
                f.write('polygon %d ( %d caps, %r weight, %d pixel, %r str):\n' % (p['id'], len(p['cm']), w, p['pixel'], s_))
            for x, cm in zip(p['x'], p['cm']):
                if layout == 'spaced':
                    f.write('\t%s   %s\t%s  %s  \n' % (fm(float(x[0])), fm(float(x[1])), fm(float(x[2])), fm(float(cm))))
                else:
                    f.write(' %s %s %s %s\n' % (fm(float(x[0])), fm(float(x[1])), fm(float(x[2])), fm(float(cm))))
            if layout == 'spaced':
                f.write('\n')


def padded(polys, pad, maxcaps):
    n = len(polys)
    X = np.zeros((n, maxcaps, 3), dtype=np.float64)
    CM = np.zeros((n, maxcaps), dtype=np.float64)
    k = 0
    for i, p in enumerate(polys):
        nc = len(p['cm'])
        for c in range(maxcaps):
            if c < nc:
                X[i, c, :] = p['x'][c]
                CM[i, c] = p['cm'][c]
            else:   # decoy caps in the unused slots: a reader that looks at them gives wrong answers
                d = pad[k % len(pad)]
                k += 1
                X[i, c, :] = d['x']
                CM[i, c] = d['cm']
    return X, CM


def write_fits(path, polys, pad, layout):
    n = len(polys)
    maxcaps = max(len(p['cm']) for p in polys)
    X, CM = padded(polys, pad, maxcaps)
    if layout == 'squeezed':
        # what IDL's mwrfits produces when every polygon has one cap: XCAPS = 3D, CMCAPS = D (no array axis)
        assert maxcaps == 1
        cols = [fits.Column(name='XCAPS', format='3D', array=X[:, 0, :]),
                fits.Column(name='CMCAPS', format='D', array=CM[:, 0])]
    else:
        cols = [fits.Column(name='XCAPS', format='%dD' % (3 * maxcaps), dim='(3,%d)' % maxcaps, array=X),
                fits.Column(name='CMCAPS', format='%dD' % maxcaps, array=CM)]
    cols += [fits.Column(name='IFIELD', format='J', array=np.array([p['id'] for p in polys], dtype=np.int32)),
             fits.Column(name='NCAPS', format='J', array=np.array([len(p['cm']) for p in polys], dtype=np.int32)),
             fits.Column(name='WEIGHT', format='D', array=np.array([p['weight'] for p in polys], dtype=np.float64)),
             fits.Column(name='PIXEL', format='J', array=np.array([p['pixel'] for p in polys], dtype=np.int32)),
             fits.Column(name='STR', format='D', array=np.array([p['str'] for p in polys], dtype=np.float64)),
             fits.Column(name='USE_CAPS', format='J', bzero=2 ** 31,
                         array=np.array([p['use_caps'] for p in polys], dtype=np.uint32))]
    assert n > 0 and maxcaps > 0
    fits.HDUList([fits.PrimaryHDU(), fits.BinTableHDU.from_columns(cols)]).writeto(path)


def write_balkans(d, polys, bal):
    """bal = {'bcaps': [{'x','cm'}...], 'icap': [...]}: the cap table (with filler caps between the
    polygons' runs) and the start row of each polygon."""
    X = np.array([c['x'] for c in bal['bcaps']], dtype=np.float64).reshape(-1, 3)
    CM = np.array([c['cm'] for c in bal['bcaps']], dtype=np.float64)
    Table({'X': X, 'CM': CM}).write(os.path.join(d, 'window_bcaps.fits'))
    n = len(polys)
    Table({'IPRIMARY': np.array([p['id'] for p in polys], dtype=np.int32),
           'IBINDX': np.array([p['pixel'] for p in polys], dtype=np.int32),
           'ICAP': np.array(bal['icap'], dtype=np.int32),
           'NCAPS': np.array([len(p['cm']) for p in polys], dtype=np.int32),
           'WEIGHT': np.array([p['weight'] for p in polys], dtype=np.float64),
           'STR': np.array([p['str'] for p in polys], dtype=np.float64)}).write(os.path.join(d, 'window_blist.fits'))
    assert n > 0


# ---------------------------------------------------------------- observers

def describe(polys):
    """Polygon data as the implementation holds it: ncaps, use_caps and the first ncaps caps."""
    out = []
    for k in range(len(polys)):
        p = polys[k]
        try:
            if isinstance(p, mng.ManglePolygon):
                nc, use, x, cm = p.ncaps, int(p.use_caps), p.x, p.cm
            else:
                nc, use, x, cm = int(p['NCAPS']), int(p['USE_CAPS']), p['XCAPS'], p['CMCAPS']
            if nc == 0:
                x, cm = np.zeros((0, 3)), np.zeros((0,))
            x = np.asarray(x, dtype=np.float64).reshape(-1, 3)[0:nc]
            cm = np.asarray(cm, dtype=np.float64).reshape(-1)[0:nc]
            out.append({'ncaps': int(nc), 'use_caps': use, 'x': rows3(x), 'cm': fl(cm),
                        'id': int(p.id if isinstance(p, mng.ManglePolygon) else (p['IFIELD'] if 'IFIELD' in p.array.names else -1))})
        except Exception as e:  # noqa: BLE001
            out.append(err(e))
    return out


def observe(polys, j):
    pts = np.array(j['pts'], dtype=np.float64).reshape(-1, 3)
    rd = np.array(j['radec'], dtype=np.float64).reshape(-1, 2)
    ncaps = int(j['ncaps'])
    out = {'polys': describe(polys)}
    for key, P in (('win_cart', pts), ('win_radec', rd)):
        try:
            flag, idx = mng.is_in_window(polys, P, ncaps=ncaps) if ncaps else mng.is_in_window(polys, P)
            out[key] = {'idx': [int(v) for v in idx], 'flag': [bool(v) for v in flag],
                        'idx_dtype': str(idx.dtype), 'flag_dtype': str(flag.dtype)}
        except Exception as e:  # noqa: BLE001
            out[key] = err(e)
    if j.get('inpoly'):
        rows = []
        for k in range(len(polys)):
            try:
                r = mng.is_in_polygon(polys[k], pts, ncaps=ncaps)
                rows.append([bool(v) for v in r])
            except Exception as e:  # noqa: BLE001
                rows.append(err(e))
        out['inpoly'] = rows
    return out


def _pickled(kw):
    import pickle
    return pickle.loads(pickle.dumps(kw, protocol=pickle.HIGHEST_PROTOCOL))


def _deepcopied(kw):
    import copy
    return copy.deepcopy(kw)


def _shallow(kw):
    import copy
    return mng.PolygonList([copy.copy(p) for p in kw])


def _relisted(kw):
    # a plain list slice / concatenation of the PolygonList (loses the subclass, keeps the polygon objects)
    h = len(kw) // 2
    return kw[:h] + kw[h:]


def _copy_ctor(kw):
    return mng.PolygonList([mng.ManglePolygon(p) for p in kw])


# polygon lists DERIVED from the keyword-constructed one: they must answer exactly as the original
DERIVED = {'pickle': _pickled, 'deepcopy': _deepcopied, 'copy.copy': _shallow, 'list_slices': _relisted,
           'copy_ctor': _copy_ctor}


def job_window(j):
    polys = j['polys']
    out = {'routes': {}}
    rd = np.array(j['radec'], dtype=np.float64).reshape(-1, 2)
    out['radec_xyz'] = rows3(mng.angles_to_x(rd, latitude=True))
    # for labelling failures only: does cap_distance return NaN for a point against any cap of the list?
    try:
        pts = np.array(j['pts'], dtype=np.float64).reshape(-1, 3)
        for key, P in (('cart_nan', pts), ('radec_nan', rd)):
            flags = np.zeros((P.shape[0],), dtype=bool)
            for p in polys:
                for x, cm in zip(p['x'], p['cm']):
                    flags |= np.isnan(mng.cap_distance(np.array(x, dtype=np.float64), float(cm), P))
            out[key] = [bool(b) for b in flags]
    except Exception as e:  # noqa: BLE001
        out['cart_nan'] = out['radec_nan'] = None
    d = tempfile.mkdtemp(prefix='c12-')
    try:
        kw = None
        for route in j['routes']:
            try:
                if route == 'kwargs':
                    kw = mng.PolygonList()
                    for p in polys:
                        if len(p['cm']) == 0:
                            kw.append(mng.ManglePolygon())     # "empty" polygon = whole sky
                            continue
                        kw.append(mng.ManglePolygon(x=np.array(p['x'], dtype=np.float64).reshape(-1, 3),
                                                    cm=np.array(p['cm'], dtype=np.float64),
                                                    use_caps=p['use_caps'], id=p['id'], pixel=p['pixel'],
                                                    weight=p['weight'], str=p['str']))
                    got = kw
                elif route == 'kwargs_default':
                    # no use_caps keyword: the constructor must select all caps
                    got = mng.PolygonList()
                    for p in polys:
                        got.append(mng.ManglePolygon(x=np.array(p['x'], dtype=np.float64).reshape(-1, 3),
                                                     cm=np.array(p['cm'], dtype=np.float64)))
                elif route == 'add_caps':
                    # first cap through the keyword constructor, the others appended with add_caps()
                    got = mng.PolygonList()
                    for p in polys:
                        x = np.array(p['x'], dtype=np.float64).reshape(-1, 3)
                        cm = np.array(p['cm'], dtype=np.float64)
                        q = mng.ManglePolygon(x=x[0:1], cm=cm[0:1], use_caps=p['use_caps'], id=p['id'], pixel=p['pixel'],
                                              weight=p['weight'], str=p['str'])
                        if len(cm) > 1:
                            q = q.add_caps(x[1:], cm[1:])
                        got.append(q)
                elif route == 'copy':
                    got = mng.PolygonList()
                    for p in kw:
                        got.append(p.copy())
                elif route in DERIVED:
                    got = DERIVED[route](kw)
                elif route == 'fits_slice':
                    # a slice of the raw FITS table (a new FITS_polygon object on the same records)
                    path = os.path.join(d, 'polys-array.fits')
                    if not os.path.exists(path):
                        write_fits(path, polys, j['pad'], 'array')
                    whole = mng.read_fits_polygons(path)
                    got = whole[0:len(whole)]
                elif route in ('ply', 'ply_assign'):
                    path = os.path.join(d, 'polys.ply')
                    if not os.path.exists(path):
                        write_ply(path, polys, j.get('ply_fmt', 'repr'), j.get('ply_layout', 'std'))
                    got = mng.read_mangle_polygons(path)
                    if route == 'ply_assign':
                        # the text format carries no use-mask: the harness assigns it after reading
                        for p, q in zip(polys, got):
                            q.use_caps = p['use_caps']
                elif route in ('fits_raw', 'fits_conv', 'fits1_raw', 'fits1_conv'):
                    layout = 'squeezed' if route.startswith('fits1') else 'array'
                    path = os.path.join(d, 'polys-%s.fits' % layout)
                    if not os.path.exists(path):
                        write_fits(path, polys, j['pad'], layout)
                    got = mng.read_fits_polygons(path, convert=route.endswith('conv'))
                elif route == 'balkans':
                    rdir = os.path.join(d, 'resolve')
                    os.makedirs(rdir)
                    write_balkans(rdir, polys, j['balkans'])
                    old = os.environ.get('PHOTO_RESOLVE')
                    os.environ['PHOTO_RESOLVE'] = rdir
                    try:
                        got = window_read(balkans=True)['balkans']
                    finally:
                        if old is None:
                            del os.environ['PHOTO_RESOLVE']
                        else:
                            os.environ['PHOTO_RESOLVE'] = old
                else:
                    raise ValueError('unknown route ' + route)
                out['routes'][route] = observe(got, j)
                out['routes'][route]['type'] = type(got).__name__
            except Exception as e:  # noqa: BLE001
                out['routes'][route] = err(e)
    finally:
        shutil.rmtree(d, ignore_errors=True)
    return out


def job_sweep(j):
    """is_in_polygon for every use-mask and every ncaps value of one small polygon."""
    x = np.array(j['x'], dtype=np.float64).reshape(-1, 3)
    cm = np.array(j['cm'], dtype=np.float64)
    pts = np.array(j['pts'], dtype=np.float64).reshape(-1, 3)
    out = []
    for mask in j['masks']:
        poly = mng.ManglePolygon(x=x, cm=cm, use_caps=mask)
        row = []
        for nc in j['ncaps_list']:
            try:
                row.append([bool(b) for b in mng.is_in_polygon(poly, pts, ncaps=nc)])
            except Exception as e:  # noqa: BLE001
                row.append(err(e))
        out.append(row)
    flags = np.zeros((pts.shape[0],), dtype=bool)
    for k in range(len(cm)):
        flags |= np.isnan(mng.cap_distance(x[k], float(cm[k]), pts))
    return {'sweep': out, 'cart_nan': [bool(b) for b in flags]}


# ---------------------------------------------------------------- wave 3: storage types, caller-owned data, histories

def snap_arr(a):
    a = np.asarray(a)
    return (a.dtype.str, a.shape, a.strides if a.ndim else (), a.tobytes())


def snap_poly(p):
    if isinstance(p, mng.ManglePolygon):
        return ('MP', p.ncaps, int(p.use_caps), p.id, p.pixel, p.weight,
                None if p.x is None else snap_arr(p.x), None if p.cm is None else snap_arr(p.cm))
    return ('other',)


def guarded(fn, arrays, polys=(), may_change_use_caps=False):
    """Run fn(); report caller-owned arrays / polygon objects that are not bit-identical afterwards and results
    that share memory with an input.  -> (result or exception dict, list of problems)"""
    before_a = {k: snap_arr(v) for k, v in arrays.items() if isinstance(v, np.ndarray)}
    before_p = [snap_poly(q) for q in polys]
    try:
        res = fn()
    except Exception as e:  # noqa: BLE001
        return err(e), []
    problems = []
    for k, v in arrays.items():
        if isinstance(v, np.ndarray) and snap_arr(v) != before_a[k]:
            problems.append('input array %s modified' % k)
    for i, q in enumerate(polys):
        a, b = before_p[i], snap_poly(q)
        if may_change_use_caps and a[0] == 'MP':
            a, b = a[:2] + a[3:], b[:2] + b[3:]
        if a != b:
            problems.append('polygon object %d modified' % i)
    outs = res if isinstance(res, tuple) else (res,)
    for o in outs:
        if isinstance(o, np.ndarray):
            for k, v in arrays.items():
                if isinstance(v, np.ndarray) and np.shares_memory(o, v):
                    problems.append('result shares memory with input %s' % k)
            for i, q in enumerate(polys):
                if isinstance(q, mng.ManglePolygon) and q.x is not None and (np.shares_memory(o, q.x) or np.shares_memory(o, q.cm)):
                    problems.append('result shares memory with polygon %d' % i)
    return res, problems


def store(a, how):
    """The same numbers in another storage: f8 (C-contiguous float64), f4, be ('>f8'), nc (non-contiguous view),
    fo (Fortran order), i8 (integers; only for integral values)."""
    a = np.array(a, dtype=np.float64)
    if how == 'f8':
        return a
    if how == 'f4':
        return a.astype(np.float32)
    if how == 'be':
        return a.astype('>f8')
    if how == 'i8':
        assert (a == np.round(a)).all()
        return a.astype(np.int64)
    if how == 'fo':
        return np.asfortranarray(a)
    if how == 'tv':
        # (3, N) C-contiguous array handed over as its transpose (how catalogues of x, y, z columns arrive)
        if a.ndim == 1:
            return np.ascontiguousarray(a.reshape(1, -1)).T[:, 0]
        return np.ascontiguousarray(a.T).T
    if how == 'rv':
        # reversed-stride view: the numbers were stored back to front
        return np.ascontiguousarray(a[::-1])[::-1]
    if how == 'cr':
        # negative column stride (2-D) / every third element of a longer vector (1-D)
        if a.ndim == 1:
            w = np.full((a.shape[0] * 3,), -1.75)
            w[::3] = a
            return w[::3]
        return np.ascontiguousarray(a[::-1, ::-1])[::-1, ::-1]
    if how == 'list':
        return a.tolist()
    if how == 'tuple':
        return tuple(tuple(r) if isinstance(r, list) else r for r in a.tolist())
    if how == 'nc':
        if a.ndim == 1:
            w = np.full((a.shape[0] * 2 + 1,), 7.25)
            w[1::2] = a
            return w[1::2]
        w = np.full((a.shape[0] * 2, a.shape[1] + 2), -3.5)
        w[::2, 1:-1] = a
        return w[::2, 1:-1]
    raise ValueError(how)


def blist(r):
    return r if isinstance(r, dict) else [bool(v) for v in r]


def job_types(j):
    """is_in_cap / is_in_polygon / is_in_window for the same numbers held in different storage types."""
    out = {'variants': {}}
    rd64 = np.array(j['radec'], dtype=np.float64).reshape(-1, 2)
    out['radec_xyz'] = rows3(mng.angles_to_x(rd64, latitude=True))
    ncaps = int(j['ncaps'])
    if j.get('ncaps_form') == 'npint':
        ncaps = np.int64(ncaps)
    elif j.get('ncaps_form') == 'npint32':
        ncaps = np.int32(ncaps)
    for name, (hx, hcm, hp) in j['variants'].items():
        v = {'problems': []}
        try:
            x = store(np.array(j['x']).reshape(-1, 3), hx)
            cm = store(j['cm'], hcm)
            pts = {'cart': store(np.array(j['cart']).reshape(-1, 3), hp), 'radec': store(rd64, hp)}
            poly = mng.ManglePolygon(x=x, cm=cm, use_caps=j['use_caps'])
            for form in ('cart', 'radec'):
                P = pts[form]
                cm0 = cm[0]
                if j.get('cm_form') == 'pyfloat':
                    cm0 = float(cm0)
                elif j.get('cm_form') == 'zero_d':
                    cm0 = np.array(cm0)
                elif j.get('cm_form') == 'one_elem':
                    cm0 = cm[0:1]
                arrs = {'x': x, 'cm': cm, 'points': P}
                r, pr = guarded(lambda: mng.is_in_cap(x[0], cm0, P), arrs)
                v['cap_' + form] = blist(r)
                v['problems'] += ['is_in_cap(%s): %s' % (form, q) for q in pr]
                r, pr = guarded(lambda: mng.is_in_polygon(poly, P, ncaps=ncaps), arrs, [poly])
                v['poly_' + form] = blist(r)
                v['problems'] += ['is_in_polygon(%s): %s' % (form, q) for q in pr]
                r, pr = guarded(lambda: mng.is_in_window(mng.PolygonList([poly]), P, ncaps=ncaps), arrs, [poly])
                v['win_' + form] = r if isinstance(r, dict) else [int(i) for i in r[1]]
                v['problems'] += ['is_in_window(%s): %s' % (form, q) for q in pr]
        except Exception as e:  # noqa: BLE001
            v = err(e)
        out['variants'][name] = v
    return out


def job_history(j):
    """A sequence of calls in ONE process on the same polygon objects / file paths; every call reports the state it
    started from, so that the harness can compare it with the model's pure answer."""
    caller = []      # caller-owned arrays handed to the constructors
    polys = mng.PolygonList()
    for p in j['polys']:
        x = np.array(p['x'], dtype=np.float64).reshape(-1, 3)
        cm = np.array(p['cm'], dtype=np.float64)
        caller.append((x, cm))
        polys.append(mng.ManglePolygon(x=x, cm=cm, use_caps=p['use_caps'], id=p['id'], pixel=p['pixel'],
                                       weight=p['weight'], str=p['str']))
    pts = np.array(j['pts'], dtype=np.float64).reshape(-1, 3)
    d = tempfile.mkdtemp(prefix='c12h-')
    slots = {}
    out = []
    try:
        for op in j['ops']:
            rec = {'pre': [int(q.use_caps) for q in polys]}
            try:
                kind = op['op']
                if kind == 'inpoly':
                    q = polys[op['k']]
                    r, pr = guarded(lambda: mng.is_in_polygon(q, pts, ncaps=op.get('ncaps', 0)), {'points': pts}, list(polys))
                    rec['res'] = blist(r)
                elif kind == 'window':
                    r, pr = guarded(lambda: mng.is_in_window(polys, pts, ncaps=op.get('ncaps', 0)), {'points': pts}, list(polys))
                    rec['res'] = r if isinstance(r, dict) else [int(i) for i in r[1]]
                elif kind == 'setuse':
                    q = polys[op['k']]
                    il = op['il']
                    if op.get('as_array'):
                        il = np.array(il, dtype=np.int64)
                    arrs = {'index_list': il} if isinstance(il, np.ndarray) else {}
                    r, pr = guarded(lambda: mng.set_use_caps(q, il, **op.get('opts', {})), arrs, list(polys),
                                    may_change_use_caps=True)
                    rec['res'] = r if isinstance(r, dict) else int(r)
                    if isinstance(il, list) and il != op['il']:
                        pr = pr + ['index list modified']
                elif kind == 'mutate_caller':
                    # the arrays given to the constructor belong to the caller: changing them must not change the polygon
                    for x, cm in caller:
                        x += 0.25
                        cm *= -1.0
                    rec['res'] = None
                    pr = []
                elif kind == 'copy':
                    q = polys[op['k']]
                    c, pr = guarded(lambda: q.copy(), {}, [q])
                    if not isinstance(c, dict):
                        same = (c.ncaps == q.ncaps and int(c.use_caps) == int(q.use_caps) and (c.x == q.x).all() and (c.cm == q.cm).all())
                        alias = np.shares_memory(c.x, q.x) or np.shares_memory(c.cm, q.cm)
                        rec['res'] = bool(same)
                        if alias:
                            pr = pr + ['copy shares memory with the original']
                    else:
                        rec['res'] = c
                elif kind == 'write':
                    path = os.path.join(d, op['file'])
                    if os.path.exists(path):
                        os.remove(path)
                    if op['file'].endswith('.ply'):
                        write_ply(path, op['content'], op.get('fmt', 'repr'), op.get('layout', 'std'))
                    else:
                        write_fits(path, op['content'], j['pad'], 'array')
                    rec['res'] = None
                    pr = []
                elif kind == 'read':
                    path = os.path.join(d, op['file'])
                    if op['file'].endswith('.ply'):
                        slots[op['slot']] = mng.read_mangle_polygons(path)
                    else:
                        slots[op['slot']] = mng.read_fits_polygons(path, convert=bool(op.get('convert')))
                    rec['res'] = describe(slots[op['slot']])
                    pr = []
                elif kind == 'window_slot':
                    got = slots[op['slot']]
                    r, pr = guarded(lambda: mng.is_in_window(got, pts, ncaps=op.get('ncaps', 0)), {'points': pts},
                                    [q for q in got if isinstance(q, mng.ManglePolygon)])
                    rec['res'] = r if isinstance(r, dict) else [int(i) for i in r[1]]
                else:
                    raise ValueError('unknown op ' + kind)
                rec['problems'] = pr
            except Exception as e:  # noqa: BLE001
                rec['res'] = err(e)
                rec['problems'] = []
            rec['post'] = [int(q.use_caps) for q in polys]
            out.append(rec)
    finally:
        shutil.rmtree(d, ignore_errors=True)
    return {'history': out}


# ---------------------------------------------------------------- round 6: sizes beyond small (class D)

def expand_index(m, n, pattern, seed):
    """Which of the m small points sits at each of the n positions of the large input."""
    if pattern == 'tile':
        return np.arange(n) % m
    g = np.random.default_rng(seed)
    idx = g.integers(0, m, n)
    if pattern == 'runs':          # long runs of one point: whole internal blocks consist of a single point
        idx = np.sort(idx)
    return idx


def summarise(ans, idx, m, n):
    """A length-n answer vector over positions that hold only m distinct points -> the answer at the first and at the
    last occurrence of each point, and whether every position got the answer of its point's first occurrence."""
    if isinstance(ans, dict):
        return ans
    a = np.asarray(ans)
    if a.shape != (n,):
        return {'err': 'BadShape', 'msg': 'result has shape %s for %d points' % (a.shape, n)}
    out = {'dtype': str(a.dtype)}
    a = a.astype(np.int64)
    u, fi = np.unique(idx, return_index=True)
    u2, li = np.unique(idx[::-1], return_index=True)
    first = np.full((m,), -9, dtype=np.int64)
    last = np.full((m,), -9, dtype=np.int64)
    first[u] = a[fi]
    last[u2] = a[n - 1 - li]
    out['present'] = [int(v) for v in u]
    out['first'] = [int(v) for v in first]
    out['last'] = [int(v) for v in last]
    bad = np.nonzero(a != first[idx])[0]
    out['n_nonuniform'] = int(len(bad))
    if len(bad):
        b = int(bad[0])
        out['nonuniform'] = {'position': b, 'point': int(idx[b]), 'answer': int(a[b]), 'first_position': int(fi[list(u).index(idx[b])]),
                             'answer_at_first_position': int(first[idx[b]]), 'last_bad_position': int(bad[-1])}
    return out


def job_large(j):
    """One call with n points (n beyond any internal block size), the points being copies of m small points whose
    answers the model computes.  Reported per entry point: answers at first/last occurrence of each small point,
    uniformity, and agreement with the same input passed as two separate calls."""
    n, ncaps = int(j['n']), int(j['ncaps'])
    small = {'cart': np.array(j['pts'], dtype=np.float64).reshape(-1, 3), 'radec': np.array(j['radec'], dtype=np.float64).reshape(-1, 2)}
    m = small['cart'].shape[0]
    idx = expand_index(m, n, j['pattern'], int(j['seed']))
    polys = mng.PolygonList()
    for p in j['polys']:
        polys.append(mng.ManglePolygon(x=np.array(p['x'], dtype=np.float64).reshape(-1, 3), cm=np.array(p['cm'], dtype=np.float64),
                                       use_caps=p['use_caps']))
    h = int(j['split'])
    out = {'polys': describe(polys), 'm': m}
    for form in ('cart', 'radec'):
        big = np.ascontiguousarray(small[form][idx])
        o = {}

        def both(fn, pick=lambda r: r):
            try:
                whole = pick(fn(big))
            except Exception as e:  # noqa: BLE001
                return err(e), err(e), None
            try:
                halves = np.concatenate([pick(fn(big[:h])), pick(fn(big[h:]))])
            except Exception as e:  # noqa: BLE001
                return whole, err(e), None
            w = np.asarray(whole)
            same = None
            if w.shape == halves.shape:
                d = np.nonzero(w != halves)[0]
                same = {'n_differ': int(len(d))}
                if len(d):
                    same.update({'position': int(d[0]), 'point': int(idx[d[0]]), 'whole': int(w[d[0]]), 'split': int(halves[d[0]])})
            return whole, halves, same
        before = big.tobytes() if n <= (1 << 20) else None
        w, hv, same = both(lambda P: mng.is_in_window(polys, P, ncaps=ncaps) if ncaps else mng.is_in_window(polys, P), lambda r: r[1])
        o['window'] = {'whole': summarise(w, idx, m, n), 'split': summarise(hv, idx, m, n), 'same': same}
        try:
            fl_, ix_ = mng.is_in_window(polys, big, ncaps=ncaps)
            o['window']['flag_ok'] = bool(((ix_ >= 0) == fl_).all()) and str(fl_.dtype) == 'bool' and fl_.shape == (n,)
        except Exception as e:  # noqa: BLE001
            o['window']['flag_ok'] = err(e)
        o['inpoly'] = []
        for k in j['inpoly']:
            w, hv, same = both(lambda P: mng.is_in_polygon(polys[k], P, ncaps=ncaps))
            o['inpoly'].append({'k': k, 'whole': summarise(w, idx, m, n), 'split': summarise(hv, idx, m, n), 'same': same})
        c = j.get('cap')
        if c is not None:
            x, cm = np.array(c['x'], dtype=np.float64), float(c['cm'])
            w, hv, same = both(lambda P: mng.is_in_cap(x, cm, P))
            o['cap'] = {'whole': summarise(w, idx, m, n), 'split': summarise(hv, idx, m, n), 'same': same}
        if before is not None and big.tobytes() != before:
            o['modified'] = True
        out[form] = o
    return out


# ---------------------------------------------------------------- round 6: the same array object, refilled in place (class A)

NCOL = {'radec': 2, 'cart': 3}


def _refill(buf, fill, sets):
    how = fill['how']
    if how == 'assign':
        buf[:] = np.array(sets[fill['set']], dtype=np.float64).reshape(buf.shape)
    elif how == 'assign_rows':        # row by row, as a Monte-Carlo loop fills its buffer
        src = np.array(sets[fill['set']], dtype=np.float64).reshape(buf.shape)
        for i in range(buf.shape[0]):
            buf[i, :] = src[i, :]
    elif how == 'shift':              # RA += d
        buf[:, 0] += fill['d']
    elif how == 'flipdec':
        buf[:, 1] *= -1.0
    elif how == 'negate':             # Cartesian: antipodes
        buf *= -1.0
    elif how == 'roll':
        buf[:] = np.roll(buf, 1, axis=0)
    elif how == 'swapcols':
        buf[:, [0, 1]] = buf[:, [1, 0]]
    elif how == 'out':                # ufunc writing into the same memory
        np.multiply(np.array(sets[fill['set']], dtype=np.float64).reshape(buf.shape), 1.0, out=buf)
    else:
        raise ValueError('unknown refill ' + how)


def job_reuse(j):
    """A sequence of calls in ONE process in which the caller keeps ONE coordinate array (per input form) and refills
    it in place between calls, alternates two arrays of the same shape, passes new views of the same memory, and edits
    the polygons' own x / cm arrays in place.  Every call reports the contents it was given."""
    polys = mng.PolygonList()
    for p in j['polys']:
        polys.append(mng.ManglePolygon(x=np.array(p['x'], dtype=np.float64).reshape(-1, 3), cm=np.array(p['cm'], dtype=np.float64),
                                       use_caps=p['use_caps']))
    sets = {'radec': j['radec_sets'], 'cart': j['cart_sets']}
    bufs = {}
    for form in ('radec', 'cart'):
        for name in ('A', 'B'):
            bufs[form + name] = np.array(sets[form][0 if name == 'A' else 1], dtype=np.float64).reshape(-1, NCOL[form])
    out = []
    for st in j['steps']:
        rec = {}
        try:
            if 'edit' in st:
                q = polys[st['k']]
                e = st['edit']
                if e == 'cm_neg':
                    q.cm[st['c']] *= -1.0
                elif e == 'cm_set':
                    q.cm[st['c']] = st['v']
                elif e == 'x_set':
                    q.x[st['c'], :] = np.array(st['v'], dtype=np.float64)
                elif e == 'use_set':
                    q.use_caps = int(st['v'])
                else:
                    raise ValueError('unknown edit ' + e)
                rec['polys'] = describe(polys)
                rec['res'] = None
                out.append(rec)
                continue
            form = st['form']
            buf = bufs[form + st['buf']]
            if st.get('fill'):
                _refill(buf, st['fill'], sets[form])
            arg = buf[:] if st.get('view') else buf
            rec['content'] = [[float(v) for v in r] for r in buf]
            rec['polys'] = describe(polys)
            call = st['call']
            ncaps = int(st.get('ncaps', 0))
            before = buf.tobytes()
            if call in ('cap', 'dist'):
                q = polys[st['k']]
                x, cm = q.x[st['c'], :].copy(), float(q.cm[st['c']])
                if call == 'cap':
                    rec['res'] = [bool(b) for b in mng.is_in_cap(x, cm, arg)]
                else:
                    dd = mng.cap_distance(x, cm, arg)
                    rec['res'] = [bool(b) for b in (dd >= 0.0)]
                    rec['nan'] = [bool(b) for b in np.isnan(dd)]
            elif call == 'poly':
                rec['res'] = [bool(b) for b in mng.is_in_polygon(polys[st['k']], arg, ncaps=ncaps)]
            elif call == 'window':
                fl_, ix_ = mng.is_in_window(polys, arg, ncaps=ncaps)
                rec['res'] = [int(v) for v in ix_]
                rec['flag_ok'] = [bool(v) for v in fl_] == [int(v) >= 0 for v in ix_]
            else:
                raise ValueError('unknown call ' + call)
            if buf.tobytes() != before:
                rec['modified'] = True
        except Exception as e:  # noqa: BLE001
            rec['res'] = err(e)
        out.append(rec)
    return {'reuse': out}


def job_setuse(j):
    p = j['poly']
    poly = mng.ManglePolygon(x=np.array(p['x'], dtype=np.float64).reshape(-1, 3),
                             cm=np.array(p['cm'], dtype=np.float64), use_caps=p['use_caps'])
    il = j['index_list']
    if j.get('as_array'):
        il = np.array(il, dtype=np.int64)
    elif j.get('as_tuple'):
        il = tuple(il)
    kw = dict(j.get('opts', {}))
    try:
        r = mng.set_use_caps(poly, il, **kw)
        return {'ok': int(r), 'after': int(poly.use_caps), 'rtype': type(r).__name__}
    except Exception as e:  # noqa: BLE001
        return err(e)


def main():
    jobs = json.load(sys.stdin)
    res = []
    for j in jobs:
        try:
            if j['f'] == 'cap':
                res.append(job_cap(j))
            elif j['f'] == 'window':
                res.append(job_window(j))
            elif j['f'] == 'setuse':
                res.append(job_setuse(j))
            elif j['f'] == 'sweep':
                res.append(job_sweep(j))
            elif j['f'] == 'types':
                res.append(job_types(j))
            elif j['f'] == 'history':
                res.append(job_history(j))
            elif j['f'] == 'large':
                res.append(job_large(j))
            elif j['f'] == 'reuse':
                res.append(job_reuse(j))
            else:
                res.append({'err': 'BadJob'})
        except Exception as e:  # noqa: BLE001
            res.append(err(e))
    json.dump({'pydl_file': pydl.__file__, 'results': res}, sys.stdout)


if __name__ == '__main__':
    main()
