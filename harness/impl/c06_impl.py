"""Runs the four SDSS ID functions of the repository under test on a list of calls (stdin JSON)."""
import json
import re
import sys

import numpy as np

from pydl.pydlutils.sdss import sdss_objid, sdss_specobjid, unwrap_specobjid, default_skyversion
from pydl.photoop.photoobj import unwrap_objid
import pydl

MODP = 2305843009213693951


def checksum(ids):
    acc = 0
    for v in ids:
        acc = (acc * 1000003 + int(v) + 1) % MODP
    return acc


def conv(a, dtype=np.int64):
    if a is None:
        return None
    if 's' in a:
        return int(a['s'])
    if 'str' in a:
        return a['str']
    return np.array([int(x) for x in a['a']], dtype=np.dtype(a['dt']) if a.get('dt') else dtype)


def err(e):
    return {'err': type(e).__name__, 'msg': str(e)[:120]}


def unwrap_rows(f, c, arr, n):
    if f == 'unobj':
        u = unwrap_objid(arr)
        return [[int(u[k][j]) for k in ('skyversion', 'rerun', 'run', 'camcol', 'firstfield', 'frame', 'id')]
                for j in range(n)]
    ui = unwrap_specobjid(arr, run2d_integer=True, specLineIndex=bool(c.get('index')))
    us = unwrap_specobjid(arr, run2d_integer=False)
    rows = []
    for j in range(n):
        m = re.fullmatch(r'v(-?\d+)_(-?\d+)_(-?\d+)', str(us.run2d[j]))
        nmp = [int(g) for g in m.groups()] if m else [-999, -999, -999]
        lk = 'index' if c.get('index') else 'line'
        row_i = [int(ui.plate[j]), int(ui.fiber[j]), int(ui.mjd[j]), int(ui.run2d[j])] + nmp + [int(ui[lk][j])]
        same = (int(us.plate[j]), int(us.fiber[j]), int(us.mjd[j]), int(us.line[j])) == \
            (row_i[0], row_i[1], row_i[2], row_i[7])
        if not same:
            row_i.append(-1)  # string and integer modes disagree -> guaranteed mismatch
        rows.append(row_i)
    return rows


def descr(rec):
    return [[n, str(t)] for n, t in rec.dtype.descr]


def call(c):
    f = c['f']
    try:
        if f == 'specstr':
            # scalar call, run2d given as an arbitrary string
            r = sdss_specobjid(int(c['p']), int(c['fb']), int(c['m']), c['s'])
            return {'ok': [int(x) for x in r], 'dtype': str(r.dtype)}
        if f in ('unobjstr', 'unspecstr'):
            # one ID given as an arbitrary string in a str ('U') or bytes ('S') array
            arr = np.array([c['s'].encode('latin-1')]) if c.get('bytes') else np.array([c['s']])
            kind = arr.dtype.kind
            rows = unwrap_rows('unobj' if f == 'unobjstr' else 'unspec', {}, arr, 1)
            return {'ok': rows, 'kind': kind}
        if f == 'objid':
            a = c['args']
            kw = {}
            for k in ('rerun', 'skyversion', 'firstfield'):
                if a.get(k) is not None:
                    kw[k] = conv(a[k])
            pa = [conv(a['run']), conv(a['camcol']), conv(a['field']), conv(a['objnum'])]
            allargs = pa + list(kw.values())
            before = [x.copy() if isinstance(x, np.ndarray) else x for x in allargs]
            r = sdss_objid(*pa, **kw)
            out = {'ok': [int(x) for x in r], 'dtype': str(r.dtype)}
            if any(isinstance(x, np.ndarray) and not np.array_equal(x, y) for x, y in zip(allargs, before)):
                out['inputs_modified'] = ['some array argument']
            try:
                r2 = sdss_objid(*pa, **kw)
                if [int(x) for x in r2] != out['ok']:
                    out['repeat_differs'] = [int(x) for x in r2]
            except Exception as e2:  # noqa: BLE001
                out['repeat_differs'] = type(e2).__name__
            return out
        if f == 'spec':
            a = c['args']
            kw = {}
            for k in ('line', 'index'):
                if a.get(k) is not None:
                    kw[k] = conv(a[k])
            pa = [conv(a['plate']), conv(a['fiber']), conv(a['mjd']), conv(a['run2d'])]
            before = [x.copy() if isinstance(x, np.ndarray) else x for x in pa]
            r = sdss_specobjid(*pa, **kw)
            out = {'ok': [int(x) for x in r], 'dtype': str(r.dtype)}
            # the caller's arrays must not be modified, and a second call with the very same objects must agree
            changed = [n for n, x, y in zip(('plate', 'fiber', 'mjd', 'run2d'), pa, before)
                       if isinstance(x, np.ndarray) and not np.array_equal(x, y)]
            if changed:
                out['inputs_modified'] = changed
            try:
                r2 = sdss_specobjid(*pa, **kw)
                if [int(x) for x in r2] != out['ok']:
                    out['repeat_differs'] = [int(x) for x in r2]
            except Exception as e2:  # noqa: BLE001
                out['repeat_differs'] = type(e2).__name__
            return out
        if f in ('unobj', 'unspec'):
            ids = c['ids']
            base = np.int64 if f == 'unobj' else np.uint64
            if c.get('as_str') == 'bytes':
                arr = np.array([str(i).encode('ascii') for i in ids])       # dtype 'S': what FITS/ASCII tables deliver
            elif c.get('as_str'):
                arr = np.array([str(i) for i in ids])
            else:
                arr = np.array(ids, dtype=base)
                if c.get('layout') == 'bigendian':       # same values, non-native byte order
                    arr = arr.astype(arr.dtype.newbyteorder('>'))
                elif c.get('layout') == 'strided':       # same values, every other element of a larger buffer
                    buf = np.zeros(2 * len(ids), dtype=base)
                    buf[::2] = arr
                    arr = buf[::2]
            before = arr.copy()
            out = {'ok': unwrap_rows(f, c, arr, len(ids))}
            # record dtypes (field names, storage types) and, for specObjID, the run2d tags exactly as stored
            if f == 'unobj':
                out['dtypes'] = {'record': descr(unwrap_objid(arr))}
            else:
                us = unwrap_specobjid(arr, run2d_integer=False)
                out['dtypes'] = {'integer': descr(unwrap_specobjid(arr, run2d_integer=True)), 'string': descr(us),
                                 'index': descr(unwrap_specobjid(arr, run2d_integer=True, specLineIndex=True))}
                out['tags'] = [str(x) for x in us.run2d]
            if not np.array_equal(arr, before):
                out['inputs_modified'] = ['ids']
            try:
                again = unwrap_rows(f, c, arr, len(ids))
                if again != out['ok']:
                    out['repeat_differs'] = again[:3]
            except Exception as e2:  # noqa: BLE001
                out['repeat_differs'] = type(e2).__name__
            return out
        if f in ('tobj', 'tspec'):
            # one row, every argument a 1-element array of its own integer type
            arrs = [np.array([int(v)], dtype=np.dtype(dt)) for v, dt in zip(c['vals'], c['dts'])]
            before = [x.copy() for x in arrs]
            if f == 'tobj':
                sky, rr, r, cc, ff, fi, o = arrs
                res = sdss_objid(r, cc, fi, o, rerun=rr, skyversion=sky, firstfield=ff)
            else:
                pl, fb, mj, r2, li, ix = arrs
                kw = {}
                if c.get('use') == 'line':
                    kw['line'] = li
                elif c.get('use') == 'index':
                    kw['index'] = ix
                res = sdss_specobjid(pl, fb, mj, r2, **kw)
            out = {'ok': [int(x) for x in res], 'dtype': str(res.dtype)}
            if any(not np.array_equal(x, y) or x.dtype != y.dtype for x, y in zip(arrs, before)):
                out['inputs_modified'] = ['some array argument']
            return out
        if f in ('sweepobj', 'sweepspec'):
            i, lo, n, others = c['i'], c['lo'], c['n'], c['others']
            bad = None
            cols = [np.full(n, int(o), dtype=np.int64) for o in others]
            cols[i] = np.arange(lo, lo + n, dtype=np.int64)
            if f == 'sweepobj':
                sky, rr, r, cc, ff, fi, o = cols
                ids = sdss_objid(r, cc, fi, o, rerun=rr, skyversion=sky, firstfield=ff)
                # round trip through the real unwrap
                u = unwrap_objid(ids)
                rt = all(np.array_equal(np.asarray(u[k], dtype=np.int64), col) for k, col in
                         zip(('skyversion', 'rerun', 'run', 'camcol', 'firstfield', 'frame', 'id'), cols))
            else:
                p, fb, m, r2, li, ix = cols
                kw = {}
                if c.get('use') == 'line':
                    kw['line'] = li
                elif c.get('use') == 'index':
                    kw['index'] = ix
                ids = sdss_specobjid(p, fb, m + 50000, r2, **kw)
                u = unwrap_specobjid(ids, run2d_integer=True)
                rt = (np.array_equal(np.asarray(u.plate, dtype=np.int64), p) and
                      np.array_equal(np.asarray(u.fiber, dtype=np.int64), fb) and
                      np.array_equal(np.asarray(u.mjd, dtype=np.int64), m + 50000) and
                      np.array_equal(np.asarray(u.run2d, dtype=np.int64), r2) and
                      np.array_equal(np.asarray(u.line, dtype=np.int64), li + ix if not kw else (li if 'line' in kw else ix)))
                if i == 3 and rt:
                    # the string form of run2d, for every code of the sweep: 'vN_M_P' packs to the same ID as the
                    # integer, and the default (string) unwrap gives back exactly that tag
                    us = unwrap_specobjid(ids, run2d_integer=False)
                    for j in range(n):
                        code = int(r2[j])
                        tag = 'v%d_%d_%d' % (code // 10000 + 5, (code % 10000) // 100, code % 100)
                        one = sdss_specobjid(int(p[j]), int(fb[j]), int(m[j]) + 50000, tag)
                        if int(one[0]) != int(ids[j]) or str(us.run2d[j]) != tag:
                            rt = False
                            bad = {'run2d_code': code, 'tag': tag, 'packed_from_tag': int(one[0]), 'packed_from_int': int(ids[j]),
                                   'unwrapped_tag': str(us.run2d[j])}
                            break
            out = {'sum': checksum(ids), 'n': int(len(ids)), 'roundtrip': bool(rt),
                   'first': int(ids[0]), 'last': int(ids[-1])}
            if bad:
                out['roundtrip_counterexample'] = bad
            return out
        return {'err': 'BadCall'}
    except Exception as e:  # noqa: BLE001 - the error class is the observation
        return err(e)


def main():
    calls = json.load(sys.stdin)
    out = {'pydl_file': pydl.__file__, 'default_skyversion': int(default_skyversion()),
           'results': [call(c) for c in calls]}
    json.dump(out, sys.stdout)


if __name__ == '__main__':
    main()
