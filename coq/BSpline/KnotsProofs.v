(* Knot construction (bspline.__init__, /repo/pydl/pydlutils/bspline.py lines 83-133; model: Eval.raw_bkpt,
   Eval.cover, Eval.pad, Eval.knots_of_option).  Statement C08 "knots_spec": for every way of specifying
   breakpoints the constructed knot vector is non-decreasing, covers the data range and carries exactly
   nord-1 extra knots on each side.  Proofs only. *)
From Coq Require Import QArith Qround Qabs Lqa List Bool Arith Lia Setoid Morphisms.
Import ListNotations.
From PV Require Import Lib.WLS BSpline.Eval BSpline.CoxDeBoor BSpline.EvalProofs.
Open Scope Q_scope.

(* ------------------------------------------------------------------ strictly increasing lists *)
Definition incr (t : list Q) := forall i, (S i < length t)%nat -> nthQ t i < nthQ t (S i).

Lemma incr_lt t : incr t -> forall i j, (i < j)%nat -> (j < length t)%nat -> nthQ t i < nthQ t j.
Proof.
  intros H i j Hij. unfold lt in Hij. induction Hij; intro Hj.
  - apply H; exact Hj.
  - apply Qlt_trans with (nthQ t m).
    + apply IHHij. lia.
    + apply H; exact Hj.
Qed.

Lemma nondecr_of_adjacent t :
  (forall i, (S i < length t)%nat -> nthQ t i <= nthQ t (S i)) -> nondecr t.
Proof.
  intros H i j Hij. induction Hij; intro Hj.
  - apply Qle_refl.
  - apply Qle_trans with (nthQ t m).
    + apply IHHij. lia.
    + apply H; exact Hj.
Qed.

Lemma incr_nondecr t : incr t -> nondecr t.
Proof. intro H. apply nondecr_of_adjacent. intros i Hi. apply Qlt_le_weak, H, Hi. Qed.

Lemma incr_tail a l : incr (a :: l) -> incr l.
Proof. intros H i Hi. apply (H (S i)). simpl. lia. Qed.

Lemma incr_head_lt a l x : incr (a :: l) -> In x l -> a < x.
Proof.
  intros H Hx. destruct (In_nth l x 0 Hx) as [n [Hn Hnth]].
  generalize (incr_lt _ H 0%nat (S n)). unfold nthQ. simpl. rewrite Hnth. intro G. apply G; lia.
Qed.

Lemma incr_cons a l : incr l -> (forall x, In x l -> a < x) -> incr (a :: l).
Proof.
  intros Hl Ha [|i] Hi.
  - unfold nthQ. simpl. apply Ha. simpl in Hi. apply nth_In. lia.
  - unfold nthQ. simpl. apply Hl. simpl in Hi. lia.
Qed.

Lemma incr_filter f l : incr l -> incr (filter f l).
Proof.
  induction l as [|a l IH]; intro H; simpl.
  - exact H.
  - pose proof (incr_tail _ _ H) as Ht. destruct (f a).
    + apply incr_cons; [apply IH, Ht|]. intros x Hx. apply filter_In in Hx. destruct Hx as [Hx _].
      apply (incr_head_lt _ _ _ H Hx).
    + apply IH, Ht.
Qed.

(* ------------------------------------------------------------------ A.1 minimum / maximum *)
Lemma minQ_le_acc l : forall a, minQ a l <= a.
Proof.
  induction l as [|b r IH]; intro a; simpl.
  - apply Qle_refl.
  - destruct (Qltb b a) eqn:E.
    + apply Qltb_lt in E. apply Qle_trans with b; [apply IH | apply Qlt_le_weak, E].
    + apply IH.
Qed.

Lemma minQ_le_in l : forall a x, In x l -> minQ a l <= x.
Proof.
  induction l as [|b r IH]; intros a x Hx; simpl in *.
  - contradiction.
  - destruct Hx as [Hx | Hx].
    + subst x. destruct (Qltb b a) eqn:E.
      * apply minQ_le_acc.
      * apply Qltb_ge in E. apply Qle_trans with a; [apply minQ_le_acc | exact E].
    + apply IH, Hx.
Qed.

Lemma minQ_sel l : forall a, minQ a l = a \/ In (minQ a l) l.
Proof.
  induction l as [|b r IH]; intro a; simpl.
  - left; reflexivity.
  - destruct (Qltb b a).
    + destruct (IH b) as [H | H]; [right; left; symmetry; exact H | right; right; exact H].
    + destruct (IH a) as [H | H]; [left; exact H | right; right; exact H].
Qed.

Lemma maxQ_ge_acc l : forall a, a <= maxQ a l.
Proof.
  induction l as [|b r IH]; intro a; simpl.
  - apply Qle_refl.
  - destruct (Qltb a b) eqn:E.
    + apply Qltb_lt in E. apply Qle_trans with b; [apply Qlt_le_weak, E | apply IH].
    + apply IH.
Qed.

Lemma maxQ_ge_in l : forall a x, In x l -> x <= maxQ a l.
Proof.
  induction l as [|b r IH]; intros a x Hx; simpl in *.
  - contradiction.
  - destruct Hx as [Hx | Hx].
    + subst x. destruct (Qltb a b) eqn:E.
      * apply maxQ_ge_acc.
      * apply Qltb_ge in E. apply Qle_trans with a; [exact E | apply maxQ_ge_acc].
    + apply IH, Hx.
Qed.

Lemma maxQ_sel l : forall a, maxQ a l = a \/ In (maxQ a l) l.
Proof.
  induction l as [|b r IH]; intro a; simpl.
  - left; reflexivity.
  - destruct (Qltb a b).
    + destruct (IH b) as [H | H]; [right; left; symmetry; exact H | right; right; exact H].
    + destruct (IH a) as [H | H]; [left; exact H | right; right; exact H].
Qed.

Theorem lminQ_le xs x : In x xs -> lminQ xs <= x.
Proof.
  destruct xs as [|a r]; simpl; [contradiction|]. intros [H | H].
  - subst x. apply minQ_le_acc.
  - apply minQ_le_in, H.
Qed.

Theorem lmaxQ_ge xs x : In x xs -> x <= lmaxQ xs.
Proof.
  destruct xs as [|a r]; simpl; [contradiction|]. intros [H | H].
  - subst x. apply maxQ_ge_acc.
  - apply maxQ_ge_in, H.
Qed.

(* Leibniz: the minimum / maximum IS one of the elements *)
Theorem lminQ_In xs : xs <> [] -> In (lminQ xs) xs.
Proof.
  destruct xs as [|a r]; [congruence|]. intros _. simpl.
  destruct (minQ_sel r a) as [H | H]; [left; symmetry; exact H | right; exact H].
Qed.

Theorem lmaxQ_In xs : xs <> [] -> In (lmaxQ xs) xs.
Proof.
  destruct xs as [|a r]; [congruence|]. intros _. simpl.
  destruct (maxQ_sel r a) as [H | H]; [left; symmetry; exact H | right; exact H].
Qed.

Theorem lmin_le_lmax xs : xs <> [] -> lminQ xs <= lmaxQ xs.
Proof.
  intro H. apply lminQ_le, lmaxQ_In, H.
Qed.

(* ------------------------------------------------------------------ list access helpers *)
Lemma nthQ_map_seq (f : nat -> Q) start len i :
  (i < len)%nat -> nthQ (map f (seq start len)) i = f (start + i)%nat.
Proof.
  intro Hi. unfold nthQ.
  rewrite nth_indep with (d' := f 0%nat) by (rewrite map_length, seq_length; exact Hi).
  rewrite map_nth, seq_nth by exact Hi. reflexivity.
Qed.

Lemma nthQ_map_rev_seq (f : nat -> Q) start len i :
  (i < len)%nat -> nthQ (map f (rev (seq start len))) i = f (start + (len - S i))%nat.
Proof.
  intro Hi. unfold nthQ.
  rewrite nth_indep with (d' := f 0%nat) by (rewrite map_length, rev_length, seq_length; exact Hi).
  rewrite map_nth, rev_nth by (rewrite seq_length; exact Hi).
  rewrite seq_length, seq_nth by lia. reflexivity.
Qed.

Lemma injZ_S n : inject_Z (Z.of_nat (S n)) == inject_Z (Z.of_nat n) + 1.
Proof. rewrite Nat2Z.inj_succ. unfold Z.succ. rewrite inject_Z_plus. reflexivity. Qed.

Lemma injZ_nonneg n : 0 <= inject_Z (Z.of_nat n).
Proof. change 0 with (inject_Z 0). rewrite <- Zle_Qle. lia. Qed.

Lemma injZ_pos n : (0 < n)%nat -> 0 < inject_Z (Z.of_nat n).
Proof. intro H. change 0 with (inject_Z 0). rewrite <- Zlt_Qlt. lia. Qed.

(* ------------------------------------------------------------------ A.2 / A.3 padding *)
Definition pad_sp (b : list Q) (s : Q) : Q :=
  match b with [_] => s | _ => (nthQ b 1 - nthQ b 0) * s end.

Lemma pad_unfold b k s :
  pad b k s =
  map (fun i => Qred (nthQ b 0 - pad_sp b s * inject_Z (Z.of_nat i))) (rev (seq 1 (k - 1)))
  ++ b ++
  map (fun i => Qred (nthQ b (length b - 1) + pad_sp b s * inject_Z (Z.of_nat i))) (seq 1 (k - 1)).
Proof. reflexivity. Qed.

Theorem pad_length b k s : length (pad b k s) = (length b + 2 * (k - 1))%nat.
Proof.
  rewrite pad_unfold. rewrite !app_length, !map_length, rev_length, !seq_length. lia.
Qed.

Lemma pad_left b k s i : (i < k - 1)%nat ->
  nthQ (pad b k s) i == nthQ b 0 - pad_sp b s * inject_Z (Z.of_nat (k - 1 - i)).
Proof.
  intro Hi. rewrite pad_unfold. unfold nthQ at 1.
  rewrite app_nth1 by (rewrite map_length, rev_length, seq_length; exact Hi).
  fold (nthQ (map (fun i => Qred (nthQ b 0 - pad_sp b s * inject_Z (Z.of_nat i))) (rev (seq 1 (k - 1)))) i).
  rewrite nthQ_map_rev_seq by exact Hi. rewrite Qred_correct.
  replace (1 + (k - 1 - S i))%nat with (k - 1 - i)%nat by lia. reflexivity.
Qed.

Theorem pad_middle b k s : forall i, (i < length b)%nat -> nthQ (pad b k s) (k - 1 + i) = nthQ b i.
Proof.
  intros i Hi. rewrite pad_unfold. unfold nthQ.
  rewrite app_nth2 by (rewrite map_length, rev_length, seq_length; lia).
  rewrite map_length, rev_length, seq_length.
  rewrite app_nth1 by lia. f_equal. lia.
Qed.

Lemma pad_right b k s i : (i < k - 1)%nat ->
  nthQ (pad b k s) (k - 1 + length b + i) ==
  nthQ b (length b - 1) + pad_sp b s * inject_Z (Z.of_nat (S i)).
Proof.
  intro Hi. rewrite pad_unfold. unfold nthQ at 1.
  rewrite app_nth2 by (rewrite map_length, rev_length, seq_length; lia).
  rewrite map_length, rev_length, seq_length.
  rewrite app_nth2 by lia.
  replace (k - 1 + length b + i - (k - 1) - length b)%nat with i by lia.
  fold (nthQ (map (fun i => Qred (nthQ b (length b - 1) + pad_sp b s * inject_Z (Z.of_nat i))) (seq 1 (k - 1))) i).
  rewrite nthQ_map_seq by exact Hi. rewrite Qred_correct. reflexivity.
Qed.

Lemma pad_nondecr_gen b k s :
  nondecr b -> (1 <= length b)%nat -> 0 <= pad_sp b s -> nondecr (pad b k s).
Proof.
  intros Hb Hlen Hsp. apply nondecr_of_adjacent. intros i Hi. rewrite pad_length in Hi.
  set (sp := pad_sp b s) in *.
  destruct (lt_dec (S i) (k - 1)) as [C1 | C1].
  { (* both in the left padding *)
    rewrite (pad_left b k s i) by lia. rewrite (pad_left b k s (S i)) by lia. fold sp.
    replace (k - 1 - i)%nat with (S (k - 1 - S i)) by lia. rewrite injZ_S.
    generalize (inject_Z (Z.of_nat (k - 1 - S i))). intro z. nra. }
  destruct (Nat.eq_dec (S i) (k - 1)) as [C2 | C2].
  { (* left padding -> first breakpoint *)
    rewrite (pad_left b k s i) by lia. fold sp.
    replace (S i) with (k - 1 + 0)%nat by lia. rewrite pad_middle by lia.
    replace (k - 1 - i)%nat with 1%nat by lia. change (inject_Z (Z.of_nat 1)) with 1. nra. }
  destruct (lt_dec (S i) (k - 1 + length b)) as [C3 | C3].
  { (* both inside b *)
    replace (S i) with (k - 1 + (S i - (k - 1)))%nat by lia.
    replace i with (k - 1 + (i - (k - 1)))%nat at 1 by lia.
    rewrite !pad_middle by lia. apply Hb; lia. }
  destruct (Nat.eq_dec (S i) (k - 1 + length b)) as [C4 | C4].
  { (* last breakpoint -> right padding *)
    replace (S i) with (k - 1 + length b + 0)%nat by lia. rewrite pad_right by lia. fold sp.
    replace i with (k - 1 + (length b - 1))%nat by lia. rewrite pad_middle by lia.
    change (inject_Z (Z.of_nat 1)) with 1. nra. }
  (* both in the right padding *)
  replace (S i) with (k - 1 + length b + S (i - (k - 1) - length b))%nat by lia.
  replace i with (k - 1 + length b + (i - (k - 1) - length b))%nat at 1 by lia.
  rewrite !pad_right by lia. fold sp.
  rewrite (injZ_S (S (i - (k - 1) - length b))).
  generalize (inject_Z (Z.of_nat (S (i - (k - 1) - length b)))). intro z. nra.
Qed.

Theorem pad_nondecr b k s : nondecr b -> (2 <= length b)%nat -> 0 <= s -> nondecr (pad b k s).
Proof.
  intros Hb Hlen Hs. apply pad_nondecr_gen; [exact Hb | lia |].
  destruct b as [|a [|c r]]; simpl in Hlen; try lia.
  unfold pad_sp. pose proof (Hb 0%nat 1%nat) as H01. simpl in H01.
  assert (nthQ (a :: c :: r) 0 <= nthQ (a :: c :: r) 1) as H by (apply H01; lia).
  revert H. generalize (nthQ (a :: c :: r) 0) (nthQ (a :: c :: r) 1). intros u v H. nra.
Qed.

(* the one-breakpoint case: the padding spacing is bkspread itself *)
Theorem pad_nondecr_single a k s : 0 <= s -> nondecr (pad [a] k s).
Proof.
  intro Hs. apply pad_nondecr_gen; [| simpl; lia | exact Hs].
  intros i j Hij Hj. simpl in Hj. replace j with 0%nat by lia. replace i with 0%nat by lia. apply Qle_refl.
Qed.

(* ------------------------------------------------------------------ A.4 cover *)
Lemma set_nth_length {A} (v : A) l : forall i, length (set_nth i v l) = length l.
Proof. induction l as [|a r IH]; intros [|i]; simpl; auto. Qed.

Lemma nth_set_nth_eq {A} (v d : A) l : forall i, (i < length l)%nat -> nth i (set_nth i v l) d = v.
Proof. induction l as [|a r IH]; intros [|i] Hi; simpl in *; try lia; auto. apply IH. lia. Qed.

Lemma nth_set_nth_neq {A} (v d : A) l : forall i j, i <> j -> nth j (set_nth i v l) d = nth j l d.
Proof. induction l as [|a r IH]; intros [|i] [|j] Hij; simpl; try congruence; auto. Qed.

Theorem cover_length b xmin xmax : length (cover b xmin xmax) = length b.
Proof.
  destruct b as [|a r]; [reflexivity|]. unfold cover. cbv zeta.
  repeat match goal with |- context [if ?c then _ else _] => destruct c end;
  rewrite ?set_nth_length; reflexivity.
Qed.

(* argmin / argmax return the FIRST extreme position (numpy.argmin / numpy.argmax).  For a strictly
   increasing list these are position 0 and the last position.  Strictness matters: with a repeated
   maximum argmax points at the first of the equal maxima, the code overwrites THAT entry with xmax and
   the result is no longer monotone (example below). *)
Lemma argminQ_first r : forall p best bv, (forall x, In x r -> bv < x) -> argminQ r p best bv = best.
Proof.
  induction r as [|b r IH]; intros p best bv H; simpl; [reflexivity|].
  assert (Qltb b bv = false) as E by (apply Qltb_ge, Qlt_le_weak, H; left; reflexivity).
  rewrite E. apply IH. intros x Hx. apply H. right; exact Hx.
Qed.

Lemma argmaxQ_last r : forall p best bv, incr (bv :: r) ->
  argmaxQ r p best bv = match r with [] => best | _ => (p + length r - 1)%nat end.
Proof.
  induction r as [|b r IH]; intros p best bv H; simpl; [reflexivity|].
  assert (Qltb bv b = true) as E.
  { apply Qltb_lt. apply (incr_head_lt _ _ _ H). left; reflexivity. }
  rewrite E. rewrite IH by (apply (incr_tail _ _ H)). destruct r; simpl; lia.
Qed.

Example cover_repeated_max_breaks :
  cover [0; 1; 1] 0 2 = [0; 2; 1].
Proof. reflexivity. Qed.

Lemma cover_incr_eq b xmin xmax : incr b -> (2 <= length b)%nat ->
  cover b xmin xmax =
  let b1 := if Qltb xmin (nthQ b 0) then set_nth 0 xmin b else b in
  if Qltb (nthQ b1 (length b - 1)) xmax then set_nth (length b - 1) xmax b1 else b1.
Proof.
  intros Hb Hlen. destruct b as [|a r]; [simpl in Hlen; lia|]. unfold cover.
  rewrite argminQ_first by (intros x Hx; apply (incr_head_lt _ _ _ Hb Hx)).
  rewrite argmaxQ_last by exact Hb.
  destruct r as [|c r]; [simpl in Hlen; lia|].
  replace (1 + length (c :: r) - 1)%nat with (length (a :: c :: r) - 1)%nat by (simpl; lia).
  reflexivity.
Qed.

Lemma cover_nth_first b xmin xmax : incr b -> (2 <= length b)%nat ->
  nthQ (cover b xmin xmax) 0 = if Qltb xmin (nthQ b 0) then xmin else nthQ b 0.
Proof.
  intros Hb Hlen. rewrite cover_incr_eq by assumption. cbv zeta.
  set (b1 := if Qltb xmin (nthQ b 0) then set_nth 0 xmin b else b).
  assert (nthQ b1 0 = if Qltb xmin (nthQ b 0) then xmin else nthQ b 0) as H1.
  { unfold b1. destruct (Qltb xmin (nthQ b 0)); [|reflexivity]. unfold nthQ. apply nth_set_nth_eq. lia. }
  destruct (Qltb (nthQ b1 (length b - 1)) xmax); [|exact H1].
  unfold nthQ. rewrite nth_set_nth_neq by lia. exact H1.
Qed.

Lemma cover_nth_last b xmin xmax : incr b -> (2 <= length b)%nat ->
  nthQ (cover b xmin xmax) (length b - 1) =
  if Qltb (nthQ b (length b - 1)) xmax then xmax else nthQ b (length b - 1).
Proof.
  intros Hb Hlen. rewrite cover_incr_eq by assumption. cbv zeta.
  set (b1 := if Qltb xmin (nthQ b 0) then set_nth 0 xmin b else b).
  assert (length b1 = length b) as HL.
  { unfold b1. destruct (Qltb xmin (nthQ b 0)); [apply set_nth_length | reflexivity]. }
  assert (nthQ b1 (length b - 1) = nthQ b (length b - 1)) as H1.
  { unfold b1. destruct (Qltb xmin (nthQ b 0)); [|reflexivity]. unfold nthQ. apply nth_set_nth_neq. lia. }
  rewrite H1. destruct (Qltb (nthQ b (length b - 1)) xmax); [|exact H1].
  unfold nthQ. apply nth_set_nth_eq. lia.
Qed.

Lemma cover_nth_mid b xmin xmax j : incr b -> (2 <= length b)%nat ->
  (0 < j)%nat -> (j < length b - 1)%nat -> nthQ (cover b xmin xmax) j = nthQ b j.
Proof.
  intros Hb Hlen Hj0 Hj. rewrite cover_incr_eq by assumption. cbv zeta.
  set (b1 := if Qltb xmin (nthQ b 0) then set_nth 0 xmin b else b).
  assert (nthQ b1 j = nthQ b j) as H1.
  { unfold b1. destruct (Qltb xmin (nthQ b 0)); [|reflexivity]. unfold nthQ. apply nth_set_nth_neq. lia. }
  destruct (Qltb (nthQ b1 (length b - 1)) xmax); [|exact H1].
  unfold nthQ. rewrite nth_set_nth_neq by lia. exact H1.
Qed.

(* cover only lowers the first and only raises the last entry *)
Lemma cover_nth_lo b xmin xmax i : incr b -> (2 <= length b)%nat ->
  (i < length b - 1)%nat -> nthQ (cover b xmin xmax) i <= nthQ b i.
Proof.
  intros Hb Hlen Hi. destruct i as [|i].
  - rewrite cover_nth_first by assumption. destruct (Qltb xmin (nthQ b 0)) eqn:E.
    + apply Qlt_le_weak, Qltb_lt, E.
    + apply Qle_refl.
  - rewrite cover_nth_mid by (assumption || lia). apply Qle_refl.
Qed.

Lemma cover_nth_hi b xmin xmax j : incr b -> (2 <= length b)%nat ->
  (0 < j)%nat -> (j < length b)%nat -> nthQ b j <= nthQ (cover b xmin xmax) j.
Proof.
  intros Hb Hlen Hj0 Hj. destruct (Nat.eq_dec j (length b - 1)) as [-> | Hne].
  - rewrite cover_nth_last by assumption. destruct (Qltb (nthQ b (length b - 1)) xmax) eqn:E.
    + apply Qlt_le_weak, Qltb_lt, E.
    + apply Qle_refl.
  - rewrite cover_nth_mid by (assumption || lia). apply Qle_refl.
Qed.

(* monotonicity needs neither xmin <= xmax nor two breakpoints *)
Lemma cover_incr_nondecr_strong b xmin xmax : incr b -> nondecr (cover b xmin xmax).
Proof.
  intros Hb i j Hij Hj. rewrite cover_length in Hj.
  destruct (Nat.eq_dec i j) as [-> | Hne]; [apply Qle_refl|].
  assert (2 <= length b)%nat as Hlen by lia.
  apply Qle_trans with (nthQ b i); [apply cover_nth_lo; assumption || lia|].
  apply Qle_trans with (nthQ b j); [|apply cover_nth_hi; assumption || lia].
  apply Qlt_le_weak, incr_lt; assumption || lia.
Qed.

Theorem cover_incr_nondecr b xmin xmax :
  incr b -> b <> [] -> xmin <= xmax -> nondecr (cover b xmin xmax).
Proof. intros Hb _ _. apply cover_incr_nondecr_strong, Hb. Qed.

(* Coverage needs at least two breakpoints: with a single breakpoint imin = imax = 0, the code first
   lowers b[0] to xmin and then raises the same entry to xmax, so xmin is no longer covered when
   xmin < xmax (cover_single_loses_xmin below). *)
Theorem cover_covers b xmin xmax : incr b -> (2 <= length b)%nat -> xmin <= xmax ->
  nthQ (cover b xmin xmax) 0 <= xmin /\ xmax <= nthQ (cover b xmin xmax) (length b - 1).
Proof.
  intros Hb Hlen _. split.
  - rewrite cover_nth_first by assumption. destruct (Qltb xmin (nthQ b 0)) eqn:E.
    + apply Qle_refl.
    + apply Qltb_ge, E.
  - rewrite cover_nth_last by assumption. destruct (Qltb (nthQ b (length b - 1)) xmax) eqn:E.
    + apply Qle_refl.
    + apply Qltb_ge, E.
Qed.

Lemma cover_single a xmin xmax :
  cover [a] xmin xmax =
  let m := if Qltb xmin a then xmin else a in [if Qltb m xmax then xmax else m].
Proof. unfold cover, nthQ. simpl. destruct (Qltb xmin a); simpl; destruct (Qltb _ xmax); reflexivity. Qed.

Theorem cover_single_loses_xmin a xmin xmax : xmin < xmax ->
  cover [a] xmin xmax = [xmax] /\ ~ nthQ (cover [a] xmin xmax) 0 <= xmin.
Proof.
  intro H. assert (cover [a] xmin xmax = [xmax]) as E.
  { rewrite cover_single. cbv zeta. destruct (Qltb xmin a) eqn:E1.
    - apply Qltb_lt in H. rewrite H. reflexivity.
    - apply Qltb_ge in E1. assert (Qltb a xmax = true) as E2 by (apply Qltb_lt; lra). rewrite E2. reflexivity. }
  split; [exact E|]. rewrite E. unfold nthQ. simpl. lra.
Qed.

Theorem cover_covers_single a x : 
  nthQ (cover [a] x x) 0 <= x /\ x <= nthQ (cover [a] x x) 0.
Proof.
  rewrite cover_single. cbv zeta. unfold nthQ. simpl.
  destruct (Qltb x a) eqn:E1.
  - assert (Qltb x x = false) as E2 by (apply Qltb_ge; lra). rewrite E2. lra.
  - apply Qltb_ge in E1. destruct (Qltb a x) eqn:E2; [lra|]. apply Qltb_ge in E2. lra.
Qed.

(* exactness: a first / last breakpoint already at the data limit is left there *)
Lemma cover_first_exact b xmin xmax : incr b -> (2 <= length b)%nat ->
  nthQ b 0 == xmin -> nthQ (cover b xmin xmax) 0 == xmin.
Proof.
  intros Hb Hlen H. rewrite cover_nth_first by assumption.
  destruct (Qltb xmin (nthQ b 0)); [reflexivity | exact H].
Qed.

Lemma cover_last_exact b xmin xmax : incr b -> (2 <= length b)%nat ->
  nthQ b (length b - 1) == xmax -> nthQ (cover b xmin xmax) (length b - 1) == xmax.
Proof.
  intros Hb Hlen H. rewrite cover_nth_last by assumption.
  destruct (Qltb (nthQ b (length b - 1)) xmax); [reflexivity | exact H].
Qed.

(* ------------------------------------------------------------------ A.5 generic knot theorem *)
Theorem knots_generic b xmin xmax k s :
  incr b -> (2 <= length b)%nat -> xmin <= xmax -> 0 <= s -> (1 <= k)%nat ->
  let t := pad (cover b xmin xmax) k s in
  nondecr t /\ length t = (length b + 2 * (k - 1))%nat /\
  nthQ t (k - 1) <= xmin /\ xmax <= nthQ t (length t - k).
Proof.
  intros Hb Hlen Hx Hs Hk t. subst t.
  pose proof (cover_length b xmin xmax) as HL.
  pose proof (cover_covers b xmin xmax Hb Hlen Hx) as [Hlo Hhi].
  split; [|split; [|split]].
  - apply pad_nondecr; [apply cover_incr_nondecr_strong, Hb | lia | exact Hs].
  - rewrite pad_length, HL. reflexivity.
  - pose proof (pad_middle (cover b xmin xmax) k s 0%nat) as HM. rewrite Nat.add_0_r in HM.
    rewrite HM by lia. exact Hlo.
  - rewrite pad_length, HL.
    replace (length b + 2 * (k - 1) - k)%nat with (k - 1 + (length b - 1))%nat by lia.
    rewrite pad_middle by lia. exact Hhi.
Qed.

(* the knots at positions k-1 and length-k are the first / last covered breakpoint *)
Lemma knots_generic_ends b xmin xmax k s : (1 <= length b)%nat -> (1 <= k)%nat ->
  let t := pad (cover b xmin xmax) k s in
  nthQ t (k - 1) = nthQ (cover b xmin xmax) 0 /\
  nthQ t (length t - k) = nthQ (cover b xmin xmax) (length b - 1).
Proof.
  intros Hlen Hk t. subst t. pose proof (cover_length b xmin xmax) as HL. split.
  - pose proof (pad_middle (cover b xmin xmax) k s 0%nat) as HM. rewrite Nat.add_0_r in HM.
    apply HM. lia.
  - rewrite pad_length, HL.
    replace (length b + 2 * (k - 1) - k)%nat with (k - 1 + (length b - 1))%nat by lia.
    apply pad_middle. lia.
Qed.

(* ------------------------------------------------------------------ B.6 equally spaced breakpoints *)
Definition enb (nb : nat) : nat := if (nb <? 2)%nat then 2%nat else nb.

Lemma enb_ge2 nb : (2 <= enb nb)%nat.
Proof. unfold enb. destruct (Nat.ltb_spec nb 2); lia. Qed.

Lemma equispaced_unfold nb startx rangex :
  equispaced nb startx rangex =
  map (fun i => Qred (inject_Z (Z.of_nat i) * (rangex / inject_Z (Z.of_nat (enb nb - 1))) + startx))
      (seq 0 (enb nb)).
Proof. reflexivity. Qed.

Lemma equispaced_length nb startx rangex : length (equispaced nb startx rangex) = enb nb.
Proof. rewrite equispaced_unfold, map_length, seq_length. reflexivity. Qed.

Lemma equispaced_nth nb startx rangex i : (i < enb nb)%nat ->
  nthQ (equispaced nb startx rangex) i ==
  inject_Z (Z.of_nat i) * (rangex / inject_Z (Z.of_nat (enb nb - 1))) + startx.
Proof.
  intro Hi. rewrite equispaced_unfold, nthQ_map_seq by exact Hi. rewrite Qred_correct. reflexivity.
Qed.

Lemma equispaced_den_pos nb : 0 < inject_Z (Z.of_nat (enb nb - 1)).
Proof. apply injZ_pos. pose proof (enb_ge2 nb). lia. Qed.

Theorem raw_equispaced_incr nb startx rangex : 0 < rangex ->
  incr (equispaced nb startx rangex) /\ (2 <= length (equispaced nb startx rangex))%nat.
Proof.
  intro Hr. split.
  - intros i Hi. rewrite equispaced_length in Hi.
    rewrite !equispaced_nth by lia. rewrite injZ_S.
    pose proof (equispaced_den_pos nb) as Hd.
    assert (0 < rangex / inject_Z (Z.of_nat (enb nb - 1))) as Hsp.
    { apply Qlt_shift_div_l; [exact Hd | rewrite Qmult_0_l; exact Hr]. }
    revert Hsp. generalize (rangex / inject_Z (Z.of_nat (enb nb - 1))) (inject_Z (Z.of_nat i)).
    intros sp z Hsp. nra.
  - rewrite equispaced_length. apply enb_ge2.
Qed.

Theorem equispaced_first nb startx rangex : nthQ (equispaced nb startx rangex) 0 == startx.
Proof.
  rewrite equispaced_nth by (pose proof (enb_ge2 nb); lia).
  change (inject_Z (Z.of_nat 0)) with 0. ring.
Qed.

Theorem equispaced_last nb startx rangex :
  nthQ (equispaced nb startx rangex) (length (equispaced nb startx rangex) - 1) == startx + rangex.
Proof.
  rewrite equispaced_length. rewrite equispaced_nth by (pose proof (enb_ge2 nb); lia).
  pose proof (equispaced_den_pos nb) as Hd. revert Hd.
  generalize (inject_Z (Z.of_nat (enb nb - 1))). intros d Hd. field. intro H0. rewrite H0 in Hd.
  apply (Qlt_irrefl _ Hd).
Qed.

(* ------------------------------------------------------------------ B.7 placed breakpoints *)
Theorem raw_placed_incr p xs : incr p -> lminQ xs < lmaxQ xs ->
  incr (raw_bkpt (OPlaced p) xs) /\ (2 <= length (raw_bkpt (OPlaced p) xs))%nat.
Proof.
  intros Hp Hx. unfold raw_bkpt. cbv zeta.
  set (w := filter _ p).
  destruct (Nat.ltb_spec (length w) 2) as [Hw | Hw].
  - split; [|simpl; lia]. intros [|i] Hi; simpl in Hi; [|lia].
    unfold nthQ. cbn [nth]. rewrite !Qred_correct. lra.
  - split; [|exact Hw]. unfold w. apply incr_filter, Hp.
Qed.

(* ------------------------------------------------------------------ B.8 every-n breakpoints *)
Lemma everyn_positions nx nb i : (2 <= nb)%nat -> (nb <= nx)%nat -> (S i < nb)%nat ->
  (Nat.min (nx / (nb - 1) * i) (nx - 1) < Nat.min (nx / (nb - 1) * S i) (nx - 1))%nat.
Proof.
  intros Hnb Hnx Hi.
  set (m := (nb - 1)%nat). set (step := (nx / m)%nat).
  assert (step * m <= nx)%nat as H1 by (unfold step; rewrite Nat.mul_comm; apply Nat.mul_div_le; lia).
  assert (1 <= step)%nat as H2 by (unfold step; apply Nat.div_str_pos; lia).
  assert (step * i + step <= step * m)%nat as H3.
  { replace (step * i + step)%nat with (step * S i)%nat by lia. apply Nat.mul_le_mono_l. lia. }
  assert (step * i < nx - 1)%nat as H4.
  { destruct (Nat.eq_dec step 1) as [E | E].
    - rewrite E in *. lia.
    - lia. }
  replace (step * S i)%nat with (step * i + step)%nat by lia. lia.
Qed.

Theorem raw_everyn_incr e xs : incr xs -> (1 <= e)%nat -> (2 <= length xs / e)%nat ->
  incr (raw_bkpt (OEveryn e) xs) /\ (2 <= length (raw_bkpt (OEveryn e) xs))%nat.
Proof.
  intros Hxs He Hnb. unfold raw_bkpt. cbv zeta.
  set (nx := length xs) in *. 
  assert (nx / e <= nx)%nat as Hle.
  { apply Nat.div_le_upper_bound; [lia|]. nia. }
  rewrite (Nat.max_l (nx / e) 1) by lia.
  destruct (Nat.eqb_spec (nx / e) 1) as [E | _]; [lia|].
  split.
  - intros i Hi. rewrite map_length, seq_length in Hi.
    rewrite !nthQ_map_seq by lia. rewrite !Nat.add_0_l.
    pose proof (everyn_positions nx (nx / e) i Hnb Hle Hi) as Hpos.
    apply incr_lt; [exact Hxs | exact Hpos | fold nx; lia].
  - rewrite map_length, seq_length. exact Hnb.
Qed.

(* ------------------------------------------------------------------ B.9 the knot vector of every option *)
Lemma knots_spec_of_raw o xs k s :
  incr (raw_bkpt o xs) -> (2 <= length (raw_bkpt o xs))%nat ->
  xs <> [] -> 0 <= s -> (1 <= k)%nat ->
  let t := knots_of_option o xs k s in
  nondecr t /\
  (exists nshort, (2 <= nshort)%nat /\ length t = (nshort + 2 * (k - 1))%nat) /\
  nthQ t (k - 1) <= lminQ xs /\ lmaxQ xs <= nthQ t (length t - k).
Proof.
  intros Hb Hlen Hxs Hs Hk t. subst t. unfold knots_of_option.
  destruct (knots_generic (raw_bkpt o xs) (lminQ xs) (lmaxQ xs) k s Hb Hlen (lmin_le_lmax xs Hxs) Hs Hk)
    as [H1 [H2 [H3 H4]]].
  split; [exact H1|]. split; [|split; [exact H3 | exact H4]].
  exists (length (raw_bkpt o xs)). split; [exact Hlen | exact H2].
Qed.

Theorem knots_spec_bkpt b xs k s :
  xs <> [] -> 0 <= s -> (1 <= k)%nat -> incr b -> (2 <= length b)%nat ->
  let t := knots_of_option (OBkpt b) xs k s in
  nondecr t /\
  (exists nshort, (2 <= nshort)%nat /\ length t = (nshort + 2 * (k - 1))%nat) /\
  nthQ t (k - 1) <= lminQ xs /\ lmaxQ xs <= nthQ t (length t - k).
Proof.
  intros Hxs Hs Hk Hb Hlen. apply knots_spec_of_raw; assumption.
Qed.

Theorem knots_spec_placed p xs k s :
  xs <> [] -> lminQ xs < lmaxQ xs -> 0 <= s -> (1 <= k)%nat -> incr p ->
  let t := knots_of_option (OPlaced p) xs k s in
  nondecr t /\
  (exists nshort, (2 <= nshort)%nat /\ length t = (nshort + 2 * (k - 1))%nat) /\
  nthQ t (k - 1) <= lminQ xs /\ lmaxQ xs <= nthQ t (length t - k).
Proof.
  intros Hxs Hx Hs Hk Hp. destruct (raw_placed_incr p xs Hp Hx) as [Hb Hlen].
  apply knots_spec_of_raw; assumption.
Qed.

(* computed (equally spaced) breakpoints start and end exactly at the data limits *)
Lemma knots_spec_equispaced o nb xs k s :
  raw_bkpt o xs = equispaced nb (lminQ xs) (lmaxQ xs - lminQ xs) ->
  xs <> [] -> lminQ xs < lmaxQ xs -> 0 <= s -> (1 <= k)%nat ->
  let t := knots_of_option o xs k s in
  (nondecr t /\
   (exists nshort, (2 <= nshort)%nat /\ length t = (nshort + 2 * (k - 1))%nat) /\
   nthQ t (k - 1) <= lminQ xs /\ lmaxQ xs <= nthQ t (length t - k)) /\
  nthQ t (k - 1) == lminQ xs /\ nthQ t (length t - k) == lmaxQ xs.
Proof.
  intros Hraw Hxs Hx Hs Hk t.
  assert (0 < lmaxQ xs - lminQ xs) as Hr by lra.
  destruct (raw_equispaced_incr nb (lminQ xs) (lmaxQ xs - lminQ xs) Hr) as [Hb Hlen].
  rewrite <- Hraw in Hb, Hlen.
  split; [apply knots_spec_of_raw; assumption|].
  subst t. unfold knots_of_option.
  destruct (knots_generic_ends (raw_bkpt o xs) (lminQ xs) (lmaxQ xs) k s) as [E1 E2]; [lia | exact Hk |].
  rewrite E1, E2. split.
  - apply cover_first_exact; [exact Hb | exact Hlen |]. rewrite Hraw. apply equispaced_first.
  - apply cover_last_exact; [exact Hb | exact Hlen |]. rewrite Hraw, equispaced_last. ring.
Qed.

(* the hypothesis 0 < sp is the domain on which the model mirrors the code (the code divides by
   bkspace); the proof does not use it *)
Theorem knots_spec_bkspace sp xs k s :
  xs <> [] -> lminQ xs < lmaxQ xs -> 0 <= s -> (1 <= k)%nat -> 0 < sp ->
  let t := knots_of_option (OBkspace sp) xs k s in
  (nondecr t /\
   (exists nshort, (2 <= nshort)%nat /\ length t = (nshort + 2 * (k - 1))%nat) /\
   nthQ t (k - 1) <= lminQ xs /\ lmaxQ xs <= nthQ t (length t - k)) /\
  nthQ t (k - 1) == lminQ xs /\ nthQ t (length t - k) == lmaxQ xs.
Proof.
  intros Hxs Hx Hs Hk _.
  apply (knots_spec_equispaced (OBkspace sp) (Qfloor_nat ((lmaxQ xs - lminQ xs) / sp) + 1)); try assumption.
  reflexivity.
Qed.

Theorem knots_spec_nbkpts nb xs k s :
  xs <> [] -> lminQ xs < lmaxQ xs -> 0 <= s -> (1 <= k)%nat ->
  let t := knots_of_option (ONbkpts nb) xs k s in
  (nondecr t /\
   (exists nshort, (2 <= nshort)%nat /\ length t = (nshort + 2 * (k - 1))%nat) /\
   nthQ t (k - 1) <= lminQ xs /\ lmaxQ xs <= nthQ t (length t - k)) /\
  nthQ t (k - 1) == lminQ xs /\ nthQ t (length t - k) == lmaxQ xs.
Proof.
  intros Hxs Hx Hs Hk.
  apply (knots_spec_equispaced (ONbkpts nb) nb); try assumption. reflexivity.
Qed.

Theorem knots_spec_everyn e xs k s :
  xs <> [] -> 0 <= s -> (1 <= k)%nat -> incr xs -> (1 <= e)%nat -> (2 <= length xs / e)%nat ->
  let t := knots_of_option (OEveryn e) xs k s in
  nondecr t /\
  (exists nshort, (2 <= nshort)%nat /\ length t = (nshort + 2 * (k - 1))%nat) /\
  nthQ t (k - 1) <= lminQ xs /\ lmaxQ xs <= nthQ t (length t - k).
Proof.
  intros Hxs Hs Hk Hi He Hn. destruct (raw_everyn_incr e xs Hi He Hn) as [Hb Hlen].
  apply knots_spec_of_raw; assumption.
Qed.

(* ------------------------------------------------------------------ the single-breakpoint every-n case
   (nx / everyn <= 1): the code takes the one breakpoint x[0]; cover then moves that same entry to
   x.max(), so the knot vector is still monotone and has 1 + 2(k-1) knots, but the data minimum is NOT
   covered as soon as the data have two distinct values. *)
Lemma raw_everyn_single e xs : (length xs / e <= 1)%nat -> raw_bkpt (OEveryn e) xs = [nthQ xs 0].
Proof.
  intro H. unfold raw_bkpt. cbv zeta. rewrite (Nat.max_r (length xs / e) 1) by lia. reflexivity.
Qed.

Theorem knots_everyn_single e xs k s : (length xs / e <= 1)%nat -> 0 <= s -> (1 <= k)%nat ->
  let t := knots_of_option (OEveryn e) xs k s in
  nondecr t /\ length t = (1 + 2 * (k - 1))%nat /\
  (lminQ xs < lmaxQ xs -> nthQ t (k - 1) = lmaxQ xs /\ ~ nthQ t (k - 1) <= lminQ xs).
Proof.
  intros He Hs Hk t. subst t. unfold knots_of_option. rewrite raw_everyn_single by exact He.
  set (a := nthQ xs 0).
  assert (exists c, cover [a] (lminQ xs) (lmaxQ xs) = [c]) as [c Hc].
  { rewrite cover_single. cbv zeta. eexists; reflexivity. }
  split; [|split].
  - rewrite Hc. apply pad_nondecr_single, Hs.
  - rewrite pad_length, cover_length. reflexivity.
  - intro Hx. destruct (cover_single_loses_xmin a _ _ Hx) as [E _]. rewrite E.
    pose proof (pad_middle [lmaxQ xs] k s 0%nat) as HM. rewrite Nat.add_0_r in HM.
    rewrite HM by (simpl; lia). unfold nthQ. cbn [nth]. split; [reflexivity | lra].
Qed.

Print Assumptions knots_generic.
Print Assumptions knots_spec_bkpt.
Print Assumptions knots_spec_placed.
Print Assumptions knots_spec_bkspace.
Print Assumptions knots_spec_nbkpts.
Print Assumptions knots_spec_everyn.
Print Assumptions knots_everyn_single.
