(* The hand-written stage model uses exactly the thresholds and index arithmetic that translate/c11.py extracts
   from the source of combine1fiber on every run (Generated/Combine1fiber.v). *)
From Coq Require Import QArith Qabs List Bool Arith Lia.
Import ListNotations.
From PV Require Import BSpline.Eval Generated.Combine1fiber C11.Model.
Open Scope Q_scope.

Lemma gen_EPS : c1f_EPS = EPS.
Proof. reflexivity. Qed.

Lemma gen_defaults : c1f_nord = 3%nat /\ c1f_maxsep_factor == 2 /\ c1f_bkptbin_factor == 12 # 10 /\
  c1f_pad_lo == 2 /\ c1f_pad_hi == 2 /\ c1f_slice_extra = 1%nat /\ c1f_smooth_width = 3%nat.
Proof. repeat split; reflexivity. Qed.

(* grouping: a cut after position i iff the difference to the next sorted good pixel is > maxsep *)
Lemma gen_gap_after maxsep : forall w,
  gap_after maxsep w =
  (fix go (w : list Q) : list bool :=
     match w with
     | [] => []
     | [a] => [true]
     | a :: ((b :: _) as r) => c1f_gap maxsep (b - a) :: go r
     end) w.
Proof. induction w as [|a [|b w] IH]; try reflexivity. cbn [gap_after]. f_equal. exact IH. Qed.

(* a group is fitted iff it has more than c1f_min_group pixels *)
Lemma gen_usable_size ss f : (length ss <=? c1f_min_group)%nat = true -> usable ss f = None.
Proof. unfold usable, c1f_min_group. intros ->. reflexivity. Qed.

Lemma gen_inside lo hi p : c1f_inside lo hi p = inside_b lo hi p.
Proof. reflexivity. Qed.

(* the mask test of the inverse-variance path *)
Lemma gen_smask inloglam wts comb these newloglam newmask :
  ivar_of_exposure inloglam wts comb these newloglam newmask =
  let xs := map (nthQ inloglam) these in
  let lo := lminQ xs in let hi := lmaxQ xs in
  let pv := map (fun i => (nthQ inloglam i, nthQ wts i * b2q (nthB comb i))) these in
  let pm := map (fun i => (nthQ inloglam i, b2q (nthB comb i))) these in
  map (fun t => let '(p, m) := t in
         if Qle_bool lo p && Qle_bool p hi then
           (if c1f_smask_ok (interp pm p) then interp pv p else 0) * b2q m
         else 0) (combine newloglam newmask).
Proof. reflexivity. Qed.

(* bad-region test and growth offsets *)
Lemma gen_grow v :
  grow v =
  let n := length v in
  let bad := map c1f_bad (smooth3 v) in
  let ibad := filter (fun i => nthB bad i) (seq 0 n) in
  let lower := map c1f_grow_lo ibad in
  let upper := map (c1f_grow_hi n) ibad in
  set_many upper (map (fun _ => 0) upper) (set_many lower (map (fun _ => 0) lower) v).
Proof. reflexivity. Qed.
